import Model.Figure
import Model.FigureSpec
/-! Helper lemmas for C16 (hex round trip, header parsers, page loop). Core Lean only. -/
namespace Proofs.Figure
open Model.Figure

/-! ## hex -/

theorem unhexDigit_hexDigit (n : Nat) (h : n < 16) : unhexDigit (hexDigit n) = some n := by
  have : ∀ i : Fin 16, unhexDigit (hexDigit i.val) = some i.val := by decide
  exact this ⟨n, h⟩

theorem isSkip_hexDigit (n : Nat) : isSkip (hexDigit n) = false := by
  unfold hexDigit
  split <;> decide

theorem hexString_cons (b : Nat) (bs : List Nat) :
    hexString (b :: bs) = hexDigit (b / 16) :: hexDigit (b % 16) :: hexString bs := by
  simp [hexString, hexByte]

theorem unhexPairs_hexString (bs : List Nat) (h : ∀ b ∈ bs, b < 256) :
    unhexPairs (hexString bs) = some bs := by
  induction bs with
  | nil => simp [hexString, unhexPairs]
  | cons b bs ih =>
    have hb : b < 256 := h b (by simp)
    have ih' := ih (fun x hx => h x (by simp [hx]))
    rw [hexString_cons]
    simp only [unhexPairs]
    rw [unhexDigit_hexDigit _ (by omega), unhexDigit_hexDigit _ (by omega), ih']
    simp only [Option.some.injEq, List.cons.injEq, and_true]
    omega

theorem noSkip_hexString (bs : List Nat) : ∀ c ∈ hexString bs, (!isSkip c) = true := by
  induction bs with
  | nil => simp [hexString]
  | cons b bs ih =>
    rw [hexString_cons]
    intro c hc
    simp only [List.mem_cons] at hc
    rcases hc with rfl | rfl | hc
    · simp [isSkip_hexDigit]
    · simp [isSkip_hexDigit]
    · exact ih c hc

/-- the chunks are exactly the string cut into pieces: nothing lost, nothing added -/
theorem chunks_flatten (n : Nat) (hn : 0 < n) (fuel : Nat) (s : List Char) (h : s.length ≤ fuel) :
    (chunksAux n fuel s).flatten = s := by
  induction fuel generalizing s with
  | zero =>
    have : s = [] := List.eq_nil_of_length_eq_zero (by omega)
    simp [chunksAux, this]
  | succ f ih =>
    simp only [chunksAux]
    split
    · rename_i he
      simp at he
      simp [he]
    · rename_i he
      have hne : s ≠ [] := by simpa using he
      have hpos : 0 < s.length := List.length_pos_iff.mpr hne
      rw [List.flatten_cons, ih (s.drop n) (by simp; omega)]
      exact List.take_append_drop n s

theorem filter_joinNl (ls : List (List Char)) :
    (joinNl ls).filter (fun c => !isSkip c) = ls.flatten.filter (fun c => !isSkip c) := by
  induction ls with
  | nil => simp [joinNl]
  | cons l ls ih =>
    cases ls with
    | nil => simp [joinNl]
    | cons l' ls' =>
      simp only [joinNl] at ih ⊢
      have hnl : (!isSkip '\n') = false := by decide
      rw [List.filter_append, List.filter_cons, hnl]
      simp only [Bool.false_eq_true, if_false]
      rw [ih]
      simp [List.filter_append]

theorem unhex_hexLines (bs : List Nat) (h : ∀ b ∈ bs, b < 256) : unhex (hexLines bs) = some bs := by
  simp only [unhex, hexLines]
  rw [filter_joinNl, chunks_flatten lineLength (by decide) _ _ (Nat.le_refl _)]
  rw [List.filter_eq_self.mpr (noSkip_hexString bs)]
  exact unhexPairs_hexString bs h


/-! ## PNG -/

theorem beNat4 (a b c d : Nat) : beNat [a, b, c, d] = ((a * 256 + b) * 256 + c) * 256 + d := by
  simp [beNat]

theorem beNat_enc32 (v : Nat) (h : v < 4294967296) : beNat (enc32 v) = v := by
  rw [enc32, beNat4]
  omega

/-- the general form: whatever stands at offsets 16..23 of a long enough file with the signature
is returned, big-endian -/
theorem pngDims_fields (pre rest : List Nat) (a0 a1 a2 a3 b0 b1 b2 b3 : Nat)
    (hpre : pre.length = 16) (hsig : pre.take 8 = pngSig) (hrest : rest ≠ []) :
    pngDims (pre ++ [a0, a1, a2, a3, b0, b1, b2, b3] ++ rest) =
      some (((a0 * 256 + a1) * 256 + a2) * 256 + a3, ((b0 * 256 + b1) * 256 + b2) * 256 + b3) := by
  have hlen : 0 < rest.length := List.length_pos_iff.mpr hrest
  unfold pngDims
  rw [if_pos]
  · have h16 : ∀ X : List Nat, (pre ++ X).drop 16 = X := fun X => List.drop_left' hpre
    have h20 : ∀ X : List Nat, (pre ++ X).drop 20 = X.drop 4 := by
      intro X
      rw [show 20 = 16 + 4 from rfl, ← List.drop_drop, h16]
    simp only [slice, List.append_assoc, h16, h20]
    simp [beNat4]
  · refine ⟨by simp [hpre]; omega, ?_⟩
    rw [List.append_assoc, List.take_append]
    simp [hpre, hsig]

theorem pngDims_valid (bs : List Nat) (w h : Nat) (hv : ValidPng bs w h) : pngDims bs = some (w, h) := by
  obtain ⟨c, rest, hc, hrest, hw, hh, rfl⟩ := hv
  have := pngDims_fields (pngSig ++ c) rest (w / 16777216 % 256) (w / 65536 % 256) (w / 256 % 256) (w % 256)
    (h / 16777216 % 256) (h / 65536 % 256) (h / 256 % 256) (h % 256)
    (by simp [pngSig, hc]) (by simp [pngSig]) hrest
  have e : pngSig ++ c ++ enc32 w ++ enc32 h ++ rest =
      pngSig ++ c ++ [w / 16777216 % 256, w / 65536 % 256, w / 256 % 256, w % 256,
        h / 16777216 % 256, h / 65536 % 256, h / 256 % 256, h % 256] ++ rest := by
    simp [enc32]
  rw [e, this]
  congr 2 <;> omega

/-! ## JPEG -/

/-- termination: one unit of fuel per remaining byte is enough -/
theorem jpegScan_fuel (fuel : Nat) (rest : List Nat) (h : rest.length < fuel) :
    jpegScan fuel rest ≠ .outOfFuel := by
  induction fuel generalizing rest with
  | zero => omega
  | succ f ih =>
    unfold jpegScan
    split
    · rename_i h9
      split
      · split
        · exact ih _ (by simp; omega)
        · split
          · exact ih _ (by simp; omega)
          · split
            · simp
            · exact ih _ (by simp; omega)
      · exact ih _ (by simp; omega)
    · simp

/-- more fuel never changes the answer -/
theorem jpegScan_succ (fuel : Nat) (rest : List Nat) (h : rest.length < fuel) :
    jpegScan (fuel + 1) rest = jpegScan fuel rest := by
  induction fuel generalizing rest with
  | zero => omega
  | succ f ih =>
    conv => lhs; unfold jpegScan
    conv => rhs; unfold jpegScan
    split
    · split
      · split
        · exact ih _ (by simp; omega)
        · split
          · exact ih _ (by simp; omega)
          · split
            · rfl
            · exact ih _ (by simp; omega)
      · exact ih _ (by simp; omega)
    · rfl

/-- the scanner with just enough fuel — every larger amount gives the same answer -/
def scanOf (rest : List Nat) : Scan := jpegScan (rest.length + 1) rest

theorem jpegScan_eq_scanOf (fuel : Nat) (rest : List Nat) (h : rest.length < fuel) :
    jpegScan fuel rest = scanOf rest := by
  obtain ⟨k, rfl⟩ : ∃ k, fuel = rest.length + 1 + k := ⟨fuel - (rest.length + 1), by omega⟩
  induction k with
  | zero => rfl
  | succ k ih =>
    rw [show rest.length + 1 + (k + 1) = (rest.length + 1 + k) + 1 from rfl,
      jpegScan_succ _ _ (by omega)]
    exact ih (by omega)

/-- one iteration of the loop, fuel-free -/
theorem scanOf_step (rest : List Nat) :
    scanOf rest =
      if 9 < rest.length then
        if rest.getD 0 0 = 0xFF then
          if rest.getD 1 0 = 0xFF then scanOf (rest.drop 1)
          else if isStandalone (rest.getD 1 0) then scanOf (rest.drop 2)
          else if isSof (rest.getD 1 0) then
            .found (rest.getD 7 0 * 256 + rest.getD 8 0) (rest.getD 5 0 * 256 + rest.getD 6 0)
          else scanOf (rest.drop (2 + (rest.getD 2 0 * 256 + rest.getD 3 0)))
        else scanOf (rest.drop 1)
      else .notFound := by
  conv => lhs; unfold scanOf jpegScan
  split
  · rename_i h9
    have e : ∀ k, 0 < k → jpegScan rest.length (rest.drop k) = scanOf (rest.drop k) :=
      fun k hk => jpegScan_eq_scanOf _ _ (by simp; omega)
    rw [e 1 (by omega), e 2 (by omega), e _ (by omega)]
  · rfl

theorem scanOf_short (rest : List Nat) (h : rest.length ≤ 9) : scanOf rest = .notFound := by
  rw [scanOf_step, if_neg (by omega)]

/-- fill bytes before a marker are stepped over one by one -/
theorem scanOf_pad (k : Nat) (R : List Nat) :
    scanOf (List.replicate k 0xFF ++ 0xFF :: R) = scanOf (0xFF :: R) := by
  induction k with
  | zero => simp
  | succ k ih =>
    by_cases h9 : 9 < (List.replicate (k + 1) 0xFF ++ 0xFF :: R).length
    · rw [scanOf_step, if_pos h9]
      have h1 : (List.replicate (k + 1) 0xFF ++ 0xFF :: R).getD 0 0 = 0xFF := by
        simp [List.replicate_succ]
      have h2 : (List.replicate (k + 1) 0xFF ++ 0xFF :: R).getD 1 0 = 0xFF := by
        cases k <;> simp [List.replicate_succ]
      rw [if_pos h1, if_pos h2]
      simpa [List.replicate_succ] using ih
    · rw [scanOf_short _ (by omega), scanOf_short _ (by simp at h9 ⊢; omega)]

theorem sof_not_special (m : Nat) (h : isSof m = true) : m ≠ 0xFF ∧ isStandalone m = false := by
  simp only [isSof, sofMarkers, List.contains_cons, List.contains_nil, Bool.or_false, Bool.or_eq_true,
    beq_iff_eq] at h
  rcases h with h | h | h | h | h | h | h | h | h | h | h | h | h <;> subst h <;> decide

theorem bytes_length_pos (it : JpegItem) : 0 < it.bytes.length := by
  cases it <;> simp [JpegItem.bytes] <;> omega

theorem scanOf_seg (pad m l1 l2 : Nat) (p R : List Nat)
    (hit : (JpegItem.seg pad m l1 l2 p).WellFormed)
    (h9 : 9 < (0xFF :: m :: l1 :: l2 :: (p ++ R)).length) :
    scanOf ((JpegItem.seg pad m l1 l2 p).bytes ++ R) = scanOf R := by
  obtain ⟨hff, hst, hm, hl⟩ := hit
  simp only [JpegItem.bytes, List.append_assoc, List.cons_append]
  rw [scanOf_pad, scanOf_step, if_pos h9]
  simp only [List.getD_cons_zero, List.getD_cons_succ, if_true, hm, hst, Bool.false_eq_true, if_false,
    if_neg hff]
  rw [← hl]
  have : 2 + (p.length + 2) = p.length + 4 := by omega
  rw [this]
  simp

theorem scanOf_standalone (pad m : Nat) (R : List Nat)
    (hit : (JpegItem.standalone pad m).WellFormed) (h9 : 9 < (0xFF :: m :: R).length) :
    scanOf ((JpegItem.standalone pad m).bytes ++ R) = scanOf R := by
  simp only [JpegItem.WellFormed] at hit
  have hff : m ≠ 0xFF := by
    intro h; subst h; revert hit; decide
  simp only [JpegItem.bytes, List.append_assoc, List.cons_append, List.nil_append]
  rw [scanOf_pad, scanOf_step, if_pos h9]
  simp [hit, hff]

theorem scanOf_junk (b : Nat) (R : List Nat) (hit : (JpegItem.junk b).WellFormed)
    (h9 : 9 < (b :: R).length) : scanOf ((JpegItem.junk b).bytes ++ R) = scanOf R := by
  simp only [JpegItem.WellFormed] at hit
  simp only [JpegItem.bytes, List.cons_append, List.nil_append]
  rw [scanOf_step, if_pos h9]
  simp [hit]

/-- with at least 10 bytes after it, a well-formed item is skipped as a whole -/
theorem scanOf_item_long (it : JpegItem) (hit : it.WellFormed) (R : List Nat) (hR : 9 < R.length) :
    scanOf (it.bytes ++ R) = scanOf R := by
  cases it with
  | seg pad m l1 l2 p => exact scanOf_seg pad m l1 l2 p R hit (by simp; omega)
  | standalone pad m => exact scanOf_standalone pad m R hit (by simp; omega)
  | junk b => exact scanOf_junk b R hit (by simp; omega)

/-- in general it is skipped as a whole, or the scan ends inside it because fewer than 10 bytes
are left -/
theorem scanOf_item (it : JpegItem) (hit : it.WellFormed) (R : List Nat) :
    scanOf (it.bytes ++ R) = scanOf R ∨ scanOf (it.bytes ++ R) = .notFound := by
  cases it with
  | seg pad m l1 l2 p =>
    by_cases h9 : 9 < (0xFF :: m :: l1 :: l2 :: (p ++ R)).length
    · exact Or.inl (scanOf_seg pad m l1 l2 p R hit h9)
    · right
      simp only [JpegItem.bytes, List.append_assoc, List.cons_append]
      rw [scanOf_pad]
      exact scanOf_short _ (by omega)
  | standalone pad m =>
    by_cases h9 : 9 < (0xFF :: m :: R).length
    · exact Or.inl (scanOf_standalone pad m R hit h9)
    · right
      simp only [JpegItem.bytes, List.append_assoc, List.cons_append, List.nil_append]
      rw [scanOf_pad]
      exact scanOf_short _ (by omega)
  | junk b =>
    by_cases h9 : 9 < (b :: R).length
    · exact Or.inl (scanOf_junk b R hit h9)
    · right
      exact scanOf_short _ (by simpa [JpegItem.bytes] using Nat.le_of_not_lt h9)

/-- after any list of well-formed items (and fill bytes) the scanner stands at the frame header
and returns its fields -/
theorem scanOf_items (items : List JpegItem) (hok : ∀ it ∈ items, it.WellFormed)
    (pad m l1 l2 p h1 h2 w1 w2 : Nat) (rest : List Nat) (hm : isSof m = true) (hrest : rest ≠ []) :
    scanOf (items.flatMap JpegItem.bytes ++ List.replicate pad 0xFF ++
        [0xFF, m, l1, l2, p, h1, h2, w1, w2] ++ rest) = .found (w1 * 256 + w2) (h1 * 256 + h2) := by
  have hlen : 0 < rest.length := List.length_pos_iff.mpr hrest
  induction items with
  | nil =>
    simp only [List.flatMap_nil, List.nil_append, List.append_assoc, List.cons_append]
    rw [scanOf_pad, scanOf_step, if_pos (by simp; omega)]
    obtain ⟨hff, hst⟩ := sof_not_special m hm
    simp [hm, hff, hst]
  | cons it items ih =>
    simp only [List.flatMap_cons, List.append_assoc]
    rw [scanOf_item_long it (hok it (by simp)) _ (by simp; omega)]
    have := ih (fun x hx => hok x (by simp [hx]))
    simpa [List.append_assoc] using this

/-- without a frame header within reach (fewer than 10 bytes left after the items) nothing is
found -/
theorem scanOf_items_none (items : List JpegItem) (hok : ∀ it ∈ items, it.WellFormed)
    (tail : List Nat) (htail : tail.length ≤ 9) :
    scanOf (items.flatMap JpegItem.bytes ++ tail) = .notFound := by
  induction items with
  | nil => simpa using scanOf_short tail htail
  | cons it items ih =>
    simp only [List.flatMap_cons, List.append_assoc]
    rcases scanOf_item it (hok it (by simp)) (items.flatMap JpegItem.bytes ++ tail) with h | h
    · rw [h]; exact ih (fun x hx => hok x (by simp [hx]))
    · exact h

theorem jpegDims_valid (bs : List Nat) (w h : Nat) (hv : ValidJpeg bs w h) : jpegDims bs = some (w, h) := by
  obtain ⟨items, pad, m, l1, l2, p, rest, hok, hm, hrest, rfl⟩ := hv
  have hlen : 0 < rest.length := List.length_pos_iff.mpr hrest
  unfold jpegDims
  rw [if_neg]
  · have e : ([0xFF, 0xD8] ++ items.flatMap JpegItem.bytes ++ List.replicate pad 0xFF ++
        [0xFF, m, l1, l2, p, h / 256, h % 256, w / 256, w % 256] ++ rest).drop 2 =
        items.flatMap JpegItem.bytes ++ List.replicate pad 0xFF ++
          [0xFF, m, l1, l2, p, h / 256, h % 256, w / 256, w % 256] ++ rest := by
      simp
    rw [e, jpegScan_eq_scanOf _ _ (by simp; omega),
      scanOf_items items hok pad m l1 l2 p _ _ _ _ rest hm hrest]
    simp only [Option.some.injEq, Prod.mk.injEq]
    omega
  · simp
    omega

theorem jpegDims_none (items : List JpegItem) (hok : ∀ it ∈ items, it.WellFormed) (tail : List Nat)
    (htail : tail.length ≤ 9) :
    jpegDims ([0xFF, 0xD8] ++ items.flatMap JpegItem.bytes ++ tail) = none := by
  unfold jpegDims
  split
  · rfl
  · have e : ([0xFF, 0xD8] ++ items.flatMap JpegItem.bytes ++ tail).drop 2 =
        items.flatMap JpegItem.bytes ++ tail := by simp
    rw [e, jpegScan_eq_scanOf _ _ (by simp; omega), scanOf_items_none items hok tail htail]

/-! ### no window: what stands in front of / behind the dimension-bearing structure is irrelevant -/

/-- any list of well-formed items — segments of any length, as many as one likes — is skipped as a
whole when at least 10 bytes follow -/
theorem scanOf_items_skip (items : List JpegItem) (hok : ∀ it ∈ items, it.WellFormed)
    (R : List Nat) (hR : 9 < R.length) :
    scanOf (items.flatMap JpegItem.bytes ++ R) = scanOf R := by
  induction items with
  | nil => simp
  | cons it items ih =>
    simp only [List.flatMap_cons, List.append_assoc]
    rw [scanOf_item_long it (hok it (by simp)) _ (by simp; omega)]
    exact ih (fun x hx => hok x (by simp [hx]))

/-- `_get_jpeg_dimensions` on SOI followed by `X` (at least 8 bytes) is the scan of `X` -/
theorem jpegDims_soi (X : List Nat) (h : 8 ≤ X.length) :
    jpegDims ([0xFF, 0xD8] ++ X) = match scanOf X with
      | .found w h => some (w, h)
      | _ => none := by
  unfold jpegDims
  rw [if_neg (by simp; omega)]
  have e : ([0xFF, 0xD8] ++ X).drop 2 = X := by simp
  rw [e, jpegScan_eq_scanOf _ _ (by simp; omega)]
  cases scanOf X <;> rfl

theorem jpegDims_prefix_irrelevant (items : List JpegItem) (hok : ∀ it ∈ items, it.WellFormed)
    (R : List Nat) :
    jpegDims ([0xFF, 0xD8] ++ items.flatMap JpegItem.bytes ++ R) = jpegDims ([0xFF, 0xD8] ++ R) := by
  by_cases hR : 9 < R.length
  · rw [List.append_assoc, jpegDims_soi _ (by simp; omega), jpegDims_soi _ (by omega),
      scanOf_items_skip items hok R hR]
  · rw [jpegDims_none items hok R (by omega)]
    symm
    by_cases h8 : 8 ≤ R.length
    · rw [jpegDims_soi _ h8, scanOf_short _ (by omega)]
    · unfold jpegDims
      rw [if_pos]
      left
      simp
      omega

/-- a frame header the scanner has found stays found, with the same fields, whatever is appended
to the data (image data of any size behind the header) -/
theorem scanOf_append_aux (n : Nat) : ∀ (rest tail : List Nat) (w h : Nat), rest.length ≤ n →
    scanOf rest = .found w h → scanOf (rest ++ tail) = .found w h := by
  induction n with
  | zero =>
    intro rest tail w h hl hf
    rw [scanOf_short rest (by omega)] at hf
    cases hf
  | succ n ih =>
    intro rest tail w h hl hf
    by_cases h9 : 9 < rest.length
    · have h9' : 9 < (rest ++ tail).length := by simp; omega
      have g : ∀ k, k < 10 → (rest ++ tail).getD k 0 = rest.getD k 0 := by
        intro k hk
        simp only [List.getD_eq_getElem?_getD]
        rw [List.getElem?_append_left (by omega)]
      have step : ∀ k, 0 < k → scanOf (rest.drop k) = .found w h →
          scanOf ((rest ++ tail).drop k) = .found w h := by
        intro k hk hfk
        by_cases hkl : k ≤ rest.length
        · rw [List.drop_append_of_le_length hkl]
          exact ih _ _ _ _ (by simp; omega) hfk
        · rw [scanOf_short _ (by simp; omega)] at hfk
          cases hfk
      rw [scanOf_step, if_pos h9] at hf
      rw [scanOf_step, if_pos h9', g 0 (by omega), g 1 (by omega), g 2 (by omega), g 3 (by omega),
        g 5 (by omega), g 6 (by omega), g 7 (by omega), g 8 (by omega)]
      by_cases c0 : rest.getD 0 0 = 0xFF
      · rw [if_pos c0] at hf ⊢
        by_cases c1 : rest.getD 1 0 = 0xFF
        · rw [if_pos c1] at hf ⊢
          exact step 1 (by omega) hf
        · rw [if_neg c1] at hf ⊢
          by_cases c2 : isStandalone (rest.getD 1 0) = true
          · rw [if_pos c2] at hf ⊢
            exact step 2 (by omega) hf
          · rw [if_neg c2] at hf ⊢
            by_cases c3 : isSof (rest.getD 1 0) = true
            · rw [if_pos c3] at hf ⊢
              exact hf
            · rw [if_neg c3] at hf ⊢
              exact step _ (by omega) hf
      · rw [if_neg c0] at hf ⊢
        exact step 1 (by omega) hf
    · rw [scanOf_short rest (by omega)] at hf
      cases hf

theorem jpegDims_append (bs tail : List Nat) (d : Nat × Nat) (hd : jpegDims bs = some d) :
    jpegDims (bs ++ tail) = some d := by
  unfold jpegDims at hd
  split at hd
  · cases hd
  · rename_i hc
    have hlen : 10 ≤ bs.length := by omega
    have h2 : bs.take 2 = [0xFF, 0xD8] := by
      by_cases h : bs.take 2 = [0xFF, 0xD8]
      · exact h
      · exact absurd (Or.inr h) hc
    rw [jpegScan_eq_scanOf _ _ (by simp; omega)] at hd
    unfold jpegDims
    rw [if_neg (by
      intro h
      rcases h with h | h
      · simp at h; omega
      · rw [List.take_append_of_le_length (by omega)] at h; exact h h2)]
    rw [List.drop_append_of_le_length (by omega), jpegScan_eq_scanOf _ _ (by simp; omega)]
    split at hd
    · rename_i w h hs
      rw [scanOf_append_aux _ _ tail w h (Nat.le_refl _) hs]
      exact hd
    · cases hd

/-- the PNG parser looks at the first 24 bytes only: chunks and image data of any size behind
IHDR change nothing -/
theorem pngDims_append (bs tail : List Nat) (h : 24 < bs.length) :
    pngDims (bs ++ tail) = pngDims bs := by
  have ht : (bs ++ tail).take 8 = bs.take 8 := List.take_append_of_le_length (by omega)
  have hs : ∀ a b, b ≤ bs.length → slice (bs ++ tail) a b = slice bs a b := by
    intro a b hb
    unfold slice
    by_cases hab : a ≤ bs.length
    · rw [List.drop_append_of_le_length hab, List.take_append_of_le_length (by simp; omega)]
    · have : b - a = 0 := by omega
      simp [this]
  unfold pngDims
  rw [ht, hs 16 20 (by omega), hs 20 24 (by omega)]
  have : (24 < (bs ++ tail).length) = True := by simp; omega
  simp only [this, true_and, h]

/-! ## sizes -/

theorem truncMul_floor (s : Size) (k : Nat) (hd : 0 < s.den) :
    truncMul s k * s.den ≤ s.num * k ∧ s.num * k < (truncMul s k + 1) * s.den := by
  refine ⟨Nat.div_mul_le_self _ _, ?_⟩
  have := Nat.lt_mul_div_succ (s.num * k) hd
  rwa [Nat.mul_comm s.den] at this

theorem goalOk_eq (s : Size) (k g : Nat) :
    goalOk s k g = true ↔ (g * s.den ≤ s.num * k ∧ s.num * k < (g + 1) * s.den) := by
  unfold goalOk
  rw [Bool.and_eq_true, decide_eq_true_iff, decide_eq_true_iff]

theorem goalOk_truncMul (s : Size) (k : Nat) (hd : 0 < s.den) : goalOk s k (truncMul s k) = true :=
  (goalOk_eq s k _).mpr (truncMul_floor s k hd)

/-- `goalOk` pins the value down: it is the floor and nothing else -/
theorem goalOk_iff (s : Size) (k g : Nat) (hd : 0 < s.den) : goalOk s k g = true ↔ g = truncMul s k := by
  rw [goalOk_eq]
  constructor
  · intro ⟨h1, h2⟩
    symm
    unfold truncMul
    rw [Nat.div_eq_iff hd]
    refine ⟨h1, ?_⟩
    have : (g + 1) * s.den = g * s.den + s.den := by rw [Nat.add_mul]; simp
    omega
  · intro h
    subst h
    exact truncMul_floor s k hd

theorem goalOkTol_truncMul (s : Size) (k : Nat) (hd : 0 < s.den) : goalOkTol s k (truncMul s k) = true := by
  simp [goalOkTol, goalOk_truncMul s k hd]

/-! ## `_get_dimension` -/

theorem getDim_lt {α} (l : List α) (i : Nat) (h : i < l.length) : getDim l i = some l[i] := by
  simp [getDim, h]

theorem getDim_ge {α} (l : List α) (i : Nat) (h : l.length ≤ i) (hne : l ≠ []) :
    getDim l i = some (l.getLast hne) := by
  simp only [getDim]
  rw [if_neg (by omega)]
  exact List.getLast?_eq_some_getLast hne

theorem getDim_nil {α} (i : Nat) : getDim ([] : List α) i = none := by
  simp [getDim]

theorem getDim_mem {α} (l : List α) (i : Nat) (x : α) (h : getDim l i = some x) : x ∈ l := by
  simp only [getDim] at h
  split at h
  · exact List.mem_of_getElem? h
  · exact List.mem_of_getLast? h

/-! ## page loop -/

def noBreak (ps : List Piece) : Prop := ∀ x ∈ ps, x ≠ Piece.pageBreak

theorem splitPages_ne_nil (ps : List Piece) : splitPages ps ≠ [] := by
  induction ps with
  | nil => simp [splitPages]
  | cons x t ih =>
    cases x <;> simp only [splitPages] <;> (try simp) <;>
      (split <;> simp)

theorem splitPages_noBreak (body : List Piece) (h : noBreak body) : splitPages body = [body] := by
  induction body with
  | nil => simp [splitPages]
  | cons x t ih =>
    have ht : noBreak t := fun y hy => h y (by simp [hy])
    have hx : x ≠ Piece.pageBreak := h x (by simp)
    cases x <;> simp only [splitPages, ih ht] <;> first | rfl | exact absurd rfl hx

theorem splitPages_break (body rest : List Piece) (h : noBreak body) :
    splitPages (body ++ Piece.pageBreak :: rest) = body :: splitPages rest := by
  induction body with
  | nil => simp [splitPages]
  | cons x t ih =>
    have ht : noBreak t := fun y hy => h y (by simp [hy])
    have hx : x ≠ Piece.pageBreak := h x (by simp)
    cases x <;> simp only [List.cons_append, splitPages, ih ht] <;> first | rfl | exact absurd rfl hx

theorem noBreak_pageBody (cfg : Cfg) (n i : Nat) (p : Pict) : noBreak (pageBody cfg n i p) := by
  intro x hx
  simp only [pageBody, List.mem_append] at hx
  rcases hx with (((hx | hx) | hx) | hx) | hx
  · split at hx <;> simp at hx; subst hx; simp
  · split at hx <;> simp at hx; subst hx; simp
  · simp at hx; rcases hx with rfl | rfl <;> simp
  · split at hx <;> simp at hx; subst hx; simp
  · split at hx <;> simp at hx; subst hx; simp

/-- the page bodies the loop emits, in order -/
def bodiesFrom (cfg : Cfg) (n : Nat) : Nat → List Pict → List (List Piece)
  | _, [] => []
  | i, p :: ps => pageBody cfg n i p :: bodiesFrom cfg n (i + 1) ps

theorem bodiesFrom_length (cfg : Cfg) (n i : Nat) (ps : List Pict) :
    (bodiesFrom cfg n i ps).length = ps.length := by
  induction ps generalizing i with
  | nil => simp [bodiesFrom]
  | cons p ps ih => simp [bodiesFrom, ih]

theorem bodiesFrom_getElem? (cfg : Cfg) (n i j : Nat) (ps : List Pict) :
    (bodiesFrom cfg n i ps)[j]? = ps[j]?.map (pageBody cfg n (i + j)) := by
  induction ps generalizing i j with
  | nil => simp [bodiesFrom]
  | cons p ps ih =>
    cases j with
    | zero => simp [bodiesFrom]
    | succ j =>
      simp only [bodiesFrom, List.getElem?_cons_succ, ih]
      congr 2
      omega

theorem splitPages_loopFrom (cfg : Cfg) (n : Nat) (ps : List Pict) (i : Nat) (hne : ps ≠ [])
    (hn : i + ps.length = n) :
    splitPages (loopFrom cfg n i ps) = bodiesFrom cfg n i ps := by
  induction ps generalizing i with
  | nil => exact absurd rfl hne
  | cons p ps ih =>
    cases ps with
    | nil =>
      simp only [List.length_cons, List.length_nil] at hn
      have : (i + 1 == n) = true := by simp; omega
      simp only [loopFrom, pageParts, this, if_true, List.append_nil, bodiesFrom]
      exact splitPages_noBreak _ (noBreak_pageBody cfg n i p)
    | cons q qs =>
      simp only [List.length_cons] at hn
      have : (i + 1 == n) = false := by simp; omega
      rw [loopFrom, pageParts, this]
      simp only [Bool.false_eq_true, if_false, List.append_assoc, List.cons_append, List.nil_append]
      rw [splitPages_break _ _ (noBreak_pageBody cfg n i p), ih (i + 1) (by simp) (by simp; omega)]
      rfl

theorem count_break_loopFrom (cfg : Cfg) (n : Nat) (ps : List Pict) (i : Nat) (hne : ps ≠ [])
    (hn : i + ps.length = n) :
    (loopFrom cfg n i ps).count Piece.pageBreak + 1 = ps.length := by
  have hbody : ∀ j p, (pageBody cfg n j p).count Piece.pageBreak = 0 := by
    intro j p
    exact List.count_eq_zero.mpr (fun hmem => noBreak_pageBody cfg n j p _ hmem rfl)
  induction ps generalizing i with
  | nil => exact absurd rfl hne
  | cons p ps ih =>
    cases ps with
    | nil =>
      simp only [List.length_cons, List.length_nil] at hn
      have : (i + 1 == n) = true := by simp; omega
      simp [loopFrom, pageParts, this, hbody]
    | cons q qs =>
      simp only [List.length_cons] at hn
      have : (i + 1 == n) = false := by simp; omega
      have ih' := ih (i + 1) (by simp) (by simp; omega)
      rw [loopFrom, pageParts, this]
      simp only [Bool.false_eq_true, if_false, List.count_append, hbody]
      simp only [List.length_cons] at ih' ⊢
      simp
      omega

/-! ## the document oracle on the model's own output -/

theorem picts_pageBody (cfg : Cfg) (n i : Nat) (p : Pict) :
    (obsPage (pageBody cfg n i p)).picts = [obsOfPict p] := by
  simp only [obsPage, pageBody]
  generalize (cfg.hasTitle && shows cfg.pageTitle (i == 0) (i + 1 == n)) = T
  generalize (cfg.hasSubline && shows cfg.pageTitle (i == 0) (i + 1 == n)) = S
  generalize (cfg.hasFootnote && shows cfg.pageFootnote (i == 0) (i + 1 == n)) = F
  generalize (cfg.hasSource && shows cfg.pageSource (i == 0) (i + 1 == n)) = R
  cases T <;> cases S <;> cases F <;> cases R <;> rfl

theorem tags_pageBody (cfg : Cfg) (n i : Nat) (p : Pict) :
    (obsPage (pageBody cfg n i p)).tags =
      (if cfg.hasTitle && shows cfg.pageTitle (i == 0) (i + 1 == n) then [Tag.title] else []) ++
      (if cfg.hasSubline && shows cfg.pageTitle (i == 0) (i + 1 == n) then [Tag.subline] else []) ++ [Tag.pict] ++
      (if cfg.hasFootnote && shows cfg.pageFootnote (i == 0) (i + 1 == n) then [Tag.footnote] else []) ++
      (if cfg.hasSource && shows cfg.pageSource (i == 0) (i + 1 == n) then [Tag.source] else []) := by
  simp only [obsPage, pageBody]
  generalize (cfg.hasTitle && shows cfg.pageTitle (i == 0) (i + 1 == n)) = T
  generalize (cfg.hasSubline && shows cfg.pageTitle (i == 0) (i + 1 == n)) = S
  generalize (cfg.hasFootnote && shows cfg.pageFootnote (i == 0) (i + 1 == n)) = F
  generalize (cfg.hasSource && shows cfg.pageSource (i == 0) (i + 1 == n)) = R
  cases T <;> cases S <;> cases F <;> cases R <;> rfl

theorem counts_pageBody (cfg : Cfg) (n i : Nat) (p : Pict) :
    countTag .pict (obsPage (pageBody cfg n i p)) = 1 ∧
    countTag .title (obsPage (pageBody cfg n i p)) = expectCount cfg.hasTitle cfg.pageTitle n i ∧
    countTag .footnote (obsPage (pageBody cfg n i p)) = expectCount cfg.hasFootnote cfg.pageFootnote n i ∧
    countTag .source (obsPage (pageBody cfg n i p)) = expectCount cfg.hasSource cfg.pageSource n i := by
  simp only [countTag, tags_pageBody, expectCount]
  generalize (cfg.hasTitle && shows cfg.pageTitle (i == 0) (i + 1 == n)) = T
  generalize (cfg.hasSubline && shows cfg.pageTitle (i == 0) (i + 1 == n)) = S
  generalize (cfg.hasFootnote && shows cfg.pageFootnote (i == 0) (i + 1 == n)) = F
  generalize (cfg.hasSource && shows cfg.pageSource (i == 0) (i + 1 == n)) = R
  cases T <;> cases S <;> cases F <;> cases R <;> decide

theorem wantBlip_of_fmt (sfx : List Char) (f : Fmt) (h : fmtOfSuffix sfx = some f) :
    wantBlip sfx = some (blipWord f) := by
  simp only [fmtOfSuffix] at h
  simp only [wantBlip]
  split at h
  · rename_i h1; cases h; simp [h1, blipWord]
  · split at h
    · rename_i h1 h2; cases h; simp [h2, blipWord]
    · split at h
      · rename_i h1 h2 h3; cases h; simp [h3, blipWord]
      · split at h
        · rename_i h1 h2 h3 h4; cases h; simp [h4, blipWord]
        · cases h

theorem imageDims_of_header (sfx : List Char) (f : Fmt) (bs : List Nat) (t : Nat × Nat)
    (hf : fmtOfSuffix sfx = some f) (hs : HeaderStates sfx bs t) : imageDims f bs = some t := by
  rcases hs with ⟨hp, hv⟩ | ⟨hj, hv⟩
  · rw [hf] at hp; cases hp
    exact pngDims_valid bs t.1 t.2 hv
  · rw [hf] at hj; cases hj
    exact jpegDims_valid bs t.1 t.2 hv

theorem pageOk_model (cfg : Cfg) (n i : Nat) (sfx : List Char) (f : Fmt) (bs : List Nat)
    (tr : Option (Nat × Nat)) (w h : Size)
    (hf : fmtOfSuffix sfx = some f) (hb : ∀ b ∈ bs, b < 256) (hw : 0 < w.den) (hh : 0 < h.den)
    (ht : ∀ t, tr = some t → HeaderStates sfx bs t) :
    pageOk cfg n i { suffix := sfx, bytes := bs, truth := tr, w := w, h := h }
      (obsPage (pageBody cfg n i (encodeFigure f bs w h))) = true := by
  obtain ⟨c1, c2, c3, c4⟩ := counts_pageBody cfg n i (encodeFigure f bs w h)
  have hpay : payloadOk { suffix := sfx, bytes := bs, truth := tr, w := w, h := h }
      (obsOfPict (encodeFigure f bs w h)) = true := by
    simp [payloadOk, obsOfPict, encodeFigure, unhex_hexLines bs hb]
  have hblip : blipOk { suffix := sfx, bytes := bs, truth := tr, w := w, h := h }
      (obsOfPict (encodeFigure f bs w h)) = true := by
    simp [blipOk, obsOfPict, encodeFigure, wantBlip_of_fmt sfx f hf]
  have hpix : pixelsOk { suffix := sfx, bytes := bs, truth := tr, w := w, h := h }
      (obsOfPict (encodeFigure f bs w h)) = true := by
    cases tr with
    | none => simp [pixelsOk]
    | some t =>
      have := imageDims_of_header sfx f bs t hf (ht t rfl)
      obtain ⟨tw, th⟩ := t
      simp [pixelsOk, obsOfPict, encodeFigure, this]
  have hgoal : goalsOk { suffix := sfx, bytes := bs, truth := tr, w := w, h := h }
      (obsOfPict (encodeFigure f bs w h)) = true := by
    simp [goalsOk, obsOfPict, encodeFigure, goalOkTol_truncMul w 1440 hw, goalOkTol_truncMul h 1440 hh]
  simp only [pageOk, pageClauses, picts_pageBody, pictClauses, c1, c2, c3, c4, hpay, hblip, hpix, hgoal]
  simp

theorem pagesOk_model (cfg : Cfg) (n : Nat) (ws hs : List Size)
    (figsT : List (FigSrc × Option (Nat × Nat))) (i : Nat) (fs : List (Fmt × List Nat)) (ps : List Pict)
    (hfmt : readFormats (figsT.map (·.1)) = some fs) (henc : encodePicts ws hs i fs = some ps)
    (hbytes : ∀ ft ∈ figsT, ∀ b ∈ ft.1.bytes, b < 256)
    (hw : ∀ s ∈ ws, 0 < s.den) (hh : ∀ s ∈ hs, 0 < s.den)
    (htruth : ∀ ft ∈ figsT, ∀ t, ft.2 = some t → HeaderStates ft.1.suffix ft.1.bytes t) :
    (wantsFrom ws hs i figsT).length = ps.length ∧
    pagesOkFrom cfg n i (wantsFrom ws hs i figsT) ((bodiesFrom cfg n i ps).map obsPage) = true := by
  induction figsT generalizing i fs ps with
  | nil =>
    simp only [List.map_nil, readFormats, Option.some.injEq] at hfmt
    subst hfmt
    simp only [encodePicts, Option.some.injEq] at henc
    subst henc
    simp [wantsFrom, bodiesFrom, pagesOkFrom]
  | cons ft rest ih =>
    obtain ⟨f, tr⟩ := ft
    simp only [List.map_cons, readFormats] at hfmt
    split at hfmt
    · rename_i fm r hfm hr
      simp only [Option.some.injEq] at hfmt
      subst hfmt
      simp only [encodePicts] at henc
      split at henc
      · rename_i w h ps' hgw hgh hps
        simp only [Option.some.injEq] at henc
        subst henc
        have ih' := ih (i + 1) r ps' hr hps (fun ft hft => hbytes ft (by simp [hft]))
          (fun ft hft => htruth ft (by simp [hft]))
        have hpage := pageOk_model cfg n i f.suffix fm f.bytes tr w h hfm
          (hbytes (f, tr) (by simp)) (hw w (getDim_mem ws i w hgw)) (hh h (getDim_mem hs i h hgh))
          (htruth (f, tr) (by simp))
        simp only [wantsFrom, hgw, hgh, bodiesFrom, List.map_cons, pagesOkFrom, List.length_cons,
          hpage, ih'.1, ih'.2, Bool.and_self, and_self]
      · cases henc
    · cases hfmt

end Proofs.Figure
