import Model.ValidateHist
import Proofs.Validate
/-! Helper lemmas for `Props/C19hist.lean` (histories of constructor calls over a changing file system). -/
namespace Proofs.ValidateHist
open Model.Validate Model.ValidateSpec Model.ValidateHist Proofs.Validate

/-! ## the path loop -/

theorem checkPaths_ok_iff (l : List PathSt) : checkPaths l = .ok () ↔ ∀ s ∈ l, s = .image := by
  induction l with
  | nil => simp [checkPaths]
  | cons s r ih => cases s <;> simp [checkPaths, ih]

theorem checkPaths_cases (l : List PathSt) :
    checkPaths l = .ok () ∨ checkPaths l = .error .fileNotFound ∨ checkPaths l = .error .validationError := by
  induction l with
  | nil => simp [checkPaths]
  | cons s r ih => cases s <;> simp [checkPaths, ih]

/-- without an unsupported file the loop is the existence test of `Model.Validate.figMissing` -/
theorem checkPaths_no_other (l : List PathSt) (h : ∀ s ∈ l, s ≠ .other) :
    checkPaths l = if l.all (· != .missing) then .ok () else .error .fileNotFound := by
  induction l with
  | nil => simp [checkPaths]
  | cons s r ih =>
    have hr : ∀ s ∈ r, s ≠ .other := fun s hs => h s (List.mem_cons_of_mem _ hs)
    cases s with
    | missing => simp [checkPaths]
    | other => exact absurd rfl (h .other (List.mem_cons_self))
    | image => simp [checkPaths, ih hr]

theorem checkPaths_missing_ne_ok (l : List PathSt) (h : .missing ∈ l) : checkPaths l ≠ .ok () := by
  intro hok
  have := (checkPaths_ok_iff l).mp hok _ h
  cases this

/-! ## one call -/

theorem toArgs_figMissing (fs : Fs) (c : FigCall) : figMissing (c.toArgs fs) = anyMissing fs c := by
  unfold figMissing anyMissing FigCall.toArgs
  cases c.paths with
  | none => rfl
  | some ps =>
    simp only [Option.map_some]
    induction ps with
    | nil => rfl
    | cons p r ih =>
      simp only [List.map_cons, List.all_cons, List.any_cons, id, Bool.not_and, ih]
      cases fs.status p <;> rfl

theorem anyMissing_mem (fs : Fs) (c : FigCall) (ps : List PathRef) (hp : c.paths = some ps)
    (p : PathRef) (hmem : p ∈ ps) (hs : fs.status p = .missing) : anyMissing fs c = true := by
  simp only [anyMissing, hp]
  exact List.any_eq_true.mpr ⟨p, hmem, by simp [hs]⟩

theorem constructFigureAt_missing_ne_ok (fs : Fs) (c : FigCall) (h : anyMissing fs c = true) :
    constructFigureAt fs c ≠ .ok () := by
  unfold constructFigureAt
  by_cases hf : figFieldsOk (c.toArgs fs) = true
  · simp only [hf, Bool.not_true, Bool.false_eq_true, if_false]
    unfold anyMissing at h
    cases hp : c.paths with
    | none => simp [hp] at h
    | some ps =>
      simp only [hp] at h ⊢
      obtain ⟨p, hmem, hs⟩ := List.any_eq_true.mp h
      apply checkPaths_missing_ne_ok
      have : fs.status p = .missing := by simpa using hs
      exact this ▸ List.mem_map_of_mem hmem
  · simp [hf]

/-! ## the state after an event -/

theorem has_after_delete (fs : Fs) (d : Nat) (n : String) : (step fs (.delete d n)).has d n = false := by
  simp [step, Fs.has]

theorem has_after_rename_source (fs : Fs) (d : Nat) (n : String) (d' : Nat) (n' : String)
    (hne : (d, n) ≠ (d', n')) (hex : fs.has d n = true) : (step fs (.rename d n d' n')).has d n = false := by
  have hne' : ¬(d = d' ∧ n = n') := fun h => hne (by rw [h.1, h.2])
  simp only [step, hex, if_true]
  simp [Fs.has, hne']

theorem has_after_rename_target (fs : Fs) (d : Nat) (n : String) (d' : Nat) (n' : String)
    (hex : fs.has d n = true) : (step fs (.rename d n d' n')).has d' n' = true := by
  simp only [step, hex, if_true]
  simp [Fs.has]

theorem has_after_create (fs : Fs) (d : Nat) (n : String) : (step fs (.create d n)).has d n = true := by
  by_cases h : fs.has d n = true
  · simp [step, h]
  · simp only [step, h]
    simp [Fs.has]

theorem status_of_has_false (fs : Fs) (p : PathRef) (h : fs.has (fs.resolve p).1 (fs.resolve p).2 = false) :
    fs.status p = .missing := by
  simp [Fs.status, h]

/-! ## histories -/

theorem run_append_call (fs : Fs) (pre : List Ev) (c : FigCall) (post : List Ev) :
    run fs (pre ++ .call c :: post) =
      run fs pre ++ constructFigureAt (pre.foldl step fs) c :: run (pre.foldl step fs) post := by
  induction pre generalizing fs with
  | nil => simp [run]
  | cons e r ih => cases e <;> simp [run, ih, step]

theorem runSpec_append_call (fs : Fs) (pre : List Ev) (c : FigCall) (post : List Ev) :
    runSpec fs (pre ++ .call c :: post) =
      runSpec fs pre ++ specFigureAt (pre.foldl step fs) c :: runSpec (pre.foldl step fs) post := by
  induction pre generalizing fs with
  | nil => simp [runSpec]
  | cons e r ih => cases e <;> simp [runSpec, ih, step]

theorem foldl_step_filter (fs : Fs) (evs : List Ev) :
    evs.foldl step fs = (evs.filter (fun e => !e.isCall)).foldl step fs := by
  induction evs generalizing fs with
  | nil => rfl
  | cons e r ih => cases e <;> simp [Ev.isCall, step, ih]

end Proofs.ValidateHist
