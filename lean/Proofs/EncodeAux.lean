import Model.GroupBy
import Model.Broadcast
import Model.Encode
/-!
Membership facts: the values that come out of the group_by post-processing and of the broadcast
primitives are values that went in (or null).
-/
namespace Proofs.EncodeAux
open Model.Broadcast

/-! ## Part 2: Broadcast -/

theorem iloc_mem {α} (m : Mat α) (r c : Nat) (v : α) (h : m.iloc r c = some v) :
    ∃ row ∈ m, v ∈ row := by
  unfold Mat.iloc at h
  split at h
  · cases h
  · split at h
    · cases h
    · rename_i row hrow
      split at h
      · cases h
      · exact ⟨row, List.mem_of_getElem? hrow, List.mem_of_getElem? h⟩

theorem pageRows_mem {α} (m : Mat α) (start height : Nat) (row : List α)
    (h : row ∈ m.pageRows start height) : row ∈ m := by
  unfold Mat.pageRows at h
  split at h
  · rw [List.mem_filterMap] at h
    obtain ⟨i, _, hi⟩ := h
    exact List.mem_of_getElem? hi
  · exact h

theorem repeatList_mem {α} (l : List α) (n : Nat) (v : α) (h : v ∈ repeatList l n) : v ∈ l := by
  induction n with
  | zero => simp [repeatList] at h
  | succ n ih =>
    simp only [repeatList, List.mem_append] at h
    cases h with
    | inl h => exact h
    | inr h => exact ih h

theorem dropCols_mem {α} (row : List α) (removed : List Nat) (v : α)
    (h : v ∈ Model.Broadcast.dropCols row removed) : v ∈ row := by
  unfold dropCols at h
  rw [List.mem_map] at h
  obtain ⟨x, hx, rfl⟩ := h
  have hx' := (List.mem_filter.mp hx).1
  obtain ⟨a, i⟩ := x
  exact List.fst_mem_of_mem_zipIdx hx'

theorem toList_mem {α} (m : Mat α) (rows cols : Nat) (row : List α)
    (h : row ∈ m.toList rows cols) (v : α) (hv : v ∈ row) : ∃ row' ∈ m, v ∈ row' := by
  unfold Mat.toList at h
  simp only [List.mem_map] at h
  obtain ⟨r1, hr1, rfl⟩ := h
  have h1 := repeatList_mem _ _ _ (List.mem_of_mem_take hr1)
  rw [List.mem_map] at h1
  obtain ⟨r2, hr2, rfl⟩ := h1
  exact ⟨r2, hr2, repeatList_mem _ _ _ (List.mem_of_mem_take hv)⟩

theorem expandSlice_mem {α} (m : Mat α) (rows cols : Nat) (removed : List Nat) (row : List α)
    (h : row ∈ m.expandSlice rows cols removed) (v : α) (hv : v ∈ row) : ∃ row' ∈ m, v ∈ row' := by
  unfold Mat.expandSlice at h
  rw [List.mem_map] at h
  obtain ⟨r0, hr0, rfl⟩ := h
  exact toList_mem m rows cols r0 hr0 v (dropCols_mem _ _ _ hv)

theorem ilocV_mem (a : Model.Encode.MatV) (r c : Nat) (v : Model.Encode.Val)
    (h : Model.Encode.ilocV a r c = .ok v) :
    (a = none ∧ v = .null) ∨ (∃ m, a = some m ∧ ∃ row ∈ m, v ∈ row) := by
  cases a with
  | none =>
    left
    simp only [Model.Encode.ilocV] at h
    cases h
    exact ⟨rfl, rfl⟩
  | some m =>
    right
    refine ⟨m, rfl, ?_⟩
    simp only [Model.Encode.ilocV] at h
    split at h
    · cases h
    · split at h
      · rename_i w hw
        cases h
        exact iloc_mem m r c _ hw
      · cases h

/-! ## Part 1: GroupBy -/
section GroupBy
open Model.GroupBy

def ColAll (P : Cell → Prop) (c : Col) : Prop := ∀ x ∈ c, P x
def FrameAll (P : Cell → Prop) (f : Frame) : Prop := ∀ p ∈ f, ∀ c ∈ p.2, P c

variable {P : Cell → Prop}

theorem colAll_nil : ColAll P [] := by intro x hx; cases hx

theorem getCol_all (f : Frame) (name : Str) (hf : FrameAll P f) : ColAll P (getCol f name) := by
  induction f with
  | nil => simp [getCol, List.lookup]; exact colAll_nil
  | cons p f ih =>
    obtain ⟨n, c⟩ := p
    have ih' := ih (fun q hq => hf q (List.mem_cons_of_mem _ hq))
    unfold getCol at ih' ⊢
    simp only [List.lookup]
    split
    · exact hf (n, c) (List.mem_cons_self ..)
    · exact ih'

theorem setCol_all (f : Frame) (name : Str) (v : Col) (hf : FrameAll P f) (hv : ColAll P v) :
    FrameAll P (setCol f name v) := by
  unfold setCol
  split
  · intro p hp
    rw [List.mem_map] at hp
    obtain ⟨q, hq, rfl⟩ := hp
    split
    · exact hv
    · exact hf q hq
  · intro p hp
    rw [List.mem_append] at hp
    cases hp with
    | inl h => exact hf p h
    | inr h =>
      rw [List.mem_singleton] at h
      subst h
      exact hv

theorem whenThen_all (hnone : P none) (m : List Bool) (c : Col) (hc : ColAll P c) :
    ColAll P (whenThen m c) := by
  induction m generalizing c with
  | nil => simp [whenThen]; exact colAll_nil
  | cons b m ih =>
    cases c with
    | nil => simp [whenThen]; exact colAll_nil
    | cons x c =>
      intro y hy
      simp only [whenThen, List.zipWith_cons_cons, List.mem_cons] at hy
      cases hy with
      | inl h =>
        subst h
        split
        · exact hc x (List.mem_cons_self ..)
        · exact hnone
      | inr h => exact ih c (fun z hz => hc z (List.mem_cons_of_mem _ hz)) y h

theorem set_all (c : Col) (i : Nat) (v : Cell) (hc : ColAll P c) (hv : P v) : ColAll P (c.set i v) := by
  intro x hx
  cases List.mem_or_eq_of_mem_set hx with
  | inl h => exact hc x h
  | inr h => exact h ▸ hv

theorem cellAt_all (hnone : P none) (c : Col) (i : Nat) (hc : ColAll P c) : P (cellAt c i) := by
  unfold cellAt
  cases h : c[i]? with
  | none => exact hnone
  | some x => exact hc x (List.mem_of_getElem? h)

theorem suppressSingle_all (hnone : P none) (df : Frame) (column : Str) (hdf : FrameAll P df) :
    FrameAll P (suppressSingle df column) := by
  unfold suppressSingle
  exact setCol_all _ _ _ hdf (whenThen_all hnone _ _ (getCol_all _ _ hdf))

theorem levelValues_all (hnone : P none) (df : Frame) (gb : List Str) (i : Nat) (column : Str)
    (hdf : FrameAll P df) : ColAll P (levelValues df gb i column) := by
  unfold levelValues
  exact whenThen_all hnone _ _ (getCol_all _ _ hdf)

theorem foldl_inv {α β} (I : β → Prop) (f : β → α → β) (l : List α) (b : β) (hb : I b)
    (step : ∀ b a, I b → I (f b a)) : I (l.foldl f b) := by
  induction l generalizing b with
  | nil => exact hb
  | cons a l ih => exact ih (f b a) (step b a hb)

theorem suppressHier_all (hnone : P none) (df : Frame) (gb : List Str) (hdf : FrameAll P df) :
    FrameAll P (suppressHier df gb) := by
  unfold suppressHier
  exact foldl_inv (FrameAll P) _ _ _ hdf
    (fun res p hres => setCol_all _ _ _ hres (levelValues_all hnone df gb p.2 p.1 hdf))

theorem enhanceGroupBy_all (hnone : P none) (df : Frame) (gb : List Str) (s : Frame)
    (h : enhanceGroupBy df gb = .ok s) (hdf : FrameAll P df) : FrameAll P s := by
  unfold enhanceGroupBy at h
  split at h
  · cases h; exact hdf
  · split at h
    · cases h
    · split at h
      · cases h
      · split at h
        · cases h; exact suppressSingle_all hnone _ _ hdf
        · cases h; exact suppressHier_all hnone _ _ hdf

theorem restoreOne_all (hnone : P none) (orig : Frame) (gb : List Str) (res : Frame) (idx : Nat)
    (horig : FrameAll P orig) (hres : FrameAll P res) : FrameAll P (restoreOne orig gb res idx) := by
  unfold restoreOne
  split
  · exact foldl_inv (FrameAll P) _ _ _ hres
      (fun r col hr => setCol_all _ _ _ hr
        (set_all _ _ _ (getCol_all _ _ hr) (cellAt_all hnone _ _ (getCol_all _ _ horig))))
  · exact hres

theorem restorePageContext_all (hnone : P none) (sup orig : Frame) (gb : List Str) (starts : List Nat)
    (hsup : FrameAll P sup) (horig : FrameAll P orig) :
    FrameAll P (restorePageContext sup orig gb starts) := by
  unfold restorePageContext
  split
  · exact hsup
  · exact foldl_inv (FrameAll P) _ _ _ hsup
      (fun res idx hres => restoreOne_all hnone orig gb res idx horig hres)

end GroupBy

theorem restored_cells (P : Model.GroupBy.Cell → Prop) (hnone : P none) (df : Model.GroupBy.Frame)
    (gb : List Model.GroupBy.Str) (heights : List Nat) (r : Model.GroupBy.Frame)
    (h : Model.GroupBy.restored df gb heights = .ok r)
    (hdf : ∀ p ∈ df, ∀ c ∈ p.2, P c) : ∀ p ∈ r, ∀ c ∈ p.2, P c := by
  unfold Model.GroupBy.restored at h
  split at h
  · cases h
  · rename_i s hs
    cases h
    exact restorePageContext_all hnone _ _ _ _ (enhanceGroupBy_all hnone df gb s hs hdf) hdf

theorem toFrame_all (P : Option (List Char) → Prop) (hnone : P none) (cols : List (List Char))
    (rows : List (List (Option (List Char)))) (hp : ∀ r ∈ rows, ∀ c ∈ r, P c) :
    ∀ p ∈ Model.Encode.toFrame cols rows, ∀ c ∈ p.2, P c := by
  intro p hp'
  unfold Model.Encode.toFrame at hp'
  rw [List.mem_map] at hp'
  obtain ⟨⟨n, j⟩, _, rfl⟩ := hp'
  intro c hc
  simp only [List.mem_map] at hc
  obtain ⟨r, hr, rfl⟩ := hc
  cases h : r[j]? with
  | none => exact hnone
  | some x => exact hp r hr x (List.mem_of_getElem? h)

theorem ofFrame_all (P : Option (List Char) → Prop) (hnone : P none) (f : Model.GroupBy.Frame) (nrows : Nat)
    (hf : ∀ p ∈ f, ∀ c ∈ p.2, P c) : ∀ r ∈ Model.Encode.ofFrame f nrows, ∀ c ∈ r, P c := by
  intro r hr
  unfold Model.Encode.ofFrame at hr
  rw [List.mem_map] at hr
  obtain ⟨i, _, rfl⟩ := hr
  intro c hc
  rw [List.mem_map] at hc
  obtain ⟨⟨n, col⟩, hq, rfl⟩ := hc
  show P (col[i]?).join
  cases h : col[i]? with
  | none => exact hnone
  | some x => exact hf (n, col) hq x (List.mem_of_getElem? h)

theorem finalRows_cells (P : Option (List Char) → Prop) (hnone : P none) (d : Model.Encode.Doc)
    (p : Model.Encode.Prep) (heights : List Nat) (rows : List (List (Option (List Char))))
    (h : Model.Encode.finalRows d p heights = .ok rows)
    (hp : ∀ r ∈ p.dispRows, ∀ c ∈ r, P c) : ∀ r ∈ rows, ∀ c ∈ r, P c := by
  unfold Model.Encode.finalRows at h
  simp only at h
  split at h
  · cases h; exact hp
  · split at h
    · rename_i f hf
      cases h
      exact ofFrame_all P hnone f _
        (restored_cells P hnone _ _ _ f hf (toFrame_all P hnone _ _ hp))
    · cases h

end Proofs.EncodeAux
