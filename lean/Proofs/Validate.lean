import Model.Validate
import Model.ValidateSpec
/-! Helper lemmas for C19: the validator loops visit every element. -/
namespace Proofs.Validate
open Model.Validate Model.ValidateSpec

instance : DecidableEq (Except Err Unit)
  | .ok (), .ok () => isTrue rfl
  | .error a, .error b =>
    if h : a = b then isTrue (by rw [h]) else isFalse (by intro h'; cases h'; exact h rfl)
  | .ok (), .error _ => isFalse (by intro h; cases h)
  | .error _, .ok () => isFalse (by intro h; cases h)

/-! ## one element -/

theorem coerce_error {k : Kind} {v : Val} {e : Err} (h : coerce k v = .error e) : e = .validationError := by
  cases k <;> cases v <;> simp [coerce] at h <;> first | exact h.symm | (split at h <;> simp_all)

/-- element test of a rule: type coercion, then the validator's predicate -/
def elemOkR (r : Rule) (v : Val) : Bool :=
  match coerce r.kind v with
  | .ok w => r.pred.holds w
  | .error _ => false

theorem elemOk_eq (f : Field) (v : Val) : elemOk f v = elemOkR (rule f) v := rfl

theorem coerce_null (k : Kind) : coerce k .null = .error .validationError := by
  cases k <;> rfl

theorem elemOkR_isScalar {r : Rule} {v : Val} (h : elemOkR r v = true) : v.isScalar = true := by
  cases v <;> simp [Val.isScalar]
  simp [elemOkR, coerce_null] at h

/-! ## rows -/

/-- type check of a row followed by the validator loop over it -/
def rowCheck (r : Rule) (vs : List Val) : Except Err Unit :=
  match coerceRow r.kind vs with
  | .error e => .error e
  | .ok ws => loopRow r.pred ws

theorem coerceRow_length {k : Kind} : ∀ {vs ws : List Val}, coerceRow k vs = .ok ws → ws.length = vs.length
  | [], ws, h => by simp [coerceRow] at h; subst h; rfl
  | v :: vs, ws, h => by
    simp only [coerceRow] at h
    split at h
    · simp at h
    · split at h
      · simp at h
      · rename_i ws' hws
        simp at h; subst h
        simp [coerceRow_length hws]

theorem rowCheck_eq (r : Rule) : ∀ vs : List Val,
    rowCheck r vs = if vs.all (elemOkR r) then .ok () else .error .validationError
  | [] => by simp [rowCheck, coerceRow, loopRow]
  | v :: vs => by
    have ih := rowCheck_eq r vs
    simp only [rowCheck, coerceRow] at ih ⊢
    cases hc : coerce r.kind v with
    | error e =>
      have := coerce_error hc; subst this
      simp [elemOkR, hc]
    | ok w =>
      cases hr : coerceRow r.kind vs with
      | error e =>
        simp only [hr] at ih
        simp only [List.all_cons]
        by_cases hall : vs.all (elemOkR r) = true
        · simp [hall] at ih
        · simp [hall] at ih ⊢; exact ih
      | ok ws =>
        simp only [hr] at ih
        have hv : elemOkR r v = r.pred.holds w := by simp [elemOkR, hc]
        simp only [loopRow, List.all_cons, hv]
        by_cases hw : r.pred.holds w = true
        · simp [hw, ih]
        · simp [hw]

/-- type check of a matrix followed by the nested validator loops -/
def rowsCheck (r : Rule) (rows : List (List Val)) : Except Err Unit :=
  match coerceRows r.kind rows with
  | .error e => .error e
  | .ok rows' => loopRows r.pred rows'

theorem coerceRows_length {k : Kind} : ∀ {rows rows' : List (List Val)},
    coerceRows k rows = .ok rows' → rows'.length = rows.length
  | [], rows', h => by simp [coerceRows] at h; subst h; rfl
  | r :: rs, rows', h => by
    simp only [coerceRows] at h
    split at h
    · simp at h
    · split at h
      · simp at h
      · rename_i rs' hrs
        simp at h; subst h
        simp [coerceRows_length hrs]

theorem rowsCheck_eq (r : Rule) : ∀ rows : List (List Val),
    rowsCheck r rows = if rows.all (fun row => row.all (elemOkR r)) then .ok () else .error .validationError
  | [] => by simp [rowsCheck, coerceRows, loopRows]
  | row :: rows => by
    have ih := rowsCheck_eq r rows
    have hrow := rowCheck_eq r row
    simp only [rowsCheck, coerceRows, rowCheck] at ih hrow ⊢
    cases hc : coerceRow r.kind row with
    | error e =>
      simp only [hc] at hrow
      by_cases hall : row.all (elemOkR r) = true
      · simp [hall] at hrow
      · simp [hall] at hrow ⊢; exact hrow
    | ok row' =>
      simp only [hc] at hrow
      cases hr : coerceRows r.kind rows with
      | error e =>
        simp only [hr] at ih
        by_cases hall : rows.all (fun row => row.all (elemOkR r)) = true
        · simp [hall] at ih
        · simp only [List.all_cons]
          simp [hall] at ih ⊢
          simp [ih]
      | ok rows' =>
        simp only [hr] at ih
        simp only [loopRows, List.all_cons]
        by_cases h1 : row.all (elemOkR r) = true
        · simp only [h1, if_true] at hrow
          simp [hrow, h1]; simpa using ih
        · simp only [h1] at hrow
          simp at hrow
          simp [hrow, h1]

/-! ## the normalised value: type check + after-validator -/

theorem checkNorm_flat_eq (r : Rule) (vs : List Val) :
    checkNorm r (.flat vs) =
      if vs = [] then (if r.idx0 then .error .indexError else .ok ())
      else if vs.all (elemOkR r) then .ok () else .error .validationError := by
  have h := rowCheck_eq r vs
  simp only [rowCheck] at h
  simp only [checkNorm]
  cases hc : coerceRow r.kind vs with
  | error e => 
    simp only [hc] at h
    cases vs with
    | nil => simp [coerceRow] at hc
    | cons v vs => simpa using h
  | ok ws =>
    simp only [hc] at h
    have hl := coerceRow_length hc
    cases vs with
    | nil =>
      cases ws with
      | nil => simp [afterValidator]
      | cons w ws => simp at hl
    | cons v vs =>
      cases ws with
      | nil => simp at hl
      | cons w ws => simpa [afterValidator] using h

theorem checkNorm_nested_eq (r : Rule) (rows : List (List Val)) :
    checkNorm r (.nested rows) =
      if rows = [] then (if r.idx0 then .error .indexError else .ok ())
      else if r.flatOnly then .error .validationError
      else if rows.all (fun row => row.all (elemOkR r)) then .ok () else .error .validationError := by
  have h := rowsCheck_eq r rows
  simp only [rowsCheck] at h
  simp only [checkNorm]
  cases rows with
  | nil => simp [coerceRows, afterValidator]
  | cons row rows =>
    by_cases hf : r.flatOnly = true
    · simp [hf]
    · simp only [Bool.not_eq_true] at hf
      simp only [hf, Bool.false_and, Bool.false_eq_true, if_false]
      cases hc : coerceRows r.kind (row :: rows) with
      | error e => simp only [hc] at h; simpa using h
      | ok rows' =>
        simp only [hc] at h
        have hl := coerceRows_length hc
        cases rows' with
        | nil => simp at hl
        | cons r' rs' => simpa [afterValidator] using h

theorem all_false_of_mem {p : Val → Bool} {vs : List Val} {v : Val} (hv : v ∈ vs) (hp : p v = false) :
    vs.all p = false := by
  apply Bool.eq_false_iff.mpr
  intro h
  have := List.all_eq_true.mp h v hv
  simp [hp] at this

theorem checkNorm_flat_bad {r : Rule} {vs : List Val} {v : Val} (hv : v ∈ vs) (hbad : elemOkR r v = false) :
    checkNorm r (.flat vs) = .error .validationError := by
  rw [checkNorm_flat_eq]
  have hne : vs ≠ [] := by intro h; subst h; simp at hv
  simp [hne, all_false_of_mem hv hbad]

theorem checkNorm_nested_bad {r : Rule} {rows : List (List Val)} {row : List Val} {v : Val}
    (hrow : row ∈ rows) (hv : v ∈ row) (hbad : elemOkR r v = false) :
    checkNorm r (.nested rows) = .error .validationError := by
  rw [checkNorm_nested_eq]
  have hne : rows ≠ [] := by intro h; subst h; simp at hrow
  have hall : rows.all (fun row => row.all (elemOkR r)) = false := by
    apply Bool.eq_false_iff.mpr
    intro h
    have := List.all_eq_true.mp h row hrow
    simp [all_false_of_mem hv hbad] at this
  simp [hne, hall]

/-! ## one supplied attribute -/

/-- **bad element ⇒ ValidationError**, whatever the shape, the position and the other elements -/
theorem validateField_bad (table : Bool) (f : Field) (x : Raw) (v : Val)
    (hv : v ∈ x.elems) (hnn : v ≠ .null) (hbad : elemOk f v = false) :
    validateField table f x = .error .validationError := by
  have hsc : v.isScalar = true := by cases v <;> simp_all [Val.isScalar]
  rw [elemOk_eq] at hbad
  cases x with
  | none => simp [Raw.elems] at hv
  | scalar w =>
    simp [Raw.elems] at hv; subst hv
    have h1 : checkNorm (rule f) (.flat [v]) = .error .validationError :=
      checkNorm_flat_bad (List.mem_singleton.mpr rfl) hbad
    have h2 : checkNorm (rule f) (.nested [[v]]) = .error .validationError :=
      checkNorm_nested_bad (List.mem_singleton.mpr rfl) (List.mem_singleton.mpr rfl) hbad
    by_cases hfo : (rule f).flatOnly = true <;> cases table <;>
      simp [validateField, normalise, toFlat, toNested, hsc, hfo, h1, h2]
  | flat vs =>
    simp only [Raw.elems] at hv
    have h1 : checkNorm (rule f) (.flat vs) = .error .validationError := checkNorm_flat_bad hv hbad
    have h2 : checkNorm (rule f) (.nested [vs]) = .error .validationError :=
      checkNorm_nested_bad (List.mem_singleton.mpr rfl) hv hbad
    have hany : vs.any Val.isScalar = true := List.any_eq_true.mpr ⟨v, hv, hsc⟩
    by_cases hfo : (rule f).flatOnly = true <;> cases table <;>
      simp [validateField, normalise, toFlat, toNested, hany, hfo, h1, h2]
  | tuple vs =>
    simp only [Raw.elems] at hv
    have h1 : checkNorm (rule f) (.flat vs) = .error .validationError := checkNorm_flat_bad hv hbad
    have h2 : checkNorm (rule f) (.nested (vs.map fun v => [v])) = .error .validationError :=
      checkNorm_nested_bad (row := [v]) (List.mem_map.mpr ⟨v, hv, rfl⟩) (List.mem_singleton.mpr rfl) hbad
    by_cases hfo : (rule f).flatOnly = true <;> cases table <;>
      simp [validateField, normalise, toFlat, toNested, hfo, h1, h2]
  | nested rows =>
    simp only [Raw.elems, List.mem_flatten] at hv
    obtain ⟨row, hrow, hvr⟩ := hv
    have h2 : checkNorm (rule f) (.nested rows) = .error .validationError :=
      checkNorm_nested_bad hrow hvr hbad
    cases rows with
    | nil => simp at hrow
    | cons r0 rs =>
      by_cases hfo : (rule f).flatOnly = true <;> cases table <;>
        simp [validateField, normalise, toFlat, toNested, hfo, h2]

/-- **all elements good ⇒ accepted**, for every shape of the statement's domain -/
theorem validateField_good (table : Bool) (f : Field) (x : Raw)
    (hshape : shapeOk f x = true) (hall : ∀ v ∈ x.elems, elemOk f v = true) :
    validateField table f x = .ok () := by
  simp only [elemOk_eq] at hall
  cases x with
  | none => simp [shapeOk] at hshape
  | scalar w =>
    have hw : elemOkR (rule f) w = true := hall w (by simp [Raw.elems])
    have hsc := elemOkR_isScalar hw
    by_cases hfo : (rule f).flatOnly = true <;> cases table <;>
      simp [validateField, normalise, toFlat, toNested, hsc, hfo, checkNorm_flat_eq, checkNorm_nested_eq, hw]
  | flat vs =>
    simp only [Raw.elems] at hall
    simp only [shapeOk, Bool.not_eq_true', List.isEmpty_eq_false_iff] at hshape
    have hallb : vs.all (elemOkR (rule f)) = true := List.all_eq_true.mpr hall
    have hany : vs.any Val.isScalar = true := by
      cases vs with
      | nil => exact absurd rfl hshape
      | cons v vs => simp [elemOkR_isScalar (hall v (by simp))]
    by_cases hfo : (rule f).flatOnly = true <;> cases table <;>
      simp [validateField, normalise, toFlat, toNested, hany, hfo, checkNorm_flat_eq, checkNorm_nested_eq,
        hshape, hallb]
  | tuple vs =>
    simp only [Raw.elems] at hall
    simp only [shapeOk, Bool.not_eq_true', List.isEmpty_eq_false_iff] at hshape
    have hallb : vs.all (elemOkR (rule f)) = true := List.all_eq_true.mpr hall
    have hmap : (vs.map fun v => [v]).all (fun row => row.all (elemOkR (rule f))) = true := by
      simp [List.all_map]; simpa using hall
    by_cases hfo : (rule f).flatOnly = true <;> cases table <;>
      simp [validateField, normalise, toFlat, toNested, hfo, checkNorm_flat_eq, checkNorm_nested_eq,
        hshape, hallb, hmap]
  | nested rows =>
    simp only [Raw.elems, List.mem_flatten] at hall
    simp only [shapeOk, Bool.and_eq_true, Bool.not_eq_true', List.isEmpty_eq_false_iff] at hshape
    obtain ⟨hne, hfo⟩ := hshape
    have hallb : rows.all (fun row => row.all (elemOkR (rule f))) = true := by
      apply List.all_eq_true.mpr; intro row hrow
      apply List.all_eq_true.mpr; intro v hv
      exact hall v ⟨row, hrow, hv⟩
    cases rows with
    | nil => exact absurd rfl hne
    | cons r0 rs =>
      cases table <;>
        simp [validateField, normalise, toFlat, toNested, hfo, checkNorm_nested_eq, hallb]

/-! ## the generated code tables are the documented value sets

`decide +kernel` on the literal tables regenerated from the source on every run: editing a table in
the source (dropping "dotted", adding a justification code, renumbering fonts, …) breaks these. -/

theorem borderKeys_doc : borderKeys = docBorderStyles := by decide +kernel
theorem formatKeys_doc : formatKeys = docFormatCodes := by decide +kernel
theorem textJustKeys_doc : textJustKeys = docTextJust := by decide +kernel
theorem rowJustKeys_doc : rowJustKeys = docRowJust := by decide +kernel
theorem vertAlignKeys_doc : vertAlignKeys = docVertAlign := by decide +kernel
theorem fontNumbers_doc : fontNumbers = docFontNumbers := by decide +kernel
theorem colorNames_length : colorNames.length = docColorCount := by decide +kernel

theorem pos_int (i : Int) : (!(decide (i ≤ 0))) = decide (0 < i) := by
  by_cases h : i ≤ 0
  · have : ¬ (0 < i) := by omega
    simp [h, this]
  · have : 0 < i := by omega
    simp [h, this]

theorem pos_rat (q : Rat) : (!(decide (q ≤ 0))) = decide (0 < q) := by
  by_cases h : q ≤ 0
  · have : ¬ (0 < q) := fun h' => (Rat.not_le.mpr h') h
    simp [h, this]
  · have := Rat.not_le.mp h
    simp [h, this]

/-- on well-typed values the documented legality is exactly what type check + validator accept -/
theorem legal_eq_elemOk (f : Field) (v : Val) (h : wellTyped f v = true) : legal f v = elemOk f v := by
  cases f <;> cases v <;> simp [wellTyped, wellTypedC, classOf] at h <;>
    simp [legal, legalC, classOf, elemOk, rule, coerce, Pred.holds, borderKeys_doc, formatKeys_doc,
      textJustKeys_doc, rowJustKeys_doc, vertAlignKeys_doc, fontNumbers_doc, pos_int, pos_rat,
      Rat.intCast_pos]

theorem wellTyped_ne_null {f : Field} {v : Val} (h : wellTyped f v = true) : v ≠ .null := by
  intro hv; subst hv
  cases f <;> simp [wellTyped, wellTypedC, classOf] at h

/-! ## a supplied attribute inside the statement's domain -/

theorem validateField_domain (table : Bool) (f : Field) (x : Raw) (h : inDomain f x = true) :
    validateField table f x = if x.elems.all (elemOk f) then .ok () else .error .validationError := by
  simp only [inDomain, Bool.and_eq_true] at h
  obtain ⟨hshape, hwt⟩ := h
  by_cases hall : x.elems.all (elemOk f) = true
  · simp only [hall, if_true]
    exact validateField_good table f x hshape (List.all_eq_true.mp hall)
  · simp only [hall]
    have : ∃ v ∈ x.elems, elemOk f v = false := by
      apply Classical.byContradiction
      intro hne
      apply hall
      apply List.all_eq_true.mpr
      intro v hv
      cases hb : elemOk f v with
      | true => rfl
      | false => exact absurd ⟨v, hv, hb⟩ hne
    obtain ⟨v, hv, hb⟩ := this
    have hnn := wellTyped_ne_null (List.all_eq_true.mp hwt v hv)
    simpa using validateField_bad table f x v hv hnn hb

theorem hasIllegal_eq (f : Field) (x : Raw) (h : inDomain f x = true) :
    hasIllegal f x = !x.elems.all (elemOk f) := by
  simp only [inDomain, Bool.and_eq_true] at h
  have hwt := List.all_eq_true.mp h.2
  simp only [hasIllegal]
  generalize x.elems = l at hwt
  induction l with
  | nil => simp
  | cons v l ih =>
    have h1 := legal_eq_elemOk f v (hwt v (by simp))
    have h2 := ih (fun w hw => hwt w (by simp [hw]))
    simp only [List.any_cons, List.all_cons, h1, h2, Bool.not_and]

/-- a supplied attribute is bad: some element fails type check or validator -/
def suppliedBad (kw : Field → Option Raw) (f : Field) : Bool :=
  match kw f with
  | some x => !x.elems.all (elemOk f)
  | none => false

theorem runFields_eq (table : Bool) (kw : Field → Option Raw) : ∀ (fs : List Field) (soft : Bool),
    (∀ f ∈ fs, ∀ x, kw f = some x → inDomain f x = true) →
    runFields table kw fs soft = .ok (soft || fs.any (suppliedBad kw))
  | [], soft, _ => by simp [runFields]
  | f :: fs, soft, h => by
    have ih := fun s => runFields_eq table kw fs s (fun g hg => h g (by simp [hg]))
    simp only [runFields, List.any_cons, suppliedBad]
    cases hk : kw f with
    | none => simp [ih]
    | some x =>
      have hd := validateField_domain table f x (h f (by simp) x hk)
      by_cases hall : x.elems.all (elemOk f) = true
      · simp only [hall, if_true] at hd
        simp [hd, ih, hall]
      · simp only [hall] at hd
        simp at hd
        simp [hd, ih, hall, Err.isValueError]

theorem any_congr_mem {α} {l : List α} {A B : α → Bool} (h : ∀ a ∈ l, A a = B a) : l.any A = l.any B := by
  induction l with
  | nil => rfl
  | cons a l ih =>
    simp only [List.any_cons, h a (by simp), ih (fun b hb => h b (by simp [hb]))]

theorem all_eq_not_any {α} {l : List α} {A B : α → Bool} (h : ∀ a ∈ l, A a = !B a) :
    l.all A = !l.any B := by
  induction l with
  | nil => rfl
  | cons a l ih =>
    simp only [List.all_cons, List.any_cons, h a (by simp), ih (fun b hb => h b (by simp [hb])), Bool.not_or]

theorem all_congr_mem {α} {l : List α} {A B : α → Bool} (h : ∀ a ∈ l, A a = B a) : l.all A = l.all B := by
  induction l with
  | nil => rfl
  | cons a l ih =>
    simp only [List.all_cons, h a (by simp), ih (fun b hb => h b (by simp [hb]))]

theorem extraSoft_eq (c : Comp) (ex : Extra) (h : extraInDomain c ex = true) :
    extraSoft c ex = extraIllegal ex := by
  obtain ⟨pr, np, pb, at_⟩ := ex
  cases pr with
  | none =>
    cases at_ with
    | none => simp [extraSoft, extraIllegal]
    | some v => cases v <;> simp_all [extraSoft, extraIllegal, extraInDomain, asTableOk]
  | some p =>
    cases at_ with
    | none => cases p <;> simp_all [extraSoft, extraIllegal, extraInDomain, pagebyRowOk, docPagebyRow]
    | some v =>
      cases p <;> cases v <;>
        simp_all [extraSoft, extraIllegal, extraInDomain, asTableOk, pagebyRowOk, docPagebyRow]

/-! ## component constructors -/

theorem constructComp_of_domain (c : Comp) (kw : Field → Option Raw) (ex : Extra)
    (hd : ∀ f ∈ fieldsOf c, ∀ x, kw f = some x → inDomain f x = true) (he : extraInDomain c ex = true) :
    constructComp c kw ex =
      if (fieldsOf c).any (suppliedBad kw) || extraIllegal ex then .error .validationError
      else if c == .body && ex.newPage && !ex.pageBy then .error .valueError
      else .ok () := by
  simp only [constructComp, runFields_eq c.isTable kw (fieldsOf c) false hd, extraSoft_eq c ex he,
    Bool.false_or]

theorem specComp_cases (c : Comp) (kw : Field → Option Raw) (ex : Extra) :
    specComp c kw ex = .free ∨
    ((∀ f ∈ fieldsOf c, ∀ x, kw f = some x → inDomain f x = true) ∧ extraInDomain c ex = true ∧
      specComp c kw ex =
        (if (fieldsOf c).any (suppliedBad kw) || extraIllegal ex then .reject
         else if c == .body && ex.newPage && !ex.pageBy then .reject else .accept)) := by
  by_cases hdom : ((fieldsOf c).all (suppliedInDomain kw) && extraInDomain c ex) = true
  · right
    have hdom' := hdom
    simp only [Bool.and_eq_true] at hdom'
    obtain ⟨h1, h2⟩ := hdom'
    have hd : ∀ f ∈ fieldsOf c, ∀ x, kw f = some x → inDomain f x = true := by
      intro f hf x hx
      have := List.all_eq_true.mp h1 f hf
      simpa [suppliedInDomain, hx] using this
    refine ⟨hd, h2, ?_⟩
    have hany : (fieldsOf c).any (suppliedIllegal kw) = (fieldsOf c).any (suppliedBad kw) := by
      apply any_congr_mem
      intro f hf
      simp only [suppliedBad, suppliedIllegal]
      cases hk : kw f with
      | none => rfl
      | some x => simp [hasIllegal_eq f x (hd f hf x hk)]
    rw [specComp, hany, hdom]
    simp
  · left
    rw [specComp]
    simp [hdom]

/-- the component model meets the specification: an illegal configuration is refused with a ValueError -/
theorem specComp_reject (c : Comp) (kw : Field → Option Raw) (ex : Extra) (h : specComp c kw ex = .reject) :
    ∃ e, constructComp c kw ex = .error e ∧ e.isValueError = true := by
  rcases specComp_cases c kw ex with hf | ⟨hd, he, hs⟩
  · rw [hf] at h; cases h
  · rw [constructComp_of_domain c kw ex hd he]
    rw [hs] at h
    by_cases h1 : ((fieldsOf c).any (suppliedBad kw) || extraIllegal ex) = true
    · exact ⟨.validationError, by simp [h1], rfl⟩
    · simp only [h1] at h ⊢
      by_cases h2 : (c == .body && ex.newPage && !ex.pageBy) = true
      · exact ⟨.valueError, by simp [h2], rfl⟩
      · simp [h2] at h

/-- … and a legal configuration inside the domain is constructed -/
theorem specComp_accept (c : Comp) (kw : Field → Option Raw) (ex : Extra) (h : specComp c kw ex = .accept) :
    constructComp c kw ex = .ok () := by
  rcases specComp_cases c kw ex with hf | ⟨hd, he, hs⟩
  · rw [hf] at h; cases h
  · rw [constructComp_of_domain c kw ex hd he]
    rw [hs] at h
    by_cases h1 : ((fieldsOf c).any (suppliedBad kw) || extraIllegal ex) = true
    · simp [h1] at h
    · simp only [h1] at h ⊢
      by_cases h2 : (c == .body && ex.newPage && !ex.pageBy) = true
      · simp [h2] at h
      · simp [h2]

/-! ## RTFPage -/

theorem isNumber_of_wellTyped {v : Val} (h : wellTypedC .posFloat v = true) : isNumber v = true := by
  cases v <;> simp_all [wellTypedC, isNumber, coerce]

theorem optPositive_float_eq {v : Val} (h : wellTypedC .posFloat v = true) :
    optPositive .float v = legalC .posFloat v := by
  cases v <;> simp_all [wellTypedC, optPositive, legalC, coerce, Pred.holds, pos_rat, Rat.intCast_pos]

theorem optPositive_int_eq {v : Val} (h : wellTypedC .posInt v = true) :
    optPositive .int v = legalC .posInt v := by
  cases v <;> simp_all [wellTypedC, optPositive, legalC, coerce, Pred.holds, pos_int]

theorem validatePageField_eq (f : PageField) (x : Raw) (h : pageInDomain f x = true) :
    validatePageField f x = pageLegal f x := by
  have hnum : ∀ vs : List Val, vs.all (wellTypedC .posFloat) = true → vs.all isNumber = true := by
    intro vs hvs
    apply List.all_eq_true.mpr
    intro v hv
    exact isNumber_of_wellTyped (List.all_eq_true.mp hvs v hv)
  cases x with
  | none => cases f <;> simp [pageInDomain] at h
  | nested rows => cases f <;> simp [pageInDomain] at h
  | scalar v =>
    cases f with
    | width | height | colWidth =>
      have h' : wellTypedC .posFloat v = true := by simpa [pageInDomain] using h
      simpa [validatePageField, pageLegal] using optPositive_float_eq h'
    | nrow =>
      have h' : wellTypedC .posInt v = true := by simpa [pageInDomain] using h
      simpa [validatePageField, pageLegal] using optPositive_int_eq h'
    | margin => simp [pageInDomain] at h
    | orientation | borderFirst | borderLast | pageTitle | pageFootnote | pageSource =>
      cases v <;> simp [pageInDomain] at h <;>
        simp [validatePageField, pageLegal, strIn, borderKeys_doc, docOrientation, docPlacement]
  | flat vs =>
    cases f <;> simp [pageInDomain] at h
    simp [validatePageField, pageLegal, hnum vs (by simpa using h)]
  | tuple vs =>
    cases f <;> simp [pageInDomain] at h
    simp [validatePageField, pageLegal, hnum vs (by simpa using h)]

theorem specPage_cases (kw : PageField → Option Raw) :
    specPage kw = .free ∨
    (constructPage kw = .ok () ∧ specPage kw = .accept) ∨
    ((∃ e, constructPage kw = .error e ∧ e.isValueError = true) ∧ specPage kw = .reject) := by
  by_cases hdom : pageFields.all (pageSuppliedInDomain kw) = true
  · right
    have hall : pageFields.all (pageSuppliedOk kw) = !pageFields.any (pageSuppliedIllegal kw) := by
      apply all_eq_not_any
      intro f hf
      have hd := List.all_eq_true.mp hdom f hf
      simp only [pageSuppliedOk, pageSuppliedIllegal, pageSuppliedInDomain] at hd ⊢
      cases hk : kw f with
      | none => rfl
      | some x =>
        simp only [hk] at hd
        simp [validatePageField_eq f x hd]
    by_cases hbad : pageFields.any (pageSuppliedIllegal kw) = true
    · right
      refine ⟨⟨.validationError, ?_, rfl⟩, ?_⟩ <;> simp [constructPage, specPage, hdom, hall, hbad]
    · by_cases hw : 0 < resolvedColWidth kw
      · left
        simp [constructPage, specPage, pageColWidthIllegal, hdom, hall, hbad, hw]
      · right
        refine ⟨⟨.valueError, ?_, rfl⟩, ?_⟩ <;>
          simp [constructPage, specPage, pageColWidthIllegal, hdom, hall, hbad, hw]
  · left
    simp [specPage, hdom]

/-! ## RTFFigure -/

theorem optStrIn_eq (ks : List String) (o : Option Val) (h : optStrDomain o = true) :
    optStrIn ks o = !optStrIllegal ks o := by
  cases o with
  | none => rfl
  | some v => cases v <;> simp_all [optStrDomain, optStrIn, optStrIllegal, strIn]

theorem figDimOk_eq (x : Raw) (h : figDimInDomain x = true) : figDimOk x = figDimLegal x := by
  have hv : ∀ v : Val, wellTypedC .posFloat v = true →
      (v != .null && optPositive .float v) = legalC .posFloat v := by
    intro v hw
    rw [optPositive_float_eq hw]
    cases v <;> simp_all [wellTypedC]
  cases x with
  | none => simp [figDimInDomain] at h
  | nested rows => simp [figDimInDomain] at h
  | scalar v =>
    simp only [figDimInDomain] at h
    simp [figDimOk, figDimLegal, Raw.elems, hv v h]
  | flat vs =>
    simp only [figDimInDomain, Bool.and_eq_true] at h
    simp only [figDimOk, figDimLegal, Raw.elems, h.1, Bool.true_and]
    exact all_congr_mem (fun v hm => hv v (List.all_eq_true.mp h.2 v hm))
  | tuple vs =>
    simp only [figDimInDomain, Bool.and_eq_true] at h
    simp only [figDimOk, figDimLegal, Raw.elems, h.1, Bool.true_and]
    exact all_congr_mem (fun v hm => hv v (List.all_eq_true.mp h.2 v hm))

theorem optDimOk_eq (o : Option Raw) (h : optDimDomain o = true) : optDimOk o = !optDimIllegal o := by
  cases o with
  | none => rfl
  | some x => simp [optDimOk, optDimIllegal, figDimOk_eq x (by simpa [optDimDomain] using h)]

theorem figFieldsOk_eq (a : FigArgs) (h : figInDomain a = true) : figFieldsOk a = !figIllegal a := by
  simp only [figInDomain, Bool.and_eq_true] at h
  obtain ⟨⟨⟨h1, h2⟩, h3⟩, h4⟩ := h
  have e1 := optStrIn_eq docFigAlign a.figAlign h1
  have e2 := optStrIn_eq docFigPos a.figPos h2
  simp only [docFigAlign, docFigPos] at e1 e2
  simp only [figFieldsOk, figIllegal, e1, e2, optDimOk_eq _ h3, optDimOk_eq _ h4, docFigAlign, docFigPos,
    Bool.not_or]

theorem constructFigure_of_domain (a : FigArgs) (h : figInDomain a = true) :
    constructFigure a =
      if figIllegal a then .error .validationError
      else if figMissing a then .error .fileNotFound else .ok () := by
  simp [constructFigure, figFieldsOk_eq a h]

/-! ## RTFDocument -/

theorem groupKept_eq (b : BodySpec) :
    groupKept b = !(b.groupBy.getD []).any (fun c =>
      (b.sublineBy.getD []).contains c || (!(b.newPage && b.pagebyColumn) && (b.pageBy.getD []).contains c)) := by
  simp only [groupKept, BodySpec.removed, List.all_eq_not_any_not]
  congr 2
  funext c
  cases h : (b.newPage && b.pagebyColumn) <;> simp

theorem sectionLegal_eq (cols : List String) (b : BodySpec) : sectionLegal cols b = sectionOk cols b := by
  have hk := groupKept_eq b
  obtain ⟨g, p, s, np, pc⟩ := b
  simp only [sectionLegal, sectionOk, hk]
  cases g <;> cases p <;> cases s <;> simp [colsPresent]

theorem sectionsLegal_eq (secs : List (List String)) (bs : List BodySpec) :
    sectionsLegal secs bs = sectionsOk secs bs := by
  simp only [sectionsLegal, sectionsOk]
  exact all_congr_mem (fun p _ => sectionLegal_eq p.1 p.2)

theorem specDoc_cases (a : DocArgs) :
    specDoc a = .free ∨ (specDoc a = .accept ∧ validateDoc a = .ok ()) ∨
    (specDoc a = .reject ∧ validateDoc a = .error .validationError) := by
  obtain ⟨df, body, header, figure, fn, src⟩ := a
  cases df with
  | none =>
    cases figure with
    | false => simp [specDoc, validateDoc]
    | true =>
      by_cases h1 : fn = some true
      · simp [specDoc, h1]
      · by_cases h2 : src = some true
        · simp [specDoc, h2]
        · simp [specDoc, validateDoc, h1, h2]
  | single cols =>
    cases figure with
    | true => simp [specDoc, validateDoc]
    | false =>
      cases body with
      | none => simp [specDoc]
      | multi bs => simp [specDoc]
      | single b =>
        by_cases hs : sectionOk cols b = true
        · simp [specDoc, validateDoc, sectionLegal_eq, hs]
        · simp [specDoc, validateDoc, sectionLegal_eq, hs]
  | multi secs =>
    cases figure with
    | true => simp [specDoc, validateDoc]
    | false =>
      cases body with
      | none => simp [specDoc]
      | single b => simp [specDoc]
      | multi bs =>
        by_cases he : secs.isEmpty = true
        · simp [specDoc, he]
        · by_cases hl : (secs.length != bs.length) = true
          · simp [specDoc, validateDoc, he, hl]
          · by_cases hh : headerMismatch header secs.length = true
            · simp [specDoc, validateDoc, he, hl, hh]
            · by_cases hs : sectionsOk secs bs = true
              · simp [specDoc, validateDoc, he, hl, hh, sectionsLegal_eq, hs, emptyMultiIndexes]
              · simp [specDoc, validateDoc, he, hl, hh, sectionsLegal_eq, hs]

/-! ## frames: the height of a frame is not an input of the document rules -/

theorem reheight_cols (fs : List Frame) (hs : List Nat) :
    (DfData.withRows.reheight fs hs).map (·.cols) = fs.map (·.cols) := by
  induction fs generalizing hs with
  | nil => simp [DfData.withRows.reheight]
  | cons f fs ih =>
    cases hs with
    | nil => simp [DfData.withRows.reheight]
    | cons h hs => simp [DfData.withRows.reheight, ih]

theorem withRows_toArg (d : DfData) (hs : List Nat) : (d.withRows hs).toArg = d.toArg := by
  cases d with
  | none => simp [DfData.withRows, DfData.toArg]
  | single f => cases hs <;> simp [DfData.withRows, DfData.toArg]
  | multi fs => simp [DfData.withRows, DfData.toArg, reheight_cols]

theorem contains_getD_of_all {cols : List String} {o : Option (List String)} {name : String}
    (hc : cols.contains name = false) (hm : (o.getD []).contains name = true) :
    colsPresent cols o = false := by
  cases o with
  | none => simp at hm
  | some names =>
    simp only [Option.getD_some, List.contains_iff_mem] at hm
    simp only [colsPresent]
    apply Bool.eq_false_iff.mpr
    intro hall
    rw [List.all_eq_true] at hall
    have := hall name hm
    rw [hc] at this
    cases this

theorem sectionOk_false_of_missing (cols : List String) (b : BodySpec) (name : String)
    (h : missingName cols b name = true) : sectionOk cols b = false := by
  simp only [missingName, Bool.and_eq_true, Bool.or_eq_true, Bool.not_eq_true'] at h
  obtain ⟨hc, hk⟩ := h
  simp only [sectionOk]
  rcases hk with (hk | hk) | hk
  · simp [contains_getD_of_all hc hk]
  · simp [contains_getD_of_all hc hk]
  · simp [contains_getD_of_all hc hk]

theorem sectionsOk_false_of_index (secs : List (List String)) (bs : List BodySpec) (i : Nat)
    (h1 : i < secs.length) (h2 : i < bs.length) (h : sectionOk secs[i] bs[i] = false) :
    sectionsOk secs bs = false := by
  induction secs generalizing bs i with
  | nil => simp at h1
  | cons s ss ih =>
    cases bs with
    | nil => simp at h2
    | cons b bs' =>
      cases i with
      | zero =>
        simp only [List.getElem_cons_zero] at h
        simp [sectionsOk, h]
      | succ j =>
        simp only [List.getElem_cons_succ] at h
        simp only [List.length_cons, Nat.add_lt_add_iff_right] at h1 h2
        have ih' := ih bs' j h1 h2 h
        simp only [sectionsOk] at ih' ⊢
        simp [List.zip_cons_cons, List.all_cons, ih']

end Proofs.Validate
