import Model.Encode
import Model.Layout
import Proofs.Encode
import Proofs.Layout
import Proofs.LayoutHeadings
/-!
# From the role-level layout to the whole-encoder model

`Model.Encode.encodePages` obtains the page structure from `Model.Layout` (`mkLDoc`, `LDoc.pages`, `Layout.layout`) and
renders every `Layout.Block` with `renderBlock`.  This file makes that structure available as theorems, so that the
theorems about `Layout.layout` (C02, C03, C05, C06) can be restated about what the ENCODER renders:

* `plan measure d`       what the encoder computes before it renders (`prepare`, the body attributes, the `LDoc`,
                         the final frame); `Plan.pageBlocks` / `encoderBlocks` = the blocks it renders, page by page;
* `encodePages_eq`       `encodePages` = `plan`, then `renderPage` over `pageBlocks`, then concatenation;
* `Trace`, `Renders`     the rendering block by block: which elements every block of every page became;
* `encodePages_trace`, `encode_trace`   every accepted document has a plan and a trace, and the output is the
                         concatenation of the trace's elements;
* `mkLDoc_facts`         what `mkLDoc` puts into the `LDoc` (flags, keys, `lines ≥ 1`), in terms of the document;
* `dropCols_eq_filter`   column removal by index = removal by name (unique column names);
* `encodeRow_cells`, `encodeCell_body`   one table row: one cell per value, the text hole of every cell;
* `pages_numbering`      pages are numbered `1..P` with `total = P` (also for the empty frame);
* `under_own_heading`    `Props.C05.C05_under_own_heading(_hier)` without the (unused) no-null hypothesis.
-/
namespace Proofs.EncodeLift
open Model.Rtf Model.Emit Model.Encode Model.Broadcast Model.Layout Proofs.Encode

/-! ## `mapM` in `Except` -/

theorem all2_get_right {α β : Type} {R : α → β → Prop} {l : List α} {r : List β} (h : All2 R l r) :
    ∀ (i : Nat) (b : β), r[i]? = some b → ∃ a, l[i]? = some a ∧ R a b := by
  induction h with
  | nil => intro i b hb; simp at hb
  | cons hab _ ih =>
    intro i b hb
    cases i with
    | zero => simp only [List.getElem?_cons_zero, Option.some.injEq] at hb; subst hb; exact ⟨_, rfl, hab⟩
    | succ i => simp only [List.getElem?_cons_succ] at hb ⊢; exact ih i b hb

/-- a successful `mapM` as a list of (input, output) pairs -/
theorem mapM_trace {ε α β : Type} {f : α → Except ε β} {l : List α} {r : List β} (h : l.mapM f = .ok r) :
    ∃ T : List (α × β), T.map Prod.fst = l ∧ T.map Prod.snd = r ∧ ∀ x ∈ T, f x.1 = .ok x.2 := by
  have h2 := mapM_ok h
  clear h
  induction h2 with
  | nil => exact ⟨[], rfl, rfl, fun x hx => by cases hx⟩
  | @cons a b l r hab _ ih =>
    obtain ⟨T, h1, h2, h3⟩ := ih
    refine ⟨(a, b) :: T, by simp [h1], by simp [h2], ?_⟩
    intro x hx
    rcases List.mem_cons.mp hx with rfl | hx
    · exact hab
    · exact h3 x hx

theorem mapM_of_trace {ε α β : Type} {f : α → Except ε β} :
    ∀ (T : List (α × β)), (∀ x ∈ T, f x.1 = .ok x.2) → (T.map Prod.fst).mapM f = .ok (T.map Prod.snd)
  | [], _ => by simp [pure, Except.pure]
  | x :: T, h => by
    rw [List.map_cons, List.mapM_cons, h x (by simp), mapM_of_trace T (fun y hy => h y (by simp [hy]))]
    rfl

/-! ## the plan of one encode -/

/-- what `encodePages` computes before it renders anything -/
structure Plan where
  p : Prep                                  -- `prepare d`: removed columns, processed frame / attributes, widths
  bodyA : TblAttrsOf MatV                   -- the body attributes, normalised
  ld : LDoc                                 -- the role-level document `mkLDoc` hands to `Model.Layout`
  near : Nat
  rows : List (List (Option Str))           -- the frame the data rows are taken from (`finalRows`)
  deriving Inhabited

def plan (measure : Measure) (d : Doc) : Except String Plan := do
  let p ← prepare d
  let bodyA ← d.body.attrs.mapM Attr.toNested
  let x ← mkLDoc measure d p
  let rows ← finalRows d p (x.1.pages.map (·.height))
  return { p := p, bodyA := bodyA, ld := x.1, near := x.2, rows := rows }

/-- the pages of the encoder with the role-level blocks of each -/
def Plan.pageBlocks (pl : Plan) : List (PageCtx × List Block) := pl.ld.pages.zip (layout pl.ld)

/-- the blocks the encoder renders, page by page -/
def encoderBlocks (measure : Measure) (d : Doc) : Except String (List (PageCtx × List Block)) :=
  Plan.pageBlocks <$> plan measure d

theorem plan_ok {measure : Measure} {d : Doc} {pl : Plan} (h : plan measure d = .ok pl) :
    prepare d = .ok pl.p ∧ d.body.attrs.mapM Attr.toNested = .ok pl.bodyA ∧
    mkLDoc measure d pl.p = .ok (pl.ld, pl.near) ∧
    finalRows d pl.p (pl.ld.pages.map (·.height)) = .ok pl.rows := by
  unfold plan at h
  peel h as p hp
  peel h as bodyA hb
  peel h as x hx
  peel h as rows hr
  cases pure_ok h
  exact ⟨hp, hb, hx, hr⟩

theorem plan_of_parts {measure : Measure} {d : Doc} {p : Prep} {bodyA : TblAttrsOf MatV} {ld : LDoc} {near : Nat}
    {rows : List (List (Option Str))} (hp : prepare d = .ok p) (hb : d.body.attrs.mapM Attr.toNested = .ok bodyA)
    (hx : mkLDoc measure d p = .ok (ld, near)) (hr : finalRows d p (ld.pages.map (·.height)) = .ok rows) :
    plan measure d = .ok { p := p, bodyA := bodyA, ld := ld, near := near, rows := rows } := by
  unfold plan
  rw [hp]; dsimp only [bind, Except.bind]
  rw [hb]; dsimp only
  rw [hx]; dsimp only
  rw [hr]; rfl

/-- every page has its block list: `pageBlocks` has one entry per page, in page order -/
theorem pageBlocks_eq (pl : Plan) : pl.pageBlocks = pl.ld.pages.map fun pg => (pg, Model.Layout.renderPage pl.ld pg) := by
  unfold Plan.pageBlocks layout
  generalize pl.ld.pages = ps
  induction ps with
  | nil => rfl
  | cons a rest ih => rw [List.map_cons, List.map_cons, List.zip_cons_cons, ih]

theorem pageBlocks_map_snd (pl : Plan) : pl.pageBlocks.map Prod.snd = layout pl.ld := by
  rw [pageBlocks_eq]; simp [layout, List.map_map, Function.comp_def]

theorem pageBlocks_map_fst (pl : Plan) : pl.pageBlocks.map Prod.fst = pl.ld.pages := by
  rw [pageBlocks_eq]; simp [List.map_map, Function.comp_def]

theorem pageBlocks_mem {pl : Plan} {x : PageCtx × List Block} (h : x ∈ pl.pageBlocks) :
    x.1 ∈ pl.ld.pages ∧ x.2 = Model.Layout.renderPage pl.ld x.1 := by
  rw [pageBlocks_eq] at h
  obtain ⟨pg, hpg, rfl⟩ := List.mem_map.mp h
  exact ⟨hpg, rfl⟩

theorem pageBlocks_getElem? {pl : Plan} {n : Nat} {x : PageCtx × List Block} (h : pl.pageBlocks[n]? = some x) :
    pl.ld.pages[n]? = some x.1 ∧ x.2 = Model.Layout.renderPage pl.ld x.1 := by
  rw [pageBlocks_eq, List.getElem?_map] at h
  cases hp : pl.ld.pages[n]? with
  | none => rw [hp] at h; cases h
  | some pg => rw [hp] at h; cases h; exact ⟨rfl, rfl⟩

/-- **`encodePages` renders exactly `pageBlocks`**: the plan, then `renderPage` of every page's block list, then
concatenation -/
theorem encodePages_eq (measure : Measure) (k : ColorCtx) (d : Doc) :
    encodePages measure k d =
      (plan measure d >>= fun pl =>
        (pl.pageBlocks.mapM fun x => Model.Encode.renderPage k d pl.bodyA pl.p pl.rows x.1 x.2) >>= fun ess =>
          pure (ess.flatten, pl.near)) := by
  unfold encodePages plan Plan.pageBlocks
  simp only [bind_assoc, pure_bind]

/-! ## the trace of the rendering -/

/-- for every page its context and, block by block in rendering order, the elements the block was rendered to -/
abbrev Trace := List (PageCtx × List (Block × List Elem))

/-- the role-level blocks of a trace -/
def Trace.blocks (R : Trace) : List (PageCtx × List Block) := R.map fun x => (x.1, x.2.map Prod.fst)

/-- the elements of one page -/
def pageElems (bs : List (Block × List Elem)) : List Elem := bs.flatMap Prod.snd

/-- all elements, in rendering order -/
def Trace.elems (R : Trace) : List Elem := R.flatMap fun x => pageElems x.2

/-- `R` is the rendering of the plan: its blocks are the plan's `pageBlocks`, and every block is paired with the result
of `renderBlock` on its page (with the page's attributes) -/
structure Renders (k : ColorCtx) (d : Doc) (pl : Plan) (R : Trace) : Prop where
  blocks : R.blocks = pl.pageBlocks
  each : ∀ x ∈ R, ∀ y ∈ x.2,
    renderBlock k d pl.bodyA pl.p pl.rows x.1 (pageAttrs d pl.bodyA pl.p x.1) y.1 = .ok y.2

theorem renderPage_trace {k : ColorCtx} {d : Doc} {bodyA : TblAttrsOf MatV} {p : Prep}
    {rows : List (List (Option Str))} {pg : PageCtx} {blocks : List Block} {es : List Elem}
    (h : Model.Encode.renderPage k d bodyA p rows pg blocks = .ok es) :
    ∃ T : List (Block × List Elem), T.map Prod.fst = blocks ∧ es = pageElems T ∧
      ∀ y ∈ T, renderBlock k d bodyA p rows pg (pageAttrs d bodyA p pg) y.1 = .ok y.2 := by
  unfold Model.Encode.renderPage at h
  dsimp only at h
  peel h as ess hess
  cases pure_ok h
  obtain ⟨T, h1, h2, h3⟩ := mapM_trace hess
  refine ⟨T, h1, ?_, h3⟩
  rw [← h2, pageElems, List.flatMap_def]

theorem renderPage_of_trace {k : ColorCtx} {d : Doc} {bodyA : TblAttrsOf MatV} {p : Prep}
    {rows : List (List (Option Str))} {pg : PageCtx} (T : List (Block × List Elem))
    (h : ∀ y ∈ T, renderBlock k d bodyA p rows pg (pageAttrs d bodyA p pg) y.1 = .ok y.2) :
    Model.Encode.renderPage k d bodyA p rows pg (T.map Prod.fst) = .ok (pageElems T) := by
  unfold Model.Encode.renderPage
  dsimp only
  rw [mapM_of_trace T h, pageElems, List.flatMap_def]
  rfl

theorem renderPages_trace {k : ColorCtx} {d : Doc} {bodyA : TblAttrsOf MatV} {p : Prep}
    {rows : List (List (Option Str))} :
    ∀ (pbs : List (PageCtx × List Block)) (ess : List (List Elem)),
      (pbs.mapM fun x => Model.Encode.renderPage k d bodyA p rows x.1 x.2) = .ok ess →
      ∃ R : Trace, R.blocks = pbs ∧ ess.flatten = R.elems ∧
        ∀ x ∈ R, ∀ y ∈ x.2, renderBlock k d bodyA p rows x.1 (pageAttrs d bodyA p x.1) y.1 = .ok y.2
  | [], ess, h => by
    simp only [List.mapM_nil] at h
    cases pure_ok h
    exact ⟨[], rfl, rfl, fun x hx => by cases hx⟩
  | pb :: pbs, ess, h => by
    rw [List.mapM_cons] at h
    peel h as es hes
    peel h as ess' hess
    cases pure_ok h
    obtain ⟨T, h1, h2, h3⟩ := renderPage_trace hes
    obtain ⟨R, g1, g2, g3⟩ := renderPages_trace pbs ess' hess
    refine ⟨(pb.1, T) :: R, ?_, ?_, ?_⟩
    · simp only [Trace.blocks, List.map_cons, h1] at g1 ⊢
      rw [g1]
    · simp only [List.flatten_cons, Trace.elems, List.flatMap_cons, h2] at g2 ⊢
      rw [g2]
    · intro x hx
      rcases List.mem_cons.mp hx with rfl | hx
      · exact h3
      · exact g3 x hx

theorem renderPages_of_trace {k : ColorCtx} {d : Doc} {bodyA : TblAttrsOf MatV} {p : Prep}
    {rows : List (List (Option Str))} :
    ∀ (R : Trace), (∀ x ∈ R, ∀ y ∈ x.2, renderBlock k d bodyA p rows x.1 (pageAttrs d bodyA p x.1) y.1 = .ok y.2) →
      (R.blocks.mapM fun x => Model.Encode.renderPage k d bodyA p rows x.1 x.2) = .ok (R.map fun x => pageElems x.2)
  | [], _ => by simp [Trace.blocks, pure, Except.pure]
  | x :: R, h => by
    have h1 := renderPage_of_trace (k := k) (d := d) (bodyA := bodyA) (p := p) (rows := rows) (pg := x.1) x.2
      (h x (by simp))
    have h2 := renderPages_of_trace R (fun y hy => h y (by simp [hy]))
    simp only [Trace.blocks, List.map_cons, List.mapM_cons] at h2 ⊢
    rw [h1]
    dsimp only [bind, Except.bind]
    rw [h2]
    rfl

/-- **structure of `encodePages`**: it succeeds exactly when the plan exists and every block of `pageBlocks` renders;
the element list is the concatenation of the renderings, and `near` is the plan's -/
theorem encodePages_trace {measure : Measure} {k : ColorCtx} {d : Doc} {elems : List Elem} {near : Nat} :
    encodePages measure k d = .ok (elems, near) ↔
      ∃ pl R, plan measure d = .ok pl ∧ Renders k d pl R ∧ elems = R.elems ∧ near = pl.near := by
  rw [encodePages_eq]
  constructor
  · intro h
    peel h as pl hpl
    peel h as ess hess
    cases pure_ok h
    obtain ⟨R, g1, g2, g3⟩ := renderPages_trace _ _ hess
    exact ⟨pl, R, hpl, ⟨g1, g3⟩, g2, rfl⟩
  · rintro ⟨pl, R, hpl, ⟨g1, g3⟩, rfl, rfl⟩
    rw [hpl]
    dsimp only [bind, Except.bind]
    rw [← g1, renderPages_of_trace R g3]
    dsimp only [pure, Except.pure]
    rw [Trace.elems, List.flatMap_def]

/-- **structure of `encode`**: every accepted document has a plan and a trace; the blocks of the output are the
elements of the trace joined by newlines (followed by the closing newlines) -/
theorem encode_trace {measure : Measure} {d : Doc} {g : DocG} (h : encode measure d = .ok g) :
    ∃ pl R, plan measure d = .ok pl ∧ Renders (mkColorCtx d) d pl R ∧
      g.blocks = joinElems R.elems ++ [BlockG.plain [Node.nl, Node.nl, Node.nl, Node.nl]] := by
  unfold encode at h
  obtain ⟨x, hx, rfl⟩ := map_ok h
  unfold encodeWith at hx
  dsimp only at hx
  peel hx as y hy
  obtain ⟨pl, R, hpl, hR, he, _⟩ := encodePages_trace.mp (show encodePages measure (mkColorCtx d) d = .ok (y.1, y.2) from hy)
  simp only [pure_bind, throw_bind'] at hx
  split at hx
  · split at hx
    · peel hx as hdr hh
      peel hx as ftr hft
      peel hx as ps hps
      cases pure_ok hx
      exact ⟨pl, R, hpl, hR, by rw [he]⟩
    · cases hx
  · cases hx

/-! ## what `mkLDoc` puts into the role-level document -/

/-- the line estimate only grows from its start value: `dataLines … (1, false)` is at least 1 -/
theorem dataLines_ge {measure : Measure} {A : TblAttrsOf MatV} {r : Nat} :
    ∀ (cells : List (Option Str)) (cum : List Rat) (k : Nat) (prev : Rat) (acc res : Nat × Bool),
      dataLines measure A r cells cum k prev acc = .ok res → acc.1 ≤ res.1
  | [], _, _, _, acc, res, h => by
    simp only [dataLines] at h
    cases h; exact Nat.le_refl _
  | _ :: _, [], _, _, acc, res, h => by
    simp only [dataLines] at h
    cases h; exact Nat.le_refl _
  | cell :: cells, c :: cum, k, prev, acc, res, h => by
    rw [dataLines] at h
    peel h as sv hsv
    dsimp only at h
    simp only [pure_bind, throw_bind'] at h
    have fin : ∀ (w : Rat), (if c - prev = 0 then Except.error "ZeroDivisionError"
        else dataLines measure A r cells cum (k + 1) c
          (max acc.fst (linesOf w (c - prev)).fst, acc.snd || (linesOf w (c - prev)).snd)) = Except.ok res →
        acc.1 ≤ res.1 := by
      intro w h
      split at h
      · cases h
      · exact Nat.le_trans (Nat.le_max_left _ _) (dataLines_ge _ _ _ _ _ _ h)
    split at h
    · peel h as fv hfv
      split at h
      · split at h
        · exact fin _ h
        · cases h
      · split at h
        · exact fin _ h
        · cases h
      · cases h
    · split at h
      · peel h as fv hfv
        split at h
        · split at h
          · exact fin _ h
          · cases h
        · split at h
          · exact fin _ h
          · cases h
        · cases h
      · cases h

/-- `text is not None` of a header object -/
def headerHasText (h : Option Header) : Bool :=
  match h with
  | some h => h.text.isSome
  | none => false

/-- what `mkLDoc` puts into the role-level document, in terms of the document -/
structure LDocFacts (measure : Measure) (d : Doc) (p : Prep) (ld : LDoc) : Prop where
  nrow : ld.nrow = d.page.nrow
  hasPageBy : ld.hasPageBy = !d.body.pageByL.isEmpty
  hasSubline : ld.hasSubline = !d.body.sublineByL.isEmpty
  newPage : ld.newPage = d.body.newPage
  pagebyColumn : ld.pagebyColumn = d.body.pagebyColumn
  pagebyHeader : ld.pagebyHeader = d.body.pagebyHeader
  headers : ld.headers = d.headers.map headerHasText
  asColheader : ld.asColheader = d.body.asColheader
  hasTitle : ld.hasTitle = hasText d.title
  hasSublineTxt : ld.hasSublineTxt = hasText d.subline
  footnote : ld.footnote = footComp d.footnote
  source : ld.source = footComp d.source
  pageTitle : ld.pageTitle = d.page.pageTitle
  pageFootnote : ld.pageFootnote = d.page.pageFootnote
  pageSource : ld.pageSource = d.page.pageSource
  length : ld.rows.length = d.rows.length
  row : ∀ i r, ld.rows[i]? = some r → ∃ row cells nr, d.rows[i]? = some row ∧ p.dispRows[i]? = some cells ∧
    dataLines measure p.attrs i cells p.cum 0 0 (1, false) = .ok (r.lines, nr) ∧
    r.pkey = (pick d.cols row d.body.pageByL).map optString ∧
    r.skey = (pick d.cols row d.body.sublineByL).map optString ∧ 1 ≤ r.lines

theorem mkLDoc_facts {measure : Measure} {d : Doc} {p : Prep} {ld : LDoc} {near : Nat}
    (hdisp : p.dispRows.length = d.rows.length) (h : mkLDoc measure d p = .ok (ld, near)) :
    LDocFacts measure d p ld := by
  unfold mkLDoc at h
  dsimp only at h
  peel h as rows hrows
  cases pure_ok h
  have hall := mapM_ok hrows
  have hlen := all2_length hall
  refine { nrow := rfl, hasPageBy := rfl, hasSubline := rfl, newPage := rfl, pagebyColumn := rfl, pagebyHeader := rfl,
           headers := rfl, asColheader := rfl, hasTitle := rfl, hasSublineTxt := rfl, footnote := rfl, source := rfl,
           pageTitle := rfl, pageFootnote := rfl, pageSource := rfl, length := ?_, row := ?_ }
  · simp only [List.length_map, hlen, List.length_zipIdx, List.length_zip, Proofs.Layout.changes_length, hdisp]
    omega
  · intro i r hr
    simp only [List.getElem?_map, Option.map_eq_some_iff] at hr
    obtain ⟨⟨r', n⟩, hrn, rfl⟩ := hr
    obtain ⟨a, ha, hf⟩ := all2_get_right hall i _ hrn
    obtain ⟨⟨⟨cells, pk, sk⟩, pc, sc⟩, j⟩ := a
    clear hall hrows h
    simp only [List.getElem?_zipIdx, Option.map_eq_some_iff, Prod.mk.injEq, Nat.zero_add] at ha
    obtain ⟨_, ha, rfl, rfl⟩ := ha
    obtain ⟨ha1, _⟩ := List.getElem?_zip_eq_some.mp ha
    obtain ⟨hc, ha2⟩ := List.getElem?_zip_eq_some.mp ha1
    obtain ⟨hpk, hsk⟩ := List.getElem?_zip_eq_some.mp ha2
    simp only [List.getElem?_map, Option.map_eq_some_iff] at hpk hsk
    obtain ⟨row, hrow, rfl⟩ := hpk
    obtain ⟨row', hrow', rfl⟩ := hsk
    rw [hrow] at hrow'
    cases hrow'
    dsimp only at hf
    peel hf as dl hdl
    have hge := dataLines_ge _ _ _ _ _ _ hdl
    split at hf
    · peel hf as pr hpr
      split at hf
      · peel hf as sr hsr
        cases pure_ok hf; exact ⟨row, cells, dl.2, hrow, hc, hdl, rfl, rfl, hge⟩
      · simp only [pure_bind] at hf
        cases pure_ok hf; exact ⟨row, cells, dl.2, hrow, hc, hdl, rfl, rfl, hge⟩
    · simp only [pure_bind] at hf
      split at hf
      · peel hf as sr hsr
        cases pure_ok hf; exact ⟨row, cells, dl.2, hrow, hc, hdl, rfl, rfl, hge⟩
      · cases pure_ok hf; exact ⟨row, cells, dl.2, hrow, hc, hdl, rfl, rfl, hge⟩
/-! ## the preparation: removed columns -/

theorem prepare_parts {d : Doc} {p : Prep} (h : prepare d = .ok p) :
    ∃ removed, removedIdx d = .ok removed ∧ p.removed = removed ∧
      p.keep = keepMask d.cols.length removed ∧ p.ncolsDisp = Model.Widths.nDisplayed p.keep ∧
      p.dispCols = dropCols d.cols removed ∧ p.dispRows = d.rows.map (fun r => dropCols r removed) := by
  unfold prepare at h
  peel h as A hA
  peel h as removed hr
  dsimp only at h
  have h := ite_throw_ok h
  cases pure_ok h
  exact ⟨removed, hr, rfl, rfl, rfl, rfl, rfl⟩

theorem prepare_dispRows_length {d : Doc} {p : Prep} (h : prepare d = .ok p) : p.dispRows.length = d.rows.length := by
  obtain ⟨removed, _, _, _, _, _, h6⟩ := prepare_parts h
  rw [h6, List.length_map]

theorem mapM_idx_ok (cols : List Str) : ∀ (names : List Str) (removed : List Nat),
    (names.mapM fun n => let i := cols.idxOf n; if i < cols.length then (.ok i : Except String Nat) else .error "ValueError")
      = .ok removed →
    removed = names.map (fun n => cols.idxOf n) ∧ ∀ n ∈ names, n ∈ cols
  | [], removed, h => by
    simp only [List.mapM_nil] at h
    cases pure_ok h
    exact ⟨rfl, fun n hn => by cases hn⟩
  | n :: names, removed, h => by
    rw [List.mapM_cons] at h
    peel h as i hi
    peel h as rest hrest
    cases pure_ok h
    obtain ⟨h1, h2⟩ := mapM_idx_ok cols names rest hrest
    dsimp only at hi
    split at hi
    · next hlt =>
      cases hi
      refine ⟨by rw [h1]; rfl, ?_⟩
      intro m hm
      rcases List.mem_cons.mp hm with rfl | hm
      · exact List.idxOf_lt_length_iff.mp hlt
      · exact h2 m hm
    · cases hi

/-- the removed indices are the positions of the removed names, all of which are columns -/
theorem removedIdx_ok {d : Doc} {removed : List Nat} (h : removedIdx d = .ok removed) :
    removed = (removedNames d.body).map (fun n => d.cols.idxOf n) ∧ ∀ n ∈ removedNames d.body, n ∈ d.cols :=
  mapM_idx_ok d.cols _ _ h

/-- spanning rows are shown: there are page_by columns, and `not new_page or pageby_row != "column"` -/
def spanningDoc (d : Doc) : Bool := !d.body.pageByL.isEmpty && d.body.pageByRemoved

/-- `columns_to_remove`: subline_by always, page_by exactly when spanning rows are shown -/
theorem removedNames_eq (d : Doc) :
    removedNames d.body = d.body.sublineByL ++ (if spanningDoc d then d.body.pageByL else []) := by
  unfold removedNames spanningDoc Body.pageByL
  cases d.body.pageBy with
  | none => simp
  | some l => cases l <;> simp

theorem spanning_eq {measure : Measure} {d : Doc} {p : Prep} {ld : LDoc} (hf : LDocFacts measure d p ld) :
    ld.spanning = spanningDoc d := by
  unfold LDoc.spanning spanningDoc Body.pageByRemoved
  rw [hf.hasPageBy, hf.newPage, hf.pagebyColumn]

/-! ## column removal by index = removal by name -/

theorem filter_zipIdx_eq_filter_zip {α β : Type} (q : Nat → Bool) (pn : β → Bool) :
    ∀ (cols : List β) (row : List α) (k : Nat), row.length ≤ cols.length →
      (∀ j (h : j < cols.length), q (k + j) = pn cols[j]) →
      ((row.zipIdx k).filter (fun x => q x.2)).map (·.1) = ((cols.zip row).filter (fun x => pn x.1)).map (·.2)
  | _, [], _, _, _ => by simp
  | [], _ :: _, _, hl, _ => by simp at hl
  | c :: cols, a :: row, k, hl, hq => by
    have h0 : q k = pn c := hq 0 (Nat.zero_lt_succ _)
    have ih := filter_zipIdx_eq_filter_zip q pn cols row (k + 1) (by simpa using hl) (by
      intro j hj
      have := hq (j + 1) (by simpa using hj)
      simpa [Nat.add_assoc, Nat.add_comm 1 j] using this)
    simp only [List.zipIdx_cons, List.zip_cons_cons, List.filter_cons, h0]
    split <;> simp [ih]

theorem contains_idxOf {cols : List Str} (hnd : cols.Nodup) (names : List Str) (j : Nat) (hj : j < cols.length) :
    (names.map fun n => cols.idxOf n).contains j = names.contains cols[j] := by
  rw [Bool.eq_iff_iff]
  simp only [List.contains_iff_mem, List.mem_map]
  constructor
  · rintro ⟨n, hn, rfl⟩
    have : n ∈ cols := List.idxOf_lt_length_iff.mp hj
    rw [List.getElem_idxOf hj]
    exact hn
  · intro h
    exact ⟨cols[j], h, hnd.idxOf_getElem j hj⟩

/-- with unique column names, dropping the positions of `names` from a row keeps exactly the cells of the other
columns, in their original order -/
theorem dropCols_eq_filter {cols : List Str} (hnd : cols.Nodup) (names : List Str) (row : List (Option Str))
    (hlen : row.length ≤ cols.length) :
    dropCols row (names.map fun n => cols.idxOf n) =
      ((cols.zip row).filter fun x => !names.contains x.1).map (·.2) := by
  unfold dropCols
  exact filter_zipIdx_eq_filter_zip (fun j => !(names.map fun n => cols.idxOf n).contains j) (fun c => !names.contains c)
    cols row 0 hlen (fun j hj => by rw [Nat.zero_add, contains_idxOf hnd names j hj])

theorem dropCols_cols_eq_filter {cols : List Str} (hnd : cols.Nodup) (names : List Str) :
    dropCols cols (names.map fun n => cols.idxOf n) = cols.filter fun c => !names.contains c := by
  unfold dropCols
  rw [filter_zipIdx_eq_filter_zip (fun j => !(names.map fun n => cols.idxOf n).contains j) (fun c => !names.contains c)
    cols cols 0 (Nat.le_refl _) (fun j hj => by rw [Nat.zero_add, contains_idxOf hnd names j hj])]
  clear hnd
  induction cols with
  | nil => rfl
  | cons c cs ih =>
    simp only [List.zip_cons_cons, List.filter_cons]
    split
    · rw [List.map_cons, ih]
    · exact ih

/-! ## one table row -/

/-- a successful `encodeRow`: one `rowElem`, one cell per value, every cell the result of `encodeCell` on the value's
display text (`""` for null) -/
theorem encodeRow_cells {k : ColorCtx} {A : TblAttrsOf MatV} {colWidths : List Rat} {r : Nat}
    {cells : List (Option Str)} {e : Elem} (h : encodeRow k A colWidths r cells = .ok e) :
    cells ≠ [] ∧ ∃ fmt : RowFmt, e = rowElem fmt ∧ fmt.cells.length = cells.length ∧
      ∀ j c, cells[j]? = some c → ∃ cf, fmt.cells[j]? = some cf ∧
        encodeCell k A r j (j + 1 == cells.length) (c.getD []) colWidths[j]? = .ok cf := by
  unfold encodeRow at h
  dsimp only at h
  split at h
  · peel h as x hx
    exact (throw_ok hx).elim
  · next hne =>
    peel h as cs hcs
    peel h as jv hjv
    peel h as just hjust
    peel h as hv hhv
    peel h as hh hhh
    cases pure_ok h
    have hall := mapM_ok hcs
    have hlen := all2_length hall
    simp only [List.length_zipIdx] at hlen
    refine ⟨fun h0 => hne (by rw [h0]; rfl), _, rfl, hlen, ?_⟩
    intro j c hc
    have := all2_get hall j (c, j) (by simp [List.getElem?_zipIdx, hc])
    simpa using this

/-- a successful `encodeCell`: the text hole is the converted, escaped text read into nodes, with the `convert` flag
and the text format resolved from the attribute values at the cell's position; the right boundary is the twip value of
the column's cumulative width -/
theorem encodeCell_body {k : ColorCtx} {A : TblAttrsOf MatV} {r j : Nat} {isLast : Bool} {text : Str}
    {width : Option Rat} {cf : CellFmt} (h : encodeCell k A r j isLast text width = .ok cf) :
    ∃ tv tf conv w, textValsAt A.toTextAttrsOf r j = .ok tv ∧ resolveText k tv = .ok (tf, conv) ∧
      width = some w ∧ cf.cellx = twip w ∧ cf.text = tf ∧ cf.body = textNodes (convText conv text) := by
  unfold encodeCell at h
  peel h as bw h1
  dsimp only at h
  simp only [pure_bind, throw_bind'] at h
  split at h
  · peel h as right hr
    peel h as tv htv
    peel h as x hx
    split at h
    · next w =>
      peel h as left hl
      peel h as top ht
      peel h as bottom hb
      peel h as vjv hvjv
      peel h as vj hvj
      cases pure_ok h
      exact ⟨tv, x.1, x.2, w, htv, hx, rfl, rfl, rfl, rfl⟩
    · cases h
  · peel h as tv htv
    peel h as x hx
    split at h
    · next w =>
      peel h as left hl
      peel h as top ht
      peel h as bottom hb
      peel h as vjv hvjv
      peel h as vj hvj
      cases pure_ok h
      exact ⟨tv, x.1, x.2, w, htv, hx, rfl, rfl, rfl, rfl⟩
    · cases h

/-! ## page numbers -/

/-- pages are numbered `1..P` and every page knows `P` (also the synthetic page of an empty frame) -/
theorem pages_numbering (ld : LDoc) (n : Nat) (pg : PageCtx) (h : ld.pages[n]? = some pg) :
    pg.number = n + 1 ∧ pg.total = ld.pages.length := by
  by_cases hne : ld.rows = []
  · rw [Proofs.Layout.pages_of_no_rows ld hne] at h ⊢
    cases n with
    | zero => simp at h; subst h; exact ⟨rfl, rfl⟩
    | succ n => simp at h
  · obtain ⟨P, _, hlen, hnum, hok, _⟩ := Proofs.Layout.pages_spec ld hne
    have hm := List.mem_of_getElem? h
    refine ⟨?_, by rw [hlen]; exact (hok pg hm).total_eq⟩
    have h1 : (ld.pages.map (·.number))[n]? = some pg.number := by rw [List.getElem?_map, h]; rfl
    rw [hnum] at h1
    have hn : n < P := by
      rw [← hlen]
      exact (List.getElem?_eq_some_iff.mp h).1
    rw [List.getElem?_range' hn] at h1
    simp only [Option.some.injEq] at h1
    omega

theorem pages_pos (ld : LDoc) : 0 < ld.pages.length := by
  by_cases hne : ld.rows = []
  · rw [Proofs.Layout.pages_of_no_rows ld hne]; exact Nat.zero_lt_one
  · obtain ⟨P, hP, hlen, _⟩ := Proofs.Layout.pages_spec ld hne
    omega

/-! ## page_by keys -/

theorem pick_getElem? (cols : List Str) (row : List (Option Str)) (names : List Str) (l : Nat) :
    (pick cols row names)[l]? = names[l]?.map fun n => (row[cols.idxOf n]?).join := by
  unfold pick
  rw [List.getElem?_map]

theorem pick_length (cols : List Str) (row : List (Option Str)) (names : List Str) :
    (pick cols row names).length = names.length := by
  unfold pick
  rw [List.length_map]

theorem ofList_inj {a b : List Char} (h : String.ofList a = String.ofList b) : a = b := by
  have := congrArg String.toList h
  simpa using this

theorem ofList_ne_divider {s : Str} (h : s ≠ "-----".toList) : String.ofList s ≠ "-----" := by
  intro he
  apply h
  apply ofList_inj
  rw [he]
  decide

section headings
open Model.Paginate Proofs.LayoutHeadings

/-- `Props.C05.C05_under_own_heading` and `…_hier` without the (unused) no-null hypothesis, for a page whose data slice
is its own slice -/
theorem under_own_heading (d : LDoc) (nlev : Nat) (hsp : d.spanning = true)
    (hw : ∀ r ∈ d.rows, r.pkey.length = nlev)
    (pg : PageCtx) (hds : pg.dataStart = pg.start) (hin : pg.start + pg.height ≤ d.rows.length)
    (hpos : 0 < pg.height)
    (pre post : List Block) (i : Nat) (hsplit : Model.Layout.renderPage d pg = pre ++ Block.data i :: post)
    (r : LRow) (hr : d.rows[i]? = some r) (l : Nat) (v : String)
    (hv : r.pkey[l]? = some (some v)) (hdiv : v ≠ "-----") :
    lastH l pre = some v ∧ force pre l = some v := by
  obtain ⟨r0, ks, p2, q1, hr0, hkeys, rfl, hs⟩ := page_split d pg hsp hin hpos pre post i hsplit
  have hmem : ∀ k ∈ r0.pkey :: ks, k.length = nlev := by
    intro k hk
    rw [← hkeys] at hk
    obtain ⟨r', _, hr', rfl⟩ := page_keys_mem d pg k hk
    exact hw r' hr'
  constructor
  · obtain ⟨j, key, hj, hkey, hres⟩ := body_inv_flat nlev ks r0.pkey (groupValues r0.pkey) pg.dataStart
      (pageHead d pg ++ topHeadings r0.pkey) p2 i q1
      (fun k' h => hmem k' (List.mem_cons_of_mem _ h))
      (by rw [groupValues_length]; exact hmem _ (by simp))
      (fun l v h => by rw [lastH_append, topHeadings_level h]; rfl)
      (fun l v h1 h2 => groupValues_getElem?_real.mpr ⟨h1, h2⟩)
      hs
    have hkr : key = r.pkey :=
      page_key d pg _ hkeys j key hkey r (by rw [show pg.start + j = i by omega]; exact hr)
    subst hkr
    have := hres l v hv hdiv
    simpa [List.append_assoc] using this
  · obtain ⟨j, key, hj, hkey, hres⟩ := body_inv_hier nlev ks r0.pkey (groupValues r0.pkey) pg.dataStart
      (pageHead d pg ++ topHeadings r0.pkey) p2 i q1
      (fun k' h => hmem k' (List.mem_cons_of_mem _ h))
      (by rw [groupValues_length]; exact hmem _ (by simp))
      (fun l v h => force_top _ h)
      (fun l v h1 h2 => groupValues_getElem?_real.mpr ⟨h1, h2⟩)
      hs
    have hkr : key = r.pkey :=
      page_key d pg _ hkeys j key hkey r (by rw [show pg.start + j = i by omega]; exact hr)
    subst hkr
    have := hres l v hv hdiv
    simpa [List.append_assoc] using this

end headings

/-! ## the final frame -/

/-- the final frame has one row per frame row (with and without group_by) -/
theorem finalRows_length {d : Doc} {p : Prep} {hs : List Nat} {rows : List (List (Option Str))}
    (h : finalRows d p hs = .ok rows) : rows.length = p.dispRows.length := by
  unfold finalRows at h
  dsimp only at h
  split at h
  · rw [← Except.ok.inj h]
  · split at h
    · rw [← Except.ok.inj h]
      unfold ofFrame
      rw [List.length_map, List.length_range]
    · cases h

theorem plan_rows_length {measure : Measure} {d : Doc} {pl : Plan} (hp : plan measure d = .ok pl) :
    pl.rows.length = d.rows.length ∧ pl.ld.rows.length = d.rows.length := by
  obtain ⟨hprep, _, hld, hfin⟩ := plan_ok hp
  have hl := prepare_dispRows_length hprep
  exact ⟨by rw [finalRows_length hfin, hl], (mkLDoc_facts hl hld).length⟩

/-- `footComp` of a present component that is not `.absent` says whether the component is rendered as a table -/
theorem footComp_table {f : Foot} (h : footComp (some f) ≠ .absent) : (footComp (some f) == .table) = f.asTable := by
  unfold footComp at h ⊢
  dsimp only at h ⊢
  split
  · cases f.asTable <;> rfl
  · next hn => rw [if_neg hn] at h; exact absurd rfl h

/-! ## shortcuts for the Props files -/

theorem plan_facts {measure : Measure} {d : Doc} {pl : Plan} (hp : plan measure d = .ok pl) :
    LDocFacts measure d pl.p pl.ld := by
  obtain ⟨hprep, _, hld, _⟩ := plan_ok hp
  exact mkLDoc_facts (prepare_dispRows_length hprep) hld

/-- the role-level row of frame row `i` -/
theorem ldRow {measure : Measure} {d : Doc} {pl : Plan} (hp : plan measure d = .ok pl) {i : Nat}
    {row : List (Option Str)} (hrow : d.rows[i]? = some row) :
    ∃ r, pl.ld.rows[i]? = some r ∧ r.pkey = (pick d.cols row d.body.pageByL).map optString ∧
      r.skey = (pick d.cols row d.body.sublineByL).map optString := by
  have hf := plan_facts hp
  have hi : i < pl.ld.rows.length := by
    rw [hf.length]; exact (List.getElem?_eq_some_iff.mp hrow).1
  obtain ⟨row', _, _, h1, _, _, h4, h5, _⟩ := hf.row i _ (List.getElem?_eq_getElem hi)
  rw [hrow] at h1
  cases h1
  exact ⟨_, List.getElem?_eq_getElem hi, h4, h5⟩

/-- what the role-level theorems need about a page of the encoder that holds rows -/
theorem page_bounds {pl : Plan} (hne : pl.ld.rows ≠ [])
    {x : PageCtx × List Block} (hx : x ∈ pl.pageBlocks) :
    x.2 = Model.Layout.renderPage pl.ld x.1 ∧ x.1.dataStart = x.1.start ∧
      x.1.start + x.1.height ≤ pl.ld.rows.length ∧ 0 < x.1.height := by
  obtain ⟨hpg, hbs⟩ := pageBlocks_mem hx
  obtain ⟨P, _, _, _, hok, _⟩ := Proofs.Layout.pages_spec pl.ld hne
  have h := hok x.1 hpg
  have hb := h.bound
  rw [Proofs.Layout.pageNums_length] at hb
  exact ⟨hbs, h.data_eq, hb, h.height_pos⟩

theorem pageBlocks_length (pl : Plan) : pl.pageBlocks.length = pl.ld.pages.length := by
  rw [pageBlocks_eq, List.length_map]

/-- first / last page by position -/
theorem first_last (pl : Plan) (n : Nat) (x : PageCtx × List Block) (hx : pl.pageBlocks[n]? = some x) :
    x.1.number = n + 1 ∧ x.1.total = pl.pageBlocks.length ∧
    (x.1.number == 1) = (n == 0) ∧ (x.1.number == x.1.total) = (n + 1 == pl.pageBlocks.length) := by
  obtain ⟨hpg, _⟩ := pageBlocks_getElem? hx
  obtain ⟨h1, h2⟩ := pages_numbering pl.ld n x.1 hpg
  rw [pageBlocks_length, h1, h2]
  refine ⟨rfl, rfl, ?_, rfl⟩
  rw [Bool.eq_iff_iff]
  simp

theorem contains_map_ofList (names : List Str) (c : Str) :
    (names.map String.ofList).contains (String.ofList c) = names.contains c := by
  rw [Bool.eq_iff_iff]
  simp only [List.contains_iff_mem, List.mem_map]
  constructor
  · rintro ⟨n, hn, he⟩
    rw [← ofList_inj he]; exact hn
  · intro h
    exact ⟨c, h, rfl⟩

end Proofs.EncodeLift
