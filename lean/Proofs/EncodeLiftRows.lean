import Model.Encode
import Model.Layout
import Proofs.Encode
import Proofs.Layout
import Proofs.LayoutRoles
import Proofs.EncodeLift
/-!
# Table rows actually written by the encoder model, block by block

Helper lemmas for `Props/C03enc.lean`: every role-level block is rendered to at most as many table-row elements
(`\trowd … \row`) as the row budget counts for it (`weight`, the summand of `Props.C03.tableRows`).
-/
namespace Proofs.EncodeLiftRows
open Model.Rtf Model.Emit Model.Encode Model.Broadcast Model.Layout Proofs.EncodeLift

/-- an element that is a table row (`\trowd … \row`) -/
def isRowElem (e : Elem) : Bool :=
  match e with
  | BlockG.row _ _ _ :: _ => true
  | _ => false

def rowElems (es : List Elem) : Nat := (es.filter isRowElem).length

/-- the summand of `Props.C03.tableRows` -/
def weight (ld : LDoc) : Block → Nat
  | .colHeader _ => 1
  | .heading _ _ => 1
  | .sublineHeading _ => 1
  | .data i => Proofs.Layout.linesOf ld i
  | .footnote true => 1
  | .source true => 1
  | _ => 0

theorem rowElems_encodeRows {k : ColorCtx} {A : TblAttrsOf MatV} {cw : List Rat} {off : Nat}
    {rows : List (List (Option Str))} {es : List Elem} (h : encodeRows k A cw off rows = .ok es) :
    rowElems es ≤ rows.length := by
  unfold encodeRows at h
  have := Proofs.Encode.all2_length (Proofs.Encode.mapM_ok h)
  rw [List.length_zipIdx] at this
  rw [← this]
  exact List.length_filter_le _ _

theorem rowElems_plain (ns : List (List Node)) : rowElems (ns.map fun n => [BlockG.plain n]) = 0 := by
  unfold rowElems
  rw [List.length_eq_zero_iff, List.filter_eq_nil_iff]
  intro a ha
  obtain ⟨n, _, rfl⟩ := List.mem_map.mp ha
  simp [isRowElem]

theorem rowElems_textElem {k : ColorCtx} {c : Option TextComp} {es : List Elem} (h : textElem k c = .ok es) :
    rowElems es = 0 := by
  unfold textElem at h
  split at h
  · cases h; rfl
  · split at h
    · cases h; rfl
    · cases h; rfl
    · obtain ⟨a, _, h⟩ := Proofs.Encode.bind_ok h
      obtain ⟨n, _, h⟩ := Proofs.Encode.bind_ok h
      cases Proofs.Encode.pure_ok h
      rfl

theorem rowElems_renderFoot {k : ColorCtx} {d : Doc} {f : Foot} {o : Option String} {es : List Elem}
    (h : renderFoot k d f o = .ok es) : rowElems es ≤ if f.asTable then 1 else 0 := by
  unfold renderFoot at h
  obtain ⟨A, _, h⟩ := Proofs.Encode.bind_ok h
  dsimp only at h
  split at h
  · next hna =>
    obtain ⟨ps, _, h⟩ := Proofs.Encode.bind_ok h
    cases Proofs.Encode.pure_ok h
    have := rowElems_plain (ps.map fun n => [n])
    rw [List.map_map] at this
    simp only [Function.comp_def] at this
    rw [this]
    exact Nat.zero_le _
  · next hta =>
    have hta' : f.asTable = true := by simpa using hta
    rw [hta', if_pos rfl]
    split at h
    · cases h
    · split at h
      · simp only [Proofs.Encode.throw_bind'] at h; cases h
      · exact rowElems_encodeRows h

/-- every block is rendered to at most as many table rows as `tableRows` counts for it -/
theorem rowElems_block {k : ColorCtx} {d : Doc} {pl : Plan} {pg : PageCtx} {pa : PageAttrs} {b : Block}
    {es : List Elem} (hl : ∀ r ∈ pl.ld.rows, 1 ≤ r.lines) (hlen : pl.ld.rows.length = pl.rows.length)
    (hfn : ∀ a, b = Block.footnote a → ∀ f, d.footnote = some f → f.asTable = a)
    (hsrc : ∀ a, b = Block.source a → ∀ f, d.source = some f → f.asTable = a)
    (h : renderBlock k d pl.bodyA pl.p pl.rows pg pa b = .ok es) : rowElems es ≤ weight pl.ld b := by
  cases b with
  | brk =>
    simp only [renderBlock] at h
    obtain ⟨ns, _, h⟩ := Proofs.Encode.bind_ok h
    cases Proofs.Encode.pure_ok h
    exact Nat.le_refl _
  | title =>
    simp only [renderBlock] at h
    obtain ⟨es1, h1, h⟩ := Proofs.Encode.bind_ok h
    cases Proofs.Encode.pure_ok h
    have := rowElems_textElem h1
    unfold rowElems at this ⊢
    rw [List.filter_append, List.length_append, this]
    exact Nat.le_refl _
  | subline =>
    simp only [renderBlock] at h
    rw [rowElems_textElem h]
    exact Nat.zero_le _
  | sublineHeading t =>
    simp only [renderBlock] at h
    split at h <;> cases h <;> exact Nat.zero_le _
  | colHeader i =>
    simp only [renderBlock] at h
    split at h
    · rw [Proofs.Encode.renderHeader_eq] at h
      split at h
      · cases h; exact Nat.zero_le _
      · exact (show rowElems es ≤ 1 from by
          unfold Proofs.Encode.headerInner at h
          dsimp only at h
          split at h
          · simp only [Proofs.Encode.throw_bind'] at h; cases h
          · obtain ⟨A, _, h⟩ := Proofs.Encode.bind_ok h
            split at h
            · simp only [Proofs.Encode.throw_bind'] at h; cases h
            · exact rowElems_encodeRows h)
    · cases h; exact Nat.zero_le _
  | heading lvl t =>
    simp only [renderBlock] at h
    obtain ⟨e, _, h⟩ := Proofs.Encode.bind_ok h
    cases Proofs.Encode.pure_ok h
    exact List.length_filter_le _ _
  | data i =>
    simp only [renderBlock] at h
    split at h
    · next cells hcells =>
      obtain ⟨e, _, h⟩ := Proofs.Encode.bind_ok h
      cases Proofs.Encode.pure_ok h
      have hi : i < pl.ld.rows.length := by
        rw [hlen]; exact (List.getElem?_eq_some_iff.mp hcells).1
      have : 1 ≤ Proofs.Layout.linesOf pl.ld i := by
        simp only [Proofs.Layout.linesOf, List.getElem?_eq_getElem hi, Option.map_some, Option.getD_some]
        exact hl _ (List.getElem_mem hi)
      exact Nat.le_trans (List.length_filter_le _ _) this
    · cases h
  | footnote a =>
    simp only [renderBlock] at h
    split at h
    · next f hf =>
      have := rowElems_renderFoot h
      rw [hfn a rfl f hf] at this
      cases a <;> exact this
    · cases h; exact Nat.zero_le _
  | source a =>
    simp only [renderBlock] at h
    split at h
    · next f hf =>
      have := rowElems_renderFoot h
      rw [hsrc a rfl f hf] at this
      cases a <;> exact this
    · cases h; exact Nat.zero_le _

/-- a footnote block of a rendered page carries the component's table flag, and the component is not absent -/
theorem footnote_mem (d : LDoc) (pg : PageCtx) (a : Bool) (h : Block.footnote a ∈ Model.Layout.renderPage d pg) :
    a = (d.footnote == .table) ∧ d.footnote ≠ .absent := by
  open Proofs.LayoutRoles in
  rw [Proofs.LayoutRoles.renderPage_eq] at h
  simp only [List.mem_append] at h
  rcases h with (((((((h | h) | h) | h) | h) | h) | h) | h) | h
  · exact absurd h (not_mem_of_rk (segBrk_rk pg) (by simp [rk]))
  · exact absurd h (not_mem_of_rk (segTitle_rk d pg) (by simp [rk]))
  · exact absurd h (not_mem_of_rk (segSubline_rk d pg) (by simp [rk]))
  · exact absurd h (not_mem_of_rk (segSubHeading_rk d pg) (by simp [rk]))
  · exact absurd h (not_mem_of_rk (segColHeaders_rk d pg) (by simp [rk]))
  · exact absurd h (not_mem_of_rk (segTop_rk d pg) (by simp [rk]))
  · exact absurd h (not_mem_of_rk (segBody_rk d pg) (by simp [rk]))
  · unfold segFootnote at h
    split at h
    · next hc =>
      simp only [List.mem_singleton, Block.footnote.injEq] at h
      refine ⟨h, ?_⟩
      intro h0
      rw [h0] at hc
      simp at hc
    · cases h
  · exact absurd h (not_mem_of_rk (segSource_rk d pg) (by simp [rk]))

theorem source_mem (d : LDoc) (pg : PageCtx) (a : Bool) (h : Block.source a ∈ Model.Layout.renderPage d pg) :
    a = (d.source == .table) ∧ d.source ≠ .absent := by
  open Proofs.LayoutRoles in
  rw [Proofs.LayoutRoles.renderPage_eq] at h
  simp only [List.mem_append] at h
  rcases h with (((((((h | h) | h) | h) | h) | h) | h) | h) | h
  · exact absurd h (not_mem_of_rk (segBrk_rk pg) (by simp [rk]))
  · exact absurd h (not_mem_of_rk (segTitle_rk d pg) (by simp [rk]))
  · exact absurd h (not_mem_of_rk (segSubline_rk d pg) (by simp [rk]))
  · exact absurd h (not_mem_of_rk (segSubHeading_rk d pg) (by simp [rk]))
  · exact absurd h (not_mem_of_rk (segColHeaders_rk d pg) (by simp [rk]))
  · exact absurd h (not_mem_of_rk (segTop_rk d pg) (by simp [rk]))
  · exact absurd h (not_mem_of_rk (segBody_rk d pg) (by simp [rk]))
  · exact absurd h (not_mem_of_rk (segFootnote_rk d pg) (by simp [rk]))
  · unfold segSource at h
    split at h
    · next hc =>
      simp only [List.mem_singleton, Block.source.injEq] at h
      refine ⟨h, ?_⟩
      intro h0
      rw [h0] at hc
      simp at hc
    · cases h

/-- the flag of a footnote / source block the encoder renders is the component's `as_table` -/
theorem foot_flags {measure : Measure} {d : Doc} {pl : Plan} (hp : plan measure d = .ok pl)
    (x : PageCtx × List Block) (hx : x ∈ pl.pageBlocks) (b : Block) (hb : b ∈ x.2) :
    (∀ a, b = Block.footnote a → ∀ f, d.footnote = some f → f.asTable = a) ∧
    (∀ a, b = Block.source a → ∀ f, d.source = some f → f.asTable = a) := by
  have hf := plan_facts hp
  obtain ⟨_, hbs⟩ := pageBlocks_mem hx
  rw [hbs] at hb
  constructor
  · intro a ha f hfn
    subst ha
    obtain ⟨h1, h2⟩ := footnote_mem pl.ld x.1 a hb
    rw [hf.footnote, hfn] at h1 h2
    rw [h1, footComp_table h2]
  · intro a ha f hfn
    subst ha
    obtain ⟨h1, h2⟩ := source_mem pl.ld x.1 a hb
    rw [hf.source, hfn] at h1 h2
    rw [h1, footComp_table h2]

theorem rowElems_append (a b : List Elem) : rowElems (a ++ b) = rowElems a + rowElems b := by
  unfold rowElems
  rw [List.filter_append, List.length_append]

/-- on every page of the trace, the table-row elements written are at most the sum of the blocks' weights -/
theorem rowElems_page {measure : Measure} {k : ColorCtx} {d : Doc} {pl : Plan} {R : Trace}
    (hp : plan measure d = .ok pl) (hR : Renders k d pl R) (x : PageCtx × List (Block × List Elem)) (hx : x ∈ R) :
    rowElems (pageElems x.2) ≤ ((x.2.map Prod.fst).map (weight pl.ld)).sum := by
  have hpb : (x.1, x.2.map Prod.fst) ∈ pl.pageBlocks := by
    rw [← hR.blocks, Trace.blocks]
    exact List.mem_map.mpr ⟨x, hx, rfl⟩
  have hf := plan_facts hp
  have hl : ∀ r ∈ pl.ld.rows, 1 ≤ r.lines := by
    intro r hr
    obtain ⟨i, hi⟩ := List.getElem?_of_mem hr
    obtain ⟨_, _, _, _, _, _, _, _, h⟩ := hf.row i r hi
    exact h
  have hlen : pl.ld.rows.length = pl.rows.length := by
    obtain ⟨h1, h2⟩ := plan_rows_length hp
    rw [h1, h2]
  have key : ∀ T : List (Block × List Elem), (∀ y ∈ T, y ∈ x.2) →
      rowElems (pageElems T) ≤ ((T.map Prod.fst).map (weight pl.ld)).sum := by
    intro T
    induction T with
    | nil => intro _; exact Nat.le_refl _
    | cons y T ih =>
      intro hT
      have hy : y ∈ x.2 := hT y (by simp)
      have hflags := foot_flags hp _ hpb y.1 (List.mem_map.mpr ⟨y, hy, rfl⟩)
      have h1 := rowElems_block (k := k) (d := d) (pl := pl) (pg := x.1) (pa := pageAttrs d pl.bodyA pl.p x.1)
        (b := y.1) (es := y.2) hl hlen hflags.1 hflags.2 (hR.each x hx y hy)
      have h2 := ih (fun z hz => hT z (by simp [hz]))
      simp only [pageElems, List.flatMap_cons, List.map_cons, List.sum_cons] at h2 ⊢
      rw [rowElems_append]
      exact Nat.add_le_add h1 h2
  exact key x.2 (fun y hy => hy)

end Proofs.EncodeLiftRows
