import Proofs.EncodeTotalRows
import Proofs.EncodeLift
import Proofs.EncodeGroup
import Proofs.GroupBy
/-!
Totality of the encoder model, part 3: what `accepted` / `shapesInQuantifier` say field by field, `prepare`,
the processed attributes, `calculate_row_metadata` (`dataLines`, `headingRows`, `mkLDoc`) and the group_by
post-processing (`finalRows`: succeeds, or refuses non-contiguous keys with `ValueError`).
-/
namespace Proofs.EncodeTotal
open Model.Encode Model.EncodeAccepted Model.Broadcast Model.Emit Generated
open Proofs.Encode (MemV)
open Proofs.EncodeAttrs (Field GoodV)

/-! ## `Except`: a bind succeeds when both parts do -/

theorem bind_total {ε α β : Type} {x : Except ε α} {f : α → Except ε β} (hx : ∃ a, x = .ok a)
    (hf : ∀ a, x = .ok a → ∃ b, f a = .ok b) : ∃ b, (x >>= f) = .ok b := by
  obtain ⟨a, ha⟩ := hx
  obtain ⟨b, hb⟩ := hf a ha
  exact ⟨b, by rw [ha]; exact hb⟩

/-! ## the clauses of `accepted` and `shapesInQuantifier` -/

structure AccFacts (d : Doc) : Prop where
  nodup : d.cols.Nodup
  rect : ∀ r ∈ d.rows, r.length = d.cols.length
  colWidth : 0 < d.page.colWidth
  margin : d.page.margin.length = 6
  borderFirst : (borderCodes.lookup d.page.borderFirst).isSome = true
  borderLast : (borderCodes.lookup d.page.borderLast).isSome = true
  bodyAttrs : TblAttrsOf.zipAll accAttr tblSpec d.body.attrs = true
  bodyW : Proofs.Widths.AllPos (d.body.colRelWidth.getD [])
  groupIn : ∀ g ∈ d.body.groupByL, g ∈ d.cols
  groupKept : ∀ g ∈ d.body.groupByL, g ∉ removedNames d.body
  headers : ∀ h, some h ∈ d.headers → TblAttrsOf.zipAll accAttr tblSpec h.attrs = true ∧
    ∀ w, h.colRelWidth = some w → Proofs.Widths.AllPos w
  pageHeader : ∀ c, d.pageHeader = some c → TextAttrsOf.zipAll accAttr textSpec c.attrs = true
  pageFooter : ∀ c, d.pageFooter = some c → TextAttrsOf.zipAll accAttr textSpec c.attrs = true
  title : ∀ c, d.title = some c → TextAttrsOf.zipAll accAttr textSpec c.attrs = true
  subline : ∀ c, d.subline = some c → TextAttrsOf.zipAll accAttr textSpec c.attrs = true
  footnote : ∀ f, d.footnote = some f → TblAttrsOf.zipAll accAttr tblSpec f.attrs = true ∧
    ∀ w, f.colRelWidth = some w → w ≠ [] ∧ Proofs.Widths.AllPos w
  source : ∀ f, d.source = some f → TblAttrsOf.zipAll accAttr tblSpec f.attrs = true ∧
    ∀ w, f.colRelWidth = some w → w ≠ [] ∧ Proofs.Widths.AllPos w

theorem allPos_of_posW {w : List Rat} (h : Model.EncodeAccepted.posW w = true) : Proofs.Widths.AllPos w := by
  intro x hx
  have := List.all_eq_true.mp h x hx
  simpa using this

theorem widthsAcc_spec {o : Option (List Rat)} (h : widthsAcc o = true) :
    ∀ w, o = some w → w ≠ [] ∧ Proofs.Widths.AllPos w := by
  intro w hw
  subst hw
  simp only [widthsAcc, Bool.and_eq_true, Bool.not_eq_true', List.isEmpty_eq_false_iff] at h
  exact ⟨h.1, allPos_of_posW h.2⟩

theorem widthsPos_spec {o : Option (List Rat)} (h : widthsPos o = true) :
    ∀ w, o = some w → Proofs.Widths.AllPos w := by
  intro w hw
  subst hw
  exact allPos_of_posW h

theorem textCompAcc_spec {o : Option TextComp} (h : textCompAcc o = true) :
    ∀ c, o = some c → TextAttrsOf.zipAll accAttr textSpec c.attrs = true := by
  intro c hc; subst hc; exact h

theorem footAcc_spec {o : Option Foot} (h : footAcc o = true) :
    ∀ f, o = some f → TblAttrsOf.zipAll accAttr tblSpec f.attrs = true ∧
      ∀ w, f.colRelWidth = some w → w ≠ [] ∧ Proofs.Widths.AllPos w := by
  intro f hf; subst hf
  simp only [footAcc, Bool.and_eq_true] at h
  exact ⟨h.1, widthsAcc_spec h.2⟩

theorem accFacts {d : Doc} (h : Accepted d) : AccFacts d := by
  unfold Accepted accepted at h
  simp only [Bool.and_eq_true] at h
  obtain ⟨⟨⟨⟨⟨⟨⟨⟨⟨hframe, hpage⟩, hbody⟩, hheaders⟩, hph⟩, hpf⟩, htitle⟩, hsub⟩, hfn⟩, hsrc⟩ := h
  simp only [frameAcc, Bool.and_eq_true, decide_eq_true_eq, List.all_eq_true, beq_iff_eq] at hframe
  simp only [pageAcc, Bool.and_eq_true, decide_eq_true_eq] at hpage
  simp only [bodyAcc, Bool.and_eq_true, List.all_eq_true, Bool.not_eq_true', Bool.or_eq_true] at hbody
  obtain ⟨⟨⟨⟨⟨⟨hattrs, hw⟩, hg⟩, _⟩, _⟩, _⟩, hkept⟩ := hbody
  refine {
    nodup := hframe.1, rect := hframe.2, colWidth := hpage.1.1.1.2, margin := hpage.1.1.2,
    borderFirst := hpage.1.2, borderLast := hpage.2, bodyAttrs := hattrs, bodyW := allPos_of_posW hw,
    groupIn := ?_, groupKept := ?_, headers := ?_, pageHeader := textCompAcc_spec hph,
    pageFooter := textCompAcc_spec hpf, title := textCompAcc_spec htitle, subline := textCompAcc_spec hsub,
    footnote := footAcc_spec hfn, source := footAcc_spec hsrc }
  · intro g hg'
    have := List.all_eq_true.mp hg g (by simpa [Body.groupByL] using hg')
    simpa using this
  · intro g hg' hin
    have := hkept g hg'
    rw [List.contains_eq_mem, decide_eq_false_iff_not] at this
    exact this hin
  · intro hd hmem
    have := List.all_eq_true.mp hheaders (some hd) hmem
    simp only [headerAcc, Bool.and_eq_true] at this
    exact ⟨this.1, widthsPos_spec this.2⟩

structure ShapeFacts (d : Doc) (removed : List Nat) : Prop where
  hrem : removedIdx d = .ok removed
  bodyAttrs : TblAttrsOf.zipAll shpAttr tblSpec d.body.attrs = true
  ndPos : 0 < Model.Widths.nDisplayed (keepMask d.cols.length removed)
  cumLen : Model.Widths.nDisplayed (keepMask d.cols.length removed) ≤
    (Model.Widths.bodyCum (d.body.colRelWidth.getD []) (keepMask d.cols.length removed) d.page.colWidth).length
  headers : ∀ h, some h ∈ d.headers → TblAttrsOf.zipAll shpAttr tblSpec h.attrs = true ∧
    ∀ n v, headerCells d removed h = some (n, v) → 0 < n ∧ n ≤ v.length
  pageHeader : ∀ c, d.pageHeader = some c → TextAttrsOf.zipAll shpAttr textSpec c.attrs = true
  pageFooter : ∀ c, d.pageFooter = some c → TextAttrsOf.zipAll shpAttr textSpec c.attrs = true
  title : ∀ c, d.title = some c → TextAttrsOf.zipAll shpAttr textSpec c.attrs = true
  subline : ∀ c, d.subline = some c → TextAttrsOf.zipAll shpAttr textSpec c.attrs = true
  footnote : ∀ f, d.footnote = some f → TblAttrsOf.zipAll shpAttr tblSpec f.attrs = true ∧
    (f.asTable = true → f.colRelWidth.isSome = true)
  source : ∀ f, d.source = some f → TblAttrsOf.zipAll shpAttr tblSpec f.attrs = true ∧
    (f.asTable = true → f.colRelWidth.isSome = true)

theorem textCompShape_spec {o : Option TextComp} (h : textCompShape o = true) :
    ∀ c, o = some c → TextAttrsOf.zipAll shpAttr textSpec c.attrs = true := by
  intro c hc; subst hc; exact h

theorem footShape_spec {o : Option Foot} (h : footShape o = true) :
    ∀ f, o = some f → TblAttrsOf.zipAll shpAttr tblSpec f.attrs = true ∧
      (f.asTable = true → f.colRelWidth.isSome = true) := by
  intro f hf; subst hf
  simp only [footShape, Bool.and_eq_true, Bool.or_eq_true, Bool.not_eq_true'] at h
  refine ⟨h.1, fun ht => ?_⟩
  rcases h.2 with h2 | h2
  · rw [ht] at h2; cases h2
  · exact h2

theorem shapeFacts {d : Doc} (h : ShapesInQuantifier d) : ∃ removed, ShapeFacts d removed := by
  unfold ShapesInQuantifier shapesInQuantifier at h
  split at h
  · cases h
  · next removed hrem =>
    simp only [Bool.and_eq_true] at h
    obtain ⟨⟨⟨⟨⟨⟨⟨hbody, hheaders⟩, hph⟩, hpf⟩, htitle⟩, hsub⟩, hfn⟩, hsrc⟩ := h
    simp only [bodyShape, Bool.and_eq_true, decide_eq_true_eq] at hbody
    refine ⟨removed, {
      hrem := hrem, bodyAttrs := hbody.1.1, ndPos := hbody.1.2, cumLen := hbody.2,
      headers := ?_, pageHeader := textCompShape_spec hph, pageFooter := textCompShape_spec hpf,
      title := textCompShape_spec htitle, subline := textCompShape_spec hsub, footnote := footShape_spec hfn,
      source := footShape_spec hsrc }⟩
    intro hd hmem
    have := List.all_eq_true.mp hheaders (some hd) hmem
    simp only [headerShape, Bool.and_eq_true] at this
    refine ⟨this.1, ?_⟩
    intro n v hnv
    have h2 := this.2
    rw [hnv] at h2
    simpa using h2

/-! ## `prepare` -/

/-- the cumulative widths increase strictly from 0: no column has width 0 -/
def StepsNZ : Rat → List Rat → Prop
  | _, [] => True
  | p, c :: cs => c - p ≠ 0 ∧ StepsNZ c cs

theorem stepsNZ_of_pairwise : ∀ (p : Rat) (l : List Rat), (∀ c ∈ l, p < c) → l.Pairwise (· < ·) → StepsNZ p l
  | _, [], _, _ => trivial
  | p, c :: cs, h1, h2 => by
    have hp := List.pairwise_cons.mp h2
    refine ⟨?_, stepsNZ_of_pairwise c cs hp.1 hp.2⟩
    have := h1 c (by simp)
    grind

theorem bodyV_pos {d : Doc} (hacc : AccFacts d) (keep : List Bool) :
    Proofs.Widths.AllPos (if (Model.Widths.bodyProcessed (d.body.colRelWidth.getD []) keep).isEmpty
      then List.replicate (Model.Widths.nDisplayed keep) 1
      else Model.Widths.bodyProcessed (d.body.colRelWidth.getD []) keep) := by
  split
  · exact Proofs.Widths.allPos_replicate _ _ (by decide)
  · exact Proofs.Encode.allPos_bodyProcessed hacc.bodyW keep

theorem bodyCum_eq (bw : List Rat) (keep : List Bool) (W : Rat) :
    Model.Widths.bodyCum bw keep W = Model.Widths.colWidths
      (if (Model.Widths.bodyProcessed bw keep).isEmpty then List.replicate (Model.Widths.nDisplayed keep) 1
       else Model.Widths.bodyProcessed bw keep) W := by
  unfold Model.Widths.bodyCum
  dsimp only
  split <;> rfl

/-- everything the later stages need to know about the result of `prepare` -/
structure PrepOk (d : Doc) (p : Prep) (removed : List Nat) (A : TblAttrsOf MatV) : Prop where
  prep : prepare d = .ok p
  nested : d.body.attrs.mapM Attr.toNested = .ok A
  good : TblGood A
  eq : p = { removed := removed, keep := keepMask d.cols.length removed,
             ncolsDisp := Model.Widths.nDisplayed (keepMask d.cols.length removed),
             dispCols := dropCols d.cols removed, dispRows := d.rows.map fun r => dropCols r removed,
             attrs := processedAttrs A d.rows.length d.cols.length removed,
             cum := Model.Widths.bodyCum (d.body.colRelWidth.getD []) (keepMask d.cols.length removed)
               d.page.colWidth }

theorem prepare_total {d : Doc} (hacc : AccFacts d) {removed : List Nat} (hsh : ShapeFacts d removed) :
    ∃ p A, PrepOk d p removed A := by
  obtain ⟨A, hA, hgood⟩ := tblNested_total hacc.bodyAttrs hsh.bodyAttrs
  have hv := bodyV_pos hacc (keepMask d.cols.length removed)
  have hz : ¬ ((Model.Widths.sumQ (if (Model.Widths.bodyProcessed (d.body.colRelWidth.getD [])
        (keepMask d.cols.length removed)).isEmpty
      then List.replicate (Model.Widths.nDisplayed (keepMask d.cols.length removed)) 1
      else Model.Widths.bodyProcessed (d.body.colRelWidth.getD []) (keepMask d.cols.length removed)) = 0 &&
      !(if (Model.Widths.bodyProcessed (d.body.colRelWidth.getD []) (keepMask d.cols.length removed)).isEmpty
      then List.replicate (Model.Widths.nDisplayed (keepMask d.cols.length removed)) 1
      else Model.Widths.bodyProcessed (d.body.colRelWidth.getD []) (keepMask d.cols.length removed)).isEmpty) = true) := by
    intro hc
    simp only [Bool.and_eq_true, decide_eq_true_eq, Bool.not_eq_true', List.isEmpty_eq_false_iff] at hc
    have := Proofs.Widths.sumQ_pos _ hc.2 hv
    rw [hc.1] at this
    exact absurd this (by decide)
  have hp : ∃ p, prepare d = .ok p := by
    unfold prepare
    simp only [hA, hsh.hrem, ok_bind]
    rw [if_neg hz]
    exact ⟨_, rfl⟩
  obtain ⟨p, hp⟩ := hp
  exact ⟨p, A, hp, hA, hgood, Proofs.EncodeAttrs.prepare_eq hp hA hsh.hrem⟩

section prep
variable {d : Doc} {p : Prep} {removed : List Nat} {A : TblAttrsOf MatV}

theorem PrepOk.cum_eq (h : PrepOk d p removed A) :
    p.cum = Model.Widths.bodyCum (d.body.colRelWidth.getD []) (keepMask d.cols.length removed) d.page.colWidth := by
  rw [h.eq]

theorem PrepOk.dispRows_eq (h : PrepOk d p removed A) : p.dispRows = d.rows.map fun r => dropCols r removed := by
  rw [h.eq]

theorem PrepOk.dispCols_eq (h : PrepOk d p removed A) : p.dispCols = dropCols d.cols removed := by
  rw [h.eq]

theorem PrepOk.ncols_eq (h : PrepOk d p removed A) :
    p.ncolsDisp = Model.Widths.nDisplayed (keepMask d.cols.length removed) := by
  rw [h.eq]

theorem PrepOk.attrs_eq (h : PrepOk d p removed A) :
    p.attrs = processedAttrs A d.rows.length d.cols.length removed := by
  rw [h.eq]

/-- the cumulative widths: strictly increasing from 0, positive -/
theorem PrepOk.cum_steps (h : PrepOk d p removed A) (hacc : AccFacts d) :
    StepsNZ 0 p.cum ∧ ∀ c ∈ p.cum, 0 < c := by
  rw [h.cum_eq, bodyCum_eq]
  have := Proofs.Widths.colWidths_increasing _ d.page.colWidth hacc.colWidth
    (bodyV_pos hacc (keepMask d.cols.length removed))
  exact ⟨stepsNZ_of_pairwise 0 _ this.1 this.2, this.1⟩

/-- every processed row has one cell per displayed column, and there is a cumulative width for each -/
theorem PrepOk.row_len (h : PrepOk d p removed A) (hacc : AccFacts d) (hsh : ShapeFacts d removed) :
    ∀ r ∈ p.dispRows, r.length = p.ncolsDisp ∧ r ≠ [] ∧ r.length ≤ p.cum.length ∧ r.length = p.dispCols.length := by
  intro r hr
  rw [h.dispRows_eq] at hr
  obtain ⟨r0, hr0, rfl⟩ := List.mem_map.mp hr
  have hlen : (dropCols r0 removed).length = p.ncolsDisp := by
    rw [h.ncols_eq, Proofs.EncodeAttrs.nDisplayed_keepMask, Proofs.BroadcastAttr.dropCols_length, hacc.rect r0 hr0]
  have hpos := hsh.ndPos
  rw [← h.ncols_eq] at hpos
  refine ⟨hlen, ?_, ?_, ?_⟩
  · intro h0; rw [h0] at hlen; simp at hlen; omega
  · rw [hlen, h.ncols_eq, h.cum_eq]; exact hsh.cumLen
  · rw [hlen, h.ncols_eq, h.dispCols_eq, Proofs.EncodeAttrs.nDisplayed_keepMask, Proofs.BroadcastAttr.dropCols_length]

end prep

/-! ## readable matrices under the broadcast operations -/

theorem FieldGood.map {s : Spec} {M : MatV} (h : FieldGood s M) (g : Mat Val → Mat Val)
    (hg : ∀ m, Proofs.Broadcast.Good m → Proofs.Broadcast.Good (g m))
    (hm : ∀ m row, row ∈ g m → ∀ v ∈ row, ∃ row' ∈ m, v ∈ row') : FieldGood s (M.map g) := by
  cases M with
  | none => exact h
  | some m =>
    refine ⟨?_, fun _ => by simp, ?_⟩
    · intro m' hm'
      simp only [Option.map_some, Option.some.injEq] at hm'
      subst hm'
      exact hg m (h.good m rfl)
    · intro v hv
      exact h.vals v (Proofs.Encode.memV_map hm hv)

/-- the processed attributes of a non-empty frame with at least one displayed column are readable -/
theorem processed_good {A : TblAttrsOf MatV} (hA : TblGood A) {nrows ncols : Nat} (removed : List Nat)
    (hrows : 0 < nrows) (hk : 0 < (keptIdx ncols removed).length) :
    TblGood (processedAttrs A nrows ncols removed) := by
  intro f
  rw [Proofs.EncodeAttrs.processed_get]
  split
  · exact hA f
  · exact (hA f).map _ (fun m hm => Proofs.EncodeAttrs.expandSlice_good hm removed hrows hk)
      (fun m row hrow v hv => Proofs.EncodeAux.expandSlice_mem m nrows ncols removed row hrow v hv)

theorem PrepOk.attrs_good {d : Doc} {p : Prep} {removed : List Nat} {A : TblAttrsOf MatV} (h : PrepOk d p removed A)
    (hsh : ShapeFacts d removed) (hrows : d.rows ≠ []) : TblGood p.attrs := by
  rw [h.attrs_eq]
  apply processed_good h.good removed (List.length_pos_iff.mpr hrows)
  rw [← Proofs.EncodeAttrs.nDisplayed_keepMask]
  exact hsh.ndPos

/-! ## `calculate_row_metadata` -/

theorem okFont_int {v : Val} (h : okFont v = true) : ∃ i, v = .int i := by
  cases v <;> simp [okFont] at h; exact ⟨_, rfl⟩

theorem dataLines_total (measure : Measure) {A : TblAttrsOf MatV} (hA : TblGood A) (r : Nat) :
    ∀ (cells : List (Option Str)) (cum : List Rat) (k : Nat) (prev : Rat) (acc : Nat × Bool),
      StepsNZ prev cum →
      (∀ q ∈ rowRequests A r cells cum k, (measure q.1 q.2.1 q.2.2).isSome = true) →
      ∃ x, dataLines measure A r cells cum k prev acc = .ok x
  | [], _, _, _, acc, _, _ => ⟨acc, by simp [dataLines]⟩
  | _ :: _, [], _, _, acc, _, _ => ⟨acc, by simp [dataLines]⟩
  | cell :: cells, c :: cum, k, prev, acc, hst, hreq => by
    obtain ⟨vs, hvs, gvs⟩ := ilocV_req (hA .size) rfl r k
    obtain ⟨vf, hvf, gvf⟩ := ilocV_req (hA .font) rfl r k
    simp only [Field.get] at hvs hvf
    obtain ⟨i, rfl⟩ := okFont_int gvf
    obtain ⟨q, hq⟩ := wRat_of_okPosNum gvs
    have hnn : vs ≠ .null := by intro h0; subst h0; simp [Field.get, tblSpec, textSpec, okPosNum] at gvs
    have hsz : sizeAt A r k = some q := by
      unfold sizeAt
      rw [hvs]
      cases vs with
      | null => exact absurd rfl hnn
      | _ => simp only [hq]
    have hft : fontAt A r k = some i := by unfold fontAt; rw [hvf]
    have hreq0 := hreq (strOfCell cell, i, q) (by simp [rowRequests, hsz, hft])
    obtain ⟨w, hw⟩ : ∃ w, measure (strOfCell cell) i q = some w := by
      cases hm : measure (strOfCell cell) i q with
      | none => simp only at hreq0; rw [hm] at hreq0; cases hreq0
      | some w => exact ⟨w, rfl⟩
    have hrec := dataLines_total measure hA r cells cum (k + 1) c
      (max acc.1 (linesOf w (c - prev)).1, acc.2 || (linesOf w (c - prev)).2) hst.2
      (fun x hx => hreq x (by simp only [rowRequests, List.mem_append]; right; exact hx))
    obtain ⟨x, hx⟩ := hrec
    refine ⟨x, ?_⟩
    rw [dataLines]
    cases vs with
    | null => exact absurd rfl hnn
    | bool b => simp [Field.get, tblSpec, textSpec, okPosNum] at gvs
    | str s => simp [Field.get, tblSpec, textSpec, okPosNum] at gvs
    | int j =>
      simp only [Val.toRat] at hq
      cases hq
      simp only [hvs, hvf, ok_bind, pure_eq_ok, Val.toRat, hw, if_neg hst.1]
      exact hx
    | float f =>
      simp only [Val.toRat] at hq
      cases hq
      simp only [hvs, hvf, ok_bind, pure_eq_ok, Val.toRat, hw, if_neg hst.1]
      exact hx

theorem headingRows_total (measure : Measure) {total : Rat} (ht : total ≠ 0) (names : List Str)
    (vals : List (Option Str))
    (hreq : ∀ q ∈ headingRequest names vals, (measure q.1 q.2.1 q.2.2).isSome = true) :
    ∃ x, headingRows measure total names vals = .ok x := by
  unfold headingRows
  by_cases he : (headingText names vals).isEmpty = true
  · simp only [he, if_true, pure_eq_ok]; exact ⟨_, rfl⟩
  · have := hreq (headingText names vals, 1, 9) (by simp [headingRequest, he])
    obtain ⟨w, hw⟩ : ∃ w, measure (headingText names vals) 1 9 = some w := by
      cases hm : measure (headingText names vals) 1 9 with
      | none => simp only at this; rw [hm] at this; cases this
      | some w => exact ⟨w, rfl⟩
    simp only [he, Bool.false_eq_true, if_false, hw, ok_bind, pure_eq_ok, if_neg ht]
    exact ⟨_, rfl⟩

theorem measure_spec {measure : Measure} {d : Doc} {p : Prep} (hm : MeasureOk measure d) (hp : prepare d = .ok p) :
    ∀ x ∈ ldocInput d p, ∀ q ∈ rowReqs d p x, (measure q.1 q.2.1 q.2.2).isSome = true := by
  intro x hx q hq
  unfold MeasureOk measureOk requests at hm
  rw [hp] at hm
  simp only [List.all_eq_true] at hm
  exact hm q (List.mem_flatMap.mpr ⟨x, hx, hq⟩)

theorem mkLDoc_total (measure : Measure) {d : Doc} {p : Prep} {removed : List Nat} {A : TblAttrsOf MatV}
    (h : PrepOk d p removed A) (hacc : AccFacts d) (hsh : ShapeFacts d removed) (hm : MeasureOk measure d) :
    ∃ x, mkLDoc measure d p = .ok x := by
  have hspec := measure_spec hm h.prep
  obtain ⟨hsteps, hpos⟩ := h.cum_steps hacc
  have htotal : p.cum.getLast?.getD 0 ≠ 0 := by
    have hlen : 0 < p.cum.length := by
      have := hsh.cumLen
      have h2 := hsh.ndPos
      rw [h.cum_eq]; omega
    cases hc : p.cum.getLast? with
    | none =>
      rw [List.getLast?_eq_none_iff] at hc
      rw [hc] at hlen; simp at hlen
    | some c =>
      have := hpos c (List.mem_of_getLast? hc)
      simp only [Option.getD_some]
      grind
  unfold mkLDoc
  dsimp only
  refine bind_total ?_ (fun rows _ => ⟨_, rfl⟩)
  apply mapM_total
  intro x hx
  have hx' : x ∈ ldocInput d p := hx
  have hreq := hspec x hx'
  obtain ⟨⟨⟨cells, pk, sk⟩, pc, sc⟩, r⟩ := x
  have hrow : d.rows ≠ [] := by
    intro h0
    have : ldocInput d p = [] := by
      have hd : p.dispRows = [] := by rw [h.dispRows_eq, h0]; rfl
      simp [ldocInput, hd]
    rw [this] at hx'
    cases hx'
  have hgood := h.attrs_good hsh hrow
  simp only [rowReqs, List.mem_append] at hreq
  obtain ⟨x1, hx1⟩ := dataLines_total measure hgood r cells p.cum 0 0 (1, false) hsteps
    (fun q hq => hreq q (Or.inl (Or.inl hq)))
  have hpb : (!d.body.pageByL.isEmpty && pc) = true →
      ∃ y, headingRows measure (p.cum.getLast?.getD 0) d.body.pageByL pk = .ok y := by
    intro hc
    apply headingRows_total measure htotal
    intro q hq
    apply hreq q
    left; right
    rw [if_pos hc]; exact hq
  have hsb : (!d.body.sublineByL.isEmpty && sc) = true →
      ∃ y, headingRows measure (p.cum.getLast?.getD 0) d.body.sublineByL sk = .ok y := by
    intro hc
    apply headingRows_total measure htotal
    intro q hq
    apply hreq q
    right
    rw [if_pos hc]; exact hq
  dsimp only
  refine bind_total ⟨x1, hx1⟩ (fun _ _ => ?_)
  simp only [pure_eq_ok, ok_bind]
  split
  · next hc1 =>
    refine bind_total (hpb hc1) (fun _ _ => ?_)
    split
    · next hc2 => exact bind_total (hsb hc2) (fun _ _ => ⟨_, rfl⟩)
    · exact ⟨_, rfl⟩
  · split
    · next hc2 => exact bind_total (hsb hc2) (fun _ _ => ⟨_, rfl⟩)
    · exact ⟨_, rfl⟩

/-! ## group_by: `finalRows` succeeds or refuses non-contiguous keys -/

open Model.GroupBy Proofs.GroupBy in
/-- **the group_by keys of `d` are contiguous**: at every level of the (de-duplicated) `group_by` list the hierarchical
keys of the frame handed to the grouping service — the displayed columns of the processed frame — are contiguous
(`Model.GroupBy.Contiguous`: between two occurrences of a key there is nothing but that key; null is a value) -/
def GroupKeysContiguous (d : Doc) : Prop :=
  ∀ p, prepare d = .ok p → ∀ l, l < d.body.groupByL.eraseDups.length →
    Contiguous (keysAt (toFrame p.dispCols p.dispRows) d.body.groupByL.eraseDups l)

theorem nodup_eraseDups : ∀ (n : Nat) (l : List Model.Encode.Str), l.length ≤ n → l.eraseDups.Nodup
  | _, [], _ => by simp
  | 0, _ :: _, h => by simp at h
  | n + 1, a :: l, h => by
    rw [List.eraseDups_cons]
    have hlen : (l.filter fun b => !b == a).length ≤ n := by
      have := List.length_filter_le (fun b => !b == a) l
      simp only [List.length_cons] at h
      omega
    refine List.nodup_cons.mpr ⟨?_, nodup_eraseDups n _ hlen⟩
    intro hmem
    rw [List.mem_eraseDups, List.mem_filter] at hmem
    simp at hmem

open Model.GroupBy Proofs.GroupBy in
theorem enhance_ok_of_contiguous (df : Frame) (wf : WF df) (gb : List Model.Encode.Str) (hsub : ∀ g ∈ gb, g ∈ names df)
    (hc : ∀ l, l < gb.eraseDups.length → Contiguous (keysAt df gb.eraseDups l)) :
    ∃ s, enhanceGroupBy df gb = .ok s := by
  unfold enhanceGroupBy
  by_cases h0 : (decide (gb = []) || decide (height df = 0)) = true
  · rw [if_pos h0]; exact ⟨_, rfl⟩
  · rw [if_neg h0]
    simp only [Bool.or_eq_true, decide_eq_true_eq, not_or] at h0
    obtain ⟨hne, hh⟩ := h0
    have hmiss : (gb.any fun c => !(names df).contains c) = false := by
      rw [List.any_eq_false]
      intro g hg
      simpa using hsub g hg
    rw [hmiss]
    simp only [Bool.false_eq_true, if_false]
    have hnd := nodup_eraseDups gb.length gb (Nat.le_refl _)
    have hne' : gb.eraseDups ≠ [] := by
      intro he
      cases gb with
      | nil => exact hne rfl
      | cons a l => rw [List.eraseDups_cons] at he; cases he
    have hsub' : ∀ g ∈ gb.eraseDups, g ∈ names df := fun g hg => hsub g (List.mem_eraseDups.mp hg)
    have hv := (validate_ok_iff df wf gb.eraseDups hnd hsub' hne' hh).mpr hc
    have heq : validateDataSorting df gb = validateDataSorting df gb.eraseDups := by
      unfold validateDataSorting
      simp only [hh, hne, hne', if_false, eraseDups_of_nodup gb.eraseDups hnd]
    rw [heq, hv]
    simp only
    split <;> exact ⟨_, rfl⟩

/-- the group_by columns are displayed columns -/
theorem group_displayed {d : Doc} {p : Prep} {removed : List Nat} {A : TblAttrsOf MatV} (h : PrepOk d p removed A)
    (hacc : AccFacts d) (hsh : ShapeFacts d removed) : ∀ g ∈ d.body.groupByL, g ∈ p.dispCols := by
  intro g hg
  obtain ⟨h1, _⟩ := Proofs.EncodeLift.removedIdx_ok hsh.hrem
  rw [h.dispCols_eq, h1, Proofs.EncodeLift.dropCols_cols_eq_filter hacc.nodup, List.mem_filter]
  refine ⟨hacc.groupIn g hg, ?_⟩
  have := hacc.groupKept g hg
  simpa using this

theorem finalRows_total {d : Doc} {p : Prep} {removed : List Nat} {A : TblAttrsOf MatV} (h : PrepOk d p removed A)
    (hacc : AccFacts d) (hsh : ShapeFacts d removed) (heights : List Nat) :
    (∃ rows, finalRows d p heights = .ok rows) ∨
    (finalRows d p heights = .error "ValueError" ∧ ¬ GroupKeysContiguous d) := by
  cases hf : finalRows d p heights with
  | ok rows => exact Or.inl ⟨rows, rfl⟩
  | error e =>
    right
    by_cases h0 : d.body.groupByL = []
    · rw [Proofs.EncodeGroup.finalRows_no_groupby h0] at hf; cases hf
    · obtain ⟨he, e', he'⟩ := (Proofs.EncodeGroup.finalRows_error_iff h0 e).mp hf
      refine ⟨by rw [he], ?_⟩
      intro hc
      obtain ⟨s, hs⟩ := enhance_ok_of_contiguous (Model.Encode.toFrame p.dispCols p.dispRows)
        (Proofs.EncodeGroup.wf_toFrame _ _) d.body.groupByL
        (by rw [Proofs.EncodeGroup.names_toFrame]; exact group_displayed h hacc hsh)
        (hc p h.prep)
      rw [hs] at he'
      cases he'

end Proofs.EncodeTotal
