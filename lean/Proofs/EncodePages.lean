import Model.Encode
import Model.Layout
import Proofs.Encode
import Proofs.EncodeLift
import Proofs.Layout
import Proofs.Paginate
import Proofs.PaginateGroups
import Proofs.BroadcastAttr
import Proofs.EncodeAttrs
/-!
# The pagination input of the whole-encoder model, in terms of the document

Helper lemmas for `Props/C04enc.lean`.  `Model.Encode.mkLDoc` computes, for every frame row, the line estimate
(`dataLines`), the `str()` keys of the page_by / subline_by cells and — for rows that start a group — the rows of the
group heading (`Model.Encode.headingRows`); `Model.Layout.LDoc.meta` turns them into the `RowMeta` list that
`assignPages` consumes.  This file

* inverts `mkLDoc` completely for one row (`mkLDoc_rows`: also `pbRows` / `sbRows`, which `LDocFacts.row` leaves out);
* names the row input of `mkMeta` (`rowIn`, `rowIns`, `meta_eq`) and states it on the document (`rowIns_facts`,
  `rowIns_pkeys`, `rowIns_skeys`, `keyChange`);
* index lemmas for `changes` / `mkMeta` (`changes_getElem?_zero`, `changes_getElem?_succ`, `mkMeta_getElem?`);
* prefix stability: `toList` / `expandSlice` / `processedAttrs` read at a row `< rows' ≤ rows` do not depend on the
  number of rows (`ilocV_processed_prefix`), `dataLines` only depends on the values read (`dataLines_congr`), hence the
  role-level rows of a document whose frame is cut after `m` rows are the first `m` role-level rows (`ldRows_take`),
  and `mkMeta` / `assignPages` commute with `take` (`mkMeta_take`, `assignPages_take`).
-/
namespace Proofs.EncodePages
open Model.Encode Model.Layout Model.Paginate Model.Broadcast Proofs.Encode Proofs.EncodeLift Proofs.Paginate

/-! ## complete inversion of `mkLDoc` for one row -/

theorem mkLDoc_rows {measure : Measure} {d : Doc} {p : Prep} {ld : LDoc} {near : Nat}
    (h : mkLDoc measure d p = .ok (ld, near)) :
    ∀ i r, ld.rows[i]? = some r → ∃ row cells pc sc dl pr sr,
      d.rows[i]? = some row ∧ p.dispRows[i]? = some cells ∧
      (changes ((d.rows.map fun r => pick d.cols r d.body.pageByL).map fun k => k.map strOfCell))[i]? = some pc ∧
      (changes ((d.rows.map fun r => pick d.cols r d.body.sublineByL).map fun k => k.map strOfCell))[i]? = some sc ∧
      dataLines measure p.attrs i cells p.cum 0 0 (1, false) = .ok dl ∧
      (if (!d.body.pageByL.isEmpty && pc) = true then
          Model.Encode.headingRows measure (p.cum.getLast?.getD 0) d.body.pageByL (pick d.cols row d.body.pageByL)
        else pure (1, false)) = .ok pr ∧
      (if (!d.body.sublineByL.isEmpty && sc) = true then
          Model.Encode.headingRows measure (p.cum.getLast?.getD 0) d.body.sublineByL
            (pick d.cols row d.body.sublineByL)
        else pure (1, false)) = .ok sr ∧
      r = { lines := dl.1, pkey := (pick d.cols row d.body.pageByL).map optString,
            skey := (pick d.cols row d.body.sublineByL).map optString, pbRows := pr.1, sbRows := sr.1 } := by
  unfold mkLDoc at h
  dsimp only at h
  peel h as rows hrows
  cases pure_ok h
  have hall := mapM_ok hrows
  intro i r hr
  simp only [List.getElem?_map, Option.map_eq_some_iff] at hr
  obtain ⟨⟨r', n⟩, hrn, rfl⟩ := hr
  obtain ⟨a, ha, hf⟩ := all2_get_right hall i _ hrn
  obtain ⟨⟨⟨cells, pk, sk⟩, pc, sc⟩, j⟩ := a
  clear hall hrows h
  simp only [List.getElem?_zipIdx, Option.map_eq_some_iff, Prod.mk.injEq, Nat.zero_add] at ha
  obtain ⟨_, ha, rfl, rfl⟩ := ha
  obtain ⟨ha1, hch⟩ := List.getElem?_zip_eq_some.mp ha
  obtain ⟨hc, ha2⟩ := List.getElem?_zip_eq_some.mp ha1
  obtain ⟨hpk, hsk⟩ := List.getElem?_zip_eq_some.mp ha2
  obtain ⟨hpc, hsc⟩ := List.getElem?_zip_eq_some.mp hch
  simp only [List.getElem?_map, Option.map_eq_some_iff] at hpk hsk
  obtain ⟨row, hrow, rfl⟩ := hpk
  obtain ⟨row', hrow', rfl⟩ := hsk
  rw [hrow] at hrow'
  cases hrow'
  dsimp only at hf
  peel hf as dl hdl
  split at hf
  · next hb1 =>
    peel hf as pr hpr
    split at hf
    · next hb2 =>
      peel hf as sr hsr
      cases pure_ok hf
      exact ⟨row, cells, pc, sc, dl, pr, sr, hrow, hc, hpc, hsc, hdl, by rw [if_pos hb1]; exact hpr,
        by rw [if_pos hb2]; exact hsr, rfl⟩
    · next hb2 =>
      simp only [pure_bind] at hf
      cases pure_ok hf
      exact ⟨row, cells, pc, sc, dl, pr, (1, false), hrow, hc, hpc, hsc, hdl, by rw [if_pos hb1]; exact hpr,
        by rw [if_neg hb2]; rfl, rfl⟩
  · next hb1 =>
    simp only [pure_bind] at hf
    split at hf
    · next hb2 =>
      peel hf as sr hsr
      cases pure_ok hf
      exact ⟨row, cells, pc, sc, dl, (1, false), sr, hrow, hc, hpc, hsc, hdl, by rw [if_neg hb1]; rfl,
        by rw [if_pos hb2]; exact hsr, rfl⟩
    · next hb2 =>
      cases pure_ok hf
      exact ⟨row, cells, pc, sc, dl, (1, false), (1, false), hrow, hc, hpc, hsc, hdl, by rw [if_neg hb1]; rfl,
        by rw [if_neg hb2]; rfl, rfl⟩

/-! ## `str()` keys -/

/-- the list of `str(value)` of the named columns of one frame row: the key `calculate_row_metadata` compares -/
def strKey (d : Doc) (names : List Str) (row : List (Option Str)) : List String :=
  (pick d.cols row names).map fun v => strOf (optString v)

theorem strOf_optString (v : Option Str) : strOf (optString v) = String.ofList (strOfCell v) := by
  cases v <;> rfl

theorem strKey_eq (d : Doc) (names : List Str) (row : List (Option Str)) :
    strKey d names row = ((pick d.cols row names).map strOfCell).map String.ofList := by
  unfold strKey
  rw [List.map_map]
  apply List.map_congr_left
  intro v _
  exact strOf_optString v

theorem isDivider_optString (c : Option Str) : isDivider (optString c) = (strOfCell c == "-----".toList) := by
  unfold isDivider
  rw [strOf_optString, Bool.eq_iff_iff]
  simp only [beq_iff_eq]
  constructor
  · intro h
    apply ofList_inj
    rw [h]
    decide
  · intro h
    rw [h]
    decide

/-- all values dividers: the heading text is empty -/
theorem headingText_all_dividers (names : List Str) (vals : List (Option Str))
    (h : (vals.map optString).all isDivider = true) : headingText names vals = [] := by
  unfold headingText
  have : ((names.zip vals).filterMap fun (x : Str × Option Str) =>
      if strOfCell x.2 == "-----".toList then none else some (x.1 ++ ": ".toList ++ strOfCell x.2)) = [] := by
    rw [List.filterMap_eq_nil_iff]
    intro x hx
    have hv : x.2 ∈ vals := (List.of_mem_zip hx).2
    have := List.all_eq_true.mp h (optString x.2) (List.mem_map.mpr ⟨x.2, hv, rfl⟩)
    rw [isDivider_optString] at this
    rw [if_pos this]
  dsimp only
  rw [this]
  rfl

theorem headingRows_all_dividers (measure : Measure) (total : Rat) (names : List Str) (vals : List (Option Str))
    (h : (vals.map optString).all isDivider = true) :
    Model.Encode.headingRows measure total names vals = .ok (0, false) := by
  unfold Model.Encode.headingRows
  rw [headingText_all_dividers names vals h]
  rfl

/-! ## `changes` -/

theorem changesFrom_map {α β : Type} [DecidableEq α] [DecidableEq β] (f : α → β)
    (hf : ∀ x y, f x = f y → x = y) : ∀ (prev : α) (ks : List α),
    changesFrom (f prev) (ks.map f) = changesFrom prev ks
  | _, [] => rfl
  | prev, k :: ks => by
    simp only [List.map_cons, changesFrom, changesFrom_map f hf k ks, List.cons.injEq, and_true]
    rw [decide_eq_decide]
    exact ⟨fun h e => h (congrArg f e), fun h e => h (hf _ _ e)⟩

/-- group changes are the same for keys compared through an injective map -/
theorem changes_map {α β : Type} [DecidableEq α] [DecidableEq β] (f : α → β)
    (hf : ∀ x y, f x = f y → x = y) (ks : List α) : changes (ks.map f) = changes ks := by
  cases ks with
  | nil => rfl
  | cons k ks => simp only [List.map_cons, changes, changesFrom_map f hf]

theorem changesFrom_getElem?_zero {α : Type} [DecidableEq α] (prev k : α) (ks : List α) :
    (changesFrom prev (k :: ks))[0]? = some (decide (k ≠ prev)) := rfl

theorem changesFrom_getElem?_succ {α : Type} [DecidableEq α] : ∀ (prev : α) (ks : List α) (i : Nat) (a b : α),
    ks[i]? = some a → ks[i + 1]? = some b → (changesFrom prev ks)[i + 1]? = some (decide (b ≠ a))
  | _, [], _, _, _, h, _ => by simp at h
  | prev, k :: ks, 0, a, b, ha, hb => by
    simp only [List.getElem?_cons_zero, Option.some.injEq] at ha
    subst ha
    simp only [List.getElem?_cons_succ] at hb
    cases ks with
    | nil => simp at hb
    | cons k' ks =>
      simp only [List.getElem?_cons_zero, Option.some.injEq] at hb
      subst hb
      rfl
  | prev, k :: ks, i + 1, a, b, ha, hb => by
    simp only [List.getElem?_cons_succ] at ha hb
    simp only [changesFrom, List.getElem?_cons_succ]
    exact changesFrom_getElem?_succ k ks i a b ha hb

/-- the first row always starts a group -/
theorem changes_getElem?_zero {α : Type} [DecidableEq α] (ks : List α) (h : ks ≠ []) :
    (changes ks)[0]? = some true := by
  cases ks with
  | nil => exact absurd rfl h
  | cons k ks => rfl

/-- a later row starts a group exactly when its key differs from the previous row's -/
theorem changes_getElem?_succ {α : Type} [DecidableEq α] (ks : List α) (i : Nat) (a b : α)
    (ha : ks[i]? = some a) (hb : ks[i + 1]? = some b) : (changes ks)[i + 1]? = some (decide (b ≠ a)) := by
  cases ks with
  | nil => simp at ha
  | cons k ks =>
    simp only [changes, List.getElem?_cons_succ] at hb ⊢
    cases i with
    | zero =>
      simp only [List.getElem?_cons_zero, Option.some.injEq] at ha
      subst ha
      cases ks with
      | nil => simp at hb
      | cons k' ks =>
        simp only [List.getElem?_cons_zero, Option.some.injEq] at hb
        subst hb
        rfl
    | succ i =>
      simp only [List.getElem?_cons_succ] at ha
      exact changesFrom_getElem?_succ k ks i a b ha hb

theorem changesFrom_take {α : Type} [DecidableEq α] : ∀ (prev : α) (ks : List α) (m : Nat),
    changesFrom prev (ks.take m) = (changesFrom prev ks).take m
  | _, _, 0 => by simp [changesFrom]
  | _, [], _ + 1 => by simp [changesFrom]
  | prev, k :: ks, m + 1 => by simp only [List.take_succ_cons, changesFrom, changesFrom_take k ks m]

theorem changes_take {α : Type} [DecidableEq α] (ks : List α) (m : Nat) :
    changes (ks.take m) = (changes ks).take m := by
  cases m with
  | zero => simp [changes]
  | succ m =>
    cases ks with
    | nil => simp [changes]
    | cons k ks => simp only [List.take_succ_cons, changes, changesFrom_take]

/-! ## `mkMeta` by index, and on a prefix -/

open Proofs.PaginateGroups (mkRow metaFrom mkMeta_cons)

theorem mkMeta_getElem? {κ : Type} [DecidableEq κ] (hp hs : Bool) (rows : List (RowIn κ)) (i : Nat) (m : RowMeta) :
    (mkMeta hp hs rows)[i]? = some m ↔
      ∃ r pc sc, rows[i]? = some r ∧ (changes (rows.map (·.pkey)))[i]? = some pc ∧
        (changes (rows.map (·.skey)))[i]? = some sc ∧ m = mkRow hp hs r pc sc := by
  unfold mkMeta
  simp only [List.getElem?_map, Option.map_eq_some_iff]
  constructor
  · rintro ⟨⟨r, pc, sc⟩, hz, rfl⟩
    obtain ⟨h1, h2⟩ := List.getElem?_zip_eq_some.mp hz
    obtain ⟨h3, h4⟩ := List.getElem?_zip_eq_some.mp h2
    exact ⟨r, pc, sc, h1, h3, h4, rfl⟩
  · rintro ⟨r, pc, sc, h1, h3, h4, rfl⟩
    exact ⟨(r, pc, sc), List.getElem?_zip_eq_some.mpr ⟨h1, List.getElem?_zip_eq_some.mpr ⟨h3, h4⟩⟩, rfl⟩

theorem metaFrom_take {κ : Type} [DecidableEq κ] (hp hs : Bool) : ∀ (pp ps : κ) (rows : List (RowIn κ)) (m : Nat),
    metaFrom hp hs pp ps (rows.take m) = (metaFrom hp hs pp ps rows).take m
  | _, _, _, 0 => by simp [metaFrom]
  | _, _, [], _ + 1 => by simp [metaFrom]
  | pp, ps, r :: rs, m + 1 => by simp only [List.take_succ_cons, metaFrom, metaFrom_take hp hs r.pkey r.skey rs m]

/-- the metadata of the first rows does not depend on later rows -/
theorem mkMeta_take {κ : Type} [DecidableEq κ] (hp hs : Bool) (rows : List (RowIn κ)) (m : Nat) :
    mkMeta hp hs (rows.take m) = (mkMeta hp hs rows).take m := by
  cases m with
  | zero => simp [mkMeta, changes]
  | succ m =>
    cases rows with
    | nil => simp [mkMeta, changes]
    | cons r rs => rw [List.take_succ_cons, mkMeta_cons, mkMeta_cons, List.take_succ_cons, metaFrom_take]

/-- the pagination of the first rows does not depend on later rows -/
theorem assignPages_take (nrow additional : Nat) (np : Bool) (rs : List RowMeta) (m : Nat) :
    assignPages nrow additional np (rs.take m) = (assignPages nrow additional np rs).take m := by
  by_cases hm : m ≤ rs.length
  · have h := assignAux_append (availRows nrow additional) np 1 0 false (rs.take m) (rs.drop m)
    rw [List.take_append_drop] at h
    have hl : (assignAux (availRows nrow additional) np 1 0 false (rs.take m)).length = m := by
      rw [assignAux_length, List.length_take]; omega
    simp only [assignPages]
    rw [h, List.take_append_of_le_length (by omega)]
    exact (List.take_of_length_le (by omega)).symm
  · rw [List.take_of_length_le (by omega), List.take_of_length_le]
    simp only [assignPages, assignAux_length]
    omega

/-! ## the row input of `mkMeta` -/

/-- what `LDoc.meta` hands to `mkMeta` for one role-level row -/
def rowIn (r : LRow) : RowIn (List String) :=
  { dataRows := r.lines, pagebyRows := Model.Layout.headingRows r.pkey r.pbRows,
    sublineRows := Model.Layout.headingRows r.skey r.sbRows,
    pkey := r.pkey.map strOf, skey := r.skey.map strOf }

/-- the row metadata input of the encoder's pagination, one entry per frame row -/
def rowIns (ld : LDoc) : List (RowIn (List String)) := ld.rows.map rowIn

theorem meta_eq (ld : LDoc) : ld.meta = mkMeta ld.hasPageBy ld.hasSubline (rowIns ld) := rfl

theorem rowIns_length (ld : LDoc) : (rowIns ld).length = ld.rows.length := by
  unfold rowIns
  rw [List.length_map]

/-- row `i > 0` starts a group of the named columns: its `str()` key differs from row `i - 1`'s; row 0 always does -/
def keyChange (d : Doc) (names : List Str) : Nat → Bool
  | 0 => true
  | i + 1 =>
    match d.rows[i]?, d.rows[i + 1]? with
    | some a, some b => decide (strKey d names b ≠ strKey d names a)
    | _, _ => false

theorem map_ofList_inj (x y : List Str) (h : x.map String.ofList = y.map String.ofList) : x = y :=
  (List.map_inj_right (fun _ _ e => ofList_inj e)).mp h

/-- the change flags `mkLDoc` computes (on character lists) are the change flags of the `str()` keys -/
theorem changes_cellKeys (d : Doc) (names : List Str) :
    changes ((d.rows.map fun r => pick d.cols r names).map fun k => k.map strOfCell) =
      changes (d.rows.map (strKey d names)) := by
  have : d.rows.map (strKey d names) =
      (((d.rows.map fun r => pick d.cols r names).map fun k => k.map strOfCell).map fun k => k.map String.ofList) := by
    simp only [List.map_map]
    apply List.map_congr_left
    intro r _
    simp only [Function.comp_def]
    rw [strKey_eq, List.map_map]
  rw [this, changes_map _ map_ofList_inj]

theorem changes_strKey_getElem? (d : Doc) (names : List Str) (i : Nat) (hi : i < d.rows.length) :
    (changes (d.rows.map (strKey d names)))[i]? = some (keyChange d names i) := by
  cases i with
  | zero =>
    have hne : d.rows.map (strKey d names) ≠ [] := by
      intro h
      have := congrArg List.length h
      simp only [List.length_map, List.length_nil] at this
      omega
    exact (changes_getElem?_zero _ hne).trans rfl
  | succ i =>
    have h1 : d.rows[i]? = some d.rows[i] := List.getElem?_eq_getElem (by omega)
    have h2 : d.rows[i + 1]? = some d.rows[i + 1] := List.getElem?_eq_getElem hi
    rw [changes_getElem?_succ _ i (strKey d names d.rows[i]) (strKey d names d.rows[i + 1])
      (by rw [List.getElem?_map, h1]; rfl) (by rw [List.getElem?_map, h2]; rfl)]
    simp only [keyChange, h1, h2]

/-- what the encoder computes for one frame row before it paginates -/
structure RowInFacts (measure : Measure) (d : Doc) (p : Prep) (i : Nat) (ri : RowIn (List String)) : Prop where
  /-- the data lines are the encoder's line estimate of the displayed cells of row `i` -/
  lines : ∃ row cells nr, d.rows[i]? = some row ∧ p.dispRows[i]? = some cells ∧
    dataLines measure p.attrs i cells p.cum 0 0 (1, false) = .ok (ri.dataRows, nr) ∧ 1 ≤ ri.dataRows ∧
    ri.pkey = strKey d d.body.pageByL row ∧ ri.skey = strKey d d.body.sublineByL row ∧
    -- a row that starts a page_by group: the rows of its heading, measured against the table width
    (((!d.body.pageByL.isEmpty && keyChange d d.body.pageByL i) = true) →
      ∃ nr, Model.Encode.headingRows measure (p.cum.getLast?.getD 0) d.body.pageByL
        (pick d.cols row d.body.pageByL) = .ok (ri.pagebyRows, nr)) ∧
    (((!d.body.sublineByL.isEmpty && keyChange d d.body.sublineByL i) = true) →
      ∃ nr, Model.Encode.headingRows measure (p.cum.getLast?.getD 0) d.body.sublineByL
        (pick d.cols row d.body.sublineByL) = .ok (ri.sublineRows, nr))

theorem layoutHeadingRows_of_ok (measure : Measure) (total : Rat) (names : List Str) (vals : List (Option Str))
    (pr : Nat × Bool) (h : Model.Encode.headingRows measure total names vals = .ok pr) :
    Model.Layout.headingRows (vals.map optString) pr.1 = pr.1 := by
  unfold Model.Layout.headingRows
  split
  · next hd =>
    rw [headingRows_all_dividers measure total names vals hd] at h
    cases h
    rfl
  · rfl

theorem rowIns_facts {measure : Measure} {d : Doc} {p : Prep} {ld : LDoc} {near : Nat}
    (h : mkLDoc measure d p = .ok (ld, near)) (i : Nat) (ri : RowIn (List String))
    (hri : (rowIns ld)[i]? = some ri) : RowInFacts measure d p i ri := by
  unfold rowIns at hri
  rw [List.getElem?_map, Option.map_eq_some_iff] at hri
  obtain ⟨r, hr, rfl⟩ := hri
  obtain ⟨row, cells, pc, sc, dl, pr, sr, h1, h2, h3, h4, h5, h6, h7, rfl⟩ := mkLDoc_rows h i r hr
  have hi : i < d.rows.length := (List.getElem?_eq_some_iff.mp h1).1
  rw [changes_cellKeys, changes_strKey_getElem? d _ i hi] at h3 h4
  cases h3
  cases h4
  refine ⟨row, cells, dl.2, h1, h2, h5, dataLines_ge _ _ _ _ _ _ h5, ?_, ?_, ?_, ?_⟩
  · simp only [rowIn, strKey, List.map_map]; rfl
  · simp only [rowIn, strKey, List.map_map]; rfl
  · intro hb
    rw [if_pos hb] at h6
    exact ⟨pr.2, by rw [h6]; simp only [rowIn]; rw [layoutHeadingRows_of_ok _ _ _ _ _ h6]⟩
  · intro hb
    rw [if_pos hb] at h7
    exact ⟨sr.2, by rw [h7]; simp only [rowIn]; rw [layoutHeadingRows_of_ok _ _ _ _ _ h7]⟩

theorem rowIns_pkeys {measure : Measure} {d : Doc} {p : Prep} {ld : LDoc} {near : Nat}
    (hdisp : p.dispRows.length = d.rows.length) (h : mkLDoc measure d p = .ok (ld, near)) :
    (rowIns ld).map (·.pkey) = d.rows.map (strKey d d.body.pageByL) ∧
    (rowIns ld).map (·.skey) = d.rows.map (strKey d d.body.sublineByL) := by
  have hlen := (mkLDoc_facts hdisp h).length
  constructor <;>
  · apply List.ext_getElem?
    intro i
    by_cases hi : i < d.rows.length
    · have hi' : i < (rowIns ld).length := by rw [rowIns_length, hlen]; exact hi
      obtain ⟨row, _, _, h1, _, _, _, h4, h5, _⟩ := (rowIns_facts h i _ (List.getElem?_eq_getElem hi')).lines
      rw [List.getElem?_map, List.getElem?_map, List.getElem?_eq_getElem hi', h1]
      simp only [Option.map_some, h4, h5]
    · rw [List.getElem?_eq_none (by simp only [List.length_map, rowIns_length, hlen]; omega),
        List.getElem?_eq_none (by simp only [List.length_map]; omega)]

/-! ## prefix stability of the attribute reads -/

theorem repeatList_nil {α : Type} (n : Nat) : repeatList ([] : List α) n = [] := by
  induction n with
  | zero => rfl
  | succ n ih => simp [repeatList, ih]

/-- `to_list()` for fewer rows is the prefix of `to_list()` for more rows -/
theorem toList_take {α : Type} (m : Mat α) (rows rows' cols : Nat) (h : rows' ≤ rows) :
    m.toList rows' cols = (m.toList rows cols).take rows' := by
  by_cases hne : m = []
  · subst hne
    simp [Mat.toList, repeatList_nil]
  · apply List.ext_getElem?
    intro r
    rw [List.getElem?_take]
    by_cases hr : r < rows'
    · rw [if_pos hr]
      obtain ⟨row0, hrow, _⟩ := Proofs.BroadcastAttr.row_exists m hne r
      rw [Proofs.BroadcastAttr.toList_getElem? m rows' cols r hne hr row0 hrow,
        Proofs.BroadcastAttr.toList_getElem? m rows cols r hne (by omega) row0 hrow]
    · rw [if_neg hr, List.getElem?_eq_none]
      rw [Proofs.BroadcastAttr.toList_length m rows' cols hne]
      omega

theorem expandSlice_take {α : Type} (m : Mat α) (rows rows' cols : Nat) (removed : List Nat) (h : rows' ≤ rows) :
    m.expandSlice rows' cols removed = (m.expandSlice rows cols removed).take rows' := by
  unfold Mat.expandSlice
  rw [toList_take m rows rows' cols h, List.map_take]

theorem ncols_take {α : Type} (X : Mat α) (n : Nat) (hn : 0 < n) : Mat.ncols (X.take n) = X.ncols := by
  unfold Mat.ncols
  rw [List.head?_take, if_neg (by omega)]

theorem iloc_take {α : Type} (X : Mat α) (n r c : Nat) (hr : r < n) (hn : n ≤ X.length) :
    Mat.iloc (X.take n) r c = X.iloc r c := by
  unfold Mat.iloc
  have hl : (X.take n).length = n := by rw [List.length_take]; omega
  rw [hl, ncols_take X n (by omega), Nat.mod_eq_of_lt hr, Nat.mod_eq_of_lt (show r < X.length by omega),
    List.getElem?_take, if_pos hr, if_neg (by omega), if_neg (by omega)]

theorem ilocV_take (X : Mat Val) (n r c : Nat) (hr : r < n) (hn : n ≤ X.length) :
    ilocV (some (X.take n)) r c = ilocV (some X) r c := by
  unfold ilocV
  have hl : (X.take n).length = n := by rw [List.length_take]; omega
  simp only [hl, ncols_take X n (by omega), iloc_take X n r c hr hn]
  have h1 : (n = 0) = False := eq_false (by omega)
  have h2 : (X.length = 0) = False := eq_false (by omega)
  simp only [h1, h2]

theorem ilocV_expandSlice_prefix (m : Mat Val) (rows rows' cols : Nat) (removed : List Nat) (r c : Nat)
    (hr : r < rows') (h : rows' ≤ rows) :
    ilocV (some (m.expandSlice rows' cols removed)) r c = ilocV (some (m.expandSlice rows cols removed)) r c := by
  rw [expandSlice_take m rows rows' cols removed h]
  by_cases hne : m = []
  · subst hne
    simp [Mat.expandSlice, Mat.toList, repeatList_nil]
  · exact ilocV_take _ rows' r c hr
      (by rw [Proofs.BroadcastAttr.expandSlice_length m rows cols removed hne]; exact h)

open Proofs.EncodeAttrs (Field processed_get) in
/-- what `_encode` / `calculate_row_metadata` read of the processed attributes at a row of the prefix does not depend on
the number of frame rows -/
theorem ilocV_processed_prefix (A : TblAttrsOf MatV) (rows rows' ncols : Nat) (removed : List Nat) (f : Field)
    (r c : Nat) (hr : r < rows') (h : rows' ≤ rows) :
    ilocV (f.get (processedAttrs A rows' ncols removed)) r c =
      ilocV (f.get (processedAttrs A rows ncols removed)) r c := by
  rw [processed_get, processed_get]
  split
  · rfl
  · cases f.get A with
    | none => rfl
    | some m => exact ilocV_expandSlice_prefix m rows rows' ncols removed r c hr h

/-- the line estimate of a row depends on the attribute record only through the font sizes and fonts read at that row -/
theorem dataLines_congr (measure : Measure) (A A' : TblAttrsOf MatV) (r : Nat)
    (h1 : ∀ k, ilocV A.size r k = ilocV A'.size r k) (h2 : ∀ k, ilocV A.font r k = ilocV A'.font r k) :
    ∀ (cells : List (Option Str)) (cum : List Rat) (k : Nat) (prev : Rat) (acc : Nat × Bool),
      dataLines measure A r cells cum k prev acc = dataLines measure A' r cells cum k prev acc
  | [], _, _, _, _ => by simp only [dataLines]
  | _ :: _, [], _, _, _ => by simp only [dataLines]
  | cell :: cells, c :: cum, k, prev, acc => by
    rw [dataLines, dataLines, h1 k, h2 k]
    simp only [dataLines_congr measure A A' r h1 h2 cells cum]

/-! ## a document cut after `m` frame rows -/

/-- the document with the same components whose frame is cut after `m` rows -/
def takeRows (d : Doc) (m : Nat) : Doc := { d with rows := d.rows.take m }

theorem prepare_full {d : Doc} {p : Prep} (h : prepare d = .ok p) :
    ∃ A removed, d.body.attrs.mapM Attr.toNested = .ok A ∧ removedIdx d = .ok removed ∧
      p.dispRows = d.rows.map (fun r => dropCols r removed) ∧
      p.attrs = processedAttrs A d.rows.length d.cols.length removed ∧
      p.cum = Model.Widths.bodyCum (d.body.colRelWidth.getD []) (keepMask d.cols.length removed) d.page.colWidth := by
  unfold prepare at h
  peel h as A hA
  peel h as removed hr
  dsimp only at h
  have h := ite_throw_ok h
  cases pure_ok h
  exact ⟨A, removed, hA, hr, rfl, rfl, rfl⟩

/-- the role-level rows of the cut document are the first role-level rows of the document: line estimates, keys and
heading rows of a row do not depend on later rows -/
theorem ldRows_take {measure : Measure} {d : Doc} {m : Nat} {p p' : Prep} {ld ld' : LDoc} {near near' : Nat}
    (hp : prepare d = .ok p) (hp' : prepare (takeRows d m) = .ok p')
    (h : mkLDoc measure d p = .ok (ld, near)) (h' : mkLDoc measure (takeRows d m) p' = .ok (ld', near')) :
    ld'.rows = ld.rows.take m := by
  have hlen := (mkLDoc_facts (prepare_dispRows_length hp) h).length
  have hlen' := (mkLDoc_facts (prepare_dispRows_length hp') h').length
  have hrows' : (takeRows d m).rows = d.rows.take m := rfl
  obtain ⟨A, removed, hA, hrem, hdisp, hattrs, hcum⟩ := prepare_full hp
  obtain ⟨A', removed', hA', hrem', hdisp', hattrs', hcum'⟩ := prepare_full hp'
  have e1 : (takeRows d m).body = d.body := rfl
  have e2 : (takeRows d m).cols = d.cols := rfl
  have e3 : removedIdx (takeRows d m) = removedIdx d := rfl
  rw [e1] at hA'
  rw [e3] at hrem'
  rw [hA] at hA'
  rw [hrem] at hrem'
  cases hA'
  cases hrem'
  have ecum : p'.cum = p.cum := by rw [hcum, hcum']; rfl
  apply List.ext_getElem?
  intro i
  rw [List.getElem?_take]
  by_cases hi : i < ld'.rows.length
  · have hi1 : i < (d.rows.take m).length := by rw [← hrows', ← hlen']; exact hi
    have him : i < m := by rw [List.length_take] at hi1; omega
    have hin : i < d.rows.length := by rw [List.length_take] at hi1; omega
    rw [if_pos him]
    have hr' : ld'.rows[i]? = some ld'.rows[i] := List.getElem?_eq_getElem hi
    have hr : ld.rows[i]? = some ld.rows[i] := List.getElem?_eq_getElem (by rw [hlen]; exact hin)
    obtain ⟨row', cells', pc', sc', dl', pr', sr', a1, a2, a3, a4, a5, a6, a7, a8⟩ := mkLDoc_rows h' i _ hr'
    obtain ⟨row, cells, pc, sc, dl, pr, sr, b1, b2, b3, b4, b5, b6, b7, b8⟩ := mkLDoc_rows h i _ hr
    rw [hr', hr, a8, b8]
    rw [e1, e2] at a3 a4 a6 a7
    rw [hrows', List.getElem?_take, if_pos him, b1] at a1
    cases a1
    rw [hdisp', hrows', List.map_take, List.getElem?_take, if_pos him, ← hdisp, b2] at a2
    cases a2
    rw [hrows', List.map_take, List.map_take, changes_take, List.getElem?_take, if_pos him, b3] at a3
    rw [hrows', List.map_take, List.map_take, changes_take, List.getElem?_take, if_pos him, b4] at a4
    cases a3
    cases a4
    rw [ecum, b6] at a6
    rw [ecum, b7] at a7
    cases a6
    cases a7
    have hdl : dataLines measure p'.attrs i cells' p'.cum 0 0 (1, false) =
        dataLines measure p.attrs i cells' p.cum 0 0 (1, false) := by
      rw [ecum, hattrs, hattrs', e2]
      apply dataLines_congr
      · intro k
        exact ilocV_processed_prefix A _ _ _ removed .size i k hi1 (by rw [hrows', List.length_take]; omega)
      · intro k
        exact ilocV_processed_prefix A _ _ _ removed .font i k hi1 (by rw [hrows', List.length_take]; omega)
    rw [hdl, b5] at a5
    cases a5
    rw [e1, e2]
  · have hi1 : ¬ i < (d.rows.take m).length := by rw [← hrows', ← hlen']; exact hi
    rw [List.getElem?_eq_none (by omega)]
    rw [List.length_take] at hi1
    split
    · rw [List.getElem?_eq_none (by rw [hlen]; omega)]
    · rfl

end Proofs.EncodePages
