import Model.Assemble
/-! Helper lemmas for C17 (`assemble_rtf`). Core Lean only. -/
namespace Proofs.Assemble
open Model.Assemble

deriving instance DecidableEq for Except

/-! ## the font-table scan -/

theorem scanFont_some (font rest : File) (hf : ∀ l ∈ font, hasFc l = true)
    (hr : rest = [] ∨ ∃ c r, rest = c :: r ∧ hasFc c = false) :
    ∀ (i k : Nat), scanFont i (some k) (font ++ rest) =
      some (match font with | [] => k | _ :: _ => i + font.length - 1) := by
  induction font with
  | nil =>
    intro i k
    rcases hr with rfl | ⟨c, r, rfl, hc⟩
    · simp [scanFont]
    · simp [scanFont, hc]
  | cons l font ih =>
    intro i k
    have hl : hasFc l = true := hf l (by simp)
    have ih' := ih (fun x hx => hf x (by simp [hx])) (i + 1) i
    simp only [List.cons_append, scanFont, hl, if_true]
    rw [ih']
    cases font with
    | nil => simp
    | cons a b => simp; omega

theorem scanFont_none_pre (pre xs : File) (hp : ∀ l ∈ pre, hasFc l = false) :
    ∀ i, scanFont i none (pre ++ xs) = scanFont (i + pre.length) none xs := by
  induction pre with
  | nil => intro i; simp
  | cons l pre ih =>
    intro i
    have hl : hasFc l = false := hp l (by simp)
    simp only [List.cons_append, scanFont, hl, Bool.false_eq_true, if_false]
    rw [ih (fun x hx => hp x (by simp [hx]))]
    simp; congr 1; omega

theorem scanFont_none_all (xs : File) (hp : ∀ l ∈ xs, hasFc l = false) :
    ∀ i, scanFont i none xs = none := by
  induction xs with
  | nil => intro i; simp [scanFont]
  | cons l xs ih =>
    intro i
    have hl : hasFc l = false := hp l (by simp)
    simp only [scanFont, hl, Bool.false_eq_true, if_false]
    exact ih (fun x hx => hp x (by simp [hx])) _

/-- the conditions of `Shaped.ok`, unpacked -/
structure Ok (s : Shaped) : Prop where
  pre : ∀ l ∈ s.pre, hasFc l = false
  fontNe : s.font ≠ []
  font : ∀ l ∈ s.font, hasFc l = true
  close : hasFc s.close = false
  last : stripsToBrace s.last = true

theorem ok_iff (s : Shaped) : s.ok = true ↔ Ok s := by
  constructor
  · intro h
    simp only [Shaped.ok, Bool.and_eq_true, List.all_eq_true, Bool.not_eq_true'] at h
    obtain ⟨⟨⟨⟨h1, h2⟩, h3⟩, h4⟩, h5⟩ := h
    exact ⟨h1, by simpa using h2, h3, h4, h5⟩
  · intro h
    simp only [Shaped.ok, Bool.and_eq_true, List.all_eq_true, Bool.not_eq_true']
    refine ⟨⟨⟨⟨h.pre, ?_⟩, h.font⟩, h.close⟩, h.last⟩
    simpa using h.fontNe

theorem allOk_iff {ss : List Shaped} : (∀ t ∈ ss, t.ok = true) ↔ ∀ t ∈ ss, Ok t :=
  ⟨fun h t ht => (ok_iff t).mp (h t ht), fun h t ht => (ok_iff t).mpr (h t ht)⟩

theorem scanFont_shaped (s : Shaped) (h : Ok s) :
    scanFont 0 none s.file = some (s.pre.length + s.font.length - 1) := by
  have hfile : s.file = s.pre ++ (s.font ++ (s.close :: s.mid ++ [s.last])) := by
    simp [Shaped.file, List.append_assoc]
  rw [hfile, scanFont_none_pre _ _ h.pre]
  obtain ⟨l, font', hfont⟩ := List.exists_cons_of_ne_nil h.fontNe
  have hl : hasFc l = true := h.font l (by simp [hfont])
  rw [hfont]
  simp only [List.cons_append, scanFont, hl, if_true, Nat.zero_add]
  rw [scanFont_some font' _ (fun x hx => h.font x (by simp [hfont, hx]))
    (Or.inr ⟨s.close, _, rfl, h.close⟩)]
  cases font' with
  | nil => simp
  | cons a b => simp; omega

theorem getD_at (a : File) (c : Line) (b : File) (n : Nat) (hn : n = a.length) :
    (a ++ c :: b).getD n [] = c := by
  subst hn
  simp [List.getD_eq_getElem?_getD]

theorem findBodyStart_shaped (s : Shaped) (h : Ok s) :
    findBodyStart s.file = (s.pre.length + s.font.length + 1, leftoverOf s.close) := by
  have hpos : 0 < s.font.length := List.length_pos_iff.mpr h.fontNe
  have hlen : s.file.length = s.pre.length + s.font.length + 1 + s.mid.length + 1 := by
    simp [Shaped.file]; omega
  have hget : s.file.getD (s.pre.length + s.font.length - 1 + 1) [] = s.close := by
    have : s.file = (s.pre ++ s.font) ++ s.close :: (s.mid ++ [s.last]) := by
      simp [Shaped.file, List.append_assoc]
    rw [this]
    apply getD_at
    simp; omega
  simp only [findBodyStart, scanFont_shaped s h]
  rw [hget, if_pos (by rw [hlen]; omega)]
  congr 1; omega

/-! ## slices -/

theorem slice_zero_length {α} (l : List α) : slice l 0 l.length = l := by
  simp [slice]

theorem slice_init {α} (a : List α) (x : α) : slice (a ++ [x]) 0 ((a ++ [x]).length - 1) = a := by
  simp [slice]

theorem slice_from {α} (a b : List α) (n e : Nat) (hn : n = a.length) (he : e = (a ++ b).length) :
    slice (a ++ b) n e = b := by
  subst hn he
  rw [slice, List.take_of_length_le (Nat.le_refl _), List.drop_left]

theorem slice_from_init {α} (a b : List α) (x : α) (n e : Nat) (hn : n = a.length)
    (he : e = (a ++ (b ++ [x])).length - 1) :
    slice (a ++ (b ++ [x])) n e = b := by
  subst hn he
  have : (a ++ (b ++ [x])).length - 1 = (a ++ b).length := by simp
  rw [this, ← List.append_assoc, slice, List.take_left']
  · simp
  · rfl

/-! ## one loop iteration on shaped inputs -/

theorem file_eq_init (s : Shaped) : s.file = s.init ++ [s.last] := by
  simp [Shaped.file, Shaped.init, List.append_assoc]

theorem part_first_last (f : File) : part true true f = .ok f := by
  simp [part, slice_zero_length, pure, Except.pure]

theorem part_first_mid (s : Shaped) (h : Ok s) :
    part true false s.file = .ok (s.init ++ [pageCmd]) := by
  rw [file_eq_init]
  simp only [part, if_true, Bool.false_eq_true, if_false, List.getLast?_append, List.getLast?_singleton,
    Option.some_or, h.last, List.nil_append]
  rw [slice_init]
  rfl

theorem file_split (s : Shaped) :
    s.file = (s.pre ++ s.font ++ [s.close]) ++ (s.mid ++ [s.last]) := by
  simp [Shaped.file, List.append_assoc]

theorem part_later_last (s : Shaped) (h : Ok s) :
    part false true s.file = .ok (s.body ++ [s.last]) := by
  simp only [part, Bool.false_eq_true, if_false, if_true, findBodyStart_shaped s h]
  rw [file_split, slice_from _ _ _ _ (by simp; omega) rfl]
  simp [Shaped.body, pure, Except.pure, List.append_assoc]

theorem part_later_mid (s : Shaped) (h : Ok s) :
    part false false s.file = .ok (s.body ++ [pageCmd]) := by
  have hl : s.file.getLast? = some s.last := by rw [file_eq_init]; simp
  simp only [part, Bool.false_eq_true, if_false, findBodyStart_shaped s h, hl, h.last, if_true]
  rw [file_split, slice_from_init _ _ _ _ _ (by simp; omega) rfl]
  simp [Shaped.body, pure, Except.pure, List.append_assoc]

/-! ## the whole loop -/

theorem lastOf_mem (s : Shaped) (rest : List Shaped) : lastOf s rest ∈ s :: rest := by
  induction rest generalizing s with
  | nil => simp [lastOf]
  | cons t rest ih =>
    have := ih t
    simp only [lastOf]
    exact List.mem_cons_of_mem _ this

theorem assembleAux_later (t : Shaped) (rest : List Shaped) (h : ∀ s ∈ t :: rest, Ok s) :
    assembleAux false ((t :: rest).map Shaped.file) =
      .ok (t.body ++ tailLines rest ++ [(lastOf t rest).last]) := by
  induction rest generalizing t with
  | nil =>
    simp only [List.map_cons, List.map_nil, assembleAux, tailLines, List.flatMap_nil, List.append_nil,
      lastOf]
    exact part_later_last t (h t (by simp))
  | cons u rest ih =>
    have hu := ih u (fun s hs => h s (List.mem_cons_of_mem _ hs))
    simp only [List.map_cons] at hu ⊢
    simp only [assembleAux, part_later_mid t (h t (by simp)), hu]
    simp [tailLines, lastOf, List.append_assoc]

theorem assembleLines_shaped (s : Shaped) (rest : List Shaped) (h : ∀ t ∈ s :: rest, Ok t) :
    assembleLines ((s :: rest).map Shaped.file) = .ok (expected (s :: rest)) := by
  cases rest with
  | nil =>
    simp only [assembleLines, List.map_cons, List.map_nil, assembleAux, part_first_last, expected,
      tailLines, List.flatMap_nil, List.append_nil, lastOf]
    rw [file_eq_init]
  | cons t rest =>
    have ht := assembleAux_later t rest (fun x hx => h x (List.mem_cons_of_mem _ hx))
    simp only [List.map_cons] at ht
    simp only [assembleLines, List.map_cons, assembleAux, part_first_mid s (h s (by simp)), ht]
    simp [expected, tailLines, lastOf, List.append_assoc]

/-! ## brace structure -/

theorem runB_append (s : BState) (a b : List Char) : runB s (a ++ b) = runB (runB s a) b := by
  simp [runB, List.foldl_append]

theorem inside_append (s : BState) (a b : List Char) :
    inside s (a ++ b) = (inside s a && inside (runB s a) b) := by
  induction a generalizing s with
  | nil => simp [inside, runB]
  | cons c a ih => simp [inside, runB, ih, Bool.and_assoc]

theorem space_not_special (c : Char) (h : isPySpace c = true) : c ≠ '\\' ∧ c ≠ '{' ∧ c ≠ '}' := by
  refine ⟨?_, ?_, ?_⟩ <;> (intro hc; subst hc; exact absurd h (by decide))

theorem bstep_space (s : BState) (c : Char) (hs : s.esc = false) (h : isPySpace c = true) :
    bstep s c = s := by
  obtain ⟨h1, h2, h3⟩ := space_not_special c h
  cases s with
  | mk d e =>
    simp only at hs
    subst hs
    simp [bstep, h1, h2, h3]

theorem runB_blank (s : BState) (ws : List Char) (hs : s.esc = false)
    (h : ∀ c ∈ ws, isPySpace c = true) : runB s ws = s := by
  induction ws with
  | nil => rfl
  | cons c ws ih =>
    have hc := bstep_space s c hs (h c (by simp))
    simp only [runB, List.foldl_cons, hc]
    exact ih (fun x hx => h x (by simp [hx]))

theorem inside_blank (s : BState) (ws : List Char) (hs : s.esc = false) (hd : 1 ≤ s.depth)
    (h : ∀ c ∈ ws, isPySpace c = true) : inside s ws = true := by
  induction ws with
  | nil => rfl
  | cons c ws ih =>
    have hc := bstep_space s c hs (h c (by simp))
    simp only [inside, hc, hd, decide_true, Bool.true_and]
    exact ih (fun x hx => h x (by simp [hx]))

theorem dropWhile_fix {α} (p : α → Bool) (l : List α) (h : ∀ a ∈ l.dropWhile p, p a = true) :
    l.dropWhile p = [] := by
  induction l with
  | nil => rfl
  | cons a l ih =>
    by_cases ha : p a = true
    · simp only [List.dropWhile_cons_of_pos ha] at h ⊢
      exact ih h
    · have hd : (a :: l).dropWhile p = a :: l := List.dropWhile_cons_of_neg ha
      rw [hd] at h
      exact absurd (h a (by simp)) ha

theorem dropWhile_nil_iff {α} (p : α → Bool) (l : List α) :
    l.dropWhile p = [] ↔ ∀ a ∈ l, p a = true := by
  induction l with
  | nil => simp
  | cons a l ih =>
    by_cases ha : p a = true
    · rw [List.dropWhile_cons_of_pos ha, ih]; simp [ha]
    · rw [List.dropWhile_cons_of_neg ha]; simp [ha]

theorem strip_nil (l : Line) (h : strip l = []) : ∀ c ∈ l, isPySpace c = true := by
  simp only [strip, rstrip, lstrip, List.reverse_eq_nil_iff] at h
  rw [dropWhile_nil_iff] at h
  have := dropWhile_fix isPySpace l (fun a ha => h a (by simpa using ha))
  exact (dropWhile_nil_iff _ _).mp this

theorem mem_takeWhile {α} (p : α → Bool) (l : List α) (a : α) (h : a ∈ l.takeWhile p) :
    p a = true := by
  induction l with
  | nil => simp at h
  | cons b l ih =>
    by_cases hb : p b = true
    · rw [List.takeWhile_cons_of_pos hb] at h
      rcases List.mem_cons.mp h with rfl | h
      · exact hb
      · exact ih h
    · rw [List.takeWhile_cons_of_neg hb] at h; simp at h

/-- a line that strips to `}` is white space, `}`, white space -/
theorem strips_form (l : Line) (h : stripsToBrace l = true) :
    ∃ a b, l = a ++ '}' :: b ∧ (∀ c ∈ a, isPySpace c = true) ∧ (∀ c ∈ b, isPySpace c = true) := by
  simp only [stripsToBrace, strip, rstrip, lstrip, beq_iff_eq] at h
  have h' : (l.dropWhile isPySpace).reverse.dropWhile isPySpace = ['}'] := by
    have := congrArg List.reverse h
    simpa using this
  have hd : (l.dropWhile isPySpace).reverse =
      (l.dropWhile isPySpace).reverse.takeWhile isPySpace ++ ['}'] := by
    conv => lhs; rw [← List.takeWhile_append_dropWhile (p := isPySpace)
      (l := (l.dropWhile isPySpace).reverse)]
    rw [h']
  have hd2 : l.dropWhile isPySpace =
      '}' :: ((l.dropWhile isPySpace).reverse.takeWhile isPySpace).reverse := by
    have := congrArg List.reverse hd
    simpa using this
  refine ⟨l.takeWhile isPySpace, ((l.dropWhile isPySpace).reverse.takeWhile isPySpace).reverse,
    ?_, ?_, ?_⟩
  · rw [← hd2, List.takeWhile_append_dropWhile]
  · intro c hc; exact mem_takeWhile _ _ _ hc
  · intro c hc
    rw [List.mem_reverse] at hc
    exact mem_takeWhile _ _ _ hc

theorem upto_after (l : Line) : uptoFirstBrace l ++ afterFirstBrace l = l := by
  induction l with
  | nil => rfl
  | cons c cs ih =>
    by_cases hc : c = '}'
    · simp [uptoFirstBrace, afterFirstBrace, hc]
    · simp [uptoFirstBrace, afterFirstBrace, hc, ih]

theorem page_run : runB s1 pageCmd = s1 := by decide
theorem page_inside : inside s1 pageCmd = true := by decide

/-- `wellFormedDoc` of a file given as `init ++ [last]` -/
theorem wellFormed_snoc (init : File) (last : Line) :
    wellFormedDoc (init ++ [last]) = true ↔
      stripsToBrace last = true ∧ inside s0 init.flatten = true ∧ runB s0 init.flatten = s1 := by
  simp [wellFormedDoc, and_assoc]

/-- the part of an input after the first that is copied is balanced on its own, at depth 1 -/
theorem body_balanced (s : Shaped) (hb : s.headBalanced = true) (hw : wellFormedDoc s.file = true) :
    inside s1 s.body.flatten = true ∧ runB s1 s.body.flatten = s1 := by
  rw [file_eq_init, wellFormed_snoc] at hw
  obtain ⟨_, hin, hrun⟩ := hw
  have hhead : runB s0 s.headChars = s1 := by simpa [Shaped.headBalanced] using hb
  have hinit : s.init.flatten = s.headChars ++ (afterFirstBrace s.close ++ s.mid.flatten) := by
    simp only [Shaped.init, Shaped.headChars, List.flatten_append, List.flatten_cons,
      List.append_assoc]
    congr 2
    rw [← List.append_assoc, upto_after]
  rw [hinit, inside_append, hhead] at hin
  rw [hinit, runB_append, hhead] at hrun
  simp only [Bool.and_eq_true] at hin
  have hin := hin.2
  by_cases hs : strip (afterFirstBrace s.close) = []
  · have hws := strip_nil _ hs
    have hbody : s.body.flatten = s.mid.flatten := by simp [Shaped.body, leftoverOf, hs]
    rw [inside_append, runB_blank s1 _ rfl hws] at hin
    rw [runB_append, runB_blank s1 _ rfl hws] at hrun
    simp only [Bool.and_eq_true] at hin
    rw [hbody]
    exact ⟨hin.2, hrun⟩
  · have hbody : s.body.flatten = afterFirstBrace s.close ++ s.mid.flatten := by
      simp [Shaped.body, leftoverOf, hs]
    rw [hbody]
    exact ⟨hin, hrun⟩

theorem tail_balanced (rest : List Shaped)
    (h : ∀ t ∈ rest, t.headBalanced = true ∧ wellFormedDoc t.file = true) :
    inside s1 (tailLines rest).flatten = true ∧ runB s1 (tailLines rest).flatten = s1 := by
  induction rest with
  | nil => exact ⟨rfl, rfl⟩
  | cons t rest ih =>
    obtain ⟨hi, hr⟩ := ih (fun x hx => h x (by simp [hx]))
    obtain ⟨hbi, hbr⟩ := body_balanced t (h t (by simp)).1 (h t (by simp)).2
    have hfl : (tailLines (t :: rest)).flatten =
        pageCmd ++ (t.body.flatten ++ (tailLines rest).flatten) := by
      simp [tailLines, List.flatten_append]
    rw [hfl]
    refine ⟨?_, ?_⟩
    · rw [inside_append, page_inside, page_run, inside_append, hbi, hbr, hi]; rfl
    · rw [runB_append, page_run, runB_append, hbr, hr]

theorem expected_wellFormed (s : Shaped) (rest : List Shaped)
    (hok : ∀ t ∈ s :: rest, Ok t) (hw : wellFormedDoc s.file = true)
    (h : ∀ t ∈ rest, t.headBalanced = true ∧ wellFormedDoc t.file = true) :
    wellFormedDoc (expected (s :: rest)) = true := by
  rw [file_eq_init, wellFormed_snoc] at hw
  obtain ⟨_, hin, hrun⟩ := hw
  obtain ⟨hti, htr⟩ := tail_balanced rest h
  simp only [expected]
  rw [wellFormed_snoc]
  refine ⟨(hok _ (lastOf_mem s rest)).last, ?_, ?_⟩
  · rw [List.flatten_append, inside_append, hin, hrun, hti]; rfl
  · rw [List.flatten_append, runB_append, hrun, htr]

/-- sanity of the definition: a well-formed document starts with `{` and ends at depth 0 -/
theorem wellFormed_total (f : File) (h : wellFormedDoc f = true) :
    runB s0 f.flatten = s0 ∧ f.flatten.head? = some '{' := by
  cases hl : f.getLast? with
  | none => simp [wellFormedDoc, hl] at h
  | some last =>
    obtain ⟨init, hf⟩ := List.getLast?_eq_some_iff.mp hl
    rw [hf, wellFormed_snoc] at h
    obtain ⟨hlast, hin, hrun⟩ := h
    obtain ⟨a, b, rfl, ha, hb⟩ := strips_form last hlast
    constructor
    · rw [hf, List.flatten_append, runB_append, hrun]
      simp only [List.flatten_cons, List.flatten_nil, List.append_nil]
      rw [runB_append, runB_blank s1 a rfl ha]
      show runB (bstep s1 '}') b = s0
      exact runB_blank _ b rfl hb
    · cases hi : init.flatten with
      | nil => rw [hi] at hrun; exact absurd hrun (by decide)
      | cons c cs =>
        rw [hi] at hin
        simp only [inside, Bool.and_eq_true, decide_eq_true_eq] at hin
        have hc : c = '{' := by
          have h1 := hin.1
          simp only [bstep, s0] at h1
          by_cases c1 : c = '\\'
          · simp [c1] at h1
          · by_cases c2 : c = '{'
            · exact c2
            · by_cases c3 : c = '}'
              · simp [c3] at h1
              · simp [c1, c2, c3] at h1
        rw [hf, List.flatten_append, hi, hc]
        rfl

/-! ## `decompose` is the cut the theorems talk about -/

theorem decompose_some (f : File) (s : Shaped) (h : decompose f = some s) :
    s.file = f ∧ s.ok = true := by
  unfold decompose at h
  simp only at h
  split at h
  · simp at h
  · rename_i close r2 hdw
    split at h
    · simp at h
    · rename_i last hl
      split at h
      · rename_i hok
        injection h with h
        subst h
        refine ⟨?_, hok⟩
        obtain ⟨m, hm⟩ := List.getLast?_eq_some_iff.mp hl
        have h1 : f = f.takeWhile (fun l => !hasFc l) ++ f.dropWhile (fun l => !hasFc l) :=
          (List.takeWhile_append_dropWhile).symm
        have h2 : f.dropWhile (fun l => !hasFc l) =
            (f.dropWhile (fun l => !hasFc l)).takeWhile hasFc ++ close :: r2 := by
          rw [← hdw, List.takeWhile_append_dropWhile]
        simp only [Shaped.file]
        rw [hm, List.dropLast_concat]
        conv => rhs; rw [h1, h2, hm]
        simp [List.append_assoc]
      · simp at h

theorem decompose_file (s : Shaped) (h : Ok s) : decompose s.file = some s := by
  obtain ⟨l, font', hfont⟩ := List.exists_cons_of_ne_nil h.fontNe
  have hl : hasFc l = true := h.font l (by simp [hfont])
  have hfile : s.file = s.pre ++ (s.font ++ (s.close :: (s.mid ++ [s.last]))) := by
    simp [Shaped.file, List.append_assoc]
  have hpre : ∀ a ∈ s.pre, (fun l => !hasFc l) a = true := by
    intro a ha; simp [h.pre a ha]
  have hneg : ¬ (fun l => !hasFc l) l = true := by simp [hl]
  have t1 : s.file.takeWhile (fun l => !hasFc l) = s.pre := by
    rw [hfile, List.takeWhile_append_of_pos hpre, hfont, List.cons_append,
      List.takeWhile_cons_of_neg (p := fun l => !hasFc l) hneg, List.append_nil]
  have d1 : s.file.dropWhile (fun l => !hasFc l) = s.font ++ (s.close :: (s.mid ++ [s.last])) := by
    rw [hfile, List.dropWhile_append_of_pos hpre, hfont, List.cons_append,
      List.dropWhile_cons_of_neg (p := fun l => !hasFc l) hneg]
  have hc : ¬ hasFc s.close = true := by simp [h.close]
  have t2 : (s.font ++ (s.close :: (s.mid ++ [s.last]))).takeWhile hasFc = s.font := by
    rw [List.takeWhile_append_of_pos h.font, List.takeWhile_cons_of_neg hc, List.append_nil]
  have d2 : (s.font ++ (s.close :: (s.mid ++ [s.last]))).dropWhile hasFc =
      s.close :: (s.mid ++ [s.last]) := by
    rw [List.dropWhile_append_of_pos h.font, List.dropWhile_cons_of_neg hc]
  unfold decompose
  simp only [t1, d1, t2, d2, List.getLast?_append, List.getLast?_singleton, Option.some_or,
    List.dropLast_concat]
  rw [if_pos ((ok_iff _).mpr h)]

/-! ## each later input sits in the output as one block, right after a `\page` line -/

theorem tailLines_append (a b : List Shaped) : tailLines (a ++ b) = tailLines a ++ tailLines b := by
  simp [tailLines, List.flatMap_append]

theorem lastOf_append_cons (s : Shaped) (r1 : List Shaped) (t : Shaped) (r2 : List Shaped) :
    lastOf s (r1 ++ t :: r2) = lastOf t r2 := by
  induction r1 generalizing s with
  | nil => rfl
  | cons a r1 ih => exact ih a

theorem expected_split (s : Shaped) (r1 : List Shaped) (t : Shaped) (r2 : List Shaped) :
    expected (s :: (r1 ++ t :: r2)) =
      (s.init ++ tailLines r1) ++ (pageCmd :: t.body) ++ (tailLines r2 ++ [(lastOf t r2).last]) := by
  simp only [expected, tailLines_append, lastOf_append_cons]
  simp [tailLines, List.append_assoc]

/-! ## closure: the output has the input shape again -/

theorem assembled_file (s : Shaped) (rest : List Shaped) :
    (assembled s rest).file = expected (s :: rest) := by
  simp [assembled, Shaped.file, expected, Shaped.init, List.append_assoc]

theorem assembled_ok (s : Shaped) (rest : List Shaped) (h : ∀ t ∈ s :: rest, Ok t) :
    Ok (assembled s rest) := by
  have hs := h s (by simp)
  exact ⟨hs.pre, hs.fontNe, hs.font, hs.close, (h _ (lastOf_mem s rest)).last⟩

theorem expected_nested (s : Shaped) (rest more : List Shaped) :
    expected (assembled s rest :: more) = expected (s :: (rest ++ more)) := by
  have hl : (lastOf (assembled s rest) more).last = (lastOf s (rest ++ more)).last := by
    cases more with
    | nil => simp [lastOf, assembled]
    | cons m more => rw [lastOf_append_cons]; rfl
  simp only [expected, hl, tailLines_append]
  simp [assembled, Shaped.init, List.append_assoc]

/-! ## the call over the file system -/

theorem filter_none_nil {α} (fs : α → Option File) (inputs : List α) (cs : List File)
    (h : inputs.map fs = cs.map some) :
    inputs.filter (fun p => (fs p).isNone) = [] ∧ inputs.filterMap fs = cs := by
  induction inputs generalizing cs with
  | nil =>
    cases cs with
    | nil => simp
    | cons c cs => simp at h
  | cons p inputs ih =>
    cases cs with
    | nil => simp at h
    | cons c cs =>
      simp only [List.map_cons, List.cons.injEq] at h
      obtain ⟨hp, hrest⟩ := h
      obtain ⟨i1, i2⟩ := ih cs hrest
      constructor
      · simp [hp, i1]
      · simp [hp, i2]

/-! ## names: the outcome is a function of the contents found under the listed names -/

theorem filterMap_congr' {α} (fs fs' : α → Option File) (inputs : List α)
    (h : ∀ p ∈ inputs, fs p = fs' p) : inputs.filterMap fs = inputs.filterMap fs' := by
  induction inputs with
  | nil => rfl
  | cons p inputs ih =>
    have hp : fs p = fs' p := h p (by simp)
    have hr : inputs.filterMap fs = inputs.filterMap fs' := ih (fun q hq => h q (by simp [hq]))
    simp only [List.filterMap_cons, hp, hr]

/-- how a call ended, without the names: 0 returned, 1 FileNotFoundError, 2 IndexError -/
def Result.kind {α : Type} : Result α → Nat
  | .returned => 0
  | .fileNotFound _ => 1
  | .indexError => 2

/-- the name-free part of the outcome, computed from the contents alone -/
def kindOf (cs : List (Option File)) : Nat × Option File :=
  if cs.isEmpty then (0, none) else
  if cs.any Option.isNone then (1, none) else
  if (cs.filterMap id).isEmpty then (0, none) else
  match assembleLines (cs.filterMap id) with
  | .error _ => (2, none)
  | .ok ls => (0, some ls)

theorem filter_isNone_isEmpty {α} (fs : α → Option File) (inputs : List α) :
    (inputs.filter (fun p => (fs p).isNone)).isEmpty = !(inputs.map fs).any Option.isNone := by
  induction inputs with
  | nil => rfl
  | cons p inputs ih =>
    cases hp : fs p with
    | none => simp [hp]
    | some f => simpa [hp] using ih

theorem assembleRtf_kind {α : Type} (fs : α → Option File) (inputs : List α) :
    (Result.kind (assembleRtf fs inputs).result, (assembleRtf fs inputs).written) = kindOf (inputs.map fs) := by
  have hm : (inputs.map fs).filterMap id = inputs.filterMap fs := by
    rw [List.filterMap_map]; rfl
  have hf := filter_isNone_isEmpty fs inputs
  simp only [assembleRtf, kindOf, hm, hf, Bool.not_not]
  cases h1 : inputs.isEmpty with
  | true => simp [List.isEmpty_iff.mp h1, Result.kind]
  | false =>
    have h1' : (inputs.map fs).isEmpty = false := by
      cases inputs with
      | nil => simp at h1
      | cons a b => rfl
    simp only [h1', Bool.false_eq_true, if_false]
    cases h2 : (inputs.map fs).any Option.isNone with
    | true => simp [Result.kind]
    | false =>
      simp only [Bool.false_eq_true, if_false]
      cases h3 : (inputs.filterMap fs).isEmpty with
      | true => simp [Result.kind]
      | false =>
        simp only [Bool.false_eq_true, if_false]
        cases h4 : assembleLines (inputs.filterMap fs) with
        | error e => simp [Result.kind]
        | ok ls => simp [Result.kind]

theorem kind_returned {α : Type} (r : Result α) : r = .returned ↔ Result.kind r = 0 := by
  cases r <;> simp [Result.kind]

theorem kind_indexError {α : Type} (r : Result α) : r = .indexError ↔ Result.kind r = 2 := by
  cases r <;> simp [Result.kind]

theorem read_append_of_not_key {α : Type} [DecidableEq α] (decoys d : Fs α) (p : α)
    (h : ∀ e ∈ decoys, e.1 ≠ p) : Fs.read (decoys ++ d) p = Fs.read d p := by
  induction decoys with
  | nil => rfl
  | cons e decoys ih =>
    obtain ⟨q, f⟩ := e
    have hq : q ≠ p := h (q, f) (by simp)
    have hr := ih (fun e he => h e (by simp [he]))
    simp only [List.cons_append, Fs.read, hq, if_false, hr]

end Proofs.Assemble
