import Model.Layout
import Proofs.LayoutHeadings
/-!
Provenance of the texts of the role-level layout (`Model.Layout.layout`):
* every spanning-row (`heading`) text is a `page_by` value of some row of the document;
* every subline-heading text is `", ".intercalate parts` with `parts` taken from the `subline_by`
  values of one row; its characters are `','`, `' '` or characters of those values.
-/
namespace Proofs.EncodeLayout
open Model.Paginate Model.Layout Proofs.LayoutHeadings

/-! ### `groupValues` keeps only values of the key -/

theorem groupValues_mem_key {k : List (Option String)} {v : Option String}
    (h : some v ∈ groupValues k) : v ∈ k := by
  simp only [groupValues, List.mem_map] at h
  obtain ⟨w, hw, he⟩ := h
  split at he
  · cases he
  · cases he; exact hw

/-! ### headings -/

theorem topHeadings_text (k : List (Option String)) (lvl : Nat) (s : String)
    (h : Block.heading lvl s ∈ topHeadings k) : some s ∈ k := by
  rw [topHeadings_eq] at h
  obtain ⟨l, t, he, _, hm⟩ := topFrom_mem _ _ _ h
  cases he
  exact groupValues_mem_key hm

theorem boundaryHeadings_text (last : List (Option (Option String))) (k : List (Option String))
    (lvl0 : Nat) (f : Bool) (lvl : Nat) (s : String)
    (h : Block.heading lvl s ∈ boundaryHeadings last (groupValues k) lvl0 f) : some s ∈ k := by
  obtain ⟨l, t, he, _, hm⟩ := boundaryHeadings_mem _ _ _ _ _ h
  cases he
  exact groupValues_mem_key hm

/-- every heading of `bodyBlocks keys prev last i` carries a value of one of the `keys` -/
theorem bodyBlocks_text : ∀ (keys : List (List (Option String))) (prev : Option (List (Option String)))
    (last : List (Option (Option String))) (i : Nat) (lvl : Nat) (s : String),
    Block.heading lvl s ∈ bodyBlocks keys prev last i → ∃ k ∈ keys, some s ∈ k
  | [], prev, last, i, lvl, s => by simp [bodyBlocks]
  | k :: ks, none, last, i, lvl, s => by
    intro hb
    simp only [bodyBlocks, List.mem_cons] at hb
    rcases hb with hb | hb
    · cases hb
    · obtain ⟨k', hk', hs⟩ := bodyBlocks_text ks _ _ _ lvl s hb
      exact ⟨k', List.mem_cons_of_mem _ hk', hs⟩
  | k :: ks, some pk, last, i, lvl, s => by
    intro hb
    simp only [bodyBlocks] at hb
    split at hb
    · simp only [List.mem_append, List.mem_cons] at hb
      rcases hb with hb | hb | hb
      · exact ⟨k, List.mem_cons_self, boundaryHeadings_text _ _ _ _ _ _ hb⟩
      · cases hb
      · obtain ⟨k', hk', hs⟩ := bodyBlocks_text ks _ _ _ lvl s hb
        exact ⟨k', List.mem_cons_of_mem _ hk', hs⟩
    · simp only [List.mem_cons] at hb
      rcases hb with hb | hb
      · cases hb
      · obtain ⟨k', hk', hs⟩ := bodyBlocks_text ks _ _ _ lvl s hb
        exact ⟨k', List.mem_cons_of_mem _ hk', hs⟩

theorem pageMid_heading_text (d : LDoc) (pg : PageCtx) (lvl : Nat) (s : String)
    (h : Block.heading lvl s ∈ pageMid d pg) : ∃ r ∈ d.rows, some s ∈ r.pkey := by
  simp only [pageMid, List.mem_append] at h
  by_cases hsp : d.spanning = true
  · simp only [hsp, if_true] at h
    rcases h with h | h
    · split at h
      · rename_i r hr
        exact ⟨r, List.mem_of_getElem? hr, topHeadings_text _ _ _ h⟩
      · simp at h
    · split at h
      · obtain ⟨k, hk, hs⟩ := bodyBlocks_text _ _ _ _ _ _ h
        obtain ⟨r, _, hr, rfl⟩ := page_keys_mem d pg k hk
        exact ⟨r, hr, hs⟩
      · obtain ⟨_, he⟩ := dataBlocks_mem _ _ _ h
        cases he
  · simp only [hsp] at h
    rcases h with h | h
    · simp at h
    · obtain ⟨_, he⟩ := dataBlocks_mem _ _ _ (by simpa using h)
      cases he

theorem renderPage_heading_text (d : LDoc) (pg : PageCtx) (lvl : Nat) (s : String)
    (h : Block.heading lvl s ∈ renderPage d pg) : ∃ r ∈ d.rows, some s ∈ r.pkey := by
  rw [renderPage_eq] at h
  simp only [List.mem_append] at h
  rcases h with h | h | h
  · rcases pageHead_mem d pg _ h with h | ⟨_, h⟩
    · simp [other] at h
    · cases h
  · exact pageMid_heading_text d pg lvl s h
  · have := pageTail_mem d pg _ h
    simp [other] at this

/-- 1. every spanning-row text is the `page_by` value of some row -/
theorem layout_heading_text (d : LDoc) (bs : List Block) (hbs : bs ∈ layout d) (lvl : Nat) (s : String)
    (h : Block.heading lvl s ∈ bs) : ∃ r ∈ d.rows, some s ∈ r.pkey := by
  obtain ⟨pg, _, rfl⟩ := List.mem_map.mp hbs
  exact renderPage_heading_text d pg lvl s h

/-! ### subline heading -/

/-- the parts of the subline heading of a row -/
def sublineParts (k : List (Option String)) : List String :=
  (groupValues k).filterMap fun gv => match gv with
    | some (some s) => some s
    | some none => none
    | none => none

theorem sublineParts_mem {k : List (Option String)} {s : String} (h : s ∈ sublineParts k) :
    some s ∈ k := by
  obtain ⟨gv, hgv, he⟩ := List.mem_filterMap.mp h
  rcases gv with _ | _ | t
  · cases he
  · cases he
  · cases he
    exact groupValues_mem_key hgv

theorem pageHead_subline_text (d : LDoc) (pg : PageCtx) (t : String)
    (h : Block.sublineHeading t ∈ pageHead d pg) :
    ∃ r ∈ d.rows, t = ", ".intercalate (sublineParts r.skey) := by
  simp only [pageHead, List.mem_append] at h
  rcases h with (((h | h) | h) | h) | h
  · split at h <;> simp at h
  · split at h <;> simp at h
  · split at h <;> simp at h
  · split at h
    · split at h
      · rename_i r hr
        split at h
        · simp at h
        · simp only [List.mem_singleton, Block.sublineHeading.injEq] at h
          exact ⟨r, List.mem_of_getElem? hr, h⟩
      · simp at h
    · simp at h
  · split at h
    · obtain ⟨⟨a, k⟩, _, hx⟩ := List.mem_filterMap.mp h
      by_cases hc : (a || d.asColheader) = true <;> simp only [hc] at hx
      · simp at hx
      · simp at hx
    · simp at h

theorem renderPage_subline_text (d : LDoc) (pg : PageCtx) (t : String)
    (h : Block.sublineHeading t ∈ renderPage d pg) :
    ∃ r ∈ d.rows, ∃ parts : List String, t = ", ".intercalate parts ∧ ∀ s ∈ parts, some s ∈ r.skey := by
  rw [renderPage_eq] at h
  simp only [List.mem_append] at h
  rcases h with h | h | h
  · obtain ⟨r, hr, ht⟩ := pageHead_subline_text d pg t h
    exact ⟨r, hr, sublineParts r.skey, ht, fun s hs => sublineParts_mem hs⟩
  · rcases pageMid_mem d pg _ h with ⟨_, h⟩ | ⟨_, _, h, _⟩
    · cases h
    · cases h
  · have := pageTail_mem d pg _ h
    simp [other] at this

/-- 2. every subline-heading text is the `", "`-join of `subline_by` values of one row -/
theorem layout_subline_text (d : LDoc) (bs : List Block) (hbs : bs ∈ layout d) (t : String)
    (h : Block.sublineHeading t ∈ bs) :
    ∃ r ∈ d.rows, ∃ parts : List String, t = ", ".intercalate parts ∧ ∀ s ∈ parts, some s ∈ r.skey := by
  obtain ⟨pg, _, rfl⟩ := List.mem_map.mp hbs
  exact renderPage_subline_text d pg t h

/-! ### characters of an intercalated string -/

theorem mem_intersperse {α : Type} (sep : α) : ∀ (l : List α) (x : α),
    x ∈ l.intersperse sep → x = sep ∨ x ∈ l
  | [], x => by simp
  | [a], x => by intro h; exact Or.inr h
  | a :: b :: l, x => by
    intro h
    simp only [List.intersperse_cons_cons, List.mem_cons] at h
    rcases h with h | h | h
    · exact Or.inr (by simp [h])
    · exact Or.inl h
    · rcases mem_intersperse sep (b :: l) x h with h | h
      · exact Or.inl h
      · exact Or.inr (List.mem_cons_of_mem _ h)

/-- 3. characters of `", ".intercalate parts` -/
theorem intercalate_chars (parts : List String) (c : Char) (h : c ∈ (", ".intercalate parts).toList) :
    c = ',' ∨ c = ' ' ∨ ∃ s ∈ parts, c ∈ s.toList := by
  rw [String.toList_intercalate, List.intercalate, List.mem_flatten] at h
  obtain ⟨l, hl, hc⟩ := h
  rcases mem_intersperse _ _ _ hl with rfl | hl
  · have hsep : ", ".toList = [',', ' '] := by decide
    rw [hsep] at hc
    simp only [List.mem_cons, List.not_mem_nil, or_false] at hc
    rcases hc with rfl | rfl
    · exact Or.inl rfl
    · exact Or.inr (Or.inl rfl)
  · obtain ⟨s, hs, rfl⟩ := List.mem_map.mp hl
    exact Or.inr (Or.inr ⟨s, hs, hc⟩)

/-- 4. characters of a subline heading -/
theorem layout_subline_chars (d : LDoc) (bs : List Block) (hbs : bs ∈ layout d) (t : String)
    (h : Block.sublineHeading t ∈ bs) (c : Char) (hc : c ∈ t.toList) :
    c = ',' ∨ c = ' ' ∨ ∃ r ∈ d.rows, ∃ s, some s ∈ r.skey ∧ c ∈ s.toList := by
  obtain ⟨r, hr, parts, rfl, hp⟩ := layout_subline_text d bs hbs t h
  rcases intercalate_chars parts c hc with h | h | ⟨s, hs, hcs⟩
  · exact Or.inl h
  · exact Or.inr (Or.inl h)
  · exact Or.inr (Or.inr ⟨r, hr, s, hp s hs, hcs⟩)

end Proofs.EncodeLayout
