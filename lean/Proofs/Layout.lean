import Model.Layout
import Proofs.Paginate
/-! Helper lemmas about the page structure of `Model.Layout` (used by Props.C02, Props.C03). -/
namespace Proofs.Layout
open Model.Paginate Model.Layout Proofs.Paginate

/-! ### counting in non-decreasing lists -/

/-- number of elements `< p` -/
def countLt (p : Nat) (ps : List Nat) : Nat := ps.countP (fun q => decide (q < p))

/-- number of elements `= p` -/
def countEq (p : Nat) (ps : List Nat) : Nat := ps.countP (fun q => q == p)

theorem countLt_succ (p : Nat) (ps : List Nat) :
    countLt (p + 1) ps = countLt p ps + countEq p ps := by
  induction ps with
  | nil => simp [countLt, countEq]
  | cons q qs ih =>
    simp only [countLt, countEq, List.countP_cons] at ih ⊢
    rw [ih]
    by_cases h1 : q < p
    · have h2 : ¬ q = p := by omega
      have h3 : q < p + 1 := by omega
      simp only [h1, h2, h3, beq_iff_eq, decide_true, if_true]
      simp; omega
    · by_cases h2 : q = p
      · subst h2; simp; omega
      · have : ¬ q < p + 1 := by omega
        simp [h1, h2, this]

theorem countLt_le_length (p : Nat) (ps : List Nat) : countLt p ps ≤ ps.length :=
  List.countP_le_length

theorem countLt_eq_zero {p : Nat} {ps : List Nat} (h : ∀ q ∈ ps, p ≤ q) : countLt p ps = 0 := by
  simp only [countLt, List.countP_eq_zero, decide_eq_true_eq]
  intro q hq; have := h q hq; omega

theorem countLt_eq_length {p : Nat} {ps : List Nat} (h : ∀ q ∈ ps, q < p) :
    countLt p ps = ps.length := by
  simp only [countLt, List.countP_eq_length, decide_eq_true_eq]
  exact h

theorem countEq_eq_zero {p : Nat} {ps : List Nat} (h : ∀ q ∈ ps, q ≠ p) : countEq p ps = 0 := by
  simp only [countEq, List.countP_eq_zero, beq_iff_eq]
  exact h

theorem countEq_pos {p : Nat} {ps : List Nat} (h : p ∈ ps) : 0 < countEq p ps := by
  simp only [countEq, List.countP_pos_iff, beq_iff_eq]
  exact ⟨p, h, rfl⟩

/-! ### row indices of a page -/

/-- structurally recursive form of `idxOf` with an offset -/
def idxFrom (p : Nat) : Nat → List Nat → List Nat
  | _, [] => []
  | k, q :: qs => if q == p then k :: idxFrom p (k + 1) qs else idxFrom p (k + 1) qs

theorem idxOf_zipIdx (p k : Nat) (ps : List Nat) :
    ((ps.zipIdx k).filter (fun x => x.1 == p)).map (·.2) = idxFrom p k ps := by
  induction ps generalizing k with
  | nil => simp [idxFrom]
  | cons q qs ih =>
    simp only [List.zipIdx_cons, List.filter_cons, idxFrom]
    split <;> simp [ih]

theorem idxOf_eq (p : Nat) (ps : List Nat) : idxOf p ps = idxFrom p 0 ps := by
  simp only [idxOf]; exact idxOf_zipIdx p 0 ps

theorem mem_idxFrom (p k i : Nat) (ps : List Nat) :
    i ∈ idxFrom p k ps ↔ k ≤ i ∧ ps[i - k]? = some p := by
  induction ps generalizing k with
  | nil => simp [idxFrom]
  | cons q qs ih =>
    simp only [idxFrom]
    by_cases hq : q = p
    · subst hq
      simp only [beq_self_eq_true, if_true, List.mem_cons, ih]
      constructor
      · rintro (rfl | ⟨h1, h2⟩)
        · simp
        · refine ⟨by omega, ?_⟩
          have : i - k = (i - (k + 1)) + 1 := by omega
          rw [this, List.getElem?_cons_succ]; exact h2
      · rintro ⟨h1, h2⟩
        by_cases hik : i = k
        · exact Or.inl hik
        · right
          refine ⟨by omega, ?_⟩
          have : i - k = (i - (k + 1)) + 1 := by omega
          rw [this, List.getElem?_cons_succ] at h2; exact h2
    · have hq' : (q == p) = false := by simp [hq]
      simp only [hq', Bool.false_eq_true, if_false, ih]
      constructor
      · rintro ⟨h1, h2⟩
        refine ⟨by omega, ?_⟩
        have : i - k = (i - (k + 1)) + 1 := by omega
        rw [this, List.getElem?_cons_succ]; exact h2
      · rintro ⟨h1, h2⟩
        by_cases hik : i = k
        · subst hik; simp at h2; exact absurd h2 hq
        · refine ⟨by omega, ?_⟩
          have : i - k = (i - (k + 1)) + 1 := by omega
          rw [this, List.getElem?_cons_succ] at h2; exact h2

/-- in a non-decreasing list the rows of page `p` form an interval -/
theorem idxFrom_sorted (p : Nat) (ps : List Nat) (hs : ps.Pairwise (· ≤ ·)) (k : Nat) :
    idxFrom p k ps = List.range' (k + countLt p ps) (countEq p ps) := by
  induction ps generalizing k with
  | nil => simp [idxFrom, countLt, countEq]
  | cons q qs ih =>
    rw [List.pairwise_cons] at hs
    obtain ⟨hq, hs⟩ := hs
    have ih := ih hs (k + 1)
    simp only [idxFrom]
    rcases Nat.lt_trichotomy q p with hlt | heq | hgt
    · have h1 : (q == p) = false := by simp; omega
      have h2 : countLt p (q :: qs) = countLt p qs + 1 := by simp [countLt, hlt]
      have h3 : countEq p (q :: qs) = countEq p qs := by
        simp only [countEq, List.countP_cons, h1]; simp
      simp only [h1, Bool.false_eq_true, if_false, ih, h2, h3]
      congr 1; omega
    · subst heq
      have h0 : countLt q qs = 0 := countLt_eq_zero hq
      have h2 : countLt q (q :: qs) = 0 := by simp [countLt] at h0 ⊢; exact h0
      have h3 : countEq q (q :: qs) = countEq q qs + 1 := by simp [countEq]
      simp only [beq_self_eq_true, if_true, ih, h0, h2, h3, Nat.add_zero, List.range'_succ]
    · have h1 : (q == p) = false := by simp; omega
      have h3 : countEq p qs = 0 := countEq_eq_zero (fun x hx => by have := hq x hx; omega)
      have h4 : countEq p (q :: qs) = 0 := by
        simp only [countEq, List.countP_cons, h1] at h3 ⊢; simp [h3]
      simp only [h1, Bool.false_eq_true, if_false, ih, h3, h4, List.range'_zero]

theorem steps_pairwise {p : Nat} {qs : List Nat} (h : Steps p qs) : qs.Pairwise (· ≤ ·) := by
  induction qs generalizing p with
  | nil => simp
  | cons a as ih =>
    simp only [Steps] at h
    rw [List.pairwise_cons]
    exact ⟨steps_ge h.2, ih h.2⟩

/-! ### `listMin` / `listMax` on intervals, `sliceOf` -/

theorem foldl_min_range' (x s n : Nat) (h : x ≤ s) : (List.range' s n).foldl min x = x := by
  induction n generalizing s with
  | zero => simp
  | succ n ih =>
    rw [List.range'_succ, List.foldl_cons, Nat.min_eq_left h]
    exact ih (s + 1) (by omega)

theorem foldl_max_range' (x s n : Nat) (h : x ≤ s) :
    (List.range' s n).foldl max x = if n = 0 then x else s + n - 1 := by
  induction n generalizing x s with
  | zero => simp
  | succ n ih =>
    rw [List.range'_succ, List.foldl_cons, Nat.max_eq_right h, ih s (s + 1) (by omega)]
    split <;> simp <;> omega

theorem listMin_range' (s n : Nat) (h : 0 < n) : listMin (List.range' s n) = s := by
  obtain ⟨m, rfl⟩ : ∃ m, n = m + 1 := ⟨n - 1, by omega⟩
  rw [List.range'_succ]; simp only [listMin]
  exact foldl_min_range' s (s + 1) m (by omega)

theorem listMax_range' (s n : Nat) (h : 0 < n) : listMax (List.range' s n) = s + n - 1 := by
  obtain ⟨m, rfl⟩ : ∃ m, n = m + 1 := ⟨n - 1, by omega⟩
  rw [List.range'_succ]; simp only [listMax]
  rw [foldl_max_range' s (s + 1) m (by omega)]
  split <;> omega

theorem sliceOf_sorted (p : Nat) (ps : List Nat) (hs : ps.Pairwise (· ≤ ·))
    (hp : 0 < countEq p ps) : sliceOf p ps = (countLt p ps, countEq p ps) := by
  simp only [sliceOf, idxOf_eq, idxFrom_sorted p ps hs 0, Nat.zero_add,
    listMin_range' _ _ hp, listMax_range' _ _ hp]
  congr 1; omega

/-! ### `uniquePages` of a gap-free non-decreasing list -/

theorem insertSorted_range' (p m : Nat) :
    insertSorted p (List.range' (p + 1) m) = List.range' p (m + 1) := by
  cases m with
  | zero => simp [insertSorted]
  | succ m => simp [insertSorted, List.range'_succ]

theorem isort_range' (p m : Nat) : isort (List.range' p m) = List.range' p m := by
  induction m generalizing p with
  | zero => simp [isort]
  | succ m ih => rw [List.range'_succ, isort, ih, insertSorted_range', List.range'_succ]

/-- a list that is empty or starts exactly at `p` -/
def StartsAt (p : Nat) (ps : List Nat) : Prop := ps = [] ∨ ps.head? = some p

theorem filter_ne_of_ge {p : Nat} {qs : List Nat} (h : ∀ q ∈ qs, p + 1 ≤ q) :
    qs.filter (fun b => !b == p) = qs := by
  rw [List.filter_eq_self]
  intro q hq; have := h q hq
  simp; omega

theorem steps_filter {p : Nat} {qs : List Nat} (h : Steps p qs) :
    Steps (p + 1) (qs.filter (fun b => !b == p)) ∧ StartsAt (p + 1) (qs.filter (fun b => !b == p)) := by
  induction qs with
  | nil => simp [Steps, StartsAt]
  | cons q qs ih =>
    simp only [Steps] at h
    obtain ⟨⟨h1, h2⟩, h3⟩ := h
    by_cases hq : q = p
    · subst hq
      have : (q :: qs).filter (fun b => !b == q) = qs.filter (fun b => !b == q) := by simp
      rw [this]; exact ih h3
    · have hq1 : q = p + 1 := by omega
      subst hq1
      have hge := steps_ge h3
      have : ((p + 1) :: qs).filter (fun b => !b == p) = (p + 1) :: qs := by
        rw [List.filter_cons, filter_ne_of_ge hge]; simp
      rw [this]
      refine ⟨?_, Or.inr (by simp)⟩
      simp only [Steps]
      exact ⟨⟨by omega, by omega⟩, h3⟩

theorem eraseDups_steps (n : Nat) : ∀ (p : Nat) (ps : List Nat), ps.length ≤ n → Steps p ps →
    StartsAt p ps → ∃ m, ps.eraseDups = List.range' p m := by
  induction n with
  | zero =>
    intro p ps hl _ _
    have : ps = [] := List.eq_nil_of_length_eq_zero (by omega)
    subst this; exact ⟨0, by simp⟩
  | succ n ih =>
    intro p ps hl hs hst
    cases ps with
    | nil => exact ⟨0, by simp⟩
    | cons q qs =>
      have hq : q = p := by
        rcases hst with h | h
        · simp at h
        · simpa using h
      subst hq
      simp only [Steps] at hs
      obtain ⟨hf1, hf2⟩ := steps_filter hs.2
      have hlen : (qs.filter (fun b => !b == q)).length ≤ n := by
        have := List.length_filter_le (fun b => !b == q) qs
        simp only [List.length_cons] at hl; omega
      obtain ⟨m, hm⟩ := ih (q + 1) _ hlen hf1 hf2
      exact ⟨m + 1, by rw [List.eraseDups_cons, hm, List.range'_succ]⟩

theorem uniquePages_steps {p : Nat} {ps : List Nat} (hs : Steps p ps) (hst : StartsAt p ps) :
    ∃ m, uniquePages ps = List.range' p m ∧ ∀ x, x ∈ List.range' p m ↔ x ∈ ps := by
  obtain ⟨m, hm⟩ := eraseDups_steps ps.length p ps (Nat.le_refl _) hs hst
  refine ⟨m, by rw [uniquePages, hm, isort_range'], ?_⟩
  intro x; rw [← hm]; exact List.mem_eraseDups

/-! ### `mkPagesAux` -/

theorem mkPagesAux_length (ps : List Nat) (total : Nat) (us : List Nat) (cum : Nat) :
    (mkPagesAux ps total us cum).length = us.length := by
  induction us generalizing cum with
  | nil => simp [mkPagesAux]
  | cons u us ih => simp [mkPagesAux, ih]

theorem mkPagesAux_numbers (ps : List Nat) (total : Nat) (us : List Nat) (cum : Nat) :
    (mkPagesAux ps total us cum).map (·.number) = us := by
  induction us generalizing cum with
  | nil => simp [mkPagesAux]
  | cons u us ih => simp [mkPagesAux, ih]

/-- what a page context of a sorted page-number list looks like -/
structure PageOK (ps : List Nat) (total : Nat) (pg : PageCtx) : Prop where
  total_eq : pg.total = total
  data_eq  : pg.dataStart = pg.start
  start_eq : pg.start = countLt pg.number ps
  height_eq : pg.height = countEq pg.number ps
  mem : pg.number ∈ ps

theorem mkPagesAux_spec (ps : List Nat) (total : Nat) (hs : ps.Pairwise (· ≤ ·)) :
    ∀ (m p cum : Nat), (∀ x ∈ List.range' p m, x ∈ ps) → cum = countLt p ps →
      (∀ pg ∈ mkPagesAux ps total (List.range' p m) cum, PageOK ps total pg) ∧
      cum + ((mkPagesAux ps total (List.range' p m) cum).map (·.height)).sum = countLt (p + m) ps := by
  intro m
  induction m with
  | zero => intro p cum _ hc; simp [mkPagesAux, hc]
  | succ m ih =>
    intro p cum hmem hc
    have hp : p ∈ ps := hmem p (by simp [List.mem_range'_1])
    have hsl := sliceOf_sorted p ps hs (countEq_pos hp)
    rw [List.range'_succ]
    simp only [mkPagesAux, hsl]
    have ih := ih (p + 1) (cum + countEq p ps)
      (fun x hx => hmem x (by rw [List.range'_succ]; exact List.mem_cons_of_mem _ hx))
      (by rw [countLt_succ, hc])
    refine ⟨?_, ?_⟩
    · intro pg hpg
      rcases List.mem_cons.mp hpg with rfl | hpg
      · exact ⟨rfl, hc, rfl, rfl, hp⟩
      · exact ih.1 pg hpg
    · have := ih.2
      simp only [List.map_cons, List.sum_cons]
      rw [show p + (m + 1) = p + 1 + m by omega, ← this]; omega

theorem PageOK.height_pos {ps total pg} (h : PageOK ps total pg) : 0 < pg.height := by
  rw [h.height_eq]; exact countEq_pos h.mem

theorem PageOK.bound {ps total pg} (h : PageOK ps total pg) : pg.start + pg.height ≤ ps.length := by
  rw [h.start_eq, h.height_eq, ← countLt_succ]; exact countLt_le_length _ _

theorem PageOK.iff {ps total pg} (h : PageOK ps total pg) (hs : ps.Pairwise (· ≤ ·)) (i : Nat) :
    (pg.start ≤ i ∧ i < pg.start + pg.height) ↔ ps[i]? = some pg.number := by
  have h1 := mem_idxFrom pg.number 0 i ps
  rw [idxFrom_sorted pg.number ps hs 0, List.mem_range'_1, Nat.zero_add, ← h.start_eq,
    ← h.height_eq] at h1
  simpa using h1

/-! ### the page list of a document -/

theorem changesFrom_length {α} [DecidableEq α] (a : α) (ks : List α) :
    (changesFrom a ks).length = ks.length := by
  induction ks generalizing a with
  | nil => simp [changesFrom]
  | cons k ks ih => simp [changesFrom, ih]

theorem changes_length {α} [DecidableEq α] (ks : List α) : (changes ks).length = ks.length := by
  cases ks with
  | nil => simp [changes]
  | cons k ks => simp [changes, changesFrom_length]

theorem mkMeta_length {κ} [DecidableEq κ] (hp hs : Bool) (rows : List (RowIn κ)) :
    (mkMeta hp hs rows).length = rows.length := by
  simp [mkMeta, changes_length]

theorem meta_length (d : LDoc) : d.meta.length = d.rows.length := by
  simp [LDoc.meta, mkMeta_length]

theorem pageNums_length (d : LDoc) : d.pageNums.length = d.rows.length := by
  simp [LDoc.pageNums, assignPages, assignAux_length, meta_length]

theorem pageNums_steps (d : LDoc) : Steps 1 d.pageNums := assignAux_steps _ _ _ _ _ _

theorem pageNums_sorted (d : LDoc) : d.pageNums.Pairwise (· ≤ ·) := steps_pairwise (pageNums_steps d)

theorem assignPages_startsAt (nrow additional np rs) : StartsAt 1 (assignPages nrow additional np rs) := by
  cases rs with
  | nil => left; simp [assignPages, assignAux]
  | cons r rs => right; simp [assignPages, assignAux, breaksBefore]

theorem pageNums_startsAt (d : LDoc) : StartsAt 1 d.pageNums := assignPages_startsAt _ _ _ _

theorem pages_spec (d : LDoc) (hne : d.rows ≠ []) :
    ∃ P, 0 < P ∧ d.pages.length = P ∧ d.pages.map (·.number) = List.range' 1 P ∧
      (∀ pg ∈ d.pages, PageOK d.pageNums P pg) ∧
      (d.pages.map (·.height)).sum = d.rows.length := by
  obtain ⟨m, hm, hmem⟩ := uniquePages_steps (pageNums_steps d) (pageNums_startsAt d)
  have hlen := pageNums_length d
  have hpos : 0 < m := by
    cases hps : d.pageNums with
    | nil => rw [hps] at hlen; exact absurd (List.eq_nil_of_length_eq_zero hlen.symm) hne
    | cons q qs =>
      have := (hmem q).mpr (by rw [hps]; simp)
      rw [List.mem_range'_1] at this; omega
  have hnot : (List.range' 1 m).isEmpty = false := by
    cases m with
    | zero => omega
    | succ m => simp [List.range'_succ]
  have hpages : d.pages = mkPagesAux d.pageNums m (List.range' 1 m) 0 := by
    simp only [LDoc.pages, hm, hnot, List.length_range']; simp
  have hspec := mkPagesAux_spec d.pageNums m (pageNums_sorted d) m 1 0
    (fun x hx => (hmem x).mp hx)
    (countLt_eq_zero (steps_ge (pageNums_steps d))).symm
  refine ⟨m, hpos, ?_, ?_, ?_, ?_⟩
  · rw [hpages, mkPagesAux_length, List.length_range']
  · rw [hpages, mkPagesAux_numbers]
  · rw [hpages]; exact hspec.1
  · rw [hpages]
    have := hspec.2
    rw [Nat.zero_add, countLt_eq_length] at this
    · rw [this, hlen]
    · intro q hq
      have := (hmem q).mpr hq
      rw [List.mem_range'_1] at this; omega

/-! ### block statistics of a rendered page -/

def dataIdx (bs : List Block) : List Nat :=
  bs.filterMap fun b => match b with
    | .data i => some i
    | _ => none

def headingCount (bs : List Block) : Nat :=
  (bs.filter fun b => match b with | .heading _ _ => true | _ => false).length

/-- table rows that are neither data rows nor group headings -/
def otherCount (bs : List Block) : Nat :=
  (bs.map fun b => match b with
    | .colHeader _ => 1
    | .sublineHeading _ => 1
    | .footnote true => 1
    | .source true => 1
    | _ => 0).sum

def tableRowsF (f : Nat → Nat) (bs : List Block) : Nat :=
  (bs.map fun b => match b with
    | .colHeader _ => 1
    | .heading _ _ => 1
    | .sublineHeading _ => 1
    | .data i => f i
    | .footnote true => 1
    | .source true => 1
    | _ => 0).sum

theorem dataIdx_append (a b : List Block) : dataIdx (a ++ b) = dataIdx a ++ dataIdx b := by
  simp [dataIdx, List.filterMap_append]

theorem headingCount_append (a b : List Block) :
    headingCount (a ++ b) = headingCount a + headingCount b := by
  simp [headingCount, List.filter_append]

theorem otherCount_append (a b : List Block) : otherCount (a ++ b) = otherCount a + otherCount b := by
  simp [otherCount, List.map_append, List.sum_append]

theorem tableRowsF_eq (f : Nat → Nat) (bs : List Block) :
    tableRowsF f bs = headingCount bs + ((dataIdx bs).map f).sum + otherCount bs := by
  induction bs with
  | nil => simp [tableRowsF, headingCount, dataIdx, otherCount]
  | cons b bs ih =>
    have hc : ∀ (x : Block) (xs : List Block), x :: xs = [x] ++ xs := fun _ _ => rfl
    rw [hc b bs, headingCount_append, dataIdx_append, otherCount_append]
    have : tableRowsF f ([b] ++ bs) = tableRowsF f [b] + tableRowsF f bs := by
      simp [tableRowsF]
    rw [this, ih, List.map_append, List.sum_append]
    have h1 : tableRowsF f [b] = headingCount [b] + ((dataIdx [b]).map f).sum + otherCount [b] := by
      cases b with
      | footnote t => cases t <;> simp [tableRowsF, headingCount, dataIdx, otherCount]
      | source t => cases t <;> simp [tableRowsF, headingCount, dataIdx, otherCount]
      | _ => simp [tableRowsF, headingCount, dataIdx, otherCount]
    rw [h1]; omega

def OnlyHeadings (bs : List Block) : Prop := ∀ b ∈ bs, ∃ l s, b = Block.heading l s

theorem OnlyHeadings.dataIdx {bs} (h : OnlyHeadings bs) : dataIdx bs = [] := by
  simp only [Proofs.Layout.dataIdx, List.filterMap_eq_nil_iff]
  intro b hb; obtain ⟨l, s, rfl⟩ := h b hb; rfl

theorem OnlyHeadings.otherCount {bs} (h : OnlyHeadings bs) : otherCount bs = 0 := by
  induction bs with
  | nil => simp [Proofs.Layout.otherCount]
  | cons b bs ih =>
    obtain ⟨l, s, rfl⟩ := h _ (List.mem_cons_self)
    have := ih (fun x hx => h x (List.mem_cons_of_mem _ hx))
    simp only [Proofs.Layout.otherCount, List.map_cons, List.sum_cons] at this ⊢
    omega

theorem onlyHeadings_top (k : List (Option String)) : OnlyHeadings (topHeadings k) := by
  intro b hb
  simp only [topHeadings, List.mem_filterMap] at hb
  obtain ⟨⟨gv, lvl⟩, _, h⟩ := hb
  split at h
  · simp at h; exact ⟨_, _, h.symm⟩
  · simp at h

theorem onlyHeadings_boundary (l n : List (Option (Option String))) (lvl : Nat) (force : Bool) :
    OnlyHeadings (boundaryHeadings l n lvl force) := by
  induction l generalizing n lvl force with
  | nil => intro b hb; simp [boundaryHeadings] at hb
  | cons x xs ih =>
    cases n with
    | nil => intro b hb; simp [boundaryHeadings] at hb
    | cons y ys =>
      intro b hb
      rcases y with _ | _ | s
      · simp only [boundaryHeadings] at hb; exact ih _ _ _ b hb
      · simp only [boundaryHeadings] at hb; exact ih _ _ _ b hb
      · have key : ∀ (c : Bool), b ∈ (if c = true then
            Block.heading lvl s :: boundaryHeadings xs ys (lvl + 1) true
            else boundaryHeadings xs ys (lvl + 1) force) → ∃ l s, b = Block.heading l s := by
          intro c hc
          split at hc
          · rcases List.mem_cons.mp hc with rfl | hc
            · exact ⟨_, _, rfl⟩
            · exact ih _ _ _ b hc
          · exact ih _ _ _ b hc
        simp only [boundaryHeadings] at hb
        exact key _ hb

theorem bodyBlocks_stats (keys : List (List (Option String))) :
    ∀ prev last i, dataIdx (bodyBlocks keys prev last i) = List.range' i keys.length ∧
      otherCount (bodyBlocks keys prev last i) = 0 := by
  induction keys with
  | nil => intro prev last i; simp [bodyBlocks, dataIdx, otherCount]
  | cons k ks ih =>
    intro prev last i
    have hd : ∀ bs, dataIdx (Block.data i :: bs) = i :: dataIdx bs := fun bs => by simp [dataIdx]
    have ho : ∀ bs, otherCount (Block.data i :: bs) = otherCount bs := fun bs => by simp [otherCount]
    cases prev with
    | none =>
      simp only [bodyBlocks, hd, ho, List.length_cons, List.range'_succ]
      exact ⟨by rw [(ih _ _ _).1], (ih _ _ _).2⟩
    | some pk =>
      simp only [bodyBlocks]
      split
      · rw [dataIdx_append, otherCount_append, (onlyHeadings_boundary _ _ _ _).dataIdx,
          (onlyHeadings_boundary _ _ _ _).otherCount, hd, ho, List.length_cons, List.range'_succ]
        exact ⟨by rw [(ih _ _ _).1]; rfl, by rw [(ih _ _ _).2]⟩
      · simp only [hd, ho, List.length_cons, List.range'_succ]
        exact ⟨by rw [(ih _ _ _).1], (ih _ _ _).2⟩

theorem dataBlocks_stats (s n : Nat) :
    dataIdx (dataBlocks s n) = List.range' s n ∧ otherCount (dataBlocks s n) = 0 ∧
      headingCount (dataBlocks s n) = 0 := by
  induction n with
  | zero => simp [dataBlocks, dataIdx, otherCount, headingCount]
  | succ n ih =>
    have : dataBlocks s (n + 1) = dataBlocks s n ++ [Block.data (s + n)] := by
      simp [dataBlocks, List.range_succ]
    rw [this, dataIdx_append, otherCount_append, headingCount_append, ih.1, ih.2.1, ih.2.2]
    refine ⟨?_, by simp [otherCount], by simp [headingCount]⟩
    rw [List.range'_concat]; simp [dataIdx]

/-! ### the parts of `renderPage` -/

def pHead (d : LDoc) (pg : PageCtx) : List Block :=
  (if pg.number == 1 then [] else [Block.brk]) ++
  (if d.hasTitle && d.pageTitle.shows (pg.number == 1) (pg.number == pg.total) then [Block.title] else []) ++
  (if d.hasSublineTxt && d.pageTitle.shows (pg.number == 1) (pg.number == pg.total) then [Block.subline] else [])

def pSubHeading (d : LDoc) (pg : PageCtx) : List Block :=
  if d.hasSubline then
     match d.rows[pg.start]? with
     | some r =>
       let parts := (groupValues r.skey).filterMap fun gv => match gv with
         | some (some s) => some s
         | some none => none
         | none => none
       if parts.isEmpty then [] else [Block.sublineHeading (", ".intercalate parts)]
     | none => []
   else []

def colHeaderBlocks (hs : List Bool) (a : Bool) (k : Nat) : List Block :=
  (hs.zipIdx k).filterMap fun (hasText, k) =>
    if hasText || a then some (Block.colHeader k) else none

def pColHeaders (d : LDoc) (pg : PageCtx) : List Block :=
  if d.pagebyHeader || pg.number == 1 then colHeaderBlocks d.headers d.asColheader 0 else []

def pTop (d : LDoc) (pg : PageCtx) : List Block :=
  if d.spanning then
     match d.rows[pg.start]? with
     | some r => topHeadings r.pkey
     | none => []
   else []

def pBody (d : LDoc) (pg : PageCtx) : List Block :=
  if d.spanning then
     match d.rows[pg.start]? with
     | some r => bodyBlocks (((d.rows.drop pg.start).take pg.height).map (·.pkey)) none
                   (groupValues r.pkey) pg.dataStart
     | none => dataBlocks pg.dataStart pg.height
   else dataBlocks pg.dataStart pg.height

def pFoot (d : LDoc) (pg : PageCtx) : List Block :=
  (if d.footnote != .absent && d.pageFootnote.shows (pg.number == 1) (pg.number == pg.total)
     then [Block.footnote (d.footnote == .table)] else []) ++
  (if d.source != .absent && d.pageSource.shows (pg.number == 1) (pg.number == pg.total)
     then [Block.source (d.source == .table)] else [])

theorem renderPage_eq (d : LDoc) (pg : PageCtx) :
    renderPage d pg =
      pHead d pg ++ pSubHeading d pg ++ pColHeaders d pg ++ pTop d pg ++ pBody d pg ++ pFoot d pg := by
  simp only [renderPage, pHead, pSubHeading, pColHeaders, colHeaderBlocks, pTop, pBody, pFoot,
    List.append_assoc]
  rfl

theorem pHead_stats (d : LDoc) (pg : PageCtx) :
    dataIdx (pHead d pg) = [] ∧ otherCount (pHead d pg) = 0 ∧ headingCount (pHead d pg) = 0 := by
  simp only [pHead, dataIdx_append, otherCount_append, headingCount_append]
  refine ⟨?_, ?_, ?_⟩ <;> (repeat' split) <;> simp [dataIdx, otherCount, headingCount]

theorem pSubHeading_stats (d : LDoc) (pg : PageCtx) :
    dataIdx (pSubHeading d pg) = [] ∧ otherCount (pSubHeading d pg) ≤ (if d.hasSubline then 1 else 0) ∧
      headingCount (pSubHeading d pg) = 0 := by
  simp only [pSubHeading]
  refine ⟨?_, ?_, ?_⟩ <;> (repeat' split) <;> simp_all [dataIdx, otherCount, headingCount]

theorem colHeaderBlocks_stats (hs : List Bool) (a : Bool) (k : Nat) :
    dataIdx (colHeaderBlocks hs a k) = [] ∧ headingCount (colHeaderBlocks hs a k) = 0 ∧
      otherCount (colHeaderBlocks hs a k) ≤
        (hs.filter id).length + (if a then (hs.filter (fun h => !h)).length else 0) := by
  induction hs generalizing k with
  | nil => simp [colHeaderBlocks, dataIdx, headingCount, otherCount]
  | cons h hs ih =>
    have ih := ih (k + 1)
    simp only [colHeaderBlocks] at ih ⊢
    simp only [List.zipIdx_cons, List.filterMap_cons]
    cases h <;> cases a <;>
      simp_all [dataIdx, headingCount, otherCount] <;> omega

theorem pColHeaders_stats (d : LDoc) (pg : PageCtx) :
    dataIdx (pColHeaders d pg) = [] ∧ headingCount (pColHeaders d pg) = 0 ∧
      otherCount (pColHeaders d pg) ≤ (d.headers.filter id).length +
        (if d.asColheader then (d.headers.filter (fun h => !h)).length else 0) := by
  simp only [pColHeaders]
  split
  · exact colHeaderBlocks_stats _ _ _
  · simp [dataIdx, headingCount, otherCount]

theorem pTop_stats (d : LDoc) (pg : PageCtx) :
    dataIdx (pTop d pg) = [] ∧ otherCount (pTop d pg) = 0 ∧
      (d.spanning = false → headingCount (pTop d pg) = 0) := by
  simp only [pTop]
  split
  · split
    · exact ⟨(onlyHeadings_top _).dataIdx, (onlyHeadings_top _).otherCount, by simp_all⟩
    · simp [dataIdx, headingCount, otherCount]
  · simp [dataIdx, headingCount, otherCount]

theorem pBody_stats (d : LDoc) (pg : PageCtx) (h : pg.start + pg.height ≤ d.rows.length) :
    dataIdx (pBody d pg) = List.range' pg.dataStart pg.height ∧ otherCount (pBody d pg) = 0 ∧
      (d.spanning = false → headingCount (pBody d pg) = 0) := by
  simp only [pBody]
  split
  · split
    · have hl : (((d.rows.drop pg.start).take pg.height).map (·.pkey)).length = pg.height := by
        simp only [List.length_map, List.length_take, List.length_drop]; omega
      have := bodyBlocks_stats (((d.rows.drop pg.start).take pg.height).map (·.pkey)) none
        (groupValues (by assumption : LRow).pkey) pg.dataStart
      rw [hl] at this
      exact ⟨this.1, this.2, by simp_all⟩
    · exact ⟨(dataBlocks_stats _ _).1, (dataBlocks_stats _ _).2.1, fun _ => (dataBlocks_stats _ _).2.2⟩
  · exact ⟨(dataBlocks_stats _ _).1, (dataBlocks_stats _ _).2.1, fun _ => (dataBlocks_stats _ _).2.2⟩

theorem pFoot_stats (d : LDoc) (pg : PageCtx) :
    dataIdx (pFoot d pg) = [] ∧ headingCount (pFoot d pg) = 0 ∧
      otherCount (pFoot d pg) ≤
        (if d.footnote != .absent then 1 else 0) + (if d.source != .absent then 1 else 0) := by
  simp only [pFoot, dataIdx_append, otherCount_append, headingCount_append]
  refine ⟨?_, ?_, ?_⟩
  · (repeat' split) <;> simp [dataIdx]
  · (repeat' split) <;> simp [headingCount]
  · have h1 : ∀ (c : Bool) (t : Bool), otherCount (if c then [Block.footnote t] else []) ≤ if c then 1 else 0 := by
      intro c t; cases c <;> cases t <;> simp [otherCount]
    have h2 : ∀ (c : Bool) (t : Bool), otherCount (if c then [Block.source t] else []) ≤ if c then 1 else 0 := by
      intro c t; cases c <;> cases t <;> simp [otherCount]
    have a1 := h1 (d.footnote != .absent && d.pageFootnote.shows (pg.number == 1) (pg.number == pg.total))
      (d.footnote == .table)
    have a2 := h2 (d.source != .absent && d.pageSource.shows (pg.number == 1) (pg.number == pg.total))
      (d.source == .table)
    have b1 : (if (d.footnote != .absent && d.pageFootnote.shows (pg.number == 1) (pg.number == pg.total)) = true
        then 1 else 0) ≤ (if (d.footnote != .absent) = true then 1 else 0) := by
      cases (d.footnote != .absent) <;> simp <;> split <;> omega
    have b2 : (if (d.source != .absent && d.pageSource.shows (pg.number == 1) (pg.number == pg.total)) = true
        then 1 else 0) ≤ (if (d.source != .absent) = true then 1 else 0) := by
      cases (d.source != .absent) <;> simp <;> split <;> omega
    omega

/-- data rows of a rendered page: the slice `[dataStart, dataStart + height)` -/
theorem renderPage_dataIdx (d : LDoc) (pg : PageCtx) (h : pg.start + pg.height ≤ d.rows.length) :
    dataIdx (renderPage d pg) = List.range' pg.dataStart pg.height := by
  rw [renderPage_eq]
  simp only [dataIdx_append, (pHead_stats d pg).1, (pSubHeading_stats d pg).1,
    (pColHeaders_stats d pg).1, (pTop_stats d pg).1, (pBody_stats d pg h).1, (pFoot_stats d pg).1,
    List.nil_append, List.append_nil]

theorem renderPage_otherCount (d : LDoc) (pg : PageCtx) (h : pg.start + pg.height ≤ d.rows.length) :
    otherCount (renderPage d pg) ≤
      d.additional + (if d.asColheader then (d.headers.filter (fun h => !h)).length else 0) := by
  rw [renderPage_eq]
  simp only [otherCount_append, (pHead_stats d pg).2.1, (pTop_stats d pg).2.1, (pBody_stats d pg h).2.1,
    LDoc.additional]
  have h1 := (pSubHeading_stats d pg).2.1
  have h2 := (pColHeaders_stats d pg).2.2
  have h3 := (pFoot_stats d pg).2.2
  omega

theorem renderPage_headingCount (d : LDoc) (pg : PageCtx) (h : pg.start + pg.height ≤ d.rows.length)
    (hsp : d.spanning = false) : headingCount (renderPage d pg) = 0 := by
  rw [renderPage_eq]
  simp only [headingCount_append, (pHead_stats d pg).2.2, (pSubHeading_stats d pg).2.2,
    (pColHeaders_stats d pg).2.1, (pTop_stats d pg).2.2 hsp, (pBody_stats d pg h).2.2 hsp,
    (pFoot_stats d pg).2.1]

/-! ### all pages together -/

theorem countLt_mono {p q : Nat} (h : p ≤ q) (ps : List Nat) : countLt p ps ≤ countLt q ps := by
  induction ps with
  | nil => simp [countLt]
  | cons x xs ih =>
    simp only [countLt, List.countP_cons] at ih ⊢
    by_cases h1 : x < p
    · have h2 : x < q := by omega
      simp [h1, h2]; exact ih
    · simp only [h1, decide_false, Bool.false_eq_true, if_false, Nat.add_zero]
      split <;> omega

theorem flatMap_intervals (ps : List Nat) (m p : Nat) :
    (List.range' p m).flatMap (fun x => List.range' (countLt x ps) (countEq x ps)) =
      List.range' (countLt p ps) (countLt (p + m) ps - countLt p ps) := by
  induction m generalizing p with
  | zero => simp
  | succ m ih =>
    rw [List.range'_succ, List.flatMap_cons, ih (p + 1), countLt_succ]
    have h1 := countLt_succ p ps
    have h2 : countLt (p + 1) ps ≤ countLt (p + 1 + m) ps := countLt_mono (by omega) ps
    rw [show p + (m + 1) = p + 1 + m by omega]
    rw [List.range'_append_1]; congr 1; omega

theorem flatMap_congr' {α β} {l : List α} {f g : α → List β} (h : ∀ a ∈ l, f a = g a) :
    l.flatMap f = l.flatMap g := by
  induction l with
  | nil => rfl
  | cons a as ih =>
    rw [List.flatMap_cons, List.flatMap_cons, h a (List.mem_cons_self),
      ih (fun x hx => h x (List.mem_cons_of_mem _ hx))]

theorem pages_of_no_rows (d : LDoc) (h : d.rows = []) :
    d.pages = [{ number := 1, total := 1, start := 0, height := 0, dataStart := 0 }] := by
  have : d.pageNums = [] := List.eq_nil_of_length_eq_zero (by rw [pageNums_length, h]; rfl)
  simp [LDoc.pages, this, uniquePages, isort]

theorem layout_dataIdx (d : LDoc) :
    (layout d).flatMap dataIdx = List.range d.rows.length := by
  by_cases hne : d.rows = []
  · have h0 : (0 : Nat) + 0 ≤ d.rows.length := by omega
    have := renderPage_dataIdx d { number := 1, total := 1, start := 0, height := 0, dataStart := 0 } h0
    simp only [layout, pages_of_no_rows d hne, List.map_cons, List.map_nil, List.flatMap_cons,
      List.flatMap_nil, this, hne]
    rfl
  · obtain ⟨P, hpos, hlen, hnum, hok, hsum⟩ := pages_spec d hne
    have h1 : (layout d).flatMap dataIdx =
        (d.pages.map (·.number)).flatMap
          (fun x => List.range' (countLt x d.pageNums) (countEq x d.pageNums)) := by
      simp only [layout, List.flatMap_map]
      apply flatMap_congr'
      intro pg hpg
      have h := hok pg hpg
      have hb := h.bound; rw [pageNums_length] at hb
      rw [renderPage_dataIdx d pg hb, h.data_eq, h.start_eq, h.height_eq]
    rw [h1, hnum, flatMap_intervals, countLt_eq_zero (steps_ge (pageNums_steps d)), List.range_eq_range']
    congr 1
    -- every page number is < 1 + P
    have hall : ∀ q ∈ d.pageNums, q < 1 + P := by
      intro q hq
      obtain ⟨m, hm, hmem⟩ := uniquePages_steps (pageNums_steps d) (pageNums_startsAt d)
      have hq' := (hmem q).mpr hq
      have hP : d.pages.length = m := by
        have hnotE : (List.range' 1 m).isEmpty = false := by
          cases m with
          | zero => simp at hq'
          | succ m => simp [List.range'_succ]
        simp only [LDoc.pages, hm, hnotE]; simp [mkPagesAux_length]
      rw [List.mem_range'_1] at hq'; omega
    rw [countLt_eq_length hall, pageNums_length]; omega

theorem row_on_page (d : LDoc) (k i : Nat) (pg : PageCtx) (h : d.pages[k]? = some pg)
    (hi : i ∈ dataIdx (renderPage d pg)) : d.pageNums[i]? = some (k + 1) := by
  by_cases hne : d.rows = []
  · rw [pages_of_no_rows d hne] at h
    have hk : k = 0 := by
      cases k with
      | zero => rfl
      | succ k => simp at h
    subst hk
    simp only [List.getElem?_cons_zero, Option.some.injEq] at h
    subst h
    rw [renderPage_dataIdx d _ (by simp)] at hi
    simp at hi
  · obtain ⟨P, hpos, hlen, hnum, hok, hsum⟩ := pages_spec d hne
    have hpg : pg ∈ d.pages := List.mem_of_getElem? h
    have hp := hok pg hpg
    have hb := hp.bound; rw [pageNums_length] at hb
    rw [renderPage_dataIdx d pg hb, hp.data_eq, List.mem_range'_1] at hi
    have hnumk : pg.number = k + 1 := by
      have h1 : (d.pages.map (·.number))[k]? = some pg.number := by simp [h]
      rw [hnum] at h1
      have hkP : k < P := by
        rw [← hlen]; exact (List.getElem?_eq_some_iff.mp h).1
      rw [List.getElem?_range' (by omega)] at h1
      simp at h1; omega
    rw [← hnumk]
    exact (hp.iff (pageNums_sorted d) i).mp hi

/-! ### greedy fill: the load of a page -/

/-- load of page `p`: rows `rs` paired positionally with their page numbers `ps` -/
def loadP (p : Nat) : List RowMeta → List Nat → Nat
  | r :: rs, q :: qs => (if q == p then r.total else 0) + loadP p rs qs
  | _, _ => 0

theorem loadP_fresh {p : Nat} (rs : List RowMeta) (ps : List Nat) (h : ∀ q ∈ ps, p < q) :
    loadP p rs ps = 0 := by
  induction ps generalizing rs with
  | nil => cases rs <;> simp [loadP]
  | cons q qs ih =>
    cases rs with
    | nil => simp [loadP]
    | cons r rs =>
      have h1 : (q == p) = false := by have := h q (by simp); simp; omega
      simp [loadP, h1, ih rs (fun x hx => h x (List.mem_cons_of_mem _ hx))]

theorem countEq_cons (p q : Nat) (qs : List Nat) :
    countEq p (q :: qs) = countEq p qs + (if q == p then 1 else 0) := by
  simp [countEq, List.countP_cons]

theorem greedy_aux (avail : Nat) (np : Bool) (rs : List RowMeta) (hpos : ∀ r ∈ rs, 1 ≤ r.total) :
    ∀ (page cur : Nat) (nf : Bool),
      (∀ p, p ≠ page → loadP p rs (assignAux avail np page cur nf rs) ≤ avail ∨
          countEq p (assignAux avail np page cur nf rs) ≤ 1) ∧
      (cur ≤ avail → cur + loadP page rs (assignAux avail np page cur nf rs) ≤ avail ∨
          (cur = 0 ∧ countEq page (assignAux avail np page cur nf rs) ≤ 1)) ∧
      (avail < cur → countEq page (assignAux avail np page cur nf rs) = 0) := by
  induction rs with
  | nil => intro page cur nf; simp [assignAux, loadP, countEq]; exact fun h => Or.inl h
  | cons r rs ih =>
    intro page cur nf
    have hr : 1 ≤ r.total := hpos r (by simp)
    have ih := ih (fun x hx => hpos x (List.mem_cons_of_mem _ hx))
    simp only [assignAux, loadP, countEq_cons]
    cases hb : breaksBefore avail np cur nf r with
    | true =>
      have hcur : 0 < cur := by
        simp only [breaksBefore, Bool.and_eq_true, decide_eq_true_eq] at hb; exact hb.2
      simp only [if_true]
      obtain ⟨iha, ihb, ihc⟩ := ih (page + 1) (0 + r.total) true
      have hge := assignAux_ge avail np (page + 1) (0 + r.total) true rs
      have hfresh : ∀ q ∈ assignAux avail np (page + 1) (0 + r.total) true rs, page < q :=
        fun q hq => by have := hge q hq; omega
      have hl0 := loadP_fresh rs _ hfresh
      have hc0 : countEq page (assignAux avail np (page + 1) (0 + r.total) true rs) = 0 :=
        countEq_eq_zero (fun q hq => by have := hfresh q hq; omega)
      have hne : (page + 1 == page) = false := by simp
      refine ⟨?_, ?_, ?_⟩
      · intro p hp
        by_cases hp1 : p = page + 1
        · subst hp1
          simp only [beq_self_eq_true, if_true]
          by_cases hle : 0 + r.total ≤ avail
          · rcases ihb hle with h | h
            · left; omega
            · omega
          · have := ihc (by omega); right; omega
        · have : (page + 1 == p) = false := by simp; omega
          simp only [this, Bool.false_eq_true, if_false, Nat.zero_add, Nat.add_zero]
          have := iha p hp1
          simpa using this
      · intro hle; left
        simp only [hne, Bool.false_eq_true, if_false, hl0]; omega
      · intro _
        simp only [hne, Bool.false_eq_true, if_false, hc0]
    | false =>
      have hnb : ¬ (cur + r.total > avail ∧ 0 < cur) := by
        intro h
        simp only [breaksBefore, Bool.and_eq_false_iff, Bool.or_eq_false_iff,
          decide_eq_false_iff_not] at hb
        rcases hb with hb | hb
        · exact hb.2 h.1
        · exact hb h.2
      simp only [Bool.false_eq_true, if_false]
      obtain ⟨iha, ihb, ihc⟩ := ih page (cur + r.total) true
      refine ⟨?_, ?_, ?_⟩
      · intro p hp
        have : (page == p) = false := by simp; omega
        simp only [this, Bool.false_eq_true, if_false, Nat.zero_add, Nat.add_zero]
        exact iha p hp
      · intro hle
        simp only [beq_self_eq_true, if_true]
        by_cases hle' : cur + r.total ≤ avail
        · rcases ihb hle' with h | h
          · left; omega
          · omega
        · have hc0 : cur = 0 := by omega
          have := ihc (by omega)
          right; omega
      · intro hlt
        exact absurd ⟨by omega, by omega⟩ hnb

/-- Greedy fill: every page carries at most `avail` reserved rows, or it holds a single row. -/
theorem greedy_pages (nrow additional : Nat) (np : Bool) (rs : List RowMeta)
    (hpos : ∀ r ∈ rs, 1 ≤ r.total) (p : Nat) :
    loadP p rs (assignPages nrow additional np rs) ≤ availRows nrow additional ∨
      countEq p (assignPages nrow additional np rs) ≤ 1 := by
  obtain ⟨ha, hb, _⟩ := greedy_aux (availRows nrow additional) np rs hpos 1 0 false
  by_cases hp : p = 1
  · subst hp
    rcases hb (Nat.zero_le _) with h | h
    · left; simpa [assignPages] using h
    · right; exact h.2
  · exact ha p hp

theorem sum_idxFrom (p : Nat) (f : Nat → Nat) :
    ∀ (ps : List Nat) (rs : List RowMeta) (k : Nat), rs.length = ps.length →
      (∀ j, f (k + j) = (rs[j]?.map (·.total)).getD 0) →
      ((idxFrom p k ps).map f).sum = loadP p rs ps := by
  intro ps
  induction ps with
  | nil => intro rs k _ _; cases rs <;> simp [idxFrom, loadP]
  | cons q qs ih =>
    intro rs k hlen hf
    cases rs with
    | nil => simp at hlen
    | cons r rs =>
      have ih := ih rs (k + 1) (by simpa using hlen)
        (fun j => by have := hf (j + 1); simpa [Nat.add_assoc, Nat.add_comm 1 j] using this)
      have h0 : f k = r.total := by have := hf 0; simpa using this
      simp only [idxFrom, loadP]
      split
      · simp [ih, h0]
      · simp [ih]

theorem length_idxFrom (p k : Nat) (ps : List Nat) : (idxFrom p k ps).length = countEq p ps := by
  induction ps generalizing k with
  | nil => simp [idxFrom, countEq]
  | cons q qs ih =>
    simp only [idxFrom, countEq_cons]
    split <;> simp [ih]

/-! ### metadata of a document -/

def linesOf (d : LDoc) (i : Nat) : Nat := (d.rows[i]?.map (·.lines)).getD 0

def totOf (d : LDoc) (i : Nat) : Nat := (d.meta[i]?.map (·.total)).getD 0

def resvOf (d : LDoc) (i : Nat) : Nat :=
  match d.meta[i]?, d.rows[i]? with
  | some m, some r => m.total - r.lines
  | _, _ => 0

theorem meta_getElem (d : LDoc) (i : Nat) (m : RowMeta) (h : d.meta[i]? = some m) :
    ∃ r, d.rows[i]? = some r ∧ r.lines ≤ m.total := by
  simp only [LDoc.meta, mkMeta, List.getElem?_map, Option.map_eq_some_iff] at h
  obtain ⟨⟨r, pc, sc⟩, hz, rfl⟩ := h
  rw [List.getElem?_zip_eq_some] at hz
  obtain ⟨hr, _⟩ := hz
  rw [List.getElem?_map, Option.map_eq_some_iff] at hr
  obtain ⟨row, hrow, rfl⟩ := hr
  exact ⟨row, hrow, by simp only []; omega⟩

theorem lines_resv (d : LDoc) (i : Nat) : linesOf d i + resvOf d i = totOf d i := by
  simp only [linesOf, resvOf, totOf]
  cases hm : d.meta[i]? with
  | none =>
    have : d.rows[i]? = none := by
      rw [List.getElem?_eq_none_iff] at hm ⊢; rw [meta_length] at hm; exact hm
    simp [this]
  | some m =>
    obtain ⟨r, hr, hle⟩ := meta_getElem d i m hm
    simp only [hr, Option.map_some, Option.getD_some]; omega

theorem totOf_pos (d : LDoc) (hl : ∀ r ∈ d.rows, 1 ≤ r.lines) (i : Nat) (hi : i < d.rows.length) :
    1 ≤ totOf d i := by
  have him : i < d.meta.length := by rw [meta_length]; exact hi
  have hm : d.meta[i]? = some d.meta[i] := List.getElem?_eq_getElem him
  obtain ⟨r, hr, hle⟩ := meta_getElem d i _ hm
  have := hl r (List.mem_of_getElem? hr)
  simp only [totOf, hm, Option.map_some, Option.getD_some]; omega

theorem meta_pos (d : LDoc) (hl : ∀ r ∈ d.rows, 1 ≤ r.lines) : ∀ m ∈ d.meta, 1 ≤ m.total := by
  intro m hm
  obtain ⟨i, hi, rfl⟩ := List.getElem_of_mem hm
  obtain ⟨r, hr, hle⟩ := meta_getElem d i _ (List.getElem?_eq_getElem hi)
  have := hl r (List.mem_of_getElem? hr)
  omega

theorem length_le_sum (l : List Nat) (f : Nat → Nat) (h : ∀ i ∈ l, 1 ≤ f i) :
    l.length ≤ (l.map f).sum := by
  induction l with
  | nil => simp
  | cons a as ih =>
    have h1 := h a (by simp)
    have h2 := ih (fun i hi => h i (List.mem_cons_of_mem _ hi))
    simp only [List.length_cons, List.map_cons, List.sum_cons]; omega

theorem sum_map_add (l : List Nat) (f g : Nat → Nat) :
    (l.map f).sum + (l.map g).sum = (l.map fun i => f i + g i).sum := by
  induction l with
  | nil => simp
  | cons a as ih => simp only [List.map_cons, List.sum_cons, ← ih]; omega

/-- Lemma A of C03 on the rendered page -/
theorem page_load (d : LDoc) (hl : ∀ r ∈ d.rows, 1 ≤ r.lines) (pg : PageCtx) (hpg : pg ∈ d.pages) :
    ((dataIdx (renderPage d pg)).map (totOf d)).sum ≤ availRows d.nrow d.additional ∨
      (dataIdx (renderPage d pg)).length ≤ 1 := by
  by_cases hne : d.rows = []
  · right
    rw [pages_of_no_rows d hne] at hpg
    simp only [List.mem_singleton] at hpg
    subst hpg
    rw [renderPage_dataIdx d _ (by simp)]; simp
  · obtain ⟨P, _, _, _, hok, _⟩ := pages_spec d hne
    have hp := hok pg hpg
    have hb := hp.bound; rw [pageNums_length] at hb
    have hidx : dataIdx (renderPage d pg) = idxFrom pg.number 0 d.pageNums := by
      rw [renderPage_dataIdx d pg hb, idxFrom_sorted _ _ (pageNums_sorted d), hp.data_eq, hp.start_eq,
        hp.height_eq, Nat.zero_add]
    rw [hidx, length_idxFrom,
      sum_idxFrom pg.number (totOf d) d.pageNums d.meta 0
        (by rw [meta_length, pageNums_length]) (fun j => by simp [totOf])]
    exact greedy_pages d.nrow d.additional d.forceNewPage d.meta (meta_pos d hl) pg.number

/-- the budget with the two explained deviations -/
theorem page_budget (d : LDoc) (hl : ∀ r ∈ d.rows, 1 ≤ r.lines) (pg : PageCtx) (hpg : pg ∈ d.pages) :
    tableRowsF (linesOf d) (renderPage d pg) ≤
        d.nrow + (if d.asColheader then (d.headers.filter (fun h => !h)).length else 0) +
          (headingCount (renderPage d pg) - ((dataIdx (renderPage d pg)).map (resvOf d)).sum) ∨
      (dataIdx (renderPage d pg)).length ≤ 1 := by
  rcases page_load d hl pg hpg with hload | h1
  · have hbd : pg.dataStart = pg.start ∧ pg.start + pg.height ≤ d.rows.length := by
      by_cases hne : d.rows = []
      · rw [pages_of_no_rows d hne] at hpg
        simp only [List.mem_singleton] at hpg
        subst hpg; simp
      · obtain ⟨P, _, _, _, hok, _⟩ := pages_spec d hne
        have hb := (hok pg hpg).bound; rw [pageNums_length] at hb; exact ⟨(hok pg hpg).data_eq, hb⟩
    obtain ⟨hdata, hbound⟩ := hbd
    have hother := renderPage_otherCount d pg hbound
    have hsum := sum_map_add (dataIdx (renderPage d pg)) (linesOf d) (resvOf d)
    have hfun : (fun i => linesOf d i + resvOf d i) = totOf d := funext (lines_resv d)
    rw [hfun] at hsum
    by_cases hav : 1 ≤ d.nrow - d.additional
    · left
      rw [tableRowsF_eq]
      have : availRows d.nrow d.additional = d.nrow - d.additional := by
        simp only [availRows]; omega
      omega
    · right
      have hav1 : availRows d.nrow d.additional = 1 := by simp only [availRows]; omega
      have hlen : (dataIdx (renderPage d pg)).length ≤ ((dataIdx (renderPage d pg)).map (totOf d)).sum := by
        apply length_le_sum
        intro i hi
        rw [renderPage_dataIdx d pg hbound] at hi
        apply totOf_pos d hl
        rw [List.mem_range'_1] at hi; omega
      omega
  · exact Or.inr h1

theorem pages_bound (d : LDoc) (pg : PageCtx) (hpg : pg ∈ d.pages) :
    pg.dataStart = pg.start ∧ pg.start + pg.height ≤ d.rows.length := by
  by_cases hne : d.rows = []
  · rw [pages_of_no_rows d hne] at hpg
    simp only [List.mem_singleton] at hpg
    subst hpg; simp
  · obtain ⟨P, _, _, _, hok, _⟩ := pages_spec d hne
    have hb := (hok pg hpg).bound; rw [pageNums_length] at hb; exact ⟨(hok pg hpg).data_eq, hb⟩

end Proofs.Layout
