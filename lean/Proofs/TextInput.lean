import Model.TextInput
import Model.Escape
import Proofs.Escape
/-! Helper lemmas for `Props/C10in.lean`: the escaper and the reader on a text joined with `\line `. -/
namespace Proofs.TextInput
open Model.Escape Model.TextInput Proofs.Escape

theorem map_joinWith {α β : Type} (f : α → β) (sep : List α) :
    ∀ ls : List (List α), (joinWith sep ls).map f = joinWith (sep.map f) (ls.map (List.map f))
  | [] => rfl
  | [a] => rfl
  | a :: b :: r => by
    have ih := map_joinWith f sep (b :: r)
    simp only [joinWith, List.map_append, List.map_cons] at ih ⊢
    rw [ih]

theorem lineSep_codes : lineSep.map Char.toNat = lineSepN := by decide

theorem escape_append (a b : List Nat) : escape (a ++ b) = escape a ++ escape b := by
  simp [escape]

theorem escape_lineSepN : escape lineSepN = lineSepN := by decide

/-- the bytes written for a joined text: the bytes of every line, separated by the six bytes `\line ` -/
theorem escape_joinWith : ∀ ls : List (List Nat),
    escape (joinWith lineSepN ls) = joinWith lineSepN (ls.map escape)
  | [] => rfl
  | [a] => rfl
  | a :: b :: r => by
    have ih := escape_joinWith (b :: r)
    simp only [joinWith, List.map_cons] at ih ⊢
    rw [escape_append, escape_append, escape_lineSepN, ih]

/-- the reader on `\line `: one formatting word, no text, the reader is between characters again -/
theorem run_lineSepN (st : St) (g : Good st) : run st lineSepN = { st with words := st.words + 1 } := by
  obtain ⟨hm, hs, hh⟩ := g
  obtain ⟨mode, uc, skip, hi, out, us, words, errs, stack⟩ := st
  simp only at hm hs hh
  subst hm hs hh
  simp [lineSepN, run, step, stepGround, isLetter, isDigit, endWord, applyCW]

theorem flatten_cons_reverse (a : List Nat) (r : List (List Nat)) (o : List Nat) :
    (a :: r).flatten.reverse ++ o = r.flatten.reverse ++ (a.reverse ++ o) := by
  simp [List.flatten_cons, List.reverse_append]

theorem uTrace_append (a b : List Nat) : uTrace (a ++ b) = uTrace a ++ uTrace b := by
  simp [uTrace]

/-- the reader on the bytes of a joined text, from any state between characters -/
theorem run_joined : ∀ (ls : List (List Nat)) (st : St), Good st → ls ≠ [] →
    (∀ l ∈ ls, ∀ n ∈ l, readable n = true) →
    ∃ uc', run st (joinWith lineSepN (ls.map escape)) =
      { st with uc := uc', out := ls.flatten.reverse ++ st.out, us := (uTrace ls.flatten).reverse ++ st.us,
                words := st.words + (ls.length - 1) }
  | [], _, _, h, _ => absurd rfl h
  | [a], st, g, _, hr => by
    obtain ⟨uc', h⟩ := run_escape a st g (hr a (by simp))
    refine ⟨uc', ?_⟩
    simp only [List.map_cons, List.map_nil, joinWith, h, List.flatten_cons, List.flatten_nil, List.append_nil,
      List.length_cons, List.length_nil, Nat.zero_add, Nat.sub_self, Nat.add_zero]
  | a :: b :: r, st, g, _, hr => by
    obtain ⟨uc1, h1⟩ := run_escape a st g (hr a (by simp))
    have g1 : Good { st with uc := uc1, out := a.reverse ++ st.out, us := (uTrace a).reverse ++ st.us } :=
      ⟨g.mode, g.skip, g.hi⟩
    have h2 := run_lineSepN _ g1
    have g2 : Good { st with uc := uc1, out := a.reverse ++ st.out, us := (uTrace a).reverse ++ st.us,
                             words := st.words + 1 } := ⟨g.mode, g.skip, g.hi⟩
    obtain ⟨uc3, h3⟩ := run_joined (b :: r) _ g2 (by simp) (fun l hl => hr l (by simp [hl]))
    refine ⟨uc3, ?_⟩
    simp only [List.map_cons, joinWith] at h3 ⊢
    rw [run_append, run_append, h1, h2, h3]
    simp only [List.flatten_cons, List.reverse_append, List.append_assoc, uTrace_append, List.length_cons]
    congr 1
    omega

/-- what the reader shows for a joined text: the characters of the lines in order, one formatting word per boundary -/
theorem decode_joined (ls : List (List Nat)) (hne : ls ≠ []) (hr : ∀ l ∈ ls, ∀ n ∈ l, readable n = true) :
    decode (escape (joinWith lineSepN ls)) =
      { text := ls.flatten, us := uTrace ls.flatten, words := ls.length - 1, errs := [], depth := 0 } := by
  have g0 : Good ({} : St) := ⟨rfl, rfl, rfl⟩
  obtain ⟨uc', h⟩ := run_joined ls {} g0 hne hr
  unfold decode
  rw [escape_joinWith, h, finish_good _ ⟨rfl, rfl, rfl⟩]
  simp

end Proofs.TextInput
