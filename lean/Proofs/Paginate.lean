import Model.Paginate
/-! Helper lemmas about `assignAux` (used by Props.C02, C03, C04). -/
namespace Proofs.Paginate
open Model.Paginate

theorem assignAux_length (avail np page cur nf rs) :
    (assignAux avail np page cur nf rs).length = rs.length := by
  induction rs generalizing page cur nf with
  | nil => simp [assignAux]
  | cons r rs ih => simp [assignAux, ih]

/-- consecutive page numbers never decrease and never skip -/
def Steps : Nat → List Nat → Prop
  | _, [] => True
  | p, q :: qs => (p ≤ q ∧ q ≤ p + 1) ∧ Steps q qs

theorem assignAux_steps (avail np page cur nf rs) :
    Steps page (assignAux avail np page cur nf rs) := by
  induction rs generalizing page cur nf with
  | nil => simp [assignAux, Steps]
  | cons r rs ih =>
    simp only [assignAux, Steps]
    refine ⟨?_, ih _ _ _⟩
    split <;> omega

theorem steps_ge {p : Nat} {qs : List Nat} (h : Steps p qs) : ∀ q ∈ qs, p ≤ q := by
  induction qs generalizing p with
  | nil => simp
  | cons a as ih =>
    intro q hq
    simp only [Steps] at h
    rcases List.mem_cons.mp hq with rfl | hq
    · exact h.1.1
    · exact Nat.le_trans h.1.1 (ih h.2 q hq)

theorem assignAux_ge (avail np page cur nf rs) :
    ∀ q ∈ assignAux avail np page cur nf rs, page ≤ q :=
  steps_ge (assignAux_steps avail np page cur nf rs)

/-- the algorithm is a left fold: output on `rs ++ ext` = output on `rs` ++ output on `ext`
started from the state reached after `rs`. -/
theorem assignAux_append (avail np page cur nf rs ext) :
    assignAux avail np page cur nf (rs ++ ext) =
      assignAux avail np page cur nf rs ++
        (let s := stateAfter avail np page cur nf rs
         assignAux avail np s.1 s.2.1 s.2.2 ext) := by
  induction rs generalizing page cur nf with
  | nil => simp [assignAux, stateAfter]
  | cons r rs ih => simp [assignAux, stateAfter, ih]

end Proofs.Paginate
