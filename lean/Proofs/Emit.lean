import Model.Rtf
import Model.RtfDoc
import Model.Emit
import Proofs.Rtf
/-!
Helper lemmas for `Props/C01emit.lean`: adjacency, plainness and the `\u` discipline are compositional, and the
emitters of `Model/Emit.lean` only produce fixed control words, input words, newlines and one text group.
-/
namespace Proofs.Emit
open Model.Rtf Model.Emit Proofs.Rtf

/-! ### adjacency is compositional -/

theorem printNodes_append (a b : List Node) : printNodes (a ++ b) = printNodes a ++ printNodes b := by
  induction a with
  | nil => simp [printNodes]
  | cons n a ih => simp [printNodes, ih]

/-- the first character printed by `b`, else `after` -/
def nextChar (b : List Node) (after : Option Char) : Option Char :=
  match (printNodes b).head? with
  | some c => some c
  | none => after

theorem nodesOk_cons (n : Node) (ns : List Node) (after : Option Char) :
    nodesOk (n :: ns) after = (nodeOk n (nextChar ns after) && nodesOk ns after) := by
  rw [nodesOk]; rfl

theorem nextChar_nil (after : Option Char) : nextChar [] after = after := by
  simp [nextChar, printNodes]

theorem nextChar_append (a b : List Node) (after : Option Char) :
    nextChar (a ++ b) after = nextChar a (nextChar b after) := by
  simp only [nextChar, printNodes_append]
  cases printNodes a <;> simp

theorem nodesOk_append (a b : List Node) (after : Option Char) :
    nodesOk (a ++ b) after = (nodesOk a (nextChar b after) && nodesOk b after) := by
  induction a with
  | nil => simp [nodesOk]
  | cons n a ih =>
    simp only [List.cons_append, nodesOk_cons, ih, nextChar_append, Bool.and_assoc]

theorem nextChar_cw (n : List Char) (p : Option Int) (sp : Bool) (ns : List Node) (after : Option Char) :
    nextChar (Node.cw n p sp :: ns) after = some '\\' := by
  simp [nextChar, printNodes, printNode]

theorem nextChar_nl (ns : List Node) (after : Option Char) : nextChar (Node.nl :: ns) after = some '\n' := by
  simp [nextChar, printNodes, printNode]

theorem nextChar_grp (b ns : List Node) (after : Option Char) :
    nextChar (Node.grp b :: ns) after = some '{' := by
  simp [nextChar, printNodes, printNode]

/-- a character that may follow any control word printed without blank -/
def goodNext : Option Char → Prop
  | some c => badAfter none c = false
  | none => True

theorem badAfter_param {c : Char} (k : Int) (h : badAfter none c = false) : badAfter (some k) c = false := by
  simp only [badAfter, Bool.or_eq_false_iff] at h ⊢
  exact ⟨h.1.1.2, h.2⟩

/-- "frame" nodes: control words with a proper name, newlines, adjacency-closed groups -/
def frameNode : Node → Bool
  | .cw n _ _ => nameOk n
  | .nl => true
  | .grp body => nodesOk body (some '}')
  | _ => false

theorem goodNext_frame (n : Node) (ns : List Node) (after : Option Char) (h : frameNode n = true) :
    goodNext (nextChar (n :: ns) after) := by
  cases n with
  | cw n p sp => rw [nextChar_cw]; simp only [goodNext]; decide
  | nl => rw [nextChar_nl]; simp only [goodNext]; decide
  | grp b => rw [nextChar_grp]; simp only [goodNext]; decide
  | sym c => simp [frameNode] at h
  | hex a b => simp [frameNode] at h
  | txt s => simp [frameNode] at h

theorem nodeOk_frame (n : Node) (next : Option Char) (h : frameNode n = true) (hn : goodNext next) :
    nodeOk n next = true := by
  cases n with
  | cw n p sp =>
    simp only [frameNode] at h
    cases next with
    | none => simp [nodeOk, h]
    | some c =>
      simp only [goodNext] at hn
      cases p with
      | none => simp [nodeOk, h, hn]
      | some k => simp [nodeOk, h, badAfter_param k hn]
  | nl => simp [nodeOk]
  | grp b => simpa [nodeOk, frameNode] using h
  | sym c => simp [frameNode] at h
  | hex a b => simp [frameNode] at h
  | txt s => simp [frameNode] at h

/-- a list of frame nodes is adjacency-closed before any good character -/
theorem nodesOk_frame : ∀ (ns : List Node) (after : Option Char), ns.all frameNode = true → goodNext after →
    nodesOk ns after = true
  | [], _, _, _ => by simp [nodesOk]
  | n :: ns, after, h, ha => by
    simp only [List.all_cons, Bool.and_eq_true] at h
    rw [nodesOk_cons, nodesOk_frame ns after h.2 ha, Bool.and_true]
    apply nodeOk_frame n _ h.1
    cases ns with
    | nil => rw [nextChar_nil]; exact ha
    | cons m ns =>
      simp only [List.all_cons, Bool.and_eq_true] at h
      exact goodNext_frame m ns after h.2.1

/-! ### what the emitters produce: fixed words, input words, newlines -/

/-- control words whose name satisfies `Q`, and newlines -/
def cwOnly (Q : List Char → Bool) : Node → Bool
  | .cw w _ _ => Q w
  | .nl => true
  | _ => false

/-- control words whose name satisfies `Q` -/
def isCw (Q : List Char → Bool) : Node → Bool
  | .cw w _ _ => Q w
  | _ => false

theorem cwOnly_of_isCw (Q : List Char → Bool) (ns : List Node) (h : ns.all (isCw Q) = true) :
    ns.all (cwOnly Q) = true := by
  simp only [List.all_eq_true] at h ⊢
  intro x hx
  have := h x hx
  cases x <;> simp_all [isCw, cwOnly]

/-- the fixed control words of the text / cell / row emitters -/
def fixedStr : List String :=
  ["hyphpar", "sb", "sa", "sl", "slmult", "fi", "li", "ri", "f", "cf", "chshdng", "chcbpat", "cb", "fs", "pard",
   "par", "brdrw", "brdrcf", "clbrdrl", "clbrdrt", "clbrdrr", "clbrdrb", "trgaph", "trleft", "intbl"]

def Fixed (Q : List Char → Bool) : Prop := ∀ s ∈ fixedStr, Q s.toList = true

theorem optWord_all (Q : List Char → Bool) (w : List Char) : (optWord w).all Q = (w.isEmpty || Q w) := by
  unfold optWord
  cases w <;> simp

@[simp] theorem cwOnly_cw (Q : List Char → Bool) (w : List Char) (p : Option Int) (sp : Bool) :
    cwOnly Q (Node.cw w p sp) = Q w := rfl
@[simp] theorem cwOnly_nl (Q : List Char → Bool) : cwOnly Q Node.nl = true := rfl
@[simp] theorem isCw_cw (Q : List Char → Bool) (w : List Char) (p : Option Int) (sp : Bool) :
    isCw Q (Node.cw w p sp) = Q w := rfl

theorem fixed_conj (Q : List Char → Bool) (hQ : Fixed Q) :
    Q ['h', 'y', 'p', 'h', 'p', 'a', 'r'] = true ∧ Q ['s', 'b'] = true ∧ Q ['s', 'a'] = true ∧
    Q ['s', 'l'] = true ∧ Q ['s', 'l', 'm', 'u', 'l', 't'] = true ∧ Q ['f', 'i'] = true ∧ Q ['l', 'i'] = true ∧
    Q ['r', 'i'] = true ∧ Q ['f'] = true ∧ Q ['c', 'f'] = true ∧ Q ['c', 'h', 's', 'h', 'd', 'n', 'g'] = true ∧
    Q ['c', 'h', 'c', 'b', 'p', 'a', 't'] = true ∧ Q ['c', 'b'] = true ∧ Q ['f', 's'] = true ∧
    Q ['p', 'a', 'r', 'd'] = true ∧ Q ['p', 'a', 'r'] = true ∧ Q ['b', 'r', 'd', 'r', 'w'] = true ∧
    Q ['b', 'r', 'd', 'r', 'c', 'f'] = true ∧ Q ['c', 'l', 'b', 'r', 'd', 'r', 'l'] = true ∧
    Q ['c', 'l', 'b', 'r', 'd', 'r', 't'] = true ∧ Q ['c', 'l', 'b', 'r', 'd', 'r', 'r'] = true ∧
    Q ['c', 'l', 'b', 'r', 'd', 'r', 'b'] = true ∧ Q ['t', 'r', 'g', 'a', 'p', 'h'] = true ∧
    Q ['t', 'r', 'l', 'e', 'f', 't'] = true ∧ Q ['i', 'n', 't', 'b', 'l'] = true := by
  simpa [Fixed, fixedStr] using hQ

theorem paraFormat_cw (Q : List Char → Bool) (hQ : Fixed Q) (t : TextFmt) (ht : (textWords t).all Q = true) :
    (paraFormat t).all (cwOnly Q) = true := by
  have hf := fixed_conj Q hQ
  simp only [textWords, List.all_append, optWord_all, Bool.and_eq_true, Bool.or_eq_true] at ht
  cases hh : t.hyph <;> cases hs : t.sl <;> cases hj : t.just.isEmpty <;>
    simp_all [paraFormat, cwi, cw0]

theorem runWords_cw (Q : List Char → Bool) (hQ : Fixed Q) (t : TextFmt) (ht : (textWords t).all Q = true) :
    (runWords t).all (isCw Q) = true := by
  have hf := fixed_conj Q hQ
  simp only [textWords, List.all_append, optWord_all, Bool.and_eq_true, Bool.or_eq_true] at ht
  cases hc : t.color <;> cases hb : t.bg <;>
    simp_all [runWords, cwi]

theorem borderNodes_cw (Q : List Char → Bool) (hQ : Fixed Q) (side : String) (hs : Q side.toList = true)
    (b : BorderFmt) (hb : (optWord b.style).all Q = true) : (borderNodes side b).all (cwOnly Q) = true := by
  have hf := fixed_conj Q hQ
  simp only [optWord_all, Bool.or_eq_true] at hb
  cases hc : b.color <;> cases hj : b.style.isEmpty <;>
    simp_all [borderNodes, cwi, cw0]

theorem optBorder_cw (Q : List Char → Bool) (hQ : Fixed Q) (side : String) (hs : Q side.toList = true)
    (o : Option BorderFmt) (hb : (borderWords o).all Q = true) : (optBorder side o).all (cwOnly Q) = true := by
  cases o with
  | none => simp [optBorder]
  | some b => exact borderNodes_cw Q hQ side hs b hb

theorem cellDefn_cw (Q : List Char → Bool) (hQ : Fixed Q) (c : CellFmt) (hc : (cellWords c).all Q = true) :
    (cellDefn c).all (cwOnly Q) = true := by
  have hf := fixed_conj Q hQ
  simp only [cellWords, List.all_append, Bool.and_eq_true] at hc
  obtain ⟨⟨⟨⟨⟨_, hv⟩, hl⟩, ht⟩, hr⟩, hb⟩ := hc
  simp only [cellDefn, List.all_cons, List.all_append, cwOnly_nl, Bool.true_and, Bool.and_eq_true]
  refine ⟨⟨⟨⟨?_, ?_⟩, ?_⟩, ?_⟩, ?_⟩
  · exact optBorder_cw Q hQ _ (by simp [hf]) _ hl
  · exact optBorder_cw Q hQ _ (by simp [hf]) _ ht
  · exact optBorder_cw Q hQ _ (by simp [hf]) _ hr
  · exact optBorder_cw Q hQ _ (by simp [hf]) _ hb
  · simpa [List.all_map] using hv

/-! ### `withSpace` -/

theorem withSpace_cons_cons (x y : Node) (rest : List Node) :
    withSpace (x :: y :: rest) = x :: withSpace (y :: rest) := by
  simp [withSpace]

theorem withSpace_head (Q : List Char → Bool) (y : Node) (rest : List Node) (hy : isCw Q y = true) :
    ∃ n p s tl, withSpace (y :: rest) = Node.cw n p s :: tl := by
  cases y with
  | cw n p s =>
    cases rest with
    | nil => exact ⟨n, p, true, [], rfl⟩
    | cons z rest => exact ⟨n, p, s, withSpace (z :: rest), withSpace_cons_cons _ _ _⟩
  | _ => simp [isCw] at hy

/-- the blank after the last word makes any text admissible behind the words -/
theorem withSpace_nodesOk : ∀ (ws : List Node) (body : List Node) (after : Option Char), ws ≠ [] →
    ws.all (isCw nameOk) = true → nodesOk (withSpace ws ++ body) after = nodesOk body after
  | [], _, _, h, _ => absurd rfl h
  | [x], body, after, _, h => by
    cases x with
    | cw n p s =>
      simp only [List.all_cons, isCw_cw, List.all_nil, Bool.and_true] at h
      simp [withSpace, nodesOk_cons, nodeOk, h]
    | _ => simp [isCw] at h
  | x :: y :: rest, body, after, _, h => by
    simp only [List.all_cons, Bool.and_eq_true] at h
    have ih := withSpace_nodesOk (y :: rest) body after (by simp) (by simp [h.2.1, h.2.2])
    obtain ⟨n, p, s, tl, e⟩ := withSpace_head nameOk y rest h.2.1
    rw [withSpace_cons_cons, List.cons_append, nodesOk_cons, ih, e, List.cons_append, nextChar_cw]
    cases x with
    | cw n p s =>
      have hn : nameOk n = true := h.1
      have h1 : badAfter none '\\' = false := by decide
      cases p with
      | none => simp [nodeOk, hn, h1]
      | some k => simp [nodeOk, hn, badAfter_param k h1]
    | _ => simp [isCw] at h

theorem toksNodes_withSpace : ∀ ws : List Node, toksNodes (withSpace ws) = toksNodes ws
  | [] => rfl
  | [x] => by cases x <;> simp [withSpace, toksNodes, toksNode]
  | x :: y :: rest => by
    rw [withSpace_cons_cons]
    simp only [toksNodes, toksNodes_withSpace (y :: rest)]

theorem plainNodes_all : ∀ ns : List Node, plainNodes ns = ns.all plainNode
  | [] => by simp [plainNodes]
  | n :: ns => by simp [plainNodes, plainNodes_all ns]

theorem noUNodes_all : ∀ ns : List Node, noUNodes ns = ns.all noUNode
  | [] => by simp [noUNodes]
  | n :: ns => by simp [noUNodes, noUNodes_all ns]

theorem plainNodes_withSpace : ∀ ws : List Node, plainNodes (withSpace ws) = plainNodes ws
  | [] => rfl
  | [x] => by cases x <;> simp [withSpace, plainNodes, plainNode]
  | x :: y :: rest => by
    rw [withSpace_cons_cons]
    simp only [plainNodes, plainNodes_withSpace (y :: rest)]

/-! ### the three readings of "only good control words" -/

def notTable (w : List Char) : Bool := !tableWord w
def notU (w : List Char) : Bool := !uWord w

theorem fixed_nameOk : Fixed nameOk := by unfold Fixed; decide
theorem fixed_notTable : Fixed notTable := by unfold Fixed; decide
theorem fixed_notU : Fixed notU := by unfold Fixed; decide

theorem frame_of_cwOnly (ns : List Node) (h : ns.all (cwOnly nameOk) = true) : ns.all frameNode = true := by
  simp only [List.all_eq_true] at h ⊢
  intro x hx
  have := h x hx
  cases x <;> simp_all [cwOnly, frameNode]

theorem plain_of_cwOnly (ns : List Node) (h : ns.all (cwOnly notTable) = true) : plainNodes ns = true := by
  rw [plainNodes_all]
  simp only [List.all_eq_true] at h ⊢
  intro x hx
  have := h x hx
  cases x <;> simp_all [cwOnly, plainNode, notTable]

theorem noU_of_cwOnly (ns : List Node) (h : ns.all (cwOnly notU) = true) : noUNodes ns = true := by
  rw [noUNodes_all]
  simp only [List.all_eq_true] at h ⊢
  intro x hx
  have := h x hx
  cases x <;> simp_all [cwOnly, noUNode, notU, uWord]

theorem plainNodes_append (a b : List Node) : plainNodes (a ++ b) = (plainNodes a && plainNodes b) := by
  simp [plainNodes_all]

theorem noUNodes_append (a b : List Node) : noUNodes (a ++ b) = (noUNodes a && noUNodes b) := by
  simp [noUNodes_all]

/-! ### the side conditions speak about the input words -/

theorem all_nameOk (ws : List (List Char)) (h : ws.all wordOk = true) : ws.all nameOk = true := by
  simp only [List.all_eq_true, wordOk, Bool.and_eq_true] at h ⊢
  exact fun x hx => (h x hx).1

theorem all_notTable (ws : List (List Char)) (h : ws.all wordOk = true) : ws.all notTable = true := by
  simp only [List.all_eq_true, wordOk, Bool.and_eq_true, notTable] at h ⊢
  exact fun x hx => (h x hx).2

theorem textWords_ok (t : TextFmt) (h : textFmtOk t = true) : (textWords t).all wordOk = true := by
  simpa [textWords, optWord_all, textFmtOk] using h

theorem borderWords_ok (o : Option BorderFmt)
    (h : (match o with | some b => borderOk b | none => true) = true) : (borderWords o).all wordOk = true := by
  cases o with
  | none => simp [borderWords]
  | some b => simpa [borderWords, optWord_all, borderOk] using h

theorem cellWords_ok (c : CellFmt) (h : cellOk c = true) : (cellWords c).all wordOk = true := by
  simp only [cellOk, List.all_cons, List.all_nil, Bool.and_true, Bool.and_eq_true] at h
  obtain ⟨⟨⟨ht, _⟩, hv⟩, hl, htp, hr, hb⟩ := h
  simp only [cellWords, List.all_append, Bool.and_eq_true]
  exact ⟨⟨⟨⟨⟨textWords_ok _ ht, hv⟩, borderWords_ok _ hl⟩, borderWords_ok _ htp⟩, borderWords_ok _ hr⟩,
    borderWords_ok _ hb⟩

theorem rowWords_ok (r : RowFmt) (h : rowOk r = true) : (rowWords r).all wordOk = true := by
  simp only [rowOk, Bool.and_eq_true] at h
  obtain ⟨⟨hj, hc⟩, _⟩ := h
  simp only [rowWords, List.all_append, optWord_all, hj, Bool.true_and, List.all_flatMap]
  rw [List.all_eq_true] at hc ⊢
  exact fun c hcm => cellWords_ok c (hc c hcm)

theorem cellWords_of_row (Q : List Char → Bool) (r : RowFmt) (h : (rowWords r).all Q = true) :
    ∀ c ∈ r.cells, (cellWords c).all Q = true := by
  simp only [rowWords, List.all_append, List.all_flatMap, Bool.and_eq_true, List.all_eq_true] at h
  intro c hc
  simp only [List.all_eq_true]
  exact h.2 c hc

theorem textWords_of_cell (Q : List Char → Bool) (c : CellFmt) (h : (cellWords c).all Q = true) :
    (textWords c.text).all Q = true := by
  simp only [cellWords, List.all_append, Bool.and_eq_true] at h
  exact h.1.1.1.1.1

/-! ### text runs, cell contents, paragraphs -/

theorem runWords_ne (t : TextFmt) : runWords t ≠ [] := by
  simp [runWords]

theorem plainRun_frame (t : TextFmt) (text : List Node) (ht : (textWords t).all nameOk = true)
    (hx : nodesOk text (some '}') = true) : (plainRun t text).all frameNode = true := by
  have hf := fixed_conj nameOk fixed_nameOk
  have hw := withSpace_nodesOk (runWords t) text (some '}') (runWords_ne t) (runWords_cw nameOk fixed_nameOk t ht)
  simp [plainRun, cwi, frameNode, hf, hw, hx]

theorem plainRun_plain (t : TextFmt) (text : List Node) (ht : (textWords t).all notTable = true)
    (hx : plainNodes text = true) : plainNodes (plainRun t text) = true := by
  have hf := fixed_conj notTable fixed_notTable
  have hw := plain_of_cwOnly _ (cwOnly_of_isCw _ _ (runWords_cw notTable fixed_notTable t ht))
  have h1 : tableWord ['f', 's'] = false := by decide
  simp [plainRun, cwi, plainNodes, plainNode, plainNodes_append, plainNodes_withSpace, hw, hx, h1]

theorem cellContent_frame (t : TextFmt) (text : List Node) (ht : (textWords t).all nameOk = true)
    (hx : nodesOk text (some '}') = true) : (cellContent t text).all frameNode = true := by
  have hf := fixed_conj nameOk fixed_nameOk
  have hp := frame_of_cwOnly _ (paraFormat_cw nameOk fixed_nameOk t ht)
  have hr := plainRun_frame t text ht hx
  simp [cellContent, cw0, frameNode, hf, hp, hr]

theorem cellContent_plain (t : TextFmt) (text : List Node) (ht : (textWords t).all notTable = true)
    (hx : plainNodes text = true) : plainNodes (cellContent t text) = true := by
  have hp := plain_of_cwOnly _ (paraFormat_cw notTable fixed_notTable t ht)
  have hr := plainRun_plain t text ht hx
  have h1 : tableWord ['p', 'a', 'r', 'd'] = false := by decide
  simp [cellContent, cw0, plainNodes, plainNode, plainNodes_append, hp, hr, h1]

theorem paragraph_frame (t : TextFmt) (text : List Node) (ht : (textWords t).all nameOk = true)
    (hx : nodesOk text (some '}') = true) :
    (cw0 "pard" :: paraFormat t ++ plainRun t text ++ [cw0 "par"]).all frameNode = true := by
  have hf := fixed_conj nameOk fixed_nameOk
  have hp := frame_of_cwOnly _ (paraFormat_cw nameOk fixed_nameOk t ht)
  have hr := plainRun_frame t text ht hx
  simp [cw0, frameNode, hf, hp, hr]

theorem paragraph_plain (t : TextFmt) (text : List Node) (ht : (textWords t).all notTable = true)
    (hx : plainNodes text = true) : plainNode (paragraph t text) = true := by
  have hp := plain_of_cwOnly _ (paraFormat_cw notTable fixed_notTable t ht)
  have hr := plainRun_plain t text ht hx
  have h1 : tableWord ['p', 'a', 'r', 'd'] = false := by decide
  have h2 : tableWord ['p', 'a', 'r'] = false := by decide
  simp [paragraph, cw0, plainNodes, plainNode, plainNodes_append, hp, hr, h1, h2]

/-! ### rows -/

theorem cellxOk_map (f g : CellFmt → CellG) (h : ∀ c, (f c).cellx = (g c).cellx) :
    ∀ (cs : List CellFmt) (l : Int), cellxOk l (cs.map f) = cellxOk l (cs.map g)
  | [], _ => rfl
  | c :: cs, l => by
    simp only [List.map_cons, cellxOk, h c, cellxOk_map f g h cs]

theorem rowHead_cw (Q : List Char → Bool) (hQ : Fixed Q) (r : RowFmt) (hr : (rowWords r).all Q = true) :
    ([cwi "trgaph" r.gaph, cwi "trleft" 0] ++
      (if r.just.isEmpty then [] else [Node.cw r.just none false])).all (cwOnly Q) = true := by
  have hf := fixed_conj Q hQ
  simp only [rowWords, List.all_append, optWord_all, Bool.and_eq_true, Bool.or_eq_true] at hr
  cases hj : r.just.isEmpty <;> simp_all [cwi]

theorem rowMid_cw (Q : List Char → Bool) (hQ : Fixed Q) : [Node.nl, cw0 "intbl"].all (cwOnly Q) = true := by
  have hf := fixed_conj Q hQ
  simp [cw0, hf]

theorem row_block_ok (r : RowFmt) (h : rowOk r = true) : blockOk (rowBlock r) = true := by
  have hw := all_notTable _ (rowWords_ok r h)
  simp only [rowOk, Bool.and_eq_true] at h
  obtain ⟨⟨_, hc⟩, hx⟩ := h
  simp only [rowBlock, blockOk, Bool.and_eq_true]
  refine ⟨⟨⟨plain_of_cwOnly _ (rowHead_cw notTable fixed_notTable r hw),
    plain_of_cwOnly _ (rowMid_cw notTable fixed_notTable)⟩, ?_⟩, ?_⟩
  · rw [List.all_map, List.all_eq_true]
    intro c hcm
    have hcw := cellWords_of_row notTable r hw c hcm
    have hco : cellOk c = true := (List.all_eq_true.mp hc) c hcm
    simp only [cellOk, textOk, Bool.and_eq_true] at hco
    simp only [Function.comp, Bool.and_eq_true]
    exact ⟨plain_of_cwOnly _ (cellDefn_cw notTable fixed_notTable c hcw),
      cellContent_plain _ _ (textWords_of_cell notTable c hcw) hco.1.1.2.1⟩
  · rw [← hx]
    exact cellxOk_map (fun c => { defn := cellDefn c, cellx := c.cellx, content := cellContent c.text c.body })
      (fun c => { defn := [], cellx := c.cellx, content := [] }) (fun _ => rfl) r.cells 0

theorem rowNodes_frame (head : List Node) (cells : List CellG) (mid : List Node)
    (hh : head.all frameNode = true) (hm : mid.all frameNode = true)
    (hc : ∀ c ∈ cells, c.defn.all frameNode = true ∧ c.content.all frameNode = true) :
    (rowNodes head cells mid ++ [cw0 "pard"]).all frameNode = true := by
  have n1 : frameNode (cw0 "trowd") = true := by decide
  have n2 : frameNode (cw0 "row") = true := by decide
  have n3 : frameNode (cw0 "pard") = true := by decide
  have n4 : ∀ k, frameNode (Node.cw "cellx".toList (some k) false) = true := fun _ => by
    simp only [frameNode]; decide
  have n5 : frameNode (cw0 "cell") = true := by decide
  simp only [rowNodes, List.all_cons, List.all_append, List.all_nil, Bool.and_true, Bool.and_eq_true, n1, n2, n3,
    hh, hm, true_and, List.all_flatMap, n4, n5, List.all_eq_true]
  exact ⟨fun c hcm => List.all_eq_true.mp (hc c hcm).1, fun c hcm => List.all_eq_true.mp (hc c hcm).2⟩

/-- every node of an emitted row is a frame node -/
theorem row_frame (r : RowFmt) (h : rowOk r = true) : (rowNodesFull r).all frameNode = true := by
  have hw := all_nameOk _ (rowWords_ok r h)
  simp only [rowOk, Bool.and_eq_true] at h
  obtain ⟨⟨_, hc⟩, _⟩ := h
  apply rowNodes_frame _ _ _ (frame_of_cwOnly _ (rowHead_cw nameOk fixed_nameOk r hw))
    (frame_of_cwOnly _ (rowMid_cw nameOk fixed_nameOk))
  intro g hg
  obtain ⟨c, hcm, rfl⟩ := List.mem_map.mp hg
  have hcw := cellWords_of_row nameOk r hw c hcm
  have hco : cellOk c = true := (List.all_eq_true.mp hc) c hcm
  simp only [cellOk, textOk, Bool.and_eq_true] at hco
  exact ⟨frame_of_cwOnly _ (cellDefn_cw nameOk fixed_nameOk c hcw),
    cellContent_frame _ _ (textWords_of_cell nameOk c hcw) hco.1.1.2.2⟩

/-! ### the `\\u` discipline -/

theorem uOk_chrs (uc : Nat) (st : List Nat) (s : List Char) (ts : List Tok) :
    uOk uc st 0 (s.map Tok.chr ++ ts) = uOk uc st 0 ts := by
  induction s with
  | nil => simp
  | cons c s ih => simp [uOk, ih]

theorem uOk_cw_noU (uc : Nat) (st : List Nat) (n : List Char) (p : Option Int) (ts : List Tok)
    (h : uWord n = false) : uOk uc st 0 (Tok.cw n p :: ts) = uOk uc st 0 ts := by
  simp [uWord] at h
  simp [uOk, h]

theorem uOk_fallback (uc : Nat) (st : List Nat) (c : Char) (ts : List Tok) :
    uOk uc st 1 (Tok.chr c :: ts) = uOk uc st 0 ts := by
  show uOk uc st (0 + 1) (Tok.chr c :: ts) = _
  simp [uOk, isFallback]

mutual
theorem uOk_noUNode : (n : Node) → (uc : Nat) → (st : List Nat) → (ts : List Tok) → noUNode n = true →
    uOk uc st 0 (toksNode n ++ ts) = uOk uc st 0 ts
  | .cw n p _, uc, st, ts, h => by
    simp only [noUNode, Bool.not_eq_true'] at h
    simpa [toksNode] using uOk_cw_noU uc st n p ts h
  | .sym _, _, _, _, _ => by simp [toksNode, uOk]
  | .hex _ _, _, _, _, _ => by simp [toksNode, uOk]
  | .txt s, uc, st, ts, _ => by
    simp only [toksNode]
    exact uOk_chrs uc st s ts
  | .nl, _, _, _, _ => by simp [toksNode]
  | .grp body, uc, st, ts, h => by
    simp only [noUNode] at h
    have ih := uOk_noUNodes body uc (uc :: st) (Tok.close :: ts) h
    simp only [toksNode, List.cons_append, List.append_assoc, uOk, List.nil_append]
    rw [ih]
    simp [uOk]
theorem uOk_noUNodes : (ns : List Node) → (uc : Nat) → (st : List Nat) → (ts : List Tok) → noUNodes ns = true →
    uOk uc st 0 (toksNodes ns ++ ts) = uOk uc st 0 ts
  | [], _, _, _, _ => by simp [toksNodes]
  | n :: ns, uc, st, ts, h => by
    simp only [noUNodes, Bool.and_eq_true] at h
    simp only [toksNodes, List.append_assoc]
    rw [uOk_noUNode n uc st _ h.1, uOk_noUNodes ns uc st ts h.2]
end

/-- the nodes leave the reader's `\\uc` state (1, nothing pending) as they found it -/
def UNeutral (ns : List Node) : Prop :=
  ∀ (st : List Nat) (ts : List Tok), uOk 1 st 0 (toksNodes ns ++ ts) = uOk 1 st 0 ts

theorem uNeutral_noU (ns : List Node) (h : noUNodes ns = true) : UNeutral ns :=
  fun st ts => uOk_noUNodes ns 1 st ts h

theorem uNeutral_nil : UNeutral [] := fun _ _ => by simp [toksNodes]

theorem uNeutral_append (a b : List Node) (ha : UNeutral a) (hb : UNeutral b) : UNeutral (a ++ b) := by
  intro st ts
  rw [toksNodes_append, List.append_assoc, ha, hb]

theorem uNeutral_cons (n : Node) (b : List Node) (ha : UNeutral [n]) (hb : UNeutral b) : UNeutral (n :: b) :=
  uNeutral_append [n] b ha hb

theorem uNeutral_grp (body : List Node) (h : UNeutral body) : UNeutral [Node.grp body] := by
  intro st ts
  simp only [toksNodes, toksNode, List.cons_append, List.append_assoc, List.nil_append, List.append_nil, uOk]
  rw [h]
  simp [uOk]

theorem uNeutral_flatMap {α : Type} (l : List α) (f : α → List Node) (h : ∀ x ∈ l, UNeutral (f x)) :
    UNeutral (l.flatMap f) := by
  induction l with
  | nil => exact uNeutral_nil
  | cons x l ih =>
    rw [List.flatMap_cons]
    exact uNeutral_append _ _ (h x (by simp)) (ih (fun y hy => h y (by simp [hy])))

theorem uOk_uFormAux : ∀ (fuel : Nat) (ns : List Node) (st : List Nat) (ts : List Tok),
    uFormAux fuel ns = true → uOk 1 st 0 (toksNodes ns ++ ts) = uOk 1 st 0 ts := by
  intro fuel
  induction fuel with
  | zero =>
    intro ns st ts h
    cases ns with
    | nil => simp [toksNodes]
    | cons n ns => simp [uFormAux] at h
  | succ fuel ih =>
    intro ns st ts h
    cases ns with
    | nil => simp [toksNodes]
    | cons n rest =>
      cases n with
      | cw n p sp =>
        simp only [uFormAux] at h
        split at h
        · rename_i hn
          split at h
          · rename_i m k c cs rest'
            simp only [Bool.and_eq_true, decide_eq_true_eq, beq_iff_eq] at h hn
            obtain ⟨⟨⟨hm, hlo⟩, hhi⟩, hr⟩ := h
            subst hn hm
            have e1 : ("u".toList == "uc".toList) = false := by decide
            simp only [toksNodes, toksNode, List.cons_append, List.nil_append, List.map_cons, List.append_assoc]
            simp only [uOk, beq_self_eq_true, if_true, e1, if_false, Bool.false_eq_true]
            simp [hlo, hhi, uOk_fallback, uOk_chrs, ih rest' st ts hr]
          · simp at h
        · rename_i hn
          split at h
          · simp at h
          · rename_i hn2
            simp only [toksNodes, toksNode, List.cons_append, List.nil_append]
            rw [uOk_cw_noU 1 st n p _ (by simp at hn hn2; simp [uWord, hn, hn2])]
            exact ih rest st ts h
      | grp body =>
        simp only [uFormAux, Bool.and_eq_true] at h
        rw [show Node.grp body :: rest = [Node.grp body] ++ rest from rfl, toksNodes_append, List.append_assoc,
          uNeutral_grp body (uNeutral_noU body h.1), ih rest st ts h.2]
      | sym c =>
        simp only [uFormAux] at h
        simpa [toksNodes, toksNode, uOk] using ih rest st ts h
      | hex a b =>
        simp only [uFormAux] at h
        simpa [toksNodes, toksNode, uOk] using ih rest st ts h
      | txt s =>
        simp only [uFormAux] at h
        simp only [toksNodes, toksNode, List.append_assoc]
        rw [uOk_chrs]
        exact ih rest st ts h
      | nl =>
        simp only [uFormAux] at h
        simpa [toksNodes, toksNode] using ih rest st ts h

theorem uNeutral_uForm (ns : List Node) (h : uForm ns = true) : UNeutral ns :=
  fun st ts => uOk_uFormAux ns.length ns st ts h

theorem uNeutral_congr (a b : List Node) (e : toksNodes a = toksNodes b) (h : UNeutral b) : UNeutral a := by
  intro st ts
  rw [e, h]

theorem noU_cwi (s : String) (k : Int) (h : uWord s.toList = false) : noUNodes [cwi s k] = true := by
  simp [uWord] at h
  simp [noUNodes, noUNode, cwi, h]

theorem plainRun_uNeutral (t : TextFmt) (text : List Node) (ht : (textWords t).all notU = true)
    (hu : uForm text = true) : UNeutral (plainRun t text) := by
  have hw := noU_of_cwOnly _ (cwOnly_of_isCw _ _ (runWords_cw notU fixed_notU t ht))
  apply uNeutral_cons
  · exact uNeutral_noU _ (noU_cwi _ _ (by decide))
  · apply uNeutral_grp
    apply uNeutral_congr _ (runWords t ++ text)
    · rw [toksNodes_append, toksNodes_append, toksNodes_withSpace]
    · exact uNeutral_append _ _ (uNeutral_noU _ hw) (uNeutral_uForm _ hu)

theorem cellContent_uNeutral (t : TextFmt) (text : List Node) (ht : (textWords t).all notU = true)
    (hu : uForm text = true) : UNeutral (cellContent t text) := by
  have hp := noU_of_cwOnly _ (paraFormat_cw notU fixed_notU t ht)
  apply uNeutral_cons _ _ (uNeutral_noU _ (by decide))
  apply uNeutral_cons _ _ (uNeutral_noU _ (by decide))
  exact uNeutral_append _ _ (uNeutral_noU _ hp) (plainRun_uNeutral t text ht hu)

theorem rowNodes_uNeutral (head : List Node) (cells : List CellG) (mid : List Node)
    (hh : UNeutral head) (hm : UNeutral mid) (hc : ∀ c ∈ cells, UNeutral c.defn ∧ UNeutral c.content) :
    UNeutral (rowNodes head cells mid ++ [cw0 "pard"]) := by
  unfold rowNodes
  apply uNeutral_append _ _ _ (uNeutral_noU _ (by decide))
  apply uNeutral_cons _ _ (uNeutral_noU _ (by decide))
  apply uNeutral_append _ _ _ (uNeutral_noU _ (by decide))
  apply uNeutral_append _ _ _ hm
  apply uNeutral_append
  · apply uNeutral_append _ _ hh
    apply uNeutral_flatMap
    intro c hcm
    apply uNeutral_append _ _ (hc c hcm).1
    apply uNeutral_noU
    simp only [noUNodes, noUNode, Bool.and_true]
    decide
  · apply uNeutral_flatMap
    intro c hcm
    exact uNeutral_append _ _ (hc c hcm).2 (uNeutral_noU _ (by decide))

/-- the `\\u` state is untouched by an emitted row whose input words are not `u` / `uc` and whose texts have the
escaper's form -/
theorem row_uNeutral (r : RowFmt) (hn : rowNoU r = true) (hu : ∀ c ∈ r.cells, uForm c.body = true) :
    UNeutral (rowNodesFull r) := by
  have hw : (rowWords r).all notU = true := hn
  apply rowNodes_uNeutral _ _ _ (uNeutral_noU _ (noU_of_cwOnly _ (rowHead_cw notU fixed_notU r hw)))
    (uNeutral_noU _ (noU_of_cwOnly _ (rowMid_cw notU fixed_notU)))
  intro g hg
  obtain ⟨c, hcm, rfl⟩ := List.mem_map.mp hg
  have hcw := cellWords_of_row notU r hw c hcm
  exact ⟨uNeutral_noU _ (noU_of_cwOnly _ (cellDefn_cw notU fixed_notU c hcw)),
    cellContent_uNeutral _ _ (textWords_of_cell notU c hcw) (hu c hcm)⟩

/-! ### documents made of emitted rows -/

theorem rowsDoc_blocks (rows : List RowFmt) :
    (rows.flatMap fun r => [rowBlock r, BlockG.plain [cw0 "pard", Node.nl]]).flatMap blockNodes =
      rows.flatMap fun r => rowNodesFull r ++ [Node.nl] := by
  induction rows with
  | nil => rfl
  | cons r rows ih =>
    simp only [List.flatMap_cons, ih, rowNodesFull, blockNodes, List.append_assoc, List.cons_append,
      List.nil_append]

theorem docNodes_rowsDoc (head : List Node) (rows : List RowFmt) :
    docNodes (rowsDoc head rows) =
      Node.cw "rtf".toList (some 1) false :: (head ++ rows.flatMap fun r => rowNodesFull r ++ [Node.nl]) := by
  simp only [docNodes, rowsDoc, rowsDoc_blocks, List.cons_append]

theorem nodesOk_top (b : List Node) : nodesOk [Node.grp b] none = nodesOk b (some '}') := by
  simp [nodesOk, nodeOk]

theorem uOk_open (uc : Nat) (st : List Nat) (ts : List Tok) :
    uOk uc st 0 (Tok.open :: ts) = uOk uc (uc :: st) 0 ts := by
  simp [uOk]

theorem rows_frame (rows : List RowFmt) (h : ∀ r ∈ rows, rowOk r = true) :
    (rows.flatMap fun r => rowNodesFull r ++ [Node.nl]).all frameNode = true := by
  rw [List.all_flatMap, List.all_eq_true]
  intro r hr
  simp only [List.all_append, row_frame r (h r hr), List.all_cons, frameNode, List.all_nil, Bool.and_self]

theorem rows_uNeutral (rows : List RowFmt)
    (h : ∀ r ∈ rows, rowNoU r = true ∧ ∀ c ∈ r.cells, uForm c.body = true) :
    UNeutral (rows.flatMap fun r => rowNodesFull r ++ [Node.nl]) := by
  apply uNeutral_flatMap
  intro r hr
  exact uNeutral_append _ _ (row_uNeutral r (h r hr).1 (h r hr).2) (uNeutral_noU _ (by decide))

theorem rows_blocksOk (rows : List RowFmt) (h : ∀ r ∈ rows, rowOk r = true) :
    (rows.flatMap fun r => [rowBlock r, BlockG.plain [cw0 "pard", Node.nl]]).all blockOk = true := by
  rw [List.all_flatMap, List.all_eq_true]
  intro r hr
  have hp : blockOk (BlockG.plain [cw0 "pard", Node.nl]) = true := by decide
  simp only [List.all_cons, row_block_ok r (h r hr), hp, List.all_nil, Bool.and_self]

theorem nodesOk_snoc_nl (head : List Node) (after : Option Char) :
    nodesOk (head ++ [Node.nl]) after = nodesOk head (some '\n') := by
  rw [nodesOk_append, nextChar_nl]
  simp [nodesOk, nodeOk]

theorem nextChar_snoc_nl (head b : List Node) (after : Option Char) :
    nextChar ((head ++ [Node.nl]) ++ b) after = (printNodes (head ++ [Node.nl])).head? := by
  rw [nextChar_append]
  simp only [nextChar, printNodes_append, printNodes, printNode, List.append_nil]
  cases printNodes head <;> simp

/-- the side condition of the grammar for a head and emitted rows -/
theorem rowsDoc_ok (head : List Node) (rows : List RowFmt)
    (hplain : plainNodes head = true) (hnou : noUNodes head = true)
    (hadj : nodesOk (head ++ [Node.nl]) none = true)
    (hfirst : nodeOk (Node.cw "rtf".toList (some 1) false) (printNodes (head ++ [Node.nl])).head? = true)
    (hrows : ∀ r ∈ rows, rowOk r = true ∧ rowNoU r = true ∧ ∀ c ∈ r.cells, uForm c.body = true) :
    docOk (rowsDoc (head ++ [Node.nl]) rows) = true := by
  have hro : ∀ r ∈ rows, rowOk r = true := fun r hr => (hrows r hr).1
  simp only [docOk, Bool.and_eq_true]
  refine ⟨⟨⟨?_, rows_blocksOk rows hro⟩, ?_⟩, ?_⟩
  · show plainNodes (head ++ [Node.nl]) = true
    rw [plainNodes_append, hplain]
    decide
  · have hR := nodesOk_frame _ (some '}') (rows_frame rows hro) (by simp only [goodNext]; decide)
    rw [nodesOk_snoc_nl] at hadj
    rw [nodesOk_top, docNodes_rowsDoc, nodesOk_cons, nodesOk_append, nodesOk_snoc_nl, hadj, hR, nextChar_snoc_nl,
      hfirst]
    rfl
  · have hU : UNeutral ((head ++ [Node.nl]) ++ rows.flatMap fun r => rowNodesFull r ++ [Node.nl]) :=
      uNeutral_append _ _ (uNeutral_noU _ (by rw [noUNodes_append, hnou]; decide))
        (rows_uNeutral rows (fun r hr => (hrows r hr).2))
    have hr : uWord "rtf".toList = false := by decide
    simp only [toksNode, docNodes_rowsDoc, toksNodes, List.cons_append, List.nil_append]
    rw [uOk_open, uOk_cw_noU _ _ _ _ _ hr, hU]
    simp [uOk]

end Proofs.Emit
