import Model.Layout
import Proofs.Paginate
/-!
Helper lemmas for Props.C06: `renderPage` is a concatenation of nine segments, every segment consists of
blocks of one rank only.  Also: the page list does not read the three placement fields, and a one-page
document has `number = total = 1`.
-/
namespace Proofs.LayoutRoles
open Model.Paginate Model.Layout Proofs.Paginate

/-- position of a block kind in the page (same table as `Props.C06.rank`) -/
def rk : Block → Nat
  | .brk => 0
  | .title => 1
  | .subline => 2
  | .sublineHeading _ => 3
  | .colHeader _ => 4
  | .heading _ _ => 5
  | .data _ => 5
  | .footnote _ => 6
  | .source _ => 7

/-! ## the nine segments of `renderPage` -/

def segBrk (pg : PageCtx) : List Block := if pg.number == 1 then [] else [Block.brk]

def segTitle (d : LDoc) (pg : PageCtx) : List Block :=
  if d.hasTitle && d.pageTitle.shows (pg.number == 1) (pg.number == pg.total) then [Block.title] else []

def segSubline (d : LDoc) (pg : PageCtx) : List Block :=
  if d.hasSublineTxt && d.pageTitle.shows (pg.number == 1) (pg.number == pg.total)
  then [Block.subline] else []

def segSubHeading (d : LDoc) (pg : PageCtx) : List Block :=
  if d.hasSubline then
    match d.rows[pg.start]? with
    | some r =>
      let parts := (groupValues r.skey).filterMap fun gv => match gv with
        | some (some s) => some s
        | some none => none
        | none => none
      if parts.isEmpty then [] else [Block.sublineHeading (", ".intercalate parts)]
    | none => []
  else []

def segColHeaders (d : LDoc) (pg : PageCtx) : List Block :=
  if d.pagebyHeader || pg.number == 1 then
    (d.headers.zipIdx.filterMap fun (hasText, k) =>
      if hasText || d.asColheader then some (Block.colHeader k) else none)
  else []

def segTop (d : LDoc) (pg : PageCtx) : List Block :=
  if d.spanning then
    match d.rows[pg.start]? with
    | some r => topHeadings r.pkey
    | none => []
  else []

def segBody (d : LDoc) (pg : PageCtx) : List Block :=
  if d.spanning then
    match d.rows[pg.start]? with
    | some r => bodyBlocks (((d.rows.drop pg.start).take pg.height).map (·.pkey)) none
        (groupValues r.pkey) pg.dataStart
    | none => dataBlocks pg.dataStart pg.height
  else dataBlocks pg.dataStart pg.height

def segFootnote (d : LDoc) (pg : PageCtx) : List Block :=
  if d.footnote != .absent && d.pageFootnote.shows (pg.number == 1) (pg.number == pg.total)
  then [Block.footnote (d.footnote == .table)] else []

def segSource (d : LDoc) (pg : PageCtx) : List Block :=
  if d.source != .absent && d.pageSource.shows (pg.number == 1) (pg.number == pg.total)
  then [Block.source (d.source == .table)] else []

theorem renderPage_eq (d : LDoc) (pg : PageCtx) :
    renderPage d pg =
      segBrk pg ++ segTitle d pg ++ segSubline d pg ++ segSubHeading d pg ++ segColHeaders d pg ++
      segTop d pg ++ segBody d pg ++ segFootnote d pg ++ segSource d pg := rfl

/-! ## ranks of the blocks of each segment -/

theorem segBrk_rk (pg : PageCtx) : ∀ b ∈ segBrk pg, rk b = 0 := by
  intro b hb
  unfold segBrk at hb
  split at hb
  · simp at hb
  · simp at hb; subst hb; rfl

theorem segTitle_rk (d : LDoc) (pg : PageCtx) : ∀ b ∈ segTitle d pg, rk b = 1 := by
  intro b hb
  unfold segTitle at hb
  split at hb
  · simp at hb; subst hb; rfl
  · simp at hb

theorem segSubline_rk (d : LDoc) (pg : PageCtx) : ∀ b ∈ segSubline d pg, rk b = 2 := by
  intro b hb
  unfold segSubline at hb
  split at hb
  · simp at hb; subst hb; rfl
  · simp at hb

theorem segSubHeading_rk (d : LDoc) (pg : PageCtx) : ∀ b ∈ segSubHeading d pg, rk b = 3 := by
  intro b hb
  unfold segSubHeading at hb
  split at hb
  · split at hb
    · dsimp only at hb
      split at hb
      · simp at hb
      · simp at hb; subst hb; rfl
    · simp at hb
  · simp at hb

theorem segColHeaders_rk (d : LDoc) (pg : PageCtx) : ∀ b ∈ segColHeaders d pg, rk b = 4 := by
  intro b hb
  unfold segColHeaders at hb
  split at hb
  · rw [List.mem_filterMap] at hb
    obtain ⟨⟨t, k⟩, _, h⟩ := hb
    dsimp only at h
    split at h
    · simp at h; subst h; rfl
    · simp at h
  · simp at hb

/-- every block of `topHeadings k` is a heading -/
theorem topHeadings_rk (k : List (Option String)) : ∀ b ∈ topHeadings k, rk b = 5 := by
  intro b hb
  unfold topHeadings at hb
  rw [List.mem_filterMap] at hb
  obtain ⟨⟨gv, lvl⟩, _, h⟩ := hb
  dsimp only at h
  split at h
  · simp at h; subst h; rfl
  · simp at h

theorem segTop_rk (d : LDoc) (pg : PageCtx) : ∀ b ∈ segTop d pg, rk b = 5 := by
  intro b hb
  unfold segTop at hb
  split at hb
  · split at hb
    · exact topHeadings_rk _ b hb
    · simp at hb
  · simp at hb

theorem mem_ite {α} {c : Prop} [Decidable c] {a : α} {l₁ l₂ : List α}
    (h : a ∈ (if c then l₁ else l₂)) : a ∈ l₁ ∨ a ∈ l₂ := by
  split at h
  · exact Or.inl h
  · exact Or.inr h

/-- every block of `boundaryHeadings …` is a heading -/
theorem boundaryHeadings_rk (last new : List (Option (Option String))) (lvl : Nat) (force : Bool) :
    ∀ b ∈ boundaryHeadings last new lvl force, rk b = 5 := by
  induction last generalizing new lvl force with
  | nil => intro b hb; simp [boundaryHeadings] at hb
  | cons l ls ih =>
    cases new with
    | nil => intro b hb; simp [boundaryHeadings] at hb
    | cons n ns =>
      intro b hb
      rcases n with _ | _ | s
      · simp only [boundaryHeadings] at hb; exact ih _ _ _ b hb
      · simp only [boundaryHeadings] at hb; exact ih _ _ _ b hb
      · simp only [boundaryHeadings] at hb
        rcases mem_ite hb with hb | hb
        · rcases List.mem_cons.mp hb with rfl | hb
          · rfl
          · exact ih _ _ _ b hb
        · exact ih _ _ _ b hb

/-- every block of `dataBlocks …` is a data row -/
theorem dataBlocks_rk (start n : Nat) : ∀ b ∈ dataBlocks start n, rk b = 5 := by
  intro b hb
  unfold dataBlocks at hb
  rw [List.mem_map] at hb
  obtain ⟨j, _, rfl⟩ := hb
  rfl

/-- every block of `bodyBlocks …` is a heading or a data row -/
theorem bodyBlocks_rk (keys : List (List (Option String))) (prev : Option (List (Option String)))
    (last : List (Option (Option String))) (i : Nat) :
    ∀ b ∈ bodyBlocks keys prev last i, rk b = 5 := by
  induction keys generalizing prev last i with
  | nil => intro b hb; simp [bodyBlocks] at hb
  | cons k ks ih =>
    intro b hb
    cases prev with
    | none =>
      simp only [bodyBlocks] at hb
      rcases List.mem_cons.mp hb with rfl | hb
      · rfl
      · exact ih _ _ _ b hb
    | some pk =>
      simp only [bodyBlocks] at hb
      split at hb
      · rcases List.mem_append.mp hb with hb | hb
        · exact boundaryHeadings_rk _ _ _ _ b hb
        · rcases List.mem_cons.mp hb with rfl | hb
          · rfl
          · exact ih _ _ _ b hb
      · rcases List.mem_cons.mp hb with rfl | hb
        · rfl
        · exact ih _ _ _ b hb

theorem segBody_rk (d : LDoc) (pg : PageCtx) : ∀ b ∈ segBody d pg, rk b = 5 := by
  intro b hb
  unfold segBody at hb
  split at hb
  · split at hb
    · exact bodyBlocks_rk _ _ _ _ b hb
    · exact dataBlocks_rk _ _ b hb
  · exact dataBlocks_rk _ _ b hb

theorem segFootnote_rk (d : LDoc) (pg : PageCtx) : ∀ b ∈ segFootnote d pg, rk b = 6 := by
  intro b hb
  unfold segFootnote at hb
  split at hb
  · simp at hb; subst hb; rfl
  · simp at hb

theorem segSource_rk (d : LDoc) (pg : PageCtx) : ∀ b ∈ segSource d pg, rk b = 7 := by
  intro b hb
  unfold segSource at hb
  split at hb
  · simp at hb; subst hb; rfl
  · simp at hb

/-! ## generic list facts -/

/-- sorted by rank, all ranks at most `n` -/
def SortedLe (n : Nat) (l : List Block) : Prop :=
  (l.map rk).Pairwise (· ≤ ·) ∧ ∀ b ∈ l, rk b ≤ n

theorem sortedLe_of_const {n : Nat} {l : List Block} (h : ∀ b ∈ l, rk b = n) : SortedLe n l := by
  refine ⟨?_, fun b hb => Nat.le_of_eq (h b hb)⟩
  rw [List.pairwise_map]
  induction l with
  | nil => exact List.Pairwise.nil
  | cons a as ih =>
    refine List.Pairwise.cons ?_ (ih fun b hb => h b (List.mem_cons_of_mem _ hb))
    intro b hb
    rw [h a (List.mem_cons_self ..), h b (List.mem_cons_of_mem _ hb)]
    exact Nat.le_refl _

/-- `List.Pairwise` over `++` for rank-sorted lists -/
theorem SortedLe.append {n m : Nat} {l₁ l₂ : List Block} (h₁ : SortedLe n l₁)
    (h₂ : ∀ b ∈ l₂, rk b = m) (hnm : n ≤ m) : SortedLe m (l₁ ++ l₂) := by
  have s₂ := sortedLe_of_const h₂
  refine ⟨?_, ?_⟩
  · rw [List.map_append, List.pairwise_append]
    refine ⟨h₁.1, s₂.1, ?_⟩
    intro a ha b hb
    rw [List.mem_map] at ha hb
    obtain ⟨x, hx, rfl⟩ := ha
    obtain ⟨y, hy, rfl⟩ := hb
    have := h₁.2 x hx
    have := h₂ y hy
    omega
  · intro b hb
    rcases List.mem_append.mp hb with hb | hb
    · exact Nat.le_trans (h₁.2 b hb) hnm
    · exact s₂.2 b hb

theorem renderPage_sorted (d : LDoc) (pg : PageCtx) : SortedLe 7 (renderPage d pg) := by
  rw [renderPage_eq]
  have h := sortedLe_of_const (segBrk_rk pg)
  have h := h.append (segTitle_rk d pg) (by decide)
  have h := h.append (segSubline_rk d pg) (by decide)
  have h := h.append (segSubHeading_rk d pg) (by decide)
  have h := h.append (segColHeaders_rk d pg) (by decide)
  have h := h.append (segTop_rk d pg) (by decide)
  have h := h.append (segBody_rk d pg) (by decide)
  have h := h.append (segFootnote_rk d pg) (by decide)
  exact h.append (segSource_rk d pg) (by decide)

/-- a filter that only accepts rank `m` finds nothing in a list of rank `n ≠ m` -/
theorem filter_nil_of_rk {p : Block → Bool} {n m : Nat} {l : List Block}
    (hl : ∀ b ∈ l, rk b = n) (hp : ∀ b, p b = true → rk b = m) (hnm : n ≠ m) :
    l.filter p = [] := by
  rw [List.filter_eq_nil_iff]
  intro b hb hpb
  exact hnm ((hl b hb).symm.trans (hp b hpb))

theorem filterMap_nil_of_rk {β} {f : Block → Option β} {n m : Nat} {l : List Block}
    (hl : ∀ b ∈ l, rk b = n) (hf : ∀ b, (f b).isSome = true → rk b = m) (hnm : n ≠ m) :
    l.filterMap f = [] := by
  rw [List.filterMap_eq_nil_iff]
  intro b hb
  cases h : f b with
  | none => rfl
  | some x => exact absurd ((hl b hb).symm.trans (hf b (by simp [h]))) hnm

theorem not_mem_of_rk {a : Block} {n : Nat} {l : List Block}
    (hl : ∀ b ∈ l, rk b = n) (hnm : n ≠ rk a) : a ∉ l :=
  fun h => hnm (hl a h).symm

theorem count_zero_of_rk {a : Block} {n : Nat} {l : List Block}
    (hl : ∀ b ∈ l, rk b = n) (hnm : n ≠ rk a) : l.count a = 0 :=
  List.count_eq_zero.mpr (not_mem_of_rk hl hnm)

/-! ## the page list does not read the placement fields -/

theorem pages_placement (d : LDoc) (pt pf ps : Placement) :
    ({ d with pageTitle := pt, pageFootnote := pf, pageSource := ps } : LDoc).pages = d.pages := rfl

/-! ## one-page documents -/

theorem mkPagesAux_length (ps : List Nat) (total : Nat) (us : List Nat) (cum : Nat) :
    (mkPagesAux ps total us cum).length = us.length := by
  induction us generalizing cum with
  | nil => rfl
  | cons p rest ih => simp [mkPagesAux, ih]

theorem mkPagesAux_mem (ps : List Nat) (total : Nat) (us : List Nat) (cum : Nat) :
    ∀ pg ∈ mkPagesAux ps total us cum, pg.number ∈ us ∧ pg.total = total := by
  induction us generalizing cum with
  | nil => intro pg h; simp [mkPagesAux] at h
  | cons p rest ih =>
    intro pg h
    simp only [mkPagesAux] at h
    rcases List.mem_cons.mp h with rfl | h
    · exact ⟨List.mem_cons_self .., rfl⟩
    · exact ⟨List.mem_cons_of_mem _ (ih _ pg h).1, (ih _ pg h).2⟩

/-! The only lemmas that look into the definition of `uniquePages`. -/

theorem mem_insertSorted (x y : Nat) (l : List Nat) : y ∈ insertSorted x l ↔ y = x ∨ y ∈ l := by
  induction l with
  | nil => simp [insertSorted]
  | cons a as ih =>
    simp only [insertSorted]
    split
    · simp
    · simp only [List.mem_cons, ih]
      constructor
      · rintro (h | h | h)
        · exact Or.inr (Or.inl h)
        · exact Or.inl h
        · exact Or.inr (Or.inr h)
      · rintro (h | h | h)
        · exact Or.inr (Or.inl h)
        · exact Or.inl h
        · exact Or.inr (Or.inr h)

theorem mem_isort (y : Nat) (l : List Nat) : y ∈ isort l ↔ y ∈ l := by
  induction l with
  | nil => simp [isort]
  | cons a as ih => simp [isort, mem_insertSorted, ih]

/-- `uniquePages` contains exactly the values of the list -/
theorem mem_uniquePages (y : Nat) (ps : List Nat) : y ∈ uniquePages ps ↔ y ∈ ps := by
  unfold uniquePages
  rw [mem_isort, List.mem_eraseDups]

/-- the assigned page numbers, when there are any, contain page 1 -/
theorem one_mem_assignPages (nrow additional : Nat) (np : Bool) (rs : List RowMeta)
    (h : assignPages nrow additional np rs ≠ []) : 1 ∈ assignPages nrow additional np rs := by
  cases rs with
  | nil => exact absurd rfl h
  | cons r rs => simp [assignPages, assignAux, breaksBefore]

/-- on a one-page document the page is both the first and the last one.  Uses `uniquePages` only through
`mem_uniquePages`. -/
theorem single_page_struct (d : LDoc) (h : d.pages.length = 1) :
    ∀ pg ∈ d.pages, pg.number = 1 ∧ pg.total = 1 := by
  intro pg hpg
  unfold LDoc.pages at h hpg
  dsimp only at h hpg
  by_cases hemp : (uniquePages d.pageNums).isEmpty = true
  · rw [if_pos hemp] at hpg
    simp at hpg; subst hpg; exact ⟨rfl, rfl⟩
  · rw [if_neg hemp] at h hpg
    rw [mkPagesAux_length] at h
    obtain ⟨hnum, htot⟩ := mkPagesAux_mem _ _ _ _ pg hpg
    refine ⟨?_, htot.trans h⟩
    -- the only distinct page number is 1
    have hps : d.pageNums ≠ [] := by
      intro he
      obtain ⟨u, hu⟩ := List.length_eq_one_iff.mp h
      have : u ∈ uniquePages d.pageNums := by rw [hu]; exact List.mem_singleton_self u
      rw [mem_uniquePages, he] at this
      simp at this
    have h1 : 1 ∈ uniquePages d.pageNums :=
      (mem_uniquePages 1 _).mpr (one_mem_assignPages _ _ _ _ hps)
    obtain ⟨u, hu⟩ := List.length_eq_one_iff.mp h
    rw [hu] at h1 hnum
    simp at h1 hnum
    omega

/-- with `number = total = 1` the placement fields do not matter -/
theorem renderPage_placement_of_single (d : LDoc) (pt pf ps : Placement) (pg : PageCtx)
    (hn : pg.number = 1) (ht : pg.total = 1) :
    renderPage { d with pageTitle := pt, pageFootnote := pf, pageSource := ps } pg = renderPage d pg := by
  have hs : ∀ p : Placement, p.shows (pg.number == 1) (pg.number == pg.total) = true := by
    intro p; rw [hn, ht]; cases p <;> rfl
  simp only [renderPage_eq, segTitle, segSubline, segFootnote, segSource, hs]
  rfl

end Proofs.LayoutRoles
