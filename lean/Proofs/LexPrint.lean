import Model.TextNodes
import Proofs.Rtf
import Proofs.Emit
/-!
`printNodes (lexNodes s) = s` for every `s` (the claim of the doc comment of `Model/TextNodes.lean`).
-/
namespace Proofs.LexPrint
open Model.TextNodes
open Model.Rtf (Node printNode printNodes isLetter isDigit digitsValRev mkParam intDigits natDigits natDigitsAux)

/-! ### the printer inverts the digit reader on canonical digit strings -/

/-- the most significant digit of a reversed digit list is not `'0'` -/
def lastNZ : List Char → Bool
  | [] => false
  | [d] => d != '0'
  | _ :: d :: ds => lastNZ (d :: ds)

theorem lastNZ_snoc (xs : List Char) (d : Char) : lastNZ (xs ++ [d]) = (d != '0') := by
  induction xs with
  | nil => rfl
  | cons x xs ih =>
    cases xs with
    | nil => rfl
    | cons y ys => simpa [lastNZ] using ih

theorem digit_back {d : Char} (h : isDigit d = true) : Char.ofNat (48 + (d.toNat - 48)) = d := by
  simp only [isDigit, Bool.and_eq_true, decide_eq_true_eq] at h
  have : 48 + (d.toNat - 48) = d.toNat := by omega
  rw [this, Char.ofNat_toNat]

theorem digit_range {d : Char} (h : isDigit d = true) : d.toNat - 48 < 10 := by
  simp only [isDigit, Bool.and_eq_true, decide_eq_true_eq] at h
  omega

theorem digit_nz {d : Char} (h : isDigit d = true) (hz : (d != '0') = true) : 0 < d.toNat - 48 := by
  simp only [isDigit, Bool.and_eq_true, decide_eq_true_eq] at h
  have hne : d.toNat ≠ 48 := by
    intro e
    have : d = '0' := by rw [← Char.ofNat_toNat d, e]
    simp [this] at hz
  omega

theorem val_pos : ∀ (rev : List Char), rev.all isDigit = true → lastNZ rev = true → 0 < digitsValRev rev
  | [], _, h => by simp [lastNZ] at h
  | [d], hd, h => by
    simp only [List.all_cons, List.all_nil, Bool.and_true] at hd
    have := digit_nz hd h
    simp only [digitsValRev]; omega
  | d :: e :: ds, hd, h => by
    simp only [List.all_cons, Bool.and_eq_true] at hd
    have := val_pos (e :: ds) (by simp [hd.2]) h
    simp only [digitsValRev] at this ⊢; omega

theorem natDigitsAux_read : ∀ (rev : List Char) (fuel : Nat) (acc : List Char),
    rev.all isDigit = true → lastNZ rev = true → digitsValRev rev < fuel →
    natDigitsAux fuel (digitsValRev rev) acc = rev.reverse ++ acc
  | [], _, _, _, h, _ => by simp [lastNZ] at h
  | [d], fuel, acc, hd, h, hf => by
    simp only [List.all_cons, List.all_nil, Bool.and_true] at hd
    have h1 := digit_nz hd h
    have h2 := digit_range hd
    cases fuel with
    | zero => omega
    | succ f =>
      have hv : digitsValRev [d] = d.toNat - 48 := by simp [digitsValRev]
      rw [hv]
      unfold natDigitsAux
      have e1 : (d.toNat - 48) / 10 = 0 := by omega
      have e2 : (d.toNat - 48) % 10 = d.toNat - 48 := by omega
      simp only [e1, e2, if_true, digit_back hd]
      simp
  | d :: e :: ds, fuel, acc, hd, h, hf => by
    simp only [List.all_cons, Bool.and_eq_true] at hd
    have hall : (e :: ds).all isDigit = true := by simp [hd.2]
    have hp := val_pos (e :: ds) hall h
    have h2 := digit_range hd.1
    cases fuel with
    | zero => omega
    | succ f =>
      have hv : digitsValRev (d :: e :: ds) = (d.toNat - 48) + 10 * digitsValRev (e :: ds) := rfl
      rw [hv] at hf ⊢
      unfold natDigitsAux
      have e1 : ((d.toNat - 48) + 10 * digitsValRev (e :: ds)) / 10 = digitsValRev (e :: ds) := by omega
      have e2 : ((d.toNat - 48) + 10 * digitsValRev (e :: ds)) % 10 = d.toNat - 48 := by omega
      have e3 : digitsValRev (e :: ds) ≠ 0 := by omega
      simp only [e1, e2, e3, if_false, digit_back hd.1]
      rw [natDigitsAux_read (e :: ds) f _ hall h (by omega)]
      simp

theorem natDigits_read (rev : List Char) (hd : rev.all isDigit = true) (h : lastNZ rev = true) :
    natDigits (digitsValRev rev) = rev.reverse := by
  unfold natDigits
  rw [natDigitsAux_read rev _ [] hd h (by omega)]
  simp

theorem natDigits_zero : natDigits (digitsValRev ['0']) = ['0'] := by decide

theorem canon_cases {neg : Bool} {rev : List Char} (h : canonDigits neg rev = true) :
    (rev = ['0'] ∧ neg = false) ∨ lastNZ rev = true := by
  unfold canonDigits at h
  have hr : rev = rev.reverse.reverse := by simp
  generalize rev.reverse = ds at h hr
  match ds, h, hr with
  | [], h, _ => simp at h
  | [d], h, hr =>
    simp only [List.reverse_cons, List.reverse_nil, List.nil_append] at hr
    subst hr
    by_cases hd : d = '0'
    · subst hd; left; simpa using h
    · right
      simp only [lastNZ, bne_iff_ne, ne_eq]; exact hd
  | d :: e :: ds, h, hr =>
    right
    rw [hr, List.reverse_cons, lastNZ_snoc]
    simpa using h

theorem intDigits_read (neg : Bool) (rev : List Char) (hc : canonDigits neg rev = true)
    (hd : rev.all isDigit = true) :
    intDigits (mkParam neg rev) = (if neg then ['-'] else []) ++ rev.reverse := by
  rcases canon_cases hc with ⟨h0, hn⟩ | h
  · subst h0; subst hn; decide
  · have hr := natDigits_read rev hd h
    cases neg with
    | false =>
      simp only [mkParam, Bool.false_eq_true, if_false, List.nil_append]
      show natDigits (digitsValRev rev) = _
      exact hr
    | true =>
      have hp := val_pos rev hd h
      obtain ⟨m, hm⟩ : ∃ m, digitsValRev rev = m + 1 := ⟨digitsValRev rev - 1, by omega⟩
      rw [Proofs.Rtf.mkParam_negSucc rev m hm]
      show '-' :: natDigits (m + 1) = _
      rw [← hm, hr]
      simp

/-! ### the printed form of a machine state -/

def modeText : Mode → List Char
  | .ground txt => txt.reverse
  | .bs => ['\\']
  | .word rev => '\\' :: rev.reverse
  | .num name neg rev => '\\' :: name ++ (if neg then ['-'] else []) ++ rev.reverse
  | .hex1 => ['\\', '\'']
  | .hex2 a => ['\\', '\'', a]

/-- the enclosing groups, outermost first, each followed by its opening brace
(`= stack.reverse.flatMap fun lvl => printNodes lvl.reverse ++ ['{']`) -/
def stackText : List (List Node) → List Char
  | [] => []
  | top :: rest => stackText rest ++ (printNodes top.reverse ++ ['{'])

theorem stackText_eq (stack : List (List Node)) :
    stackText stack = stack.reverse.flatMap fun lvl => printNodes lvl.reverse ++ ['{'] := by
  induction stack with
  | nil => rfl
  | cons top rest ih => simp [stackText, ih]

/-- what has been read so far, given the pending text of the mode -/
def R (stack : List (List Node)) (cur : List Node) (text : List Char) : List Char :=
  stackText stack ++ (printNodes cur.reverse ++ text)

def render (st : St) : List Char := R st.stack st.cur (modeText st.mode)

def Inv : Mode → Prop
  | .num _ neg rev => rev.all isDigit = true ∧ (rev = [] → neg = true)
  | _ => True

theorem printNodes_snoc (n : Node) (cur : List Node) :
    printNodes (n :: cur).reverse = printNodes cur.reverse ++ printNode n := by
  rw [List.reverse_cons, Proofs.Emit.printNodes_append]
  simp [printNodes]

theorem printNodes_flush (cur : List Node) (txt : List Char) :
    printNodes (flush cur txt).reverse = printNodes cur.reverse ++ txt.reverse := by
  unfold flush
  cases txt with
  | nil => simp
  | cons a t =>
    simp only [List.isEmpty_cons, Bool.false_eq_true, if_false]
    rw [printNodes_snoc]
    simp [printNode]

theorem R_snoc (stack : List (List Node)) (cur : List Node) (n : Node) (text : List Char) :
    R stack (n :: cur) text = R stack cur (printNode n ++ text) := by
  simp only [R, printNodes_snoc, List.append_assoc]

theorem R_flush (stack : List (List Node)) (cur : List Node) (txt text : List Char) :
    R stack (flush cur txt) text = R stack cur (txt.reverse ++ text) := by
  simp only [R, printNodes_flush, List.append_assoc]

theorem R_append (stack : List (List Node)) (cur : List Node) (a b : List Char) :
    R stack cur (a ++ b) = R stack cur a ++ b := by
  simp only [R, List.append_assoc]

/-- a character arriving in ground state -/
theorem groundStep_render (st : St) (txt : List Char) (c : Char)
    (h : (groundStep st txt c).ok = true) :
    render (groundStep st txt c) = R st.stack st.cur (txt.reverse ++ [c]) ∧
      Inv (groundStep st txt c).mode := by
  unfold groundStep at h ⊢
  by_cases h1 : c = '{'
  · simp only [h1, if_true, render, modeText, Inv, and_true]
    simp only [R, stackText, printNodes_flush, List.reverse_nil, printNodes, List.append_assoc,
      List.append_nil]
  · simp only [h1, if_false] at h ⊢
    by_cases h2 : c = '}'
    · simp only [h2, if_true] at h ⊢
      cases hs : st.stack with
      | nil => rw [hs] at h; simp at h
      | cons top rest =>
        simp only [render, modeText, Inv, and_true]
        simp only [R, stackText, printNodes_snoc, printNode, printNodes_flush,
          List.reverse_nil, List.append_assoc, List.nil_append, List.append_nil, List.cons_append]
    · simp only [h2, if_false] at h ⊢
      by_cases h3 : c = '\\'
      · simp only [h3, if_true, render, modeText, Inv, and_true, R_flush]
      · simp only [h3, if_false] at h ⊢
        by_cases h4 : c = '\n'
        · simp only [h4, if_true, render, modeText, Inv, and_true, R_snoc, R_flush, printNode,
            List.reverse_nil, List.append_nil]
        · simp only [h4, if_false, render, modeText, Inv, and_true, List.reverse_cons]

/-! ### one step appends one character -/

theorem step_render (st : St) (c : Char) (hok : st.ok = true) (hinv : Inv st.mode)
    (h : (step st c).ok = true) :
    render (step st c) = render st ++ [c] ∧ Inv (step st c).mode := by
  obtain ⟨stack, cur, mode, ok⟩ := st
  simp only at hok
  subst hok
  unfold step at h ⊢
  simp only [Bool.not_true, Bool.false_eq_true, if_false] at h ⊢
  cases mode with
  | ground txt =>
    simp only at h ⊢
    have := groundStep_render _ txt c h
    refine ⟨?_, this.2⟩
    rw [this.1]
    simp only [render, modeText, R_append]
  | bs =>
    simp only at h ⊢
    by_cases h1 : isLetter c = true
    · simp only [h1, if_true, render, modeText, Inv, and_true, R, List.reverse_cons, List.reverse_nil,
        List.nil_append, List.append_assoc, List.cons_append]
    · simp only [h1, Bool.false_eq_true, if_false] at h ⊢
      by_cases h2 : c = '\''
      · simp only [h2, if_true, render, modeText, Inv, and_true, R, List.append_assoc, List.cons_append,
          List.nil_append]
      · simp only [h2, if_false, render, modeText, Inv, and_true, R_snoc, printNode, List.reverse_nil,
          List.append_nil]
        simp only [R, List.append_assoc, List.cons_append, List.nil_append]
  | word rev =>
    simp only at h ⊢
    by_cases h1 : isLetter c = true
    · simp only [h1, if_true, render, modeText, Inv, and_true, R, List.reverse_cons,
        List.append_assoc, List.cons_append]
    · simp only [h1, Bool.false_eq_true, if_false] at h ⊢
      by_cases h2 : c = '-'
      · simp only [h2, if_true, render, modeText, Inv, R, List.reverse_nil, List.append_nil,
          List.append_assoc, List.cons_append, List.all_nil, and_self, implies_true]
      · simp only [h2, if_false] at h ⊢
        by_cases h3 : isDigit c = true
        · simp only [h3, if_true, render, modeText, Inv, R, Bool.false_eq_true, if_false,
            List.reverse_cons, List.reverse_nil, List.nil_append, List.append_nil,
            List.append_assoc, List.cons_append, List.all_cons, List.all_nil, Bool.and_true]
          simp
        · simp only [h3, Bool.false_eq_true, if_false] at h ⊢
          by_cases h4 : c = ' '
          · simp only [h4, if_true, render, modeText, Inv, and_true, R_snoc, printNode,
              List.reverse_nil, List.append_nil]
            simp only [R, List.append_assoc, List.cons_append]
          · simp only [h4, if_false] at h ⊢
            have := groundStep_render _ [] c h
            refine ⟨?_, this.2⟩
            rw [this.1]
            simp only [render, modeText, R_snoc, printNode, List.reverse_nil, List.nil_append,
              List.append_nil, Bool.false_eq_true, if_false]
            simp only [R, List.append_assoc, List.cons_append]
  | num name neg rev =>
    simp only at h ⊢
    obtain ⟨hdig, hneg⟩ := hinv
    by_cases h1 : isDigit c = true
    · simp only [h1, if_true, render, modeText, Inv, R, List.reverse_cons,
        List.append_assoc, List.cons_append, List.all_cons, hdig, Bool.and_true]
      simp
    · simp only [h1, Bool.false_eq_true, if_false] at h ⊢
      cases rev with
      | nil =>
        simp only [List.isEmpty_nil, if_true] at h ⊢
        have hn := hneg rfl
        subst hn
        have := groundStep_render _ ['-'] c h
        refine ⟨?_, this.2⟩
        rw [this.1]
        simp only [render, modeText, R_snoc, printNode, List.reverse_nil, List.nil_append,
          List.append_nil, Bool.false_eq_true, if_false, if_true, List.reverse_cons]
        simp only [R, List.append_assoc, List.cons_append, List.nil_append]
      | cons d ds =>
        simp only [List.isEmpty_cons, Bool.false_eq_true, if_false] at h ⊢
        by_cases hc : canonDigits neg (d :: ds) = true
        · have hp := intDigits_read neg (d :: ds) hc hdig
          simp only [hc, Bool.not_true, Bool.false_eq_true, if_false] at h ⊢
          by_cases h4 : c = ' '
          · simp only [h4, if_true, render, modeText, Inv, and_true, R_snoc, printNode, paramOf, hp,
              List.reverse_nil, List.append_nil]
            simp only [R, List.append_assoc, List.cons_append]
          · simp only [h4, if_false] at h ⊢
            have := groundStep_render _ [] c h
            refine ⟨?_, this.2⟩
            rw [this.1]
            simp only [render, modeText, R_snoc, printNode, paramOf, hp, List.reverse_nil,
              List.nil_append, List.append_nil, Bool.false_eq_true, if_false]
            simp only [R, List.append_assoc, List.cons_append]
        · simp only [hc, Bool.not_false, if_true] at h
          simp at h
  | hex1 =>
    simp only [render, modeText, Inv, and_true, R, List.append_assoc, List.cons_append, List.nil_append]
  | hex2 a =>
    simp only [render, modeText, Inv, and_true, R_snoc, printNode, List.reverse_nil, List.append_nil]
    simp only [R, List.append_assoc, List.cons_append, List.nil_append]

/-! ### the whole scan -/

theorem step_sticky (st : St) (c : Char) (h : st.ok = false) : step st c = st := by
  unfold step
  simp [h]

theorem foldl_sticky (s : List Char) (st : St) (h : st.ok = false) : s.foldl step st = st := by
  induction s with
  | nil => rfl
  | cons c cs ih => rw [List.foldl_cons, step_sticky st c h, ih]

theorem foldl_render : ∀ (s : List Char) (st : St), st.ok = true → Inv st.mode →
    (s.foldl step st).ok = true →
    render (s.foldl step st) = render st ++ s ∧ Inv (s.foldl step st).mode
  | [], st, _, hinv, _ => by simp [hinv]
  | c :: cs, st, hok, hinv, h => by
    rw [List.foldl_cons] at h ⊢
    have hstep : (step st c).ok = true := by
      cases hs : (step st c).ok with
      | true => rfl
      | false => rw [foldl_sticky cs _ hs] at h; rw [hs] at h; exact h
    obtain ⟨hr, hi⟩ := step_render st c hok hinv hstep
    obtain ⟨hr', hi'⟩ := foldl_render cs (step st c) hstep hi h
    refine ⟨?_, hi'⟩
    rw [hr', hr]
    simp

theorem finish_ok (st : St) (ns : List Node) (h : finish st = some ns) : st.ok = true := by
  unfold finish at h
  cases hs : st.ok with
  | true => rfl
  | false => simp [hs] at h

theorem finish_render (st : St) (hinv : Inv st.mode) (ns : List Node) (h : finish st = some ns) :
    st.ok = true ∧ printNodes ns = render st := by
  obtain ⟨stack, cur, mode, ok⟩ := st
  unfold finish at h
  cases ok with
  | false => simp at h
  | true =>
    cases stack with
    | cons top rest => simp at h
    | nil =>
      refine ⟨rfl, ?_⟩
      simp only [Bool.not_true, List.isEmpty_nil, Bool.or_self, Bool.false_eq_true, if_false] at h
      cases mode with
      | ground txt =>
        simp only [Option.some.injEq] at h
        subst h
        simp only [render, modeText, R, stackText, List.nil_append, printNodes_flush]
      | bs => simp at h
      | hex1 => simp at h
      | hex2 a => simp at h
      | word rev =>
        simp only [Option.some.injEq] at h
        subst h
        simp only [render, modeText, R, stackText, List.nil_append, printNodes_snoc, printNode,
          List.append_nil, Bool.false_eq_true, if_false]
      | num name neg rev =>
        obtain ⟨hdig, hneg⟩ := hinv
        simp only at h
        cases rev with
        | nil =>
          have hn := hneg rfl
          subst hn
          simp only [List.isEmpty_nil, if_true, Option.some.injEq] at h
          subst h
          simp only [render, modeText, R, stackText, List.nil_append, printNodes_snoc, printNode,
            List.append_nil, Bool.false_eq_true, if_false, if_true, List.reverse_nil,
            List.append_assoc, List.cons_append]
        | cons d ds =>
          simp only [List.isEmpty_cons, Bool.false_eq_true, if_false] at h
          by_cases hc : canonDigits neg (d :: ds) = true
          · have hp := intDigits_read neg (d :: ds) hc hdig
            simp only [hc, if_true, Option.some.injEq] at h
            subst h
            simp only [render, modeText, R, stackText, List.nil_append, printNodes_snoc, printNode,
              paramOf, hp, List.append_nil, Bool.false_eq_true, if_false, List.append_assoc,
              List.cons_append]
          · simp [hc] at h

/-- the claim of the doc comment of `Model/TextNodes.lean` -/
theorem print_lexNodes (s : List Char) : printNodes (lexNodes s) = s := by
  unfold lexNodes
  cases s with
  | nil => simp [printNodes]
  | cons c cs =>
    simp only [List.isEmpty_cons, Bool.false_eq_true, if_false]
    have hinit : Inv ({} : St).mode := trivial
    cases hf : finish ((c :: cs).foldl step {}) with
    | none => simp [printNodes, printNode]
    | some ns =>
      simp only
      have hok := finish_ok _ ns hf
      obtain ⟨hr, hi⟩ := foldl_render (c :: cs) {} rfl hinit hok
      obtain ⟨_, hp⟩ := finish_render _ hi ns hf
      rw [hp, hr]
      simp [render, R, stackText, modeText, printNodes]

end Proofs.LexPrint
