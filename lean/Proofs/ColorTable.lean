import Model.Color
import Proofs.Color
/-!
Facts about the generated colour table (`Generated.colorTable`, rewritten from
`/repo/src/rtflite/dictionary/color_table.py` on every run), decided by the kernel.
Editing a row of the table in `/repo` re-opens these obligations.
-/
namespace Proofs.ColorTable
open Generated Model.Color Proofs.Color

/-- the master indices are `1, 2, …, n` in table order -/
theorem idx_range : colorTable.map (·.idx) = List.range' 1 colorTable.length := by decide +kernel

theorem idx_nodup : (colorTable.map (·.idx)).Nodup := by
  rw [idx_range]; exact List.nodup_range'

/-- master indices identify rows: no two rows (hence no two names) share an index -/
theorem idxInj : IdxInj colorTable := idxInj_of_nodup idx_nodup

theorem idx_sorted : colorTable.Pairwise (fun a b => a.idx ≤ b.idx) := by
  have h : (colorTable.map (·.idx)).Pairwise (· ≤ ·) := by
    rw [idx_range]
    exact (List.pairwise_lt_range' (s := 1) (n := colorTable.length)).imp Nat.le_of_lt
  exact (List.pairwise_map.mp h)

theorem idx_pos : ∀ row ∈ colorTable, 1 ≤ row.idx ∧ row.idx ≤ colorTable.length := by
  intro row hrow
  have : row.idx ∈ colorTable.map (·.idx) := List.mem_map.mpr ⟨row, hrow, rfl⟩
  rw [idx_range, List.mem_range'_1] at this
  omega

/-- "black" is a row of the table and its RGB is (0,0,0): mapping it to index 0 (auto) asks for the default colour -/
theorem black_rgb : requestedRgb colorTable "black" = some (0, 0, 0) := by decide +kernel
