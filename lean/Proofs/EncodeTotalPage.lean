import Proofs.EncodeTotalPrep
import Proofs.Borders
/-!
Totality of the encoder model, part 4: the page attributes (`_apply_pagination_borders`) stay readable, and every
block of a page renders: page break, title / subline, column headers, spanning rows, data rows, footnote / source.
-/
namespace Proofs.EncodeTotal
open Model.Encode Model.EncodeAccepted Model.Broadcast Model.Emit Generated
open Proofs.Encode (MemV)
open Proofs.EncodeAttrs (Field GoodV)
open Proofs.Broadcast (Good)

theorem bind_total' {ε α β : Type} {x : Except ε α} {f : α → Except ε β} (P : α → Prop)
    (hx : ∃ a, x = .ok a ∧ P a) (hf : ∀ a, P a → ∃ b, f a = .ok b) : ∃ b, (x >>= f) = .ok b := by
  obtain ⟨a, ha, hp⟩ := hx
  obtain ⟨b, hb⟩ := hf a hp
  exact ⟨b, by rw [ha]; exact hb⟩

/-! ## matrices of border styles -/

/-- a border style of the code table -/
def BS (s : String) : Prop := (borderCodes.lookup s).isSome = true

theorem bs_empty : BS "" := by unfold BS; decide

def MatAll {α : Type} (P : α → Prop) (m : Mat α) : Prop := ∀ row ∈ m, ∀ v ∈ row, P v

theorem matAll_toList {α : Type} {P : α → Prop} {m : Mat α} (h : MatAll P m) (rows cols : Nat) :
    MatAll P (m.toList rows cols) := by
  intro row hrow v hv
  obtain ⟨row', hr', hv'⟩ := Proofs.EncodeAux.toList_mem m rows cols row hrow v hv
  exact h row' hr' v hv'

theorem matAll_updateCell {α : Type} {P : α → Prop} {m : Mat α} (h : MatAll P m) (rows cols r c : Nat) {x : α}
    (hx : P x) : MatAll P (m.updateCell rows cols r c x) := by
  have ht := matAll_toList h rows cols
  unfold Mat.updateCell
  dsimp only
  cases he : (m.toList rows cols)[r]? with
  | none => exact ht
  | some row0 =>
    intro row hrow v hv
    rcases List.mem_or_eq_of_mem_set hrow with hrow | rfl
    · exact ht row hrow v hv
    · rcases List.mem_or_eq_of_mem_set hv with hv | rfl
      · exact ht row0 (List.mem_of_getElem? he) v hv
      · exact hx

theorem matAll_applyRow {P : String → Prop} {m : Mat String} (h : MatAll P m) (hh w row : Nat) (style : Nat → String)
    (hs : ∀ c, P (style c)) : MatAll P (Model.Borders.applyRow m hh w row style) := by
  unfold Model.Borders.applyRow
  apply Proofs.EncodeAux.foldl_inv (MatAll P)
  · exact h
  · intro acc c hacc
    exact matAll_updateCell hacc _ _ _ _ (hs c)

theorem matAll_pageRows {α : Type} {P : α → Prop} {m : Mat α} (h : MatAll P m) (start height : Nat) :
    MatAll P (m.pageRows start height) :=
  fun row hrow v hv => h row (Proofs.EncodeAux.pageRows_mem m start height row hrow) v hv

theorem getD_cases {α : Type} (l : List α) (i : Nat) (x : α) : l.getD i x = x ∨ l.getD i x ∈ l := by
  rw [List.getD_eq_getElem?_getD]
  cases h : l[i]? with
  | none => exact Or.inl rfl
  | some v => exact Or.inr (List.mem_of_getElem? h)

theorem head_row_all {P : String → Prop} {m : Mat String} (h : MatAll P m) : ∀ v ∈ m.head?.getD [], P v := by
  intro v hv
  cases m with
  | nil => simp at hv
  | cons r rs => exact h r (by simp) v (by simpa using hv)

open Model.Borders in
theorem bodyFirstStyle_bs {b : BorderIn} (h1 : MatAll BS b.bodyFirst) (h2 : MatAll BS b.bodyTopOrig) (c : Nat) :
    BS (bodyFirstStyle b c) := by
  have g1 := head_row_all h1
  have g2 := head_row_all h2
  have k1 : ∀ i, BS ((b.bodyFirst.head?.getD []).getD i "") := fun i => by
    rcases getD_cases (b.bodyFirst.head?.getD []) i "" with e | e
    · rw [e]; exact bs_empty
    · exact g1 _ e
  have k2 : ∀ i, BS ((b.bodyTopOrig.head?.getD []).getD i "") := fun i => by
    rcases getD_cases (b.bodyTopOrig.head?.getD []) i "" with e | e
    · rw [e]; exact bs_empty
    · exact g2 _ e
  unfold bodyFirstStyle
  dsimp only
  split
  · exact k2 c
  · split
    · exact k1 c
    · exact k1 0

open Model.Borders in
theorem closingStyle_bs {b : BorderIn} (h1 : MatAll BS b.bodyLast) (h2 : BS b.pageLast) {s : String}
    (h : closingStyle b = some s) : BS s := by
  unfold closingStyle at h
  split at h
  · split at h
    · cases h
      unfold bodyLastStyle
      cases hm : b.bodyLast with
      | nil => exact bs_empty
      | cons r rs =>
        cases r with
        | nil => exact bs_empty
        | cons x xs =>
          rw [hm] at h1
          exact h1 (x :: xs) (by simp) x (by simp)
    · cases h
  · split at h
    · cases h; exact h2
    · cases h

/-- a readable matrix of border styles -/
structure GoodBS (m : Mat String) : Prop where
  good : Good m
  all : MatAll BS m

open Model.Borders Proofs.Borders in
/-- `_apply_pagination_borders` keeps both matrices readable and writes border styles of the code table only -/
theorem applyBorders_bs {b : BorderIn} (hh : 0 < b.height) (hw : 0 < b.width) (ht : GoodBS b.top)
    (hb : GoodBS b.bottom) (hf : MatAll BS b.bodyFirst) (hto : MatAll BS b.bodyTopOrig) (hl : MatAll BS b.bodyLast)
    (hpf : BS b.pageFirst) (hpl : BS b.pageLast) :
    GoodBS (applyBorders b).top ∧ GoodBS (applyBorders b).bottom ∧
    (∀ s, (applyBorders b).fnOverride = some s → BS s) ∧ (∀ s, (applyBorders b).srcOverride = some s → BS s) := by
  have hne : b.height ≠ 0 := by omega
  have t0 : GoodBS (top0 b) := ⟨top0_good ht.good hh, matAll_pageRows ht.all _ _⟩
  have b0 : GoodBS (bot0 b) := ⟨bot0_good hb.good hh, matAll_pageRows hb.all _ _⟩
  have t1 : GoodBS (top1 b) := by
    unfold top1
    split
    · exact ⟨applyRow_good t0.good hh hw hh _, matAll_applyRow t0.all _ _ _ _ (fun _ => hpf)⟩
    · exact t0
  have t2 : GoodBS (top2 b) := by
    unfold top2
    split
    · exact ⟨applyRow_good t1.good hh hw hh _, matAll_applyRow t1.all _ _ _ _ (bodyFirstStyle_bs hf hto)⟩
    · exact t1
  cases hc : closingStyle b with
  | none =>
    rw [applyBorders_none b hne hc]
    exact ⟨t2, b0, by simp, by simp⟩
  | some s =>
    have hs := closingStyle_bs hl hpl hc
    cases hsrc : b.srcTableHere with
    | true =>
      rw [applyBorders_src b hne s hc hsrc]
      refine ⟨t2, b0, by simp, ?_⟩
      intro s' h'
      simp only [Option.some.injEq] at h'
      rw [← h']; exact hs
    | false =>
      cases hfn : b.fnTableHere with
      | true =>
        rw [applyBorders_fn b hne s hc hfn hsrc]
        refine ⟨t2, b0, ?_, by simp⟩
        intro s' h'
        simp only [Option.some.injEq] at h'
        rw [← h']; exact hs
      | false =>
        rw [applyBorders_data b hne s hc hfn hsrc]
        exact ⟨t2, ⟨applyRow_good b0.good hh hw (by omega) _, matAll_applyRow b0.all _ _ _ _ (fun _ => hs)⟩,
          by simp, by simp⟩

/-! ## from attribute matrices to border-style matrices and back -/

theorem okBorder_valStr {v : Val} (h : okBorder v = true) : BS (Proofs.EncodeAttrs.valStr v) := by
  cases v with
  | str s => exact h
  | _ => simp [okBorder] at h

theorem matStr_all {s : Spec} {M : MatV} (h : FieldGood s M) (hs : s.ok = okBorder) : MatAll BS (matStr M) := by
  cases M with
  | none => intro row hrow; simp [matStr] at hrow
  | some m =>
    rw [Proofs.EncodeAttrs.matStr_some]
    intro row hrow v hv
    obtain ⟨row', hr', rfl⟩ := List.mem_map.mp hrow
    obtain ⟨x, hx, rfl⟩ := List.mem_map.mp hv
    apply okBorder_valStr
    rw [← hs]
    exact h.vals x ⟨m, rfl, row', hr', hx⟩

theorem fillGrid_bs {s : Spec} {M : MatV} (h : FieldGood s M) (hs : s.ok = okBorder) {hh w : Nat} (h1 : 0 < hh)
    (h2 : 0 < w) : GoodBS (Proofs.EncodeAttrs.fillGrid hh w M) := by
  refine ⟨Proofs.EncodeAttrs.fillGrid_good (Proofs.EncodeAttrs.goodV_goodOrEmpty h.good) h1 h2, ?_⟩
  unfold Proofs.EncodeAttrs.fillGrid
  split
  · next r rs => exact matStr_all h hs
  · intro row hrow v hv
    rw [(List.mem_replicate.mp hrow).2] at hv
    rw [(List.mem_replicate.mp hv).2]
    exact bs_empty

/-- a matrix of border styles as an attribute matrix -/
theorem strMat_good {s : Spec} {M : Mat String} (h : GoodBS M) (hs : s.ok = okBorder) : FieldGood s (strMat M) := by
  refine ⟨?_, fun _ => by simp [strMat], ?_⟩
  · intro m hm
    simp only [strMat, Option.some.injEq] at hm
    subst hm
    exact Proofs.EncodeAttrs.good_map _ h.good
  · intro v ⟨m, hm, row, hrow, hv⟩
    simp only [strMat, Option.some.injEq] at hm
    subst hm
    obtain ⟨row', hr', rfl⟩ := List.mem_map.mp hrow
    obtain ⟨x, hx, rfl⟩ := List.mem_map.mp hv
    rw [hs]
    exact h.all row' hr' x hx

/-- the attributes of a page with data rows are readable, and the border overrides for footnote / source are
border styles of the code table -/
theorem pageAttrs_good {d : Doc} {bodyA : TblAttrsOf MatV} {p : Prep} {pg : Model.Layout.PageCtx}
    (hA : TblGood bodyA) (hp : TblGood p.attrs) (hh : 0 < pg.height) (hw : 0 < p.ncolsDisp)
    (hbf : BS d.page.borderFirst) (hbl : BS d.page.borderLast) :
    TblGood (pageAttrs d bodyA p pg).attrs ∧
    (∀ s, (pageAttrs d bodyA p pg).fnOverride = some s → BS s) ∧
    (∀ s, (pageAttrs d bodyA p pg).srcOverride = some s → BS s) := by
  have hne : pg.height ≠ 0 := by omega
  obtain ⟨e1, e2, e3, e4⟩ := Proofs.EncodeAttrs.pageAttrs_edges d bodyA p pg hne
  have hb := applyBorders_bs (b := Proofs.EncodeAttrs.borderIn d bodyA p pg) hh hw
    (fillGrid_bs (hp .bTop) rfl hh hw) (fillGrid_bs (hp .bBottom) rfl hh hw)
    (matStr_all (hA .bFirst) rfl) (matStr_all (hA .bTop) rfl) (matStr_all (hA .bLast) rfl) hbf hbl
  refine ⟨?_, by rw [e3]; exact hb.2.2.1, by rw [e4]; exact hb.2.2.2⟩
  intro f
  by_cases hf : f.isEdge = true
  · cases f <;> simp [Field.isEdge] at hf
    · show FieldGood _ (pageAttrs d bodyA p pg).attrs.bTop
      rw [e1]; exact strMat_good hb.1 rfl
    · show FieldGood _ (pageAttrs d bodyA p pg).attrs.bBottom
      rw [e2]; exact strMat_good hb.2.1 rfl
  · rw [Proofs.EncodeAttrs.pageAttrs_get d bodyA p pg f hne (by simpa using hf)]
    exact (hp f).map _ (fun m hm => Proofs.Broadcast.pageRows_good hm pg.start hh)
      (fun m row hrow v hv => ⟨row, Proofs.EncodeAux.pageRows_mem m pg.start pg.height row hrow, hv⟩)

/-! ## fixed material -/

theorem marginNodes_total {pg : Page} (h : pg.margin.length = 6) : ∃ ns, marginNodes pg = .ok ns := by
  unfold marginNodes
  have : (pg.margin.length != 6) = false := by simp [h]
  simp only [this, Bool.false_eq_true, if_false]
  exact ⟨_, rfl⟩

theorem pageSettings_total {pg : Page} (h : pg.margin.length = 6) : ∃ ns, pageSettings pg = .ok ns := by
  obtain ⟨ns, hns⟩ := marginNodes_total h
  unfold pageSettings
  simp only [hns, ok_bind, pure_eq_ok]
  exact ⟨_, rfl⟩

theorem pageBreak_total {pg : Page} (h : pg.margin.length = 6) : ∃ ns, pageBreak pg = .ok ns := by
  obtain ⟨ns, hns⟩ := marginNodes_total h
  unfold pageBreak
  simp only [hns, ok_bind, pure_eq_ok]
  exact ⟨_, rfl⟩

/-! ## title, subline, page header / footer -/

theorem textElem_total (k : ColorCtx) {c : Option TextComp}
    (ha : ∀ x, c = some x → TextAttrsOf.zipAll accAttr textSpec x.attrs = true)
    (hs : ∀ x, c = some x → TextAttrsOf.zipAll shpAttr textSpec x.attrs = true) : ∃ es, textElem k c = .ok es := by
  unfold textElem
  cases c with
  | none => exact ⟨_, rfl⟩
  | some x =>
    dsimp only
    cases ht : x.text with
    | none => exact ⟨_, rfl⟩
    | some t =>
      cases t with
      | nil => exact ⟨_, rfl⟩
      | cons l ls =>
        obtain ⟨A, hA, hg⟩ := textNested_total (ha x rfl) (hs x rfl)
        obtain ⟨n, hn⟩ := encodeTextLine_total k hg (text := l :: ls) (by simp)
        dsimp only
        simp only [hA, hn, ok_bind, pure_eq_ok]
        exact ⟨_, rfl⟩

theorem pageHF_total (k : ColorCtx) (word : String) {c : Option TextComp}
    (ha : ∀ x, c = some x → TextAttrsOf.zipAll accAttr textSpec x.attrs = true)
    (hs : ∀ x, c = some x → TextAttrsOf.zipAll shpAttr textSpec x.attrs = true) :
    ∃ ns, pageHF k word c = .ok ns := by
  unfold pageHF
  cases c with
  | none => exact ⟨_, rfl⟩
  | some x =>
    dsimp only
    cases ht : x.text with
    | none => exact ⟨_, rfl⟩
    | some t =>
      cases t with
      | nil => exact ⟨_, rfl⟩
      | cons l ls =>
        obtain ⟨A, hA, hg⟩ := textNested_total (ha x rfl) (hs x rfl)
        obtain ⟨n, hn⟩ := encodeTextLine_total k hg (text := l :: ls) (by simp)
        dsimp only
        simp only [hA, hn, ok_bind, pure_eq_ok]
        exact ⟨_, rfl⟩

/-! ## footnote / source -/

theorem tblGood_set {A : TblAttrsOf MatV} (hA : TblGood A) (f0 : Field) {M : MatV}
    (hM : FieldGood (f0.get tblSpec) M) {A' : TblAttrsOf MatV} (h0 : f0.get A' = M)
    (hrest : ∀ f, f ≠ f0 → f.get A' = f.get A) : TblGood A' := by
  intro f
  by_cases hf : f = f0
  · subst hf; rw [h0]; exact hM
  · rw [hrest f hf]; exact hA f

theorem single_good {s : Spec} {st : String} (hs : s.ok = okBorder) (h : BS st) :
    FieldGood s (some [[Val.str st]]) := by
  refine ⟨?_, fun _ => by simp, ?_⟩
  · intro m hm
    simp only [Option.some.injEq] at hm
    subst hm
    exact ⟨by simp, by intro row hr; simp at hr; subst hr; simp [Mat.ncols], by simp [Mat.ncols]⟩
  · intro v ⟨m, hm, row, hrow, hv⟩
    simp only [Option.some.injEq] at hm
    subst hm
    simp only [List.mem_singleton] at hrow
    subst hrow
    simp only [List.mem_singleton] at hv
    subst hv
    rw [hs]; exact h

theorem renderFoot_total (k : ColorCtx) (d : Doc) {f : Foot}
    (ha : TblAttrsOf.zipAll accAttr tblSpec f.attrs = true) (hs : TblAttrsOf.zipAll shpAttr tblSpec f.attrs = true)
    (hw : ∀ w, f.colRelWidth = some w → w ≠ [] ∧ Proofs.Widths.AllPos w)
    (htab : f.asTable = true → f.colRelWidth.isSome = true)
    {override : Option String} (ho : ∀ s, override = some s → BS s) :
    ∃ es, renderFoot k d f override = .ok es := by
  obtain ⟨A, hA, hg⟩ := tblNested_total ha hs
  have hg' : TblGood (Proofs.Encode.footAttrs A override) := by
    unfold Proofs.Encode.footAttrs
    cases override with
    | none => exact hg
    | some s =>
      dsimp only
      split
      · exact tblGood_set hg .bBottom (single_good rfl (ho s rfl)) rfl
          (fun f hf => by cases f <;> first | rfl | exact absurd rfl hf)
      · exact hg
  unfold renderFoot
  simp only [hA, ok_bind]
  by_cases ht : f.asTable = true
  · simp only [ht, Bool.not_true, Bool.false_eq_true, if_false]
    obtain ⟨w, hw'⟩ : ∃ w, f.colRelWidth = some w := by
      have := htab ht
      cases hc : f.colRelWidth with
      | none => rw [hc] at this; cases this
      | some w => exact ⟨w, rfl⟩
    obtain ⟨hne, hpos⟩ := hw w hw'
    have hsum : ¬ ((Model.Widths.sumQ w = 0 && !w.isEmpty) = true) := by
      intro hc
      simp only [Bool.and_eq_true, decide_eq_true_eq] at hc
      have := Proofs.Widths.sumQ_pos w hne hpos
      rw [hc.1] at this
      exact absurd this (by decide)
    rw [hw']
    dsimp only
    rw [if_neg hsum]
    have key := encodeRows_total k hg' 0 (rows := [[some (f.text.getD [])]])
      (colWidths := (Model.Widths.colWidths w d.page.colWidth).getLast?.toList) (by
        intro cells hc
        simp only [List.mem_singleton] at hc
        subst hc
        refine ⟨by simp, ?_⟩
        have hlen := Proofs.Widths.colWidths_length w d.page.colWidth
        cases hl : (Model.Widths.colWidths w d.page.colWidth).getLast? with
        | none =>
          rw [List.getLast?_eq_none_iff] at hl
          rw [hl] at hlen
          exact absurd (List.eq_nil_of_length_eq_zero hlen.symm) hne
        | some c => simp)
    exact key
  · have ht' : f.asTable = false := by cases h : f.asTable <;> simp_all
    simp only [ht', Bool.not_false, if_true]
    refine bind_total ?_ (fun _ _ => ⟨_, rfl⟩)
    exact encodeTextParas_total k hg'.text _

/-! ## column headers -/

theorem headerV_eq (hw : Option (List Rat)) (n : Nat) :
    (match hw with
      | some (w :: ws) => w :: ws
      | _ => List.replicate n 1) = Proofs.Encode.headerV hw n := rfl

theorem renderHeader_total (k : ColorCtx) {d : Doc} {p : Prep} {removed : List Nat} {A : TblAttrsOf MatV}
    (hprep : PrepOk d p removed A) (hacc : AccFacts d) (hsh : ShapeFacts d removed) (isFirst : Bool) (idx : Nat)
    {h : Header} (hmem : some h ∈ d.headers) : ∃ es, renderHeader k d p isFirst idx h = .ok es := by
  obtain ⟨ha, hwa⟩ := hacc.headers h hmem
  obtain ⟨hs, hcells⟩ := hsh.headers h hmem
  rw [Proofs.Encode.renderHeader_eq]
  have hkeep : p.keep = keepMask d.cols.length removed := by rw [hprep.eq]
  split
  · exact ⟨_, rfl⟩
  · next text htext =>
    have hc := hcells text.length
      (Proofs.Encode.headerV (h.colRelWidth.map fun w => Model.Widths.headerDisplayed w p.keep text.length) text.length)
      (by
        unfold headerCells
        rw [← hprep.dispCols_eq, ← hkeep]
        cases ht : h.text with
        | some t =>
          rw [ht] at htext
          simp only [Option.some.injEq] at htext
          subst htext
          rfl
        | none =>
          rw [ht] at htext
          dsimp only at htext ⊢
          by_cases hc : d.body.asColheader = true
          · rw [if_pos hc] at htext ⊢
            simp only [Option.some.injEq] at htext
            subst htext
            rfl
          · rw [if_neg hc] at htext
            cases htext)
    obtain ⟨hn, hlen⟩ := hc
    obtain ⟨A0, hA0, hg⟩ := tblNested_total ha hs
    have hn0 : ¬ text.length = 0 := by omega
    have hvpos : Proofs.Widths.AllPos (Proofs.Encode.headerV
        (h.colRelWidth.map fun w => Model.Widths.headerDisplayed w p.keep text.length) text.length) := by
      unfold Proofs.Encode.headerV
      split
      · next w ws he =>
        cases hcw : h.colRelWidth with
        | none => rw [hcw] at he; cases he
        | some w0 =>
          rw [hcw] at he
          simp only [Option.map_some, Option.some.injEq] at he
          rw [← he]
          exact Proofs.Encode.allPos_headerDisplayed (hwa w0 hcw) _ _
      · exact Proofs.Widths.allPos_replicate _ _ (by decide)
    have hvne : Proofs.Encode.headerV
        (h.colRelWidth.map fun w => Model.Widths.headerDisplayed w p.keep text.length) text.length ≠ [] := by
      intro h0
      have : text.length ≤ 0 := by rw [h0] at hlen; exact hlen
      omega
    have hsum : ¬ Model.Widths.sumQ (Proofs.Encode.headerV
        (h.colRelWidth.map fun w => Model.Widths.headerDisplayed w p.keep text.length) text.length) = 0 := by
      intro hc
      have := Proofs.Widths.sumQ_pos _ hvne hvpos
      rw [hc] at this
      exact absurd this (by decide)
    unfold Proofs.Encode.headerInner
    dsimp only
    rw [if_neg hn0]
    simp only [ok_bind, hA0]
    rw [if_neg hsum]
    apply encodeRows_total k
    · split
      · refine tblGood_set hg .bTop (M := some [List.replicate text.length (Val.str d.page.borderFirst)]) ?_ ?_
          (fun f hf => by cases f <;> first | rfl | exact absurd rfl hf)
        · refine ⟨?_, fun _ => by simp, ?_⟩
          · intro m hm
            simp only [Option.some.injEq] at hm
            subst hm
            exact ⟨by simp, by intro row hr; simp at hr; subst hr; simp [Mat.ncols], by simp [Mat.ncols]; omega⟩
          · intro v ⟨m, hm, row, hrow, hv⟩
            simp only [Option.some.injEq] at hm
            subst hm
            simp only [List.mem_singleton] at hrow
            subst hrow
            rw [(List.mem_replicate.mp hv).2]
            exact hacc.borderFirst
        · show (A0.bTop.map fun _ => [List.replicate text.length (Val.str d.page.borderFirst)]) = _
          have := (hg .bTop).req rfl
          cases hb : A0.bTop with
          | none => exact absurd hb this
          | some m => rfl
      · exact hg
    · intro cells hc
      simp only [List.mem_singleton] at hc
      subst hc
      refine ⟨?_, ?_⟩
      · intro h0
        have := congrArg List.length h0
        rw [List.length_map] at this
        simp only [List.length_nil] at this
        omega
      · rw [List.length_map, Proofs.Widths.colWidths_length]; exact hlen

/-! ## spanning rows -/

theorem getOr_spec {s : Spec} {M : MatV} (h : FieldGood s M) (dflt : Val) (r c : Nat) (W : Val → Prop) (hd : W dflt)
    (hok : ∀ v, s.ok v = true → W v) :
    ∃ a, (match M with
      | none => (Except.ok dflt : Except String Val)
      | some _ => ilocV M r c) = .ok a ∧ W a := by
  cases M with
  | none => exact ⟨dflt, rfl, hd⟩
  | some m =>
    obtain ⟨v, hv, g⟩ := ilocV_total h r c
    rcases g with g | ⟨_, g⟩
    · exact ⟨v, hv, hok v g⟩
    · cases g

theorem side_total (k : ColorCtx) {s : Spec} {M : MatV} (h : FieldGood s M) (hs : s.ok = okBorder) (c : Nat) :
    ∃ o, (do
      let x ← (match M with
        | none => (Except.ok (Val.str "single") : Except String Val)
        | some _ => ilocV M 0 c)
      some <$> resolveBorder k x .null .null) = .ok o := by
  obtain ⟨a, ha, ga⟩ := getOr_spec h (.str "single") 0 c (fun v => okBorder v = true) (by decide)
    (fun v hv => by rw [← hs]; exact hv)
  obtain ⟨b, hb⟩ := resolveBorder_total k ga (Or.inl rfl) (Or.inl rfl)
  exact ⟨some b, by rw [ha]; simp only [ok_bind, hb, map_ok_eq]⟩

theorem okFormat_empty : okFormat (.str "") = true := by decide
theorem okTextJust_c : okTextJust (.str "c") = true := by decide
theorem okVJust_bottom : okVJust (.str "bottom") = true := by decide
theorem okRowJust_c : okRowJust (.str "c") = true := by decide

theorem spanningRow_total (k : ColorCtx) (d : Doc) {bodyA : TblAttrsOf MatV} (hA : TblGood bodyA) (level : Nat)
    (text : String) : ∃ e, spanningRow k d bodyA level text = .ok e := by
  unfold spanningRow
  dsimp only
  refine bind_total' wInt (getOr_spec (hA .font) _ _ _ wInt ⟨0, rfl⟩ (fun v hv => wInt_of_okFont hv)) (fun v1 g1 => ?_)
  refine bind_total' wRat (getOr_spec (hA .size) _ _ _ wRat ⟨18, rfl⟩ (fun v hv => wRat_of_okPosNum hv)) (fun v2 g2 => ?_)
  refine bind_total' wFormat (getOr_spec (hA .format) _ _ _ wFormat (Or.inr okFormat_empty) (fun v hv => Or.inr hv))
    (fun v3 g3 => ?_)
  refine bind_total' wOptStr (getOr_spec (hA .color) _ _ _ wOptStr (Or.inr ⟨_, rfl⟩) (fun v hv => wOptStr_of_okColor hv))
    (fun v4 g4 => ?_)
  refine bind_total' wOptStr (getOr_spec (hA .bg) _ _ _ wOptStr (Or.inr ⟨_, rfl⟩) (fun v hv => wOptStr_of_okColor hv))
    (fun v5 g5 => ?_)
  refine bind_total' (fun v => okTextJust v = true) (getOr_spec (hA .just) _ _ _ _ okTextJust_c (fun v hv => hv))
    (fun v6 g6 => ?_)
  refine bind_total' wInt (getOr_spec (hA .indFirst) _ _ _ wInt ⟨0, rfl⟩ (fun v hv => wInt_of_okInt hv)) (fun v7 g7 => ?_)
  refine bind_total' wInt (getOr_spec (hA .indLeft) _ _ _ wInt ⟨0, rfl⟩ (fun v hv => wInt_of_okInt hv)) (fun v8 g8 => ?_)
  refine bind_total' wInt (getOr_spec (hA .indRight) _ _ _ wInt ⟨0, rfl⟩ (fun v hv => wInt_of_okInt hv)) (fun v9 g9 => ?_)
  refine bind_total' wInt (getOr_spec (hA .space) _ _ _ wInt ⟨1, rfl⟩ (fun v hv => wInt_of_okInt hv)) (fun v10 g10 => ?_)
  refine bind_total' wInt (getOr_spec (hA .spBefore) _ _ _ wInt ⟨15, rfl⟩ (fun v hv => wInt_of_okInt hv))
    (fun v11 g11 => ?_)
  refine bind_total' wInt (getOr_spec (hA .spAfter) _ _ _ wInt ⟨15, rfl⟩ (fun v hv => wInt_of_okInt hv))
    (fun v12 g12 => ?_)
  refine bind_total' wBool (getOr_spec (hA .convert) _ _ _ wBool ⟨false, rfl⟩ (fun v hv => wBool_of_okBool hv))
    (fun v13 g13 => ?_)
  refine bind_total' wBool (getOr_spec (hA .hyph) _ _ _ wBool ⟨true, rfl⟩ (fun v hv => wBool_of_okBool hv))
    (fun v14 g14 => ?_)
  refine bind_total (resolveText_total k
    { font := g1, size := g2, format := g3, color := g4, bg := g5, just := g6, indFirst := g7, indLeft := g8,
      indRight := g9, space := g10, spBefore := g11, spAfter := g12, convert := g13, hyph := g14 }) (fun _ _ => ?_)
  refine bind_total' (fun v => okVJust v = true) (getOr_spec (hA .cellVJust) _ _ _ _ okVJust_bottom (fun v hv => hv))
    (fun v15 g15 => ?_)
  refine bind_total (resolveVJust_total (Or.inr g15)) (fun _ _ => ?_)
  refine bind_total' (fun v => okRowJust v = true) (getOr_spec (hA .cellJust) _ _ _ _ okRowJust_c (fun v hv => hv))
    (fun v16 g16 => ?_)
  refine bind_total (resolveRowJust_total g16) (fun _ _ => ?_)
  refine bind_total' wRat (getOr_spec (hA .cellHeight) _ _ _ wRat ⟨3 / 20, rfl⟩ (fun v hv => wRat_of_okPosNum hv))
    (fun v17 g17 => ?_)
  refine bind_total g17 (fun _ _ => ?_)
  refine bind_total (side_total k (hA .bLeft) rfl _) (fun _ _ => ?_)
  refine bind_total (side_total k (hA .bTop) rfl _) (fun _ _ => ?_)
  refine bind_total (side_total k (hA .bRight) rfl _) (fun _ _ => ?_)
  refine bind_total (side_total k (hA .bBottom) rfl _) (fun _ _ => ?_)
  exact ⟨_, rfl⟩

/-! ## one block, one page -/

/-- what `renderBlock` / `renderPage` need to know about the document, the prepared frame and the final rows -/
structure PageFacts (d : Doc) (p : Prep) (removed : List Nat) (A : TblAttrsOf MatV)
    (rows : List (List (Option Str))) : Prop where
  prep : PrepOk d p removed A
  acc : AccFacts d
  shp : ShapeFacts d removed
  rowsOk : ∀ r ∈ rows, r ≠ [] ∧ r.length ≤ p.cum.length
  rowsLen : rows.length = d.rows.length

theorem renderBlock_total (k : ColorCtx) {d : Doc} {p : Prep} {removed : List Nat} {A : TblAttrsOf MatV}
    {rows : List (List (Option Str))} (F : PageFacts d p removed A rows) (pg : Model.Layout.PageCtx)
    (hpg : 0 < pg.height → d.rows ≠ [])
    (b : Model.Layout.Block) (hb : ∀ i, b = .data i → i < rows.length ∧ 0 < pg.height) :
    ∃ es, renderBlock k d A p rows pg (pageAttrs d A p pg) b = .ok es := by
  have hacc := F.acc
  have hsh := F.shp
  have hw : 0 < p.ncolsDisp := by rw [F.prep.ncols_eq]; exact hsh.ndPos
  have hpa := fun (hh : 0 < pg.height) => pageAttrs_good (d := d) (pg := pg) F.prep.good
    (F.prep.attrs_good hsh (hpg hh)) hh hw hacc.borderFirst hacc.borderLast
  have hfn : ∀ s, (pageAttrs d A p pg).fnOverride = some s → BS s := by
    intro s hs
    by_cases hh : pg.height = 0
    · unfold pageAttrs at hs
      rw [if_pos hh] at hs
      cases hs
    · exact (hpa (by omega)).2.1 s hs
  have hsrc : ∀ s, (pageAttrs d A p pg).srcOverride = some s → BS s := by
    intro s hs
    by_cases hh : pg.height = 0
    · unfold pageAttrs at hs
      rw [if_pos hh] at hs
      cases hs
    · exact (hpa (by omega)).2.2 s hs
  cases b with
  | brk =>
    obtain ⟨ns, hns⟩ := pageBreak_total hacc.margin
    simp only [renderBlock, hns, ok_bind, pure_eq_ok]
    exact ⟨_, rfl⟩
  | title =>
    obtain ⟨es, hes⟩ := textElem_total k hacc.title hsh.title
    simp only [renderBlock, hes, ok_bind, pure_eq_ok]
    exact ⟨_, rfl⟩
  | subline => exact textElem_total k hacc.subline hsh.subline
  | sublineHeading t =>
    simp only [renderBlock]
    split <;> exact ⟨_, rfl⟩
  | colHeader i =>
    simp only [renderBlock]
    cases hh : (d.headers[i]?).join with
    | none => exact ⟨_, rfl⟩
    | some h =>
      have hmem : some h ∈ d.headers := by
        cases hi : d.headers[i]? with
        | none => rw [hi] at hh; cases hh
        | some o =>
          rw [hi] at hh
          simp only [Option.join_some] at hh
          rw [hh] at hi
          exact List.mem_of_getElem? hi
      exact renderHeader_total k F.prep hacc hsh _ _ hmem
  | heading lvl t =>
    obtain ⟨e, he⟩ := spanningRow_total k d F.prep.good lvl t
    simp only [renderBlock, he, ok_bind, pure_eq_ok]
    exact ⟨_, rfl⟩
  | data i =>
    obtain ⟨hi, hh⟩ := hb i rfl
    simp only [renderBlock]
    rw [List.getElem?_eq_getElem hi]
    dsimp only
    obtain ⟨h1, h2⟩ := F.rowsOk rows[i] (List.getElem_mem hi)
    obtain ⟨e, he⟩ := encodeRow_total k (hpa hh).1 (colWidths := p.cum) (i - pg.dataStart) h1 h2
    simp only [he, ok_bind, pure_eq_ok]
    exact ⟨_, rfl⟩
  | footnote t =>
    simp only [renderBlock]
    cases hf : d.footnote with
    | none => exact ⟨_, rfl⟩
    | some f =>
      dsimp only
      obtain ⟨ha, hwa⟩ := hacc.footnote f hf
      obtain ⟨hs, htab⟩ := hsh.footnote f hf
      exact renderFoot_total k d ha hs hwa htab hfn
  | source t =>
    simp only [renderBlock]
    cases hf : d.source with
    | none => exact ⟨_, rfl⟩
    | some f =>
      dsimp only
      obtain ⟨ha, hwa⟩ := hacc.source f hf
      obtain ⟨hs, htab⟩ := hsh.source f hf
      exact renderFoot_total k d ha hs hwa htab hsrc

theorem renderPage_total (k : ColorCtx) {d : Doc} {p : Prep} {removed : List Nat} {A : TblAttrsOf MatV}
    {rows : List (List (Option Str))} (F : PageFacts d p removed A rows) (pg : Model.Layout.PageCtx)
    (hpg : 0 < pg.height → d.rows ≠ []) (blocks : List Model.Layout.Block)
    (hb : ∀ i, Model.Layout.Block.data i ∈ blocks → i < rows.length ∧ 0 < pg.height) :
    ∃ es, renderPage k d A p rows pg blocks = .ok es := by
  unfold renderPage
  dsimp only
  refine bind_total ?_ (fun _ _ => ⟨_, rfl⟩)
  apply mapM_total
  intro b hbm
  exact renderBlock_total k F pg hpg b (fun i hi => hb i (hi ▸ hbm))

end Proofs.EncodeTotal
