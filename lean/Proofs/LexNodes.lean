import Model.Rtf
import Model.RtfDoc
import Model.TextNodes
import Model.Emit
import Proofs.Rtf
import Proofs.Emit
/-!
`Model.TextNodes.lexNodes` inverts the printer on adjacency-closed node lists, up to the normal form `norm`
(adjacent text merged, empty text dropped, recursively through groups); `norm` preserves everything the
C01 side conditions speak about (printed string, tokens, plainness, `\u`-freeness, adjacency, frames).
-/
namespace Proofs.LexNodes
open Model Model.Rtf Model.TextNodes Model.Emit

/-! ### the normal form -/

/-- the node list an accumulator (reversed nodes, reversed pending text) stands for -/
def out (a : List Node × List Char) : List Node := (flush a.1 a.2).reverse

mutual
def pushNode : Node → List Node → List Char → List Node × List Char
  | .txt s, cur, txt => (cur, s.reverse ++ txt)
  | .grp body, cur, txt => (Node.grp (out (pushNodes body [] [])) :: flush cur txt, [])
  | .cw n p sp, cur, txt => (Node.cw n p sp :: flush cur txt, [])
  | .sym c, cur, txt => (Node.sym c :: flush cur txt, [])
  | .hex a b, cur, txt => (Node.hex a b :: flush cur txt, [])
  | .nl, cur, txt => (Node.nl :: flush cur txt, [])
def pushNodes : List Node → List Node → List Char → List Node × List Char
  | [], cur, txt => (cur, txt)
  | n :: ns, cur, txt => pushNodes ns (pushNode n cur txt).1 (pushNode n cur txt).2
end

/-- merge adjacent text, drop empty text, recursively through groups -/
def norm (ns : List Node) : List Node := out (pushNodes ns [] [])

theorem pushNode_grp (body cur : List Node) (txt : List Char) :
    pushNode (.grp body) cur txt = (Node.grp (norm body) :: flush cur txt, []) := by
  rw [pushNode]; rfl

theorem flush_nil (cur : List Node) : flush cur [] = cur := rfl

theorem out_nil (cur : List Node) : out (cur, []) = cur.reverse := rfl

/-! ### digits printed by `intDigits` are canonical -/

theorem ofNat_digit_ne_zero (d : Nat) (h0 : 0 < d) (h : d < 10) : Char.ofNat (48 + d) ≠ '0' := by
  intro e
  have := congrArg Char.toNat e
  rw [Proofs.Rtf.toNat_digit d h] at this
  have h48 : ('0' : Char).toNat = 48 := by decide
  omega

theorem natDigitsAux_head : ∀ (fuel n : Nat) (acc : List Char), n < fuel → 0 < n →
    ∃ d ds, natDigitsAux fuel n acc = d :: ds ∧ d ≠ '0' := by
  intro fuel
  induction fuel with
  | zero => intro n acc h; omega
  | succ fuel ih =>
    intro n acc h hpos
    have hd : n % 10 < 10 := Nat.mod_lt _ (by omega)
    unfold natDigitsAux
    by_cases h0 : n / 10 = 0
    · refine ⟨Char.ofNat (48 + n % 10), acc, by simp [h0], ?_⟩
      apply ofNat_digit_ne_zero _ _ hd
      omega
    · have hlt : n / 10 < fuel := by omega
      obtain ⟨d, ds, e, hne⟩ := ih (n / 10) (Char.ofNat (48 + n % 10) :: acc) hlt (by omega)
      exact ⟨d, ds, by simp [h0, e], hne⟩

theorem natDigits_head (n : Nat) (h : 0 < n) : ∃ d ds, natDigits n = d :: ds ∧ d ≠ '0' :=
  natDigitsAux_head (n + 1) n [] (by omega) h

theorem canon_of_head (neg : Bool) (r : List Char) (d : Char) (ds : List Char) (e : r.reverse = d :: ds)
    (hd : d ≠ '0') : canonDigits neg r = true := by
  unfold canonDigits
  rw [e]
  split
  · rename_i h; cases h
  · rename_i h
    simp only [List.cons.injEq] at h
    exact absurd h.1 hd
  · rename_i d' _ _ h
    simp only [List.cons.injEq] at h
    rw [← h.1]
    simpa using hd

theorem canon_nat (m : Nat) : canonDigits false (natDigits m).reverse = true := by
  cases m with
  | zero => decide
  | succ m =>
    obtain ⟨d, ds, e, hd⟩ := natDigits_head (m + 1) (by omega)
    exact canon_of_head false _ d ds (by simp [e]) hd

theorem canon_neg (m : Nat) : canonDigits true (natDigits (m + 1)).reverse = true := by
  obtain ⟨d, ds, e, hd⟩ := natDigits_head (m + 1) (by omega)
  exact canon_of_head true _ d ds (by simp [e]) hd

/-! ### the state machine on printed nodes -/

theorem fold_letters (stack : List (List Node)) (cur : List Node) :
    ∀ (ls rev tail : List Char), ls.all isLetter = true →
    (ls ++ tail).foldl TextNodes.step ⟨stack, cur, .word rev, true⟩ =
      tail.foldl TextNodes.step ⟨stack, cur, .word (ls.reverse ++ rev), true⟩ := by
  intro ls
  induction ls with
  | nil => intro rev tail _; simp
  | cons a ls ih =>
    intro rev tail h
    simp only [List.all_cons, Bool.and_eq_true] at h
    have h1 : TextNodes.step ⟨stack, cur, .word rev, true⟩ a = ⟨stack, cur, .word (a :: rev), true⟩ := by
      simp [TextNodes.step, h.1]
    simp only [List.cons_append, List.foldl_cons, h1]
    rw [ih _ _ h.2]
    simp

theorem fold_digits (stack : List (List Node)) (cur : List Node) (name : List Char) (neg : Bool) :
    ∀ (ds rev tail : List Char), ds.all isDigit = true →
    (ds ++ tail).foldl TextNodes.step ⟨stack, cur, .num name neg rev, true⟩ =
      tail.foldl TextNodes.step ⟨stack, cur, .num name neg (ds.reverse ++ rev), true⟩ := by
  intro ds
  induction ds with
  | nil => intro rev tail _; simp
  | cons a ds ih =>
    intro rev tail h
    simp only [List.all_cons, Bool.and_eq_true] at h
    have h1 : TextNodes.step ⟨stack, cur, .num name neg rev, true⟩ a =
        ⟨stack, cur, .num name neg (a :: rev), true⟩ := by
      simp [TextNodes.step, h.1]
    simp only [List.cons_append, List.foldl_cons, h1]
    rw [ih _ _ h.2]
    simp

theorem step_bs (stack : List (List Node)) (cur : List Node) (txt : List Char) :
    TextNodes.step ⟨stack, cur, .ground txt, true⟩ '\\' = ⟨stack, flush cur txt, .bs, true⟩ := rfl

theorem fold_name (stack : List (List Node)) (cur : List Node) (txt n tail : List Char)
    (hn : nameOk n = true) :
    ('\\' :: (n ++ tail)).foldl TextNodes.step ⟨stack, cur, .ground txt, true⟩ =
      tail.foldl TextNodes.step ⟨stack, flush cur txt, .word n.reverse, true⟩ := by
  cases n with
  | nil => simp [nameOk] at hn
  | cons a n =>
    simp only [nameOk, List.isEmpty_cons, Bool.not_false, Bool.true_and, List.all_cons,
      Bool.and_eq_true] at hn
    have h2 : TextNodes.step ⟨stack, flush cur txt, .bs, true⟩ a =
        ⟨stack, flush cur txt, .word [a], true⟩ := by
      simp [TextNodes.step, hn.1]
    simp only [List.cons_append, List.foldl_cons, step_bs, h2]
    rw [fold_letters stack _ n [a] tail hn.2]
    simp

theorem fold_param (stack : List (List Node)) (cur : List Node) (rev : List Char) (k : Int)
    (tail : List Char) :
    ∃ neg r, r ≠ [] ∧ mkParam neg r = k ∧ canonDigits neg r = true ∧
      (intDigits k ++ tail).foldl TextNodes.step ⟨stack, cur, .word rev, true⟩ =
        tail.foldl TextNodes.step ⟨stack, cur, .num rev.reverse neg r, true⟩ := by
  cases k with
  | ofNat m =>
    obtain ⟨hv, hne, hall⟩ := Proofs.Rtf.natDigits_spec m
    refine ⟨false, (natDigits m).reverse, by simpa using hne, ?_, canon_nat m, ?_⟩
    · simp [mkParam, hv]
    · simp only [intDigits]
      cases hd : natDigits m with
      | nil => exact absurd hd hne
      | cons d ds =>
        rw [hd] at hall
        simp only [List.all_cons, Bool.and_eq_true] at hall
        have h1 : TextNodes.step ⟨stack, cur, .word rev, true⟩ d =
            ⟨stack, cur, .num rev.reverse false [d], true⟩ := by
          simp [TextNodes.step, Proofs.Rtf.digit_not_letter hall.1, Proofs.Rtf.digit_ne_minus hall.1, hall.1]
        simp only [List.cons_append, List.foldl_cons, h1]
        rw [fold_digits stack cur _ _ ds [d] tail hall.2]
        simp
  | negSucc m =>
    obtain ⟨hv, hne, hall⟩ := Proofs.Rtf.natDigits_spec (m + 1)
    refine ⟨true, (natDigits (m + 1)).reverse, by simpa using hne, Proofs.Rtf.mkParam_negSucc _ _ hv,
      canon_neg m, ?_⟩
    have h1 : TextNodes.step ⟨stack, cur, .word rev, true⟩ '-' =
        ⟨stack, cur, .num rev.reverse true [], true⟩ := by
      have : isLetter '-' = false := by decide
      simp [TextNodes.step, this]
    simp only [intDigits, List.cons_append, List.foldl_cons, h1]
    rw [fold_digits stack cur _ _ _ [] tail hall]
    simp

/-- a failed scan stays failed -/
theorem stuck (rest : List Char) : ∀ st : St, st.ok = false →
    TextNodes.finish (rest.foldl TextNodes.step st) = none := by
  induction rest with
  | nil => intro st h; simp [TextNodes.finish, h]
  | cons c rest ih =>
    intro st h
    have h1 : TextNodes.step st c = st := by simp [TextNodes.step, h]
    simp only [List.foldl_cons, h1]
    exact ih st h

/-- `groundStep` forgets the mode it starts from (up to the outcome of the scan) -/
theorem ground_mode (stack : List (List Node)) (cur : List Node) (m : Mode) (txt : List Char) (c : Char)
    (rest : List Char) :
    TextNodes.finish (rest.foldl TextNodes.step (TextNodes.groundStep ⟨stack, cur, m, true⟩ txt c)) =
      TextNodes.finish (rest.foldl TextNodes.step
        (TextNodes.groundStep ⟨stack, cur, .ground [], true⟩ txt c)) := by
  unfold TextNodes.groundStep
  by_cases h1 : c = '{'
  · simp [h1]
  · by_cases h2 : c = '}'
    · cases stack with
      | nil =>
        simp only [h2, if_true]
        rw [stuck rest _ rfl, stuck rest _ rfl]
      | cons top stack => simp [h2]
    · by_cases h3 : c = '\\'
      · simp [h3]
      · by_cases h4 : c = '\n'
        · simp [h4]
        · simp [h1, h2, h3, h4]

/-- end of a control word without parameter -/
theorem end_word (stack : List (List Node)) (cur : List Node) (rev : List Char) (sp : Bool)
    (rest : List Char)
    (h : (sp || match rest.head? with | some c => !badAfter none c | none => true) = true) :
    TextNodes.finish (((if sp then [' '] else []) ++ rest).foldl TextNodes.step ⟨stack, cur, .word rev, true⟩) =
      TextNodes.finish (rest.foldl TextNodes.step
        ⟨stack, Node.cw rev.reverse none sp :: cur, .ground [], true⟩) := by
  cases sp with
  | true =>
    have h1 : TextNodes.step ⟨stack, cur, .word rev, true⟩ ' ' =
        ⟨stack, Node.cw rev.reverse none true :: cur, .ground [], true⟩ := by
      have a : isLetter ' ' = false := by decide
      have b : isDigit ' ' = false := by decide
      simp [TextNodes.step, a, b]
    simp [h1]
  | false =>
    cases rest with
    | nil => simp [TextNodes.finish, flush]
    | cons c rest =>
      simp only [Bool.false_or, List.head?_cons, badAfter, Bool.not_eq_true', Bool.or_eq_false_iff,
        beq_eq_false_iff_ne, ne_eq] at h
      obtain ⟨⟨⟨hl, hd⟩, hm⟩, hs⟩ := h
      have h1 : TextNodes.step ⟨stack, cur, .word rev, true⟩ c =
          TextNodes.groundStep ⟨stack, Node.cw rev.reverse none false :: cur, .word rev, true⟩ [] c := by
        simp [TextNodes.step, hl, hd, hm, hs]
      have h2 : TextNodes.step ⟨stack, Node.cw rev.reverse none false :: cur, .ground [], true⟩ c =
          TextNodes.groundStep ⟨stack, Node.cw rev.reverse none false :: cur, .ground [], true⟩ [] c := rfl
      simp only [List.nil_append, List.foldl_cons, Bool.false_eq_true, if_false, h1, h2]
      exact ground_mode _ _ _ _ _ _

/-- end of a control word with parameter -/
theorem end_num (stack : List (List Node)) (cur : List Node) (name : List Char) (neg : Bool)
    (r : List Char) (hr : r ≠ []) (hc : canonDigits neg r = true) (k : Int) (sp : Bool) (rest : List Char)
    (h : (sp || match rest.head? with | some c => !badAfter (some k) c | none => true) = true) :
    TextNodes.finish (((if sp then [' '] else []) ++ rest).foldl TextNodes.step
        ⟨stack, cur, .num name neg r, true⟩) =
      TextNodes.finish (rest.foldl TextNodes.step
        ⟨stack, Node.cw name (some (mkParam neg r)) sp :: cur, .ground [], true⟩) := by
  have hre : r.isEmpty = false := by cases r with
    | nil => exact absurd rfl hr
    | cons _ _ => rfl
  cases sp with
  | true =>
    have h1 : TextNodes.step ⟨stack, cur, .num name neg r, true⟩ ' ' =
        ⟨stack, Node.cw name (some (mkParam neg r)) true :: cur, .ground [], true⟩ := by
      have b : isDigit ' ' = false := by decide
      simp [TextNodes.step, b, hre, hc, paramOf]
    simp [h1]
  | false =>
    cases rest with
    | nil => simp [TextNodes.finish, flush, hre, hc, paramOf]
    | cons c rest =>
      simp only [Bool.false_or, List.head?_cons, badAfter, Bool.not_eq_true', Bool.or_eq_false_iff,
        beq_eq_false_iff_ne, ne_eq] at h
      obtain ⟨hd, hs⟩ := h
      have h1 : TextNodes.step ⟨stack, cur, .num name neg r, true⟩ c =
          TextNodes.groundStep
            ⟨stack, Node.cw name (some (mkParam neg r)) false :: cur, .num name neg r, true⟩ [] c := by
        simp [TextNodes.step, hd, hs, hre, hc, paramOf]
      have h2 : TextNodes.step ⟨stack, Node.cw name (some (mkParam neg r)) false :: cur, .ground [], true⟩ c =
          TextNodes.groundStep
            ⟨stack, Node.cw name (some (mkParam neg r)) false :: cur, .ground [], true⟩ [] c := rfl
      simp only [List.nil_append, List.foldl_cons, Bool.false_eq_true, if_false, h1, h2]
      exact ground_mode _ _ _ _ _ _

theorem lex_cw (n : List Char) (p : Option Int) (sp : Bool) (stack : List (List Node)) (cur : List Node)
    (txt rest : List Char) (h : nodeOk (.cw n p sp) rest.head? = true) :
    TextNodes.finish ((printNode (.cw n p sp) ++ rest).foldl TextNodes.step ⟨stack, cur, .ground txt, true⟩) =
      TextNodes.finish (rest.foldl TextNodes.step
        ⟨stack, Node.cw n p sp :: flush cur txt, .ground [], true⟩) := by
  simp only [nodeOk, Bool.and_eq_true] at h
  obtain ⟨hn, h⟩ := h
  simp only [printNode, List.cons_append, List.append_assoc]
  rw [fold_name stack cur txt n _ hn]
  cases p with
  | none =>
    simp only [List.nil_append]
    have := end_word stack (flush cur txt) n.reverse sp rest h
    simpa using this
  | some k =>
    obtain ⟨neg, r, hr, hk, hc, e⟩ :=
      fold_param stack (flush cur txt) n.reverse k ((if sp then [' '] else []) ++ rest)
    simp only at e ⊢
    rw [e]
    have := end_num stack (flush cur txt) n.reverse.reverse neg r hr hc k sp rest h
    rw [hk] at this
    simpa using this

theorem lex_sym (c : Char) (stack : List (List Node)) (cur : List Node) (txt rest : List Char)
    (h : validSym c = true) :
    (printNode (.sym c) ++ rest).foldl TextNodes.step ⟨stack, cur, .ground txt, true⟩ =
      rest.foldl TextNodes.step ⟨stack, Node.sym c :: flush cur txt, .ground [], true⟩ := by
  have h2 : TextNodes.step ⟨stack, flush cur txt, .bs, true⟩ c =
      ⟨stack, Node.sym c :: flush cur txt, .ground [], true⟩ := by
    have h' := h
    simp only [validSym, List.mem_cons, List.not_mem_nil, or_false, decide_eq_true_eq] at h'
    rcases h' with e | e | e | e | e | e | e | e | e <;> subst e <;> rfl
  simp [printNode, step_bs, h2]

theorem lex_hex (a b : Char) (stack : List (List Node)) (cur : List Node) (txt rest : List Char) :
    (printNode (.hex a b) ++ rest).foldl TextNodes.step ⟨stack, cur, .ground txt, true⟩ =
      rest.foldl TextNodes.step ⟨stack, Node.hex a b :: flush cur txt, .ground [], true⟩ := by
  have h2 : TextNodes.step ⟨stack, flush cur txt, .bs, true⟩ '\'' = ⟨stack, flush cur txt, .hex1, true⟩ := rfl
  have h3 : TextNodes.step ⟨stack, flush cur txt, .hex1, true⟩ a = ⟨stack, flush cur txt, .hex2 a, true⟩ := rfl
  have h4 : TextNodes.step ⟨stack, flush cur txt, .hex2 a, true⟩ b =
      ⟨stack, Node.hex a b :: flush cur txt, .ground [], true⟩ := rfl
  simp [printNode, step_bs, h2, h3, h4]

theorem lex_txt (stack : List (List Node)) (cur : List Node) :
    ∀ (s txt rest : List Char), s.all safeChar = true →
    (s ++ rest).foldl TextNodes.step ⟨stack, cur, .ground txt, true⟩ =
      rest.foldl TextNodes.step ⟨stack, cur, .ground (s.reverse ++ txt), true⟩ := by
  intro s
  induction s with
  | nil => intro txt rest _; simp
  | cons c s ih =>
    intro txt rest h
    simp only [List.all_cons, Bool.and_eq_true] at h
    have hc := h.1
    simp only [safeChar, Bool.and_eq_true, bne_iff_ne, ne_eq] at hc
    obtain ⟨⟨⟨⟨c1, c2⟩, c3⟩, c4⟩, _⟩ := hc
    have h1 : TextNodes.step ⟨stack, cur, .ground txt, true⟩ c = ⟨stack, cur, .ground (c :: txt), true⟩ := by
      simp [TextNodes.step, TextNodes.groundStep, c1, c2, c3, c4]
    simp only [List.cons_append, List.foldl_cons, h1]
    rw [ih _ _ h.2]
    simp

theorem lex_nl (stack : List (List Node)) (cur : List Node) (txt rest : List Char) :
    (printNode .nl ++ rest).foldl TextNodes.step ⟨stack, cur, .ground txt, true⟩ =
      rest.foldl TextNodes.step ⟨stack, Node.nl :: flush cur txt, .ground [], true⟩ := by
  have h1 : TextNodes.step ⟨stack, cur, .ground txt, true⟩ '\n' =
      ⟨stack, Node.nl :: flush cur txt, .ground [], true⟩ := rfl
  simp [printNode, h1]

theorem step_open (stack : List (List Node)) (cur : List Node) (txt : List Char) :
    TextNodes.step ⟨stack, cur, .ground txt, true⟩ '{' = ⟨flush cur txt :: stack, [], .ground [], true⟩ := rfl

theorem step_close (top : List Node) (stack : List (List Node)) (cur : List Node) (txt : List Char) :
    TextNodes.step ⟨top :: stack, cur, .ground txt, true⟩ '}' =
      ⟨stack, Node.grp (flush cur txt).reverse :: top, .ground [], true⟩ := rfl

mutual
theorem lex_node : (n : Node) → (stack : List (List Node)) → (cur : List Node) → (txt rest : List Char) →
    nodeOk n rest.head? = true →
    TextNodes.finish ((printNode n ++ rest).foldl TextNodes.step ⟨stack, cur, .ground txt, true⟩) =
      TextNodes.finish (rest.foldl TextNodes.step
        ⟨stack, (pushNode n cur txt).1, .ground (pushNode n cur txt).2, true⟩)
  | .cw n p sp, stack, cur, txt, rest, h => by
    rw [lex_cw n p sp stack cur txt rest h, pushNode]
  | .sym c, stack, cur, txt, rest, h => by
    simp only [nodeOk] at h
    rw [lex_sym c stack cur txt rest h, pushNode]
  | .hex a b, stack, cur, txt, rest, _ => by
    rw [lex_hex a b stack cur txt rest, pushNode]
  | .txt s, stack, cur, txt, rest, h => by
    simp only [nodeOk] at h
    simp only [printNode]
    rw [lex_txt stack cur s txt rest h, pushNode]
  | .nl, stack, cur, txt, rest, _ => by
    rw [lex_nl stack cur txt rest, pushNode]
  | .grp body, stack, cur, txt, rest, h => by
    simp only [nodeOk] at h
    have ih := lex_nodes body (flush cur txt :: stack) [] [] ('}' :: rest) (by simpa using h)
    simp only [printNode, List.cons_append, List.append_assoc, List.foldl_cons, step_open, List.nil_append]
    rw [ih]
    simp only [List.foldl_cons, step_close]
    rw [pushNode]
    rfl
theorem lex_nodes : (ns : List Node) → (stack : List (List Node)) → (cur : List Node) →
    (txt rest : List Char) → nodesOk ns rest.head? = true →
    TextNodes.finish ((printNodes ns ++ rest).foldl TextNodes.step ⟨stack, cur, .ground txt, true⟩) =
      TextNodes.finish (rest.foldl TextNodes.step
        ⟨stack, (pushNodes ns cur txt).1, .ground (pushNodes ns cur txt).2, true⟩)
  | [], stack, cur, txt, rest, _ => by simp [printNodes, pushNodes]
  | n :: ns, stack, cur, txt, rest, h => by
    simp only [nodesOk, Bool.and_eq_true] at h
    have h1 : nodeOk n (printNodes ns ++ rest).head? = true := by
      have := h.1
      cases hp : printNodes ns with
      | nil => simpa [hp] using this
      | cons c cs => simpa [hp] using this
    have a := lex_node n stack cur txt (printNodes ns ++ rest) h1
    have b := lex_nodes ns stack (pushNode n cur txt).1 (pushNode n cur txt).2 rest h.2
    simp only [printNodes, List.append_assoc]
    rw [a, b, pushNodes]
end

theorem finish_printNodes (ns : List Node) (h : nodesOk ns none = true) :
    TextNodes.finish ((printNodes ns).foldl TextNodes.step {}) = some (norm ns) := by
  have := lex_nodes ns [] [] [] [] (by simpa using h)
  simp only [List.append_nil, List.foldl_nil] at this
  exact this

theorem lexNodes_printNodes (ns : List Node) (h : nodesOk ns none = true) :
    lexNodes (printNodes ns) = norm ns := by
  have hf := finish_printNodes ns h
  unfold lexNodes
  cases hp : printNodes ns with
  | nil =>
    rw [hp] at hf
    have : TextNodes.finish (([] : List Char).foldl TextNodes.step {}) = some [] := rfl
    rw [this] at hf
    simp only [List.isEmpty_nil, if_true]
    exact Option.some.inj hf
  | cons c cs =>
    rw [hp] at hf
    simp only [List.isEmpty_cons, Bool.false_eq_true, if_false, hf]

/-! ### the normal form keeps what is printed, the tokens, plainness and `\u`-freeness -/

theorem out_eq (cur : List Node) (txt : List Char) :
    out (cur, txt) = cur.reverse ++ (if txt.isEmpty then [] else [Node.txt txt.reverse]) := by
  simp only [out, flush]
  cases txt <;> simp

theorem out_push (n : Node) (cur : List Node) (txt : List Char) :
    out (n :: flush cur txt, []) = out (cur, txt) ++ [n] := by
  simp [out, flush_nil]

theorem out_nil_nil : out (([] : List Node), ([] : List Char)) = [] := rfl

theorem printNodes_single (n : Node) : printNodes [n] = printNode n := by
  simp [printNodes]

theorem printNodes_out (cur : List Node) (txt : List Char) :
    printNodes (out (cur, txt)) = printNodes cur.reverse ++ txt.reverse := by
  rw [out_eq, Proofs.Emit.printNodes_append]
  cases txt with
  | nil => simp [printNodes]
  | cons c t => simp [printNodes, printNode]

mutual
theorem print_pushNode : (n : Node) → (cur : List Node) → (txt : List Char) →
    printNodes (out (pushNode n cur txt)) = printNodes (out (cur, txt)) ++ printNode n
  | .cw n p sp, cur, txt => by
    rw [pushNode, out_push, Proofs.Emit.printNodes_append, printNodes_single]
  | .sym c, cur, txt => by
    rw [pushNode, out_push, Proofs.Emit.printNodes_append, printNodes_single]
  | .hex a b, cur, txt => by
    rw [pushNode, out_push, Proofs.Emit.printNodes_append, printNodes_single]
  | .nl, cur, txt => by
    rw [pushNode, out_push, Proofs.Emit.printNodes_append, printNodes_single]
  | .txt s, cur, txt => by
    rw [pushNode, printNodes_out, printNodes_out]
    simp [printNode]
  | .grp body, cur, txt => by
    have ih := print_pushNodes body [] []
    rw [out_nil_nil] at ih
    rw [pushNode, out_push, Proofs.Emit.printNodes_append, printNodes_single]
    simp only [printNode, ih, printNodes, List.nil_append]
theorem print_pushNodes : (ns : List Node) → (cur : List Node) → (txt : List Char) →
    printNodes (out (pushNodes ns cur txt)) = printNodes (out (cur, txt)) ++ printNodes ns
  | [], cur, txt => by simp [pushNodes, printNodes]
  | n :: ns, cur, txt => by
    rw [pushNodes, print_pushNodes ns, print_pushNode n]
    simp [printNodes]
end

theorem printNodes_norm (ns : List Node) : printNodes (norm ns) = printNodes ns := by
  have := print_pushNodes ns [] []
  rw [out_nil_nil] at this
  simpa [norm, printNodes] using this

theorem toksNodes_single (n : Node) : toksNodes [n] = toksNode n := by
  simp [toksNodes]

theorem toksNodes_out (cur : List Node) (txt : List Char) :
    toksNodes (out (cur, txt)) = toksNodes cur.reverse ++ txt.reverse.map Tok.chr := by
  rw [out_eq, Proofs.Rtf.toksNodes_append]
  cases txt with
  | nil => simp [toksNodes]
  | cons c t => simp [toksNodes, toksNode]

mutual
theorem toks_pushNode : (n : Node) → (cur : List Node) → (txt : List Char) →
    toksNodes (out (pushNode n cur txt)) = toksNodes (out (cur, txt)) ++ toksNode n
  | .cw n p sp, cur, txt => by
    rw [pushNode, out_push, Proofs.Rtf.toksNodes_append, toksNodes_single]
  | .sym c, cur, txt => by
    rw [pushNode, out_push, Proofs.Rtf.toksNodes_append, toksNodes_single]
  | .hex a b, cur, txt => by
    rw [pushNode, out_push, Proofs.Rtf.toksNodes_append, toksNodes_single]
  | .nl, cur, txt => by
    rw [pushNode, out_push, Proofs.Rtf.toksNodes_append, toksNodes_single]
  | .txt s, cur, txt => by
    rw [pushNode, toksNodes_out, toksNodes_out]
    simp [toksNode]
  | .grp body, cur, txt => by
    have ih := toks_pushNodes body [] []
    rw [out_nil_nil] at ih
    rw [pushNode, out_push, Proofs.Rtf.toksNodes_append, toksNodes_single]
    simp only [toksNode, ih, toksNodes, List.nil_append]
theorem toks_pushNodes : (ns : List Node) → (cur : List Node) → (txt : List Char) →
    toksNodes (out (pushNodes ns cur txt)) = toksNodes (out (cur, txt)) ++ toksNodes ns
  | [], cur, txt => by simp [pushNodes, toksNodes]
  | n :: ns, cur, txt => by
    rw [pushNodes, toks_pushNodes ns, toks_pushNode n]
    simp [toksNodes]
end

theorem toksNodes_norm (ns : List Node) : toksNodes (norm ns) = toksNodes ns := by
  have := toks_pushNodes ns [] []
  rw [out_nil_nil] at this
  simpa [norm, toksNodes] using this

theorem plainNodes_single (n : Node) : plainNodes [n] = plainNode n := by
  simp [plainNodes]

theorem plainNodes_out (cur : List Node) (txt : List Char) :
    plainNodes (out (cur, txt)) = plainNodes cur.reverse := by
  rw [out_eq, Proofs.Emit.plainNodes_append]
  cases txt with
  | nil => simp [plainNodes]
  | cons c t => simp [plainNodes, plainNode]

mutual
theorem plain_pushNode : (n : Node) → (cur : List Node) → (txt : List Char) →
    plainNodes (out (pushNode n cur txt)) = (plainNodes (out (cur, txt)) && plainNode n)
  | .cw n p sp, cur, txt => by
    rw [pushNode, out_push, Proofs.Emit.plainNodes_append, plainNodes_single]
  | .sym c, cur, txt => by
    rw [pushNode, out_push, Proofs.Emit.plainNodes_append, plainNodes_single]
  | .hex a b, cur, txt => by
    rw [pushNode, out_push, Proofs.Emit.plainNodes_append, plainNodes_single]
  | .nl, cur, txt => by
    rw [pushNode, out_push, Proofs.Emit.plainNodes_append, plainNodes_single]
  | .txt s, cur, txt => by
    rw [pushNode, plainNodes_out, plainNodes_out]
    simp [plainNode]
  | .grp body, cur, txt => by
    have ih := plain_pushNodes body [] []
    rw [out_nil_nil] at ih
    rw [pushNode, out_push, Proofs.Emit.plainNodes_append, plainNodes_single]
    simp only [plainNode, ih, plainNodes, Bool.true_and]
theorem plain_pushNodes : (ns : List Node) → (cur : List Node) → (txt : List Char) →
    plainNodes (out (pushNodes ns cur txt)) = (plainNodes (out (cur, txt)) && plainNodes ns)
  | [], cur, txt => by simp [pushNodes, plainNodes]
  | n :: ns, cur, txt => by
    rw [pushNodes, plain_pushNodes ns, plain_pushNode n]
    simp [plainNodes, Bool.and_assoc]
end

theorem plainNodes_norm (ns : List Node) : plainNodes (norm ns) = plainNodes ns := by
  have := plain_pushNodes ns [] []
  rw [out_nil_nil] at this
  simpa [norm, plainNodes] using this

theorem noUNodes_single (n : Node) : noUNodes [n] = noUNode n := by
  simp [noUNodes]

theorem noUNodes_out (cur : List Node) (txt : List Char) :
    noUNodes (out (cur, txt)) = noUNodes cur.reverse := by
  rw [out_eq, Proofs.Emit.noUNodes_append]
  cases txt with
  | nil => simp [noUNodes]
  | cons c t => simp [noUNodes, noUNode]

mutual
theorem noU_pushNode : (n : Node) → (cur : List Node) → (txt : List Char) →
    noUNodes (out (pushNode n cur txt)) = (noUNodes (out (cur, txt)) && noUNode n)
  | .cw n p sp, cur, txt => by
    rw [pushNode, out_push, Proofs.Emit.noUNodes_append, noUNodes_single]
  | .sym c, cur, txt => by
    rw [pushNode, out_push, Proofs.Emit.noUNodes_append, noUNodes_single]
  | .hex a b, cur, txt => by
    rw [pushNode, out_push, Proofs.Emit.noUNodes_append, noUNodes_single]
  | .nl, cur, txt => by
    rw [pushNode, out_push, Proofs.Emit.noUNodes_append, noUNodes_single]
  | .txt s, cur, txt => by
    rw [pushNode, noUNodes_out, noUNodes_out]
    simp [noUNode]
  | .grp body, cur, txt => by
    have ih := noU_pushNodes body [] []
    rw [out_nil_nil] at ih
    rw [pushNode, out_push, Proofs.Emit.noUNodes_append, noUNodes_single]
    simp only [noUNode, ih, noUNodes, Bool.true_and]
theorem noU_pushNodes : (ns : List Node) → (cur : List Node) → (txt : List Char) →
    noUNodes (out (pushNodes ns cur txt)) = (noUNodes (out (cur, txt)) && noUNodes ns)
  | [], cur, txt => by simp [pushNodes, noUNodes]
  | n :: ns, cur, txt => by
    rw [pushNodes, noU_pushNodes ns, noU_pushNode n]
    simp [noUNodes, Bool.and_assoc]
end

theorem noUNodes_norm (ns : List Node) : noUNodes (norm ns) = noUNodes ns := by
  have := noU_pushNodes ns [] []
  rw [out_nil_nil] at this
  simpa [norm, noUNodes] using this

/-! ### the normal form keeps adjacency -/

open Proofs.Emit in
theorem nextChar_txt_nil (a : Option Char) : nextChar [Node.txt []] a = a := by
  simp only [nextChar, printNodes, printNode, List.append_nil, List.head?_nil]

open Proofs.Emit in
theorem nextChar_txt_append (u s : List Char) (a : Option Char) :
    nextChar [Node.txt (u ++ s)] a = nextChar [Node.txt u] (nextChar [Node.txt s] a) := by
  simp only [nextChar, printNodes, printNode, List.append_nil]
  cases u <;> simp

theorem nodesOk_txt (u : List Char) (a : Option Char) : nodesOk [Node.txt u] a = u.all safeChar := by
  simp [nodesOk, nodeOk]

open Proofs.Emit in
theorem nodesOk_out (cur : List Node) (txt : List Char) (a : Option Char) :
    nodesOk (out (cur, txt)) a = nodesOk (cur.reverse ++ [Node.txt txt.reverse]) a := by
  rw [out_eq]
  cases txt with
  | nil =>
    simp only [List.isEmpty_nil, if_true, List.append_nil, List.reverse_nil]
    rw [nodesOk_append, nodesOk_txt, nextChar_txt_nil]
    simp
  | cons c t => simp

open Proofs.Emit in
theorem ok_push_txt (s : List Char) (cur : List Node) (txt : List Char) (a : Option Char)
    (h : nodesOk (out (cur, txt) ++ [Node.txt s]) a = true) :
    nodesOk (out (cur, s.reverse ++ txt)) a = true := by
  rw [nodesOk_append, nodesOk_out, nodesOk_append, nodesOk_txt, nodesOk_txt] at h
  rw [nodesOk_out, nodesOk_append, nodesOk_txt]
  have e : (s.reverse ++ txt).reverse = txt.reverse ++ s := by simp
  rw [e, nextChar_txt_append]
  simp only [Bool.and_eq_true, List.all_append] at h ⊢
  exact ⟨h.1.1, h.1.2, h.2⟩

open Proofs.Emit in
theorem nodesOk_snoc_grp (X body : List Node) (a : Option Char) :
    nodesOk (X ++ [Node.grp body]) a = (nodesOk X (some '{') && nodesOk body (some '}')) := by
  rw [nodesOk_append, nextChar_grp]
  simp [nodesOk, nodeOk]

mutual
theorem ok_pushNode : (n : Node) → (cur : List Node) → (txt : List Char) → (a : Option Char) →
    nodesOk (out (cur, txt) ++ [n]) a = true → nodesOk (out (pushNode n cur txt)) a = true
  | .cw n p sp, cur, txt, a, h => by rw [pushNode, out_push]; exact h
  | .sym c, cur, txt, a, h => by rw [pushNode, out_push]; exact h
  | .hex x y, cur, txt, a, h => by rw [pushNode, out_push]; exact h
  | .nl, cur, txt, a, h => by rw [pushNode, out_push]; exact h
  | .txt s, cur, txt, a, h => by rw [pushNode]; exact ok_push_txt s cur txt a h
  | .grp body, cur, txt, a, h => by
    rw [nodesOk_snoc_grp, Bool.and_eq_true] at h
    have ih := ok_pushNodes body [] [] (some '}') (by rw [out_nil_nil]; exact h.2)
    rw [pushNode, out_push, nodesOk_snoc_grp, Bool.and_eq_true]
    exact ⟨h.1, ih⟩
theorem ok_pushNodes : (ns : List Node) → (cur : List Node) → (txt : List Char) → (a : Option Char) →
    nodesOk (out (cur, txt) ++ ns) a = true → nodesOk (out (pushNodes ns cur txt)) a = true
  | [], cur, txt, a, h => by
    rw [pushNodes]
    simpa using h
  | n :: ns, cur, txt, a, h => by
    have e : out (cur, txt) ++ n :: ns = (out (cur, txt) ++ [n]) ++ ns := by simp
    rw [e, Proofs.Emit.nodesOk_append, Bool.and_eq_true] at h
    have h1 := ok_pushNode n cur txt _ h.1
    rw [pushNodes]
    apply ok_pushNodes ns (pushNode n cur txt).1 (pushNode n cur txt).2 a
    rw [Proofs.Emit.nodesOk_append, Bool.and_eq_true]
    exact ⟨h1, h.2⟩
end

theorem nodesOk_norm (ns : List Node) (after : Option Char) (h : nodesOk ns after = true) :
    nodesOk (norm ns) after = true :=
  ok_pushNodes ns [] [] after (by rw [out_nil_nil]; exact h)

/-! ### frames -/

theorem frame_push : ∀ (ns cur : List Node), cur.all Proofs.Emit.frameNode = true →
    ns.all Proofs.Emit.frameNode = true →
    ∃ cur', pushNodes ns cur [] = (cur', []) ∧ cur'.all Proofs.Emit.frameNode = true := by
  intro ns
  induction ns with
  | nil => intro cur hc _; exact ⟨cur, by rw [pushNodes], hc⟩
  | cons n ns ih =>
    intro cur hc h
    simp only [List.all_cons, Bool.and_eq_true] at h
    rw [pushNodes]
    cases n with
    | cw w p sp =>
      rw [pushNode, flush_nil]
      exact ih _ (by simp only [List.all_cons, h.1, hc, Bool.and_self]) h.2
    | nl =>
      rw [pushNode, flush_nil]
      exact ih _ (by simp only [List.all_cons, h.1, hc, Bool.and_self]) h.2
    | grp body =>
      rw [pushNode_grp, flush_nil]
      have hb : Proofs.Emit.frameNode (Node.grp (norm body)) = true := by
        have := h.1
        simp only [Proofs.Emit.frameNode] at this ⊢
        exact nodesOk_norm body _ this
      exact ih _ (by simp only [List.all_cons, hb, hc, Bool.and_self]) h.2
    | sym c => simp [Proofs.Emit.frameNode] at h
    | hex a b => simp [Proofs.Emit.frameNode] at h
    | txt s => simp [Proofs.Emit.frameNode] at h

theorem frame_norm (ns : List Node) (h : ns.all Proofs.Emit.frameNode = true) :
    (norm ns).all Proofs.Emit.frameNode = true := by
  obtain ⟨cur', e, hc⟩ := frame_push ns [] rfl h
  rw [norm, e, out_nil, List.all_reverse]
  exact hc

/-! ### adjacency at the end of input is the weakest -/

theorem nodeOk_none_of_some (n : Node) (c : Char) (h : nodeOk n (some c) = true) : nodeOk n none = true := by
  cases n with
  | cw w p sp =>
    simp only [nodeOk, Bool.and_eq_true] at h ⊢
    exact ⟨h.1, by simp⟩
  | sym x => simpa [nodeOk] using h
  | hex x y => simpa [nodeOk] using h
  | txt s => simpa [nodeOk] using h
  | nl => simp [nodeOk]
  | grp body => simpa [nodeOk] using h

theorem nodesOk_none_of_some (ns : List Node) (c : Char) (h : nodesOk ns (some c) = true) :
    nodesOk ns none = true := by
  induction ns with
  | nil => simp [nodesOk]
  | cons n ns ih =>
    rw [Proofs.Emit.nodesOk_cons, Bool.and_eq_true] at h ⊢
    refine ⟨?_, ih h.2⟩
    have h1 := h.1
    unfold Proofs.Emit.nextChar at h1 ⊢
    cases hp : (printNodes ns).head? with
    | none =>
      rw [hp] at h1
      exact nodeOk_none_of_some n c h1
    | some d =>
      rw [hp] at h1
      exact h1

end Proofs.LexNodes
