import Model.Color
import Proofs.Color
import Proofs.ColorTable
import Proofs.ColorTableNames
/-!
The full colour table (`generate_rtf_color_table(None)`): with pairwise distinct names and ascending master indices the
dictionaries' keys, sorted by master index, are the generated table itself.
-/
namespace Proofs.ColorTable
open Generated Model.Color Proofs.Color

theorem dictKeys_of_nodup : ∀ (l : List ColorRow) (seen : List String),
    (l.map (·.name)).Nodup → (∀ r ∈ l, r.name ∉ seen) → dictKeys l seen = l.map (·.name)
  | [], _, _, _ => rfl
  | r :: rs, seen, hnd, hns => by
    have hnd' : r.name ∉ rs.map (·.name) ∧ (rs.map (·.name)).Nodup := List.nodup_cons.mp hnd
    have h1 : seen.contains r.name = false := by
      simpa using hns r List.mem_cons_self
    simp only [dictKeys, h1, List.map_cons, Bool.false_eq_true, if_false]
    congr 1
    apply dictKeys_of_nodup rs _ hnd'.2
    intro r' hr' hmem
    rcases List.mem_cons.mp hmem with h | h
    · exact hnd'.1 (List.mem_map.mpr ⟨r', hr', h⟩)
    · exact hns r' (List.mem_cons_of_mem _ hr') h

theorem lookupRow_of_nodup : ∀ (l : List ColorRow), (l.map (·.name)).Nodup → ∀ r ∈ l, lookupRow l r.name = some r
  | [], _, r, hr => by cases hr
  | x :: xs, hnd, r, hr => by
    have hnd' : x.name ∉ xs.map (·.name) ∧ (xs.map (·.name)).Nodup := List.nodup_cons.mp hnd
    rcases List.mem_cons.mp hr with rfl | hr'
    · have : lookupRow xs r.name = none := by
        cases hl : lookupRow xs r.name with
        | none => rfl
        | some r' =>
          have := lookupRow_some hl
          exact absurd (List.mem_map.mpr ⟨r', this.1, this.2⟩) hnd'.1
      simp [lookupRow, this]
    · simp [lookupRow, lookupRow_of_nodup xs hnd'.2 r hr']

theorem filterMap_lookup_self (tbl : List ColorRow) (h : ∀ r ∈ tbl, lookupRow tbl r.name = some r) :
    ∀ l : List ColorRow, (∀ r ∈ l, r ∈ tbl) → (l.map (·.name)).filterMap (lookupRow tbl) = l
  | [], _ => rfl
  | r :: rs, hl => by
    simp only [List.map_cons, List.filterMap_cons, h r (hl r List.mem_cons_self)]
    congr 1
    exact filterMap_lookup_self tbl h rs (fun r' hr' => hl r' (List.mem_cons_of_mem _ hr'))

/-- the full table (`used_colors is None`) is the generated table itself, in table order -/
theorem fullTableRows_eq : fullTableRows colorTable = colorTable := by
  have hk : dictKeys colorTable [] = colorTable.map (·.name) :=
    dictKeys_of_nodup colorTable [] names_nodup (by intro r _ h; cases h)
  have hl := lookupRow_of_nodup colorTable names_nodup
  simp only [fullTableRows, hk]
  rw [filterMap_lookup_self colorTable hl colorTable (fun r hr => hr)]
  exact sortRows_of_sorted colorTable idx_sorted

end Proofs.ColorTable
