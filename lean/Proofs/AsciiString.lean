/-
  Proofs/AsciiString.lean

  The character list of a string whose UTF-8 bytes are all 7-bit can be read
  directly off its bytes.
-/

namespace Proofs.AsciiString

/-- `Char.ofNat b` for a 7-bit `b` has scalar value `b`. -/
theorem val_ofNat_toNat (b : Nat) (hb : b < 128) : (Char.ofNat b).val.toNat = b := by
  have hv : b.isValidChar := Or.inl (by omega)
  simp only [Char.ofNat, dif_pos hv, Char.ofNatAux]
  rfl

theorem utf8Size_ofNat (b : Nat) (hb : b < 128) : (Char.ofNat b).utf8Size = 1 := by
  have h := val_ofNat_toNat b hb
  have hle : (Char.ofNat b).val ≤ 127 := by
    rw [UInt32.le_iff_toNat_le]
    show (Char.ofNat b).val.toNat ≤ 127
    omega
  unfold Char.utf8Size
  exact if_pos hle

theorem utf8EncodeChar_ofNat (b : Nat) (hb : b < 128) :
    String.utf8EncodeChar (Char.ofNat b) = [b.toUInt8] := by
  rw [String.utf8EncodeChar_eq_singleton (utf8Size_ofNat b hb)]
  congr 1
  apply UInt8.toNat_inj.mp
  rw [UInt32.toNat_toUInt8, val_ofNat_toNat b hb, Nat.toUInt8_eq, UInt8.toNat_ofNat']

theorem utf8Encode_map_ofNat (B : List Nat) (hB : ∀ b ∈ B, b < 128) :
    (B.map Char.ofNat).utf8Encode = (B.map Nat.toUInt8).toByteArray := by
  induction B with
  | nil => rfl
  | cons b B ih =>
    have hb : b < 128 := hB b (by simp)
    have ih' := ih (fun x hx => hB x (by simp [hx]))
    rw [List.map_cons, List.utf8Encode_cons, List.utf8Encode_singleton, ih',
      utf8EncodeChar_ofNat b hb, ← List.toByteArray_append]
    rfl

theorem ascii_toList (s : String) (B : List Nat) (hB : ∀ b ∈ B, b < 128)
    (h : s.toUTF8.data.toList.map (·.toNat) = B) : s.toList = B.map Char.ofNat := by
  have hbytes : (B.map Nat.toUInt8).toByteArray = s.toByteArray := by
    apply ByteArray.ext
    rw [List.data_toByteArray, ← h, String.toUTF8_eq_toByteArray, List.map_map]
    have : (Nat.toUInt8 ∘ fun (x : UInt8) => x.toNat) = id := by
      funext x; simp
    rw [this, List.map_id, Array.toArray_toList]
  have henc : (String.ofList (B.map Char.ofNat)).toByteArray = s.toByteArray := by
    rw [String.toByteArray_ofList, utf8Encode_map_ofNat B hB, hbytes]
  have hs : String.ofList (B.map Char.ofNat) = s := String.toByteArray_inj.mp henc
  rw [← hs, String.toList_ofList]

theorem ascii_toList' (s : String) (B : List Nat)
    (h : (s.toUTF8.data.toList.map (·.toNat) == B && B.all (· < 128)) = true) :
    s.toList = B.map Char.ofNat := by
  rw [Bool.and_eq_true] at h
  obtain ⟨h1, h2⟩ := h
  apply ascii_toList s B
  · intro b hb
    have := List.all_eq_true.mp h2 b hb
    simpa using this
  · exact eq_of_beq h1

end Proofs.AsciiString
