import Model.Rtf
import Model.RtfDoc
/-!
Helper lemmas for `Props/C01.lean`: digits, lexer inversion, balance, rows.
-/
namespace Proofs.Rtf
open Model.Rtf

/-! ### digits -/

theorem toNat_digit (d : Nat) (h : d < 10) : (Char.ofNat (48 + d)).toNat = 48 + d := by
  have : d = 0 ∨ d = 1 ∨ d = 2 ∨ d = 3 ∨ d = 4 ∨ d = 5 ∨ d = 6 ∨ d = 7 ∨ d = 8 ∨ d = 9 := by omega
  rcases this with h | h | h | h | h | h | h | h | h | h <;> subst h <;> decide

theorem isDigit_digit (d : Nat) (h : d < 10) : isDigit (Char.ofNat (48 + d)) = true := by
  simp only [isDigit, toNat_digit d h, Bool.and_eq_true, decide_eq_true_eq]
  omega

theorem natDigitsAux_spec : ∀ (fuel n : Nat) (acc : List Char), n < fuel →
    ∃ ds, natDigitsAux fuel n acc = ds ++ acc ∧ ds ≠ [] ∧ ds.all isDigit = true ∧
      digitsValRev ds.reverse = n := by
  intro fuel
  induction fuel with
  | zero => intro n acc h; omega
  | succ fuel ih =>
    intro n acc h
    have hd : n % 10 < 10 := Nat.mod_lt _ (by omega)
    unfold natDigitsAux
    by_cases h0 : n / 10 = 0
    · refine ⟨[Char.ofNat (48 + n % 10)], ?_, by simp, ?_, ?_⟩
      · simp [h0]
      · simp [isDigit_digit _ hd]
      · simp only [List.reverse_cons, List.reverse_nil, List.nil_append, digitsValRev, toNat_digit _ hd]
        omega
    · have hlt : n / 10 < fuel := by omega
      obtain ⟨ds, e, _, hall, hv⟩ := ih (n / 10) (Char.ofNat (48 + n % 10) :: acc) hlt
      refine ⟨ds ++ [Char.ofNat (48 + n % 10)], ?_, by simp, ?_, ?_⟩
      · simp [h0, e]
      · simp [hall, isDigit_digit _ hd]
      · simp only [List.reverse_append, List.reverse_cons, List.reverse_nil, List.nil_append,
          List.cons_append, digitsValRev, toNat_digit _ hd, hv]
        omega

theorem natDigits_spec (n : Nat) : digitsValRev (natDigits n).reverse = n ∧ (natDigits n) ≠ [] ∧
    (natDigits n).all isDigit = true := by
  obtain ⟨ds, e, hne, hall, hv⟩ := natDigitsAux_spec (n + 1) n [] (by omega)
  have : natDigits n = ds := by simp [natDigits, e]
  rw [this]
  exact ⟨hv, hne, hall⟩

/-! ### lexer inversion -/

theorem run_append (s : List Tok × LState) (a b : List Char) :
    run s (a ++ b) = (run s a).bind (fun s' => run s' b) := by
  induction a generalizing s with
  | nil => simp [run]
  | cons c cs ih =>
    simp only [List.cons_append, run]
    cases step s c with
    | none => simp
    | some s' => simp [ih]

theorem digit_not_letter {c : Char} (h : isDigit c = true) : isLetter c = false := by
  simp only [isDigit, Bool.and_eq_true, decide_eq_true_eq] at h
  simp only [isLetter, Bool.or_eq_false_iff, Bool.and_eq_false_iff, decide_eq_false_iff_not]
  omega

theorem digit_ne_minus {c : Char} (h : isDigit c = true) : c ≠ '-' := by
  intro hc; subst hc; revert h; decide

theorem letter_ne_quote {c : Char} (h : isLetter c = true) : c ≠ '\'' := by
  intro hc; subst hc; revert h; decide

theorem run_letters (out : List Tok) : ∀ (ls rev tail : List Char), ls.all isLetter = true →
    run (out, .word rev) (ls ++ tail) = run (out, .word (ls.reverse ++ rev)) tail := by
  intro ls
  induction ls with
  | nil => intro rev tail _; simp
  | cons a ls ih =>
    intro rev tail h
    simp only [List.all_cons, Bool.and_eq_true] at h
    simp only [List.cons_append, run, step, h.1, if_true]
    rw [ih _ _ h.2]
    simp

theorem run_digits (out : List Tok) (name : List Char) (neg : Bool) :
    ∀ (ds rev tail : List Char), ds.all isDigit = true →
    run (out, .num name neg rev) (ds ++ tail) = run (out, .num name neg (ds.reverse ++ rev)) tail := by
  intro ds
  induction ds with
  | nil => intro rev tail _; simp
  | cons a ds ih =>
    intro rev tail h
    simp only [List.all_cons, Bool.and_eq_true] at h
    simp only [List.cons_append, run, step, h.1, if_true]
    rw [ih _ _ h.2]
    simp

theorem run_name (out : List Tok) (n tail : List Char) (hn : nameOk n = true) :
    run (out, .ground) ('\\' :: (n ++ tail)) = run (out, .word n.reverse) tail := by
  cases n with
  | nil => simp [nameOk] at hn
  | cons a n =>
    simp only [nameOk, List.isEmpty_cons, Bool.not_false, Bool.true_and, List.all_cons,
      Bool.and_eq_true] at hn
    have h1 : step (out, .ground) '\\' = some (out, .bs) := by
      simp [step, groundStep]
    have h2 : step (out, .bs) a = some (out, .word [a]) := by
      simp [step, hn.1]
    simp only [List.cons_append, run, h1, h2]
    rw [run_letters out n [a] tail hn.2]
    simp

theorem mkParam_negSucc (r : List Char) (m : Nat) (h : digitsValRev r = m + 1) :
    mkParam true r = Int.negSucc m := by
  simp only [mkParam, if_true, h]
  rfl

theorem run_param (out : List Tok) (rev : List Char) (k : Int) (tail : List Char) :
    ∃ neg r, r ≠ [] ∧ mkParam neg r = k ∧
      run (out, .word rev) (intDigits k ++ tail) = run (out, .num rev.reverse neg r) tail := by
  cases k with
  | ofNat m =>
    obtain ⟨hv, hne, hall⟩ := natDigits_spec m
    refine ⟨false, (natDigits m).reverse, by simpa using hne, ?_, ?_⟩
    · simp [mkParam, hv]
    · simp only [intDigits]
      cases hd : natDigits m with
      | nil => exact absurd hd hne
      | cons d ds =>
        rw [hd] at hall
        simp only [List.all_cons, Bool.and_eq_true] at hall
        have h1 : step (out, .word rev) d = some (out, .num rev.reverse false [d]) := by
          simp [step, digit_not_letter hall.1, digit_ne_minus hall.1, hall.1]
        simp only [List.cons_append, run, h1]
        rw [run_digits out _ _ ds [d] tail hall.2]
        simp
  | negSucc m =>
    obtain ⟨hv, hne, hall⟩ := natDigits_spec (m + 1)
    refine ⟨true, (natDigits (m + 1)).reverse, by simpa using hne, mkParam_negSucc _ _ hv, ?_⟩
    have h1 : step (out, .word rev) '-' = some (out, .num rev.reverse true []) := by
      have : isLetter '-' = false := by decide
      simp [step, this]
    simp only [intDigits, List.cons_append, run, h1]
    rw [run_digits out _ _ _ [] tail hall]
    simp

/-- end of a control word without parameter -/
theorem end_word (out : List Tok) (rev : List Char) (sp : Bool) (rest : List Char)
    (h : (sp || match rest.head? with | some c => !badAfter none c | none => true) = true) :
    (run (out, .word rev) ((if sp then [' '] else []) ++ rest)).bind finish =
      (run (Tok.cw rev.reverse none :: out, .ground) rest).bind finish := by
  cases sp with
  | true =>
    have h1 : step (out, .word rev) ' ' = some (Tok.cw rev.reverse none :: out, .ground) := by
      have a : isLetter ' ' = false := by decide
      have b : isDigit ' ' = false := by decide
      simp [step, a, b]
    simp [run, h1]
  | false =>
    cases rest with
    | nil => simp [run, finish]
    | cons c rest =>
      simp only [Bool.false_or, List.head?_cons, badAfter, Bool.not_eq_true', Bool.or_eq_false_iff,
        beq_eq_false_iff_ne, ne_eq] at h
      obtain ⟨⟨⟨hl, hd⟩, hm⟩, hs⟩ := h
      have h1 : step (out, .word rev) c = step (Tok.cw rev.reverse none :: out, .ground) c := by
        simp [step, hl, hd, hm, hs]
      simp [run, h1]

/-- end of a control word with parameter -/
theorem end_num (out : List Tok) (name : List Char) (neg : Bool) (r : List Char) (hr : r ≠ []) (k : Int)
    (sp : Bool) (rest : List Char)
    (h : (sp || match rest.head? with | some c => !badAfter (some k) c | none => true) = true) :
    (run (out, .num name neg r) ((if sp then [' '] else []) ++ rest)).bind finish =
      (run (Tok.cw name (some (mkParam neg r)) :: out, .ground) rest).bind finish := by
  have hre : r.isEmpty = false := by cases r with
    | nil => exact absurd rfl hr
    | cons _ _ => rfl
  cases sp with
  | true =>
    have h1 : step (out, .num name neg r) ' ' =
        some (Tok.cw name (some (mkParam neg r)) :: out, .ground) := by
      have b : isDigit ' ' = false := by decide
      simp [step, b, hre]
    simp [run, h1]
  | false =>
    cases rest with
    | nil => simp [run, finish, hre]
    | cons c rest =>
      simp only [Bool.false_or, List.head?_cons, badAfter, Bool.not_eq_true', Bool.or_eq_false_iff,
        beq_eq_false_iff_ne, ne_eq] at h
      obtain ⟨hd, hs⟩ := h
      have h1 : step (out, .num name neg r) c =
          step (Tok.cw name (some (mkParam neg r)) :: out, .ground) c := by
        simp [step, hd, hs, hre]
      simp [run, h1]

theorem lex_cw (n : List Char) (p : Option Int) (sp : Bool) (out : List Tok) (rest : List Char)
    (h : nodeOk (.cw n p sp) rest.head? = true) :
    (run (out, .ground) (printNode (.cw n p sp) ++ rest)).bind finish =
      (run (Tok.cw n p :: out, .ground) rest).bind finish := by
  simp only [nodeOk, Bool.and_eq_true] at h
  obtain ⟨hn, h⟩ := h
  simp only [printNode, List.cons_append, List.append_assoc]
  rw [run_name out n _ hn]
  cases p with
  | none =>
    simp only [List.nil_append]
    have := end_word out n.reverse sp rest h
    simpa using this
  | some k =>
    obtain ⟨neg, r, hr, hk, e⟩ := run_param out n.reverse k ((if sp then [' '] else []) ++ rest)
    simp only at e ⊢
    rw [e]
    have := end_num out n.reverse.reverse neg r hr k sp rest h
    rw [hk] at this
    simpa using this

theorem step_bs_ground (out : List Tok) : step (out, .ground) '\\' = some (out, .bs) := by
  simp [step, groundStep]

theorem lex_sym (c : Char) (out : List Tok) (rest : List Char) (h : validSym c = true) :
    run (out, .ground) (printNode (.sym c) ++ rest) = run (Tok.sym c :: out, .ground) rest := by
  have h2 : step (out, .bs) c = some (Tok.sym c :: out, .ground) := by
    have h' := h
    simp only [validSym, List.mem_cons, List.not_mem_nil, or_false, decide_eq_true_eq] at h'
    rcases h' with e | e | e | e | e | e | e | e | e <;> subst e <;> rfl
  simp [printNode, run, step_bs_ground, h2]

theorem lex_hex (a b : Char) (out : List Tok) (rest : List Char)
    (h : ((hexVal a).isSome && (hexVal b).isSome) = true) :
    run (out, .ground) (printNode (.hex a b) ++ rest) =
      run (Tok.hex (16 * hv a + hv b) :: out, .ground) rest := by
  simp only [Bool.and_eq_true, Option.isSome_iff_exists] at h
  obtain ⟨⟨d, hd⟩, ⟨e, he⟩⟩ := h
  have h2 : step (out, .bs) '\'' = some (out, .hex1) := rfl
  have h3 : step (out, .hex1) a = some (out, .hex2 d) := by simp [step, hd]
  have h4 : step (out, .hex2 d) b = some (Tok.hex (16 * d + e) :: out, .ground) := by simp [step, he]
  simp [printNode, run, step_bs_ground, h2, h3, h4, hv, hd, he]

theorem lex_txt : ∀ (s : List Char) (out : List Tok) (rest : List Char), s.all safeChar = true →
    run (out, .ground) (s ++ rest) = run ((s.map Tok.chr).reverse ++ out, .ground) rest := by
  intro s
  induction s with
  | nil => intro out rest _; simp
  | cons c s ih =>
    intro out rest h
    simp only [List.all_cons, Bool.and_eq_true] at h
    have hc := h.1
    simp only [safeChar, Bool.and_eq_true, bne_iff_ne, ne_eq] at hc
    obtain ⟨⟨⟨⟨c1, c2⟩, c3⟩, c4⟩, c5⟩ := hc
    have h1 : step (out, .ground) c = some (Tok.chr c :: out, .ground) := by
      simp [step, groundStep, c1, c2, c3, c4, c5]
    simp only [List.cons_append, run, h1]
    rw [ih _ _ h.2]
    simp

mutual
theorem lex_node : (n : Node) → (out : List Tok) → (rest : List Char) →
    nodeOk n rest.head? = true →
    (run (out, .ground) (printNode n ++ rest)).bind finish =
      (run ((toksNode n).reverse ++ out, .ground) rest).bind finish
  | .cw n p sp, out, rest, h => by
    have := lex_cw n p sp out rest h
    simpa [toksNode] using this
  | .sym c, out, rest, h => by
    simp only [nodeOk] at h
    rw [lex_sym c out rest h]
    simp [toksNode]
  | .hex a b, out, rest, h => by
    simp only [nodeOk] at h
    rw [lex_hex a b out rest h]
    simp [toksNode]
  | .txt s, out, rest, h => by
    simp only [nodeOk] at h
    simp only [printNode, toksNode]
    rw [lex_txt s out rest h]
  | .nl, out, rest, _ => by
    have h1 : step (out, .ground) '\n' = some (out, .ground) := rfl
    simp [printNode, toksNode, run, h1]
  | .grp body, out, rest, h => by
    simp only [nodeOk] at h
    have h1 : step (out, .ground) '{' = some (Tok.open :: out, .ground) := rfl
    have h2 : ∀ o, step (o, .ground) '}' = some (Tok.close :: o, .ground) := fun _ => rfl
    have ih := lex_nodes body (Tok.open :: out) ('}' :: rest) (by simpa using h)
    simp only [printNode, List.cons_append, List.append_assoc, run, h1, List.nil_append]
    rw [ih]
    simp [toksNode, run, h2]
theorem lex_nodes : (ns : List Node) → (out : List Tok) → (rest : List Char) →
    nodesOk ns rest.head? = true →
    (run (out, .ground) (printNodes ns ++ rest)).bind finish =
      (run ((toksNodes ns).reverse ++ out, .ground) rest).bind finish
  | [], out, rest, _ => by simp [printNodes, toksNodes]
  | n :: ns, out, rest, h => by
    simp only [nodesOk, Bool.and_eq_true] at h
    have h1 : nodeOk n (printNodes ns ++ rest).head? = true := by
      have := h.1
      cases hp : printNodes ns with
      | nil => simpa [hp] using this
      | cons c cs => simpa [hp] using this
    have a := lex_node n out (printNodes ns ++ rest) h1
    have b := lex_nodes ns ((toksNode n).reverse ++ out) rest h.2
    simp only [printNodes, toksNodes, List.append_assoc, List.reverse_append]
    rw [a, b]
end

theorem lex_print (ns : List Node) (h : nodesOk ns none = true) :
    lex (printNodes ns) = some (toksNodes ns) := by
  have := lex_nodes ns [] [] (by simpa using h)
  simpa [lex, run, finish] using this

/-! ### balance -/

theorem depth_chrs (d : Nat) (hd : 1 ≤ d) (s : List Char) (ts : List Tok) :
    depthOk d (s.map Tok.chr ++ ts) = depthOk d ts := by
  induction s with
  | nil => simp
  | cons c s ih =>
    have : (d == 0) = false := by simp; omega
    simp [depthOk, this, ih]

mutual
theorem depth_node : (n : Node) → (d : Nat) → 1 ≤ d → (ts : List Tok) →
    depthOk d (toksNode n ++ ts) = depthOk d ts
  | .cw _ _ _, d, hd, ts => by
    have : (d == 0) = false := by simp; omega
    simp [toksNode, depthOk, this]
  | .sym _, d, hd, ts => by
    have : (d == 0) = false := by simp; omega
    simp [toksNode, depthOk, this]
  | .hex _ _, d, hd, ts => by
    have : (d == 0) = false := by simp; omega
    simp [toksNode, depthOk, this]
  | .txt s, d, hd, ts => by
    simp only [toksNode]
    exact depth_chrs d hd s ts
  | .nl, _, _, _ => by simp [toksNode]
  | .grp body, d, hd, ts => by
    have ih := depth_nodes body (d + 1) (by omega) (Tok.close :: ts)
    have h0 : (d + 1 == 0) = false := by simp
    have h1 : (d + 1 == 1) = false := by simp; omega
    simp only [toksNode, List.cons_append, List.append_assoc, depthOk, List.nil_append]
    rw [ih]
    simp [depthOk, h1]
theorem depth_nodes : (ns : List Node) → (d : Nat) → 1 ≤ d → (ts : List Tok) →
    depthOk d (toksNodes ns ++ ts) = depthOk d ts
  | [], _, _, _ => by simp [toksNodes]
  | n :: ns, d, hd, ts => by
    simp only [toksNodes, List.append_assoc]
    rw [depth_node n d hd, depth_nodes ns d hd]
end

theorem balanced (ns : List Node) : depthOk 0 (toksNode (Node.grp ns)) = true := by
  simp only [toksNode, List.cons_append, depthOk]
  rw [depth_nodes ns (0 + 1) (by omega)]
  simp [depthOk]

/-! ### rows -/

theorem toksNodes_append (a b : List Node) : toksNodes (a ++ b) = toksNodes a ++ toksNodes b := by
  induction a with
  | nil => simp [toksNodes]
  | cons n a ih => simp [toksNodes, ih]

theorem rows_chrs (b : Bool) (nx nc : Nat) (lx : Int) (s : List Char) (ts : List Tok) :
    rowsOk b nx nc lx (s.map Tok.chr ++ ts) = rowsOk b nx nc lx ts := by
  induction s with
  | nil => simp
  | cons c s ih => simp [rowsOk, ih]

theorem rows_cw_plain (b : Bool) (nx nc : Nat) (lx : Int) (n : List Char) (p : Option Int)
    (ts : List Tok) (h : tableWord n = false) :
    rowsOk b nx nc lx (Tok.cw n p :: ts) = rowsOk b nx nc lx ts := by
  simp [tableWord] at h
  simp [rowsOk, h]

mutual
theorem rows_node : (n : Node) → (b : Bool) → (nx nc : Nat) → (lx : Int) → (ts : List Tok) →
    plainNode n = true → rowsOk b nx nc lx (toksNode n ++ ts) = rowsOk b nx nc lx ts
  | .cw n p _, b, nx, nc, lx, ts, h => by
    simp only [plainNode, Bool.not_eq_true'] at h
    simpa [toksNode] using rows_cw_plain b nx nc lx n p ts h
  | .sym _, _, _, _, _, _, _ => by simp [toksNode, rowsOk]
  | .hex _ _, _, _, _, _, _, _ => by simp [toksNode, rowsOk]
  | .txt s, b, nx, nc, lx, ts, _ => by
    simp only [toksNode]
    exact rows_chrs b nx nc lx s ts
  | .nl, _, _, _, _, _, _ => by simp [toksNode]
  | .grp body, b, nx, nc, lx, ts, h => by
    simp only [plainNode] at h
    have ih := rows_nodes body b nx nc lx (Tok.close :: ts) h
    simp only [toksNode, List.cons_append, List.append_assoc, rowsOk, List.nil_append]
    rw [ih]
    simp [rowsOk]
theorem rows_nodes : (ns : List Node) → (b : Bool) → (nx nc : Nat) → (lx : Int) → (ts : List Tok) →
    plainNodes ns = true → rowsOk b nx nc lx (toksNodes ns ++ ts) = rowsOk b nx nc lx ts
  | [], _, _, _, _, _, _ => by simp [toksNodes]
  | n :: ns, b, nx, nc, lx, ts, h => by
    simp only [plainNodes, Bool.and_eq_true] at h
    simp only [toksNodes, List.append_assoc]
    rw [rows_node n b nx nc lx _ h.1, rows_nodes ns b nx nc lx ts h.2]
end


theorem rows_open (b : Bool) (nx nc : Nat) (lx : Int) (ts : List Tok) :
    rowsOk b nx nc lx (Tok.open :: ts) = rowsOk b nx nc lx ts := by
  simp [rowsOk]

theorem rows_trowd (p : Option Int) (ts : List Tok) :
    rowsOk false 0 0 0 (Tok.cw "trowd".toList p :: ts) = rowsOk true 0 0 0 ts := by
  simp [rowsOk]

theorem rows_cellx (nx nc : Nat) (lx k : Int) (ts : List Tok) (h0 : 0 < k) (h1 : lx ≤ k) :
    rowsOk true nx nc lx (Tok.cw "cellx".toList (some k) :: ts) = rowsOk true (nx + 1) nc k ts := by
  simp [rowsOk, h0, h1]

theorem rows_cell (nx nc : Nat) (lx : Int) (p : Option Int) (ts : List Tok) :
    rowsOk true nx nc lx (Tok.cw "cell".toList p :: ts) = rowsOk true nx (nc + 1) lx ts := by
  simp [rowsOk]

theorem rows_row (n : Nat) (lx : Int) (p : Option Int) (ts : List Tok) :
    rowsOk true n n lx (Tok.cw "row".toList p :: ts) = rowsOk false 0 0 0 ts := by
  simp [rowsOk]

theorem rows_defs : ∀ (cells : List CellG) (nx nc : Nat) (lx : Int) (ts : List Tok),
    cells.all (fun c => plainNodes c.defn && plainNodes c.content) = true → cellxOk lx cells = true →
    ∃ lx', rowsOk true nx nc lx
        (toksNodes (cells.flatMap (fun c => c.defn ++ [Node.cw "cellx".toList (some c.cellx) false])) ++ ts)
      = rowsOk true (nx + cells.length) nc lx' ts := by
  intro cells
  induction cells with
  | nil => intro nx nc lx ts _ _; exact ⟨lx, by simp [toksNodes]⟩
  | cons c cells ih =>
    intro nx nc lx ts hp hx
    simp only [List.all_cons, Bool.and_eq_true] at hp
    simp only [cellxOk, Bool.and_eq_true, decide_eq_true_eq] at hx
    obtain ⟨lx', e⟩ := ih (nx + 1) nc c.cellx ts hp.2 hx.2
    refine ⟨lx', ?_⟩
    simp only [List.flatMap_cons, toksNodes_append, List.append_assoc]
    rw [rows_nodes c.defn _ _ _ _ _ hp.1.1]
    simp only [toksNodes, toksNode, List.cons_append, List.nil_append, List.append_nil]
    rw [rows_cellx _ _ _ _ _ hx.1.1 hx.1.2, e]
    simp [Nat.add_assoc, Nat.add_comm 1]

theorem rows_contents : ∀ (cells : List CellG) (nx nc : Nat) (lx : Int) (ts : List Tok),
    cells.all (fun c => plainNodes c.defn && plainNodes c.content) = true →
    rowsOk true nx nc lx (toksNodes (cells.flatMap (fun c => c.content ++ [Node.cw "cell".toList none false])) ++ ts)
      = rowsOk true nx (nc + cells.length) lx ts := by
  intro cells
  induction cells with
  | nil => intro nx nc lx ts _; simp [toksNodes]
  | cons c cells ih =>
    intro nx nc lx ts hp
    simp only [List.all_cons, Bool.and_eq_true] at hp
    simp only [List.flatMap_cons, toksNodes_append, List.append_assoc]
    rw [rows_nodes c.content _ _ _ _ _ hp.1.2]
    simp only [toksNodes, toksNode, List.cons_append, List.nil_append, List.append_nil]
    rw [rows_cell, ih _ _ _ _ hp.2]
    simp [Nat.add_assoc, Nat.add_comm 1]

theorem rows_block (b : BlockG) (ts : List Tok) (h : blockOk b = true) :
    rowsOk false 0 0 0 (toksNodes (blockNodes b) ++ ts) = rowsOk false 0 0 0 ts := by
  cases b with
  | plain ns => exact rows_nodes ns _ _ _ _ _ h
  | row head cells mid =>
    simp only [blockOk, Bool.and_eq_true] at h
    obtain ⟨⟨⟨hh, hm⟩, hc⟩, hx⟩ := h
    simp only [blockNodes, rowNodes, List.cons_append, toksNodes_append, List.append_assoc,
      toksNodes, toksNode, cw0, List.nil_append, List.append_nil]
    rw [rows_trowd, rows_nodes head _ _ _ _ _ hh]
    obtain ⟨lx', e⟩ := rows_defs cells 0 0 0
      (toksNodes (cells.flatMap (fun c => c.content ++ [Node.cw "cell".toList none false])) ++
        (toksNodes mid ++ Tok.cw "row".toList none :: ts)) hc hx
    rw [e, rows_contents cells _ _ _ _ hc, rows_nodes mid _ _ _ _ _ hm]
    simp only [Nat.zero_add]
    rw [rows_row]

theorem rows_blocks : ∀ (bs : List BlockG) (ts : List Tok), bs.all blockOk = true →
    rowsOk false 0 0 0 (toksNodes (bs.flatMap blockNodes) ++ ts) = rowsOk false 0 0 0 ts := by
  intro bs
  induction bs with
  | nil => intro ts _; simp [toksNodes]
  | cons b bs ih =>
    intro ts h
    simp only [List.all_cons, Bool.and_eq_true] at h
    simp only [List.flatMap_cons, toksNodes_append, List.append_assoc]
    rw [rows_block b _ h.1, ih ts h.2]

theorem rows_doc (d : DocG) (h1 : plainNodes d.head = true) (h2 : d.blocks.all blockOk = true) :
    rowsOk false 0 0 0 (toksNode (Node.grp (docNodes d))) = true := by
  have hr : tableWord "rtf".toList = false := by decide
  simp only [toksNode, docNodes, toksNodes, List.cons_append, List.nil_append, toksNodes_append,
    List.append_assoc]
  rw [rows_open, rows_cw_plain _ _ _ _ _ _ _ hr, rows_nodes d.head _ _ _ _ _ h1, rows_blocks d.blocks _ h2]
  simp [rowsOk]

/-! ### the linear-time side condition -/

theorem firstCharNode_eq (n : Node) : firstCharNode n = (printNode n).head? := by
  cases n <;> simp [firstCharNode, printNode]

theorem firstChar_eq : ∀ ns : List Node, firstChar ns = (printNodes ns).head?
  | [] => by simp [firstChar, printNodes]
  | n :: ns => by
    simp only [firstChar, printNodes, firstCharNode_eq, firstChar_eq ns]
    cases printNode n <;> simp

mutual
theorem nodeOkFast_eq : (n : Node) → (next : Option Char) → nodeOkFast n next = nodeOk n next
  | .cw _ _ _, _ => by simp [nodeOkFast, nodeOk]
  | .sym _, _ => by simp [nodeOkFast, nodeOk]
  | .hex _ _, _ => by simp [nodeOkFast, nodeOk]
  | .txt _, _ => by simp [nodeOkFast, nodeOk]
  | .nl, _ => by simp [nodeOkFast, nodeOk]
  | .grp body, _ => by simp only [nodeOkFast, nodeOk, nodesOkFast_eq body]
theorem nodesOkFast_eq : (ns : List Node) → (after : Option Char) → nodesOkFast ns after = nodesOk ns after
  | [], _ => by simp [nodesOkFast, nodesOk]
  | n :: ns, after => by
    simp only [nodesOkFast, nodesOk, firstChar_eq, nodeOkFast_eq n, nodesOkFast_eq ns]
end

theorem docOkFast_eq (d : DocG) : docOkFast d = docOk d := by
  simp only [docOkFast, docOk, nodesOkFast_eq]

end Proofs.Rtf
