import Model.Color
/-!
The colour names of the generated table are pairwise distinct (so the three dictionaries built from it have one key per
row and `len(name_to_type) = len(color_table)`).  Decided by the kernel: the names are mapped to numbers (any function
will do — equal names have equal codes) and the numbers are compared pairwise.
-/
namespace Proofs.ColorTable
open Generated Model.Color

def nameCode (s : String) : Nat := (bytesOf s).foldl (fun n b => n * 256 + b) 1

def distinctB : List Nat → Bool
  | [] => true
  | x :: xs => !(xs.any (Nat.beq x)) && distinctB xs

theorem distinctB_nodup : ∀ l : List Nat, distinctB l = true → l.Nodup
  | [], _ => List.nodup_nil
  | x :: xs, h => by
    simp only [distinctB, Bool.and_eq_true, Bool.not_eq_true', List.any_eq_false] at h
    refine List.nodup_cons.mpr ⟨fun hx => h.1 x hx (Nat.beq_refl x), distinctB_nodup xs h.2⟩

theorem nameCodes_distinct : distinctB (colorTable.map fun row => nameCode row.name) = true := by decide +kernel

theorem names_nodup : (colorTable.map (·.name)).Nodup := by
  have h := distinctB_nodup _ nameCodes_distinct
  have h' : ((colorTable.map (·.name)).map nameCode).Nodup := by rw [List.map_map]; exact h
  exact List.Pairwise.of_map nameCode (fun a b hab hEq => hab (by rw [hEq])) h'
