import Model.Color
import Model.Encode
import Model.Escape
import Proofs.Emit
/-!
Kernel-decided facts about the generated font table and colour table (slow to check, hence in a file of their own):
the font table text read back into nodes is plain / frame nodes / `\u`-free; every colour code is, byte for byte,
`\redR\greenG\blueB;` with canonical decimal numbers and 7-bit characters.
-/
namespace Proofs.EncodeTables
open Model.Rtf Model.Emit Model.Encode Generated Proofs.Emit

def goodB (ns : List Node) : Bool := plainNodes ns && ns.all frameNode && noUNodes ns

/-! ### font table -/

set_option maxRecDepth 100000 in
theorem fontTbl_good : (match Model.Color.fontTableText fontTable with
    | .ok s => goodB (textNodes s.toList)
    | .error _ => false) = true := by decide +kernel

def digs (n : Nat) : List Nat := (Model.Escape.natDigits n).map (· + 48)

/-- the bytes of `\redR\greenG\blueB;` -/
def expected (row : ColorRow) : List Nat :=
  [92, 114, 101, 100] ++ digs row.r ++ [92, 103, 114, 101, 101, 110] ++ digs row.g ++ [92, 98, 108, 117, 101] ++
    digs row.b ++ [59]

set_option maxRecDepth 100000 in
theorem codes_bytes : colorTable.all (fun row =>
    (row.code.toUTF8.data.toList.map (·.toNat) == expected row && (expected row).all (· < 128))) = true := by
  decide +kernel

end Proofs.EncodeTables
