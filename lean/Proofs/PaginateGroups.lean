import Model.Paginate
import Proofs.Paginate
/-! Helper lemmas for `Props.C04.C04_d_no_mixing`: rows on one page share their group keys. -/
namespace Proofs.PaginateGroups
open Model.Paginate Proofs.Paginate

/-- the metadata of one row, given its two change flags (the body of the `map` in `mkMeta`) -/
def mkRow {κ} (hasPageBy hasSubline : Bool) (r : RowIn κ) (p s : Bool) : RowMeta :=
  { total := r.dataRows + (if hasPageBy && p then r.pagebyRows else 0)
              + (if hasSubline && s then r.sublineRows else 0),
    grp := hasPageBy && p, sub := hasSubline && s }

/-- structurally recursive form of `mkMeta` after the first row: `pp`, `ps` are the keys of the
previous row -/
def metaFrom {κ} [DecidableEq κ] (hasPageBy hasSubline : Bool) : κ → κ → List (RowIn κ) → List RowMeta
  | _, _, [] => []
  | pp, ps, r :: rs =>
    mkRow hasPageBy hasSubline r (decide (r.pkey ≠ pp)) (decide (r.skey ≠ ps))
      :: metaFrom hasPageBy hasSubline r.pkey r.skey rs

theorem zip_changesFrom_eq {κ} [DecidableEq κ] (hasPageBy hasSubline : Bool) (rows : List (RowIn κ))
    (pp ps : κ) :
    ((rows.zip ((changesFrom pp (rows.map (·.pkey))).zip (changesFrom ps (rows.map (·.skey))))).map
      fun (r, p, s) => mkRow hasPageBy hasSubline r p s) = metaFrom hasPageBy hasSubline pp ps rows := by
  induction rows generalizing pp ps with
  | nil => simp [changesFrom, metaFrom]
  | cons r rs ih =>
    simp only [List.map_cons, changesFrom, List.zip_cons_cons, metaFrom, List.cons.injEq, true_and]
    exact ih _ _

theorem mkMeta_cons {κ} [DecidableEq κ] (hasPageBy hasSubline : Bool) (r : RowIn κ) (rs : List (RowIn κ)) :
    mkMeta hasPageBy hasSubline (r :: rs) =
      mkRow hasPageBy hasSubline r true true :: metaFrom hasPageBy hasSubline r.pkey r.skey rs := by
  have h := zip_changesFrom_eq hasPageBy hasSubline rs r.pkey r.skey
  simp only [mkMeta, List.map_cons, changes, List.zip_cons_cons, List.cons.injEq]
  exact ⟨rfl, h⟩

theorem mkRow_total_pos {κ} (hasPageBy hasSubline : Bool) (r : RowIn κ) (p s : Bool)
    (h : 1 ≤ r.dataRows) : 1 ≤ (mkRow hasPageBy hasSubline r p s).total := by
  simp only [mkRow]; omega

/-- a row after the first that is not preceded by a break continues the groups of the previous row -/
theorem keys_of_no_break {κ} [DecidableEq κ] (avail : Nat) (hasPageBy hasSubline np : Bool)
    (r : RowIn κ) (pp ps : κ) (cur : Nat) (hcur : 0 < cur)
    (h : breaksBefore avail np cur true
          (mkRow hasPageBy hasSubline r (decide (r.pkey ≠ pp)) (decide (r.skey ≠ ps))) = false) :
    (hasSubline = true → ps = r.skey) ∧ (hasPageBy = true → np = true → pp = r.pkey) := by
  simp only [breaksBefore, forceBreak, mkRow, Bool.and_true, Bool.and_eq_false_iff,
    Bool.or_eq_false_iff, decide_eq_false_iff_not] at h
  rcases h with h | h
  · obtain ⟨⟨hs, hp⟩, _⟩ := h
    constructor
    · intro hS
      rcases hs with hs | hs
      · simp [hS] at hs
      · simpa [eq_comm] using hs
    · intro hP hN
      subst hP hN
      simpa [eq_comm] using hp
  · omega

/-- every row placed on the page that is current (and non-empty) has the keys of the previous row -/
theorem same_page_keys {κ} [DecidableEq κ] (avail : Nat) (hasPageBy hasSubline np : Bool)
    (rows : List (RowIn κ)) (hpos : ∀ r ∈ rows, 1 ≤ r.dataRows) :
    ∀ (pp ps : κ) (page cur : Nat), 0 < cur → ∀ (j : Nat) (rj : RowIn κ), rows[j]? = some rj →
      (assignAux avail np page cur true (metaFrom hasPageBy hasSubline pp ps rows))[j]? = some page →
      (hasSubline = true → ps = rj.skey) ∧ (hasPageBy = true → np = true → pp = rj.pkey) := by
  induction rows with
  | nil => intro pp ps page cur _ j rj hj; simp at hj
  | cons r rs ih =>
    intro pp ps page cur hcur j rj hj hp
    simp only [metaFrom, assignAux] at hp
    generalize hb : breaksBefore avail np cur true
      (mkRow hasPageBy hasSubline r (decide (r.pkey ≠ pp)) (decide (r.skey ≠ ps))) = b at hp
    have hnb : b = false := by
      cases b with
      | false => rfl
      | true =>
        exfalso
        cases j with
        | zero => simp at hp
        | succ j' =>
          simp only [if_true, List.getElem?_cons_succ] at hp
          have := assignAux_ge _ _ _ _ _ _ page (List.mem_of_getElem? hp)
          omega
    subst hnb
    have hk := keys_of_no_break avail hasPageBy hasSubline np r pp ps cur hcur hb
    cases j with
    | zero =>
      simp only [List.getElem?_cons_zero, Option.some.injEq] at hj
      subst hj
      exact hk
    | succ j' =>
      simp only [List.getElem?_cons_succ] at hj
      simp only [Bool.false_eq_true, if_false, List.getElem?_cons_succ] at hp
      have := ih (fun x hx => hpos x (List.mem_cons_of_mem _ hx)) r.pkey r.skey page
        (cur + (mkRow hasPageBy hasSubline r (decide (r.pkey ≠ pp)) (decide (r.skey ≠ ps))).total)
        (by omega) j' rj hj hp
      constructor
      · intro hS; rw [hk.1 hS]; exact this.1 hS
      · intro hP hN; rw [hk.2 hP hN]; exact this.2 hP hN

/-- head row `r` (with any metadata `m` at least one line high) and a later row on the same page -/
theorem head_keys {κ} [DecidableEq κ] (avail : Nat) (hasPageBy hasSubline np : Bool)
    (m : RowMeta) (hm : 1 ≤ m.total) (r : RowIn κ) (rs : List (RowIn κ))
    (hpos : ∀ x ∈ rs, 1 ≤ x.dataRows) (page cur : Nat) (nf : Bool) (j : Nat) (rj : RowIn κ) (p : Nat)
    (hj : rs[j]? = some rj)
    (h0 : (assignAux avail np page cur nf (m :: metaFrom hasPageBy hasSubline r.pkey r.skey rs))[0]? = some p)
    (h1 : (assignAux avail np page cur nf (m :: metaFrom hasPageBy hasSubline r.pkey r.skey rs))[j + 1]?
            = some p) :
    (hasSubline = true → r.skey = rj.skey) ∧ (hasPageBy = true → np = true → r.pkey = rj.pkey) := by
  simp only [assignAux, List.getElem?_cons_zero, Option.some.injEq] at h0
  simp only [assignAux, List.getElem?_cons_succ] at h1
  rw [h0] at h1
  exact same_page_keys avail hasPageBy hasSubline np rs hpos r.pkey r.skey p _ (by omega) j rj hj h1

/-- any two rows of a `metaFrom` tail on the same page -/
theorem tail_keys {κ} [DecidableEq κ] (avail : Nat) (hasPageBy hasSubline np : Bool)
    (rows : List (RowIn κ)) (hpos : ∀ r ∈ rows, 1 ≤ r.dataRows) :
    ∀ (pp ps : κ) (page cur : Nat) (nf : Bool) (i j : Nat), i < j → ∀ (ri rj : RowIn κ) (p : Nat),
      rows[i]? = some ri → rows[j]? = some rj →
      (assignAux avail np page cur nf (metaFrom hasPageBy hasSubline pp ps rows))[i]? = some p →
      (assignAux avail np page cur nf (metaFrom hasPageBy hasSubline pp ps rows))[j]? = some p →
      (hasSubline = true → ri.skey = rj.skey) ∧ (hasPageBy = true → np = true → ri.pkey = rj.pkey) := by
  induction rows with
  | nil => intro pp ps page cur nf i j _ ri rj p hi; simp at hi
  | cons r rs ih =>
    intro pp ps page cur nf i j hij ri rj p hi hj hpi hpj
    have hpos' : ∀ x ∈ rs, 1 ≤ x.dataRows := fun x hx => hpos x (List.mem_cons_of_mem _ hx)
    obtain ⟨j', rfl⟩ : ∃ j', j = j' + 1 := ⟨j - 1, by omega⟩
    simp only [List.getElem?_cons_succ] at hj
    cases i with
    | zero =>
      simp only [List.getElem?_cons_zero, Option.some.injEq] at hi
      subst hi
      simp only [metaFrom] at hpi hpj
      exact head_keys avail hasPageBy hasSubline np _
        (mkRow_total_pos _ _ _ _ _ (hpos r (by simp))) r rs hpos' page cur nf j' rj p hj hpi hpj
    | succ i' =>
      simp only [List.getElem?_cons_succ] at hi
      simp only [metaFrom, assignAux, List.getElem?_cons_succ] at hpi hpj
      exact ih hpos' _ _ _ _ _ i' j' (by omega) ri rj p hi hj hpi hpj

/-- the statement of C04 (d) for an arbitrary start state -/
theorem no_mixing_aux {κ} [DecidableEq κ] (avail : Nat) (hasPageBy hasSubline np : Bool)
    (rows : List (RowIn κ)) (hpos : ∀ r ∈ rows, 1 ≤ r.dataRows) (page cur : Nat) (nf : Bool)
    (i j : Nat) (hij : i < j) (ri rj : RowIn κ) (p : Nat)
    (hri : rows[i]? = some ri) (hrj : rows[j]? = some rj)
    (hpi : (assignAux avail np page cur nf (mkMeta hasPageBy hasSubline rows))[i]? = some p)
    (hpj : (assignAux avail np page cur nf (mkMeta hasPageBy hasSubline rows))[j]? = some p) :
    (hasSubline = true → ri.skey = rj.skey) ∧ (hasPageBy = true → np = true → ri.pkey = rj.pkey) := by
  cases rows with
  | nil => simp at hri
  | cons r rs =>
    have hpos' : ∀ x ∈ rs, 1 ≤ x.dataRows := fun x hx => hpos x (List.mem_cons_of_mem _ hx)
    rw [mkMeta_cons] at hpi hpj
    obtain ⟨j', rfl⟩ : ∃ j', j = j' + 1 := ⟨j - 1, by omega⟩
    simp only [List.getElem?_cons_succ] at hrj
    cases i with
    | zero =>
      simp only [List.getElem?_cons_zero, Option.some.injEq] at hri
      subst hri
      exact head_keys avail hasPageBy hasSubline np _
        (mkRow_total_pos _ _ _ _ _ (hpos r (by simp))) r rs hpos' page cur nf j' rj p hrj hpi hpj
    | succ i' =>
      simp only [List.getElem?_cons_succ] at hri
      simp only [assignAux, List.getElem?_cons_succ] at hpi hpj
      exact tail_keys avail hasPageBy hasSubline np rs hpos' _ _ _ _ _ i' j' (by omega) ri rj p
        hri hrj hpi hpj

end Proofs.PaginateGroups
