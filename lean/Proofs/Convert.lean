import Model.Convert
import Model.ConvertSpec
/-!
# Lemmas for C11

Part A: the sequential `str.replace` passes over a *compatible* ordered rule list equal the one-pass
simultaneous scanner `sim` (generic in the rule list; the side condition `allCompat` is decided on the
generated table).
Part B: the LaTeX pass over the one-pass literal scan equals the rendering of the one-pass specification
on `regular` texts.
-/
namespace Proofs.Convert
open Model.Convert

/-! ## basic facts about the scanners -/

theorem replaceGo_skip (p r : Str) : ∀ (t : Str) (k : Nat), replaceGo p r k t = replaceGo p r 0 (t.drop k) := by
  intro t
  induction t with
  | nil => intro k; cases k <;> simp [replaceGo]
  | cons c t ih =>
    intro k
    cases k with
    | zero => simp
    | succ k => simp [replaceGo, ih k]

theorem simGo_skip (rules : List (Str × Str)) : ∀ (t : Str) (k : Nat), simGo rules k t = simGo rules 0 (t.drop k) := by
  intro t
  induction t with
  | nil => intro k; cases k <;> simp [simGo]
  | cons c t ih =>
    intro k
    cases k with
    | zero => simp
    | succ k => simp [simGo, ih k]

theorem latexGo_skip (tbl : List (Str × Nat)) : ∀ (t : Str) (k : Nat), latexGo tbl k t = latexGo tbl 0 (t.drop k) := by
  intro t
  induction t with
  | nil => intro k; cases k <;> simp [latexGo]
  | cons c t ih =>
    intro k
    cases k with
    | zero => simp
    | succ k => simp [latexGo, ih k]

theorem specGo_skip (tbl : List (Str × Nat)) : ∀ (t : Str) (k : Nat), specGo tbl k t = specGo tbl 0 (t.drop k) := by
  intro t
  induction t with
  | nil => intro k; cases k <;> simp [specGo]
  | cons c t ih =>
    intro k
    cases k with
    | zero => simp
    | succ k => simp [specGo, ih k]

theorem regularGo_skip : ∀ (t : Str) (k : Nat), regularGo k t = regularGo 0 (t.drop k) := by
  intro t
  induction t with
  | nil => intro k; cases k <;> simp [regularGo]
  | cons c t ih =>
    intro k
    cases k with
    | zero => simp
    | succ k => simp [regularGo, ih k]

theorem isPrefixOf_iff {a b : Str} : a.isPrefixOf b = true ↔ a <+: b := List.isPrefixOf_iff_prefix

theorem isPrefixOf_append (a b : Str) : a.isPrefixOf (a ++ b) = true :=
  isPrefixOf_iff.mpr (List.prefix_append a b)

/-- a prefix match splits the text -/
theorem split_of_isPrefixOf {a s : Str} (h : a.isPrefixOf s = true) : ∃ rest, s = a ++ rest := by
  obtain ⟨rest, hr⟩ := isPrefixOf_iff.mp h
  exact ⟨rest, hr.symm⟩

/-- drop of (length − 1) after the head of a matched non-empty pattern -/
theorem drop_pred_tail {p : Str} (hp : p ≠ []) (rest : Str) :
    ∃ c t, p ++ rest = c :: t ∧ t.drop (p.length - 1) = rest := by
  cases p with
  | nil => exact absurd rfl hp
  | cons c p' => exact ⟨c, p' ++ rest, rfl, by simp⟩

/-! ### replace -/

def rep (p r : Str) (t : Str) : Str := replaceGo p r 0 t

theorem rep_nil (p r : Str) : rep p r [] = [] := by simp [rep, replaceGo]

theorem rep_match (p r : Str) (hp : p ≠ []) (rest : Str) : rep p r (p ++ rest) = r ++ rep p r rest := by
  obtain ⟨c, t, hct, hdrop⟩ := drop_pred_tail hp rest
  have hpre : p.isPrefixOf (c :: t) = true := by rw [← hct]; exact isPrefixOf_append p rest
  unfold rep
  rw [hct]
  simp only [replaceGo, hpre, if_true]
  rw [replaceGo_skip, hdrop]

theorem rep_copy (p r : Str) (c : Char) (t : Str) (h : p.isPrefixOf (c :: t) = false) :
    rep p r (c :: t) = c :: rep p r t := by
  simp [rep, replaceGo, h]

theorem replaceAll_eq_rep (p r : Str) (hp : p ≠ []) (t : Str) : replaceAll p r t = rep p r t := by
  simp [replaceAll, hp, rep]

/-! ### sim -/

theorem sim_nil (rules : List (Str × Str)) : sim rules [] = [] := by simp [sim, simGo]

theorem sim_match (rules : List (Str × Str)) (p r : Str) (hp : p ≠ []) (rest : Str)
    (h : findRule rules (p ++ rest) = some (p, r)) : sim rules (p ++ rest) = r ++ sim rules rest := by
  obtain ⟨c, t, hct, hdrop⟩ := drop_pred_tail hp rest
  unfold sim
  rw [hct] at h ⊢
  simp only [simGo, h]
  rw [simGo_skip, hdrop]

theorem sim_copy (rules : List (Str × Str)) (c : Char) (t : Str) (h : findRule rules (c :: t) = none) :
    sim rules (c :: t) = c :: sim rules t := by
  simp [sim, simGo, h]

theorem sim_empty_rules (t : Str) : sim [] t = t := by
  induction t with
  | nil => exact sim_nil _
  | cons c t ih => rw [sim_copy _ _ _ (by simp [findRule]), ih]

/-- shape of a successful `findRule` -/
theorem findRule_some {rules : List (Str × Str)} {s : Str} {p r : Str} (h : findRule rules s = some (p, r)) :
    (p, r) ∈ rules ∧ ∃ rest, s = p ++ rest := by
  refine ⟨List.mem_of_find?_eq_some h, ?_⟩
  have := List.find?_some h
  exact split_of_isPrefixOf this

theorem findRule_none {rules : List (Str × Str)} {s : Str} (h : findRule rules s = none) :
    ∀ pr ∈ rules, pr.1.isPrefixOf s = false := by
  intro pr hpr
  exact Bool.eq_false_iff.mpr (List.find?_eq_none.mp h pr hpr)

/-! ### incomparability -/

theorem incomp_not_both {a b s : Str} (h : incomp a b = true) (ha : a <+: s) (hb : b <+: s) : False := by
  simp only [incomp, Bool.and_eq_true, Bool.not_eq_true'] at h
  rcases List.prefix_or_prefix_of_prefix ha hb with h1 | h1
  · have := isPrefixOf_iff.mpr h1; rw [h.1] at this; cases this
  · have := isPrefixOf_iff.mpr h1; rw [h.2] at this; cases this

/-! ## Part A: sequential = simultaneous -/

/-- (C1) an output all of whose suffixes are incomparable with `p` is copied by `rep p` -/
theorem rep_inert (p r : Str) : ∀ (s : Str), allSuffixes (fun s => incomp p s) s = true →
    ∀ y, rep p r (s ++ y) = s ++ rep p r y := by
  intro s
  induction s with
  | nil => intro _ y; rfl
  | cons d s ih =>
    intro h y
    simp only [allSuffixes, Bool.and_eq_true] at h
    have hn : p.isPrefixOf (d :: (s ++ y)) = false := by
      cases hq : p.isPrefixOf (d :: (s ++ y)) with
      | false => rfl
      | true =>
        exfalso
        exact incomp_not_both h.1 (isPrefixOf_iff.mp hq) (List.prefix_append (d :: s) y)
    show rep p r (d :: (s ++ y)) = d :: (s ++ rep p r y)
    rw [rep_copy _ _ _ _ hn, ih h.2 y]

/-- (C2) a text all of whose suffixes are incomparable with every pattern of `rules` is copied by `sim rules` -/
theorem sim_transparent (rules : List (Str × Str)) : ∀ (s : Str),
    allSuffixes (fun s => rules.all (fun pr => incomp pr.1 s)) s = true →
    ∀ y, sim rules (s ++ y) = s ++ sim rules y := by
  intro s
  induction s with
  | nil => intro _ y; rfl
  | cons d s ih =>
    intro h y
    simp only [allSuffixes, Bool.and_eq_true] at h
    have hn : findRule rules (d :: (s ++ y)) = none := by
      apply List.find?_eq_none.mpr
      intro pr hpr hq
      have hinc := List.all_eq_true.mp h.1 pr hpr
      exact incomp_not_both hinc (isPrefixOf_iff.mp hq) (List.prefix_append (d :: s) y)
    show sim rules (d :: (s ++ y)) = d :: (s ++ sim rules y)
    rw [sim_copy _ _ _ hn, ih h.2 y]

/-- (C3) a text none of whose suffixes is comparable with an output of `rules`: if it is a prefix of the
scanned text it was a prefix of the original text -/
theorem sim_reflect (rules : List (Str × Str)) (hne : rules.all (fun pr => !pr.1.isEmpty) = true) : ∀ (v : Str),
    allSuffixes (fun s => rules.all (fun pr => incomp s pr.2)) v = true →
    ∀ y, v <+: sim rules y → v <+: y := by
  intro v
  induction v with
  | nil => intro _ y _; exact List.nil_prefix
  | cons d v ih =>
    intro h y hy
    simp only [allSuffixes, Bool.and_eq_true] at h
    cases y with
    | nil => rw [sim_nil] at hy; simp at hy
    | cons e y' =>
      cases hf : findRule rules (e :: y') with
      | some pr =>
        obtain ⟨p, r⟩ := pr
        exfalso
        obtain ⟨hmem, rest, hrest⟩ := findRule_some hf
        have hpne : p ≠ [] := by
          have := List.all_eq_true.mp hne (p, r) hmem
          intro hp; simp [hp] at this
        rw [hrest] at hf hy
        rw [sim_match rules p r hpne rest hf] at hy
        have hinc := List.all_eq_true.mp h.1 (p, r) hmem
        exact incomp_not_both hinc hy (List.prefix_append r _)
      | none =>
        rw [sim_copy _ _ _ hf] at hy
        obtain ⟨hde, hv⟩ := List.cons_prefix_cons.mp hy
        subst hde
        exact List.cons_prefix_cons.mpr ⟨rfl, ih h.2 y' hv⟩

theorem compat_parts {rules : List (Str × Str)} {p : Str} (h : compat rules p = true) :
    p ≠ [] ∧ rules.all (fun pr => !pr.1.isEmpty) = true
    ∧ rules.all (fun pr => allSuffixes (fun s => incomp p s) pr.2) = true
    ∧ allSuffixes (fun s => rules.all (fun pr => incomp pr.1 s)) p = true
    ∧ allSuffixes (fun s => rules.all (fun pr => incomp s pr.2)) p.tail = true := by
  simp only [compat, Bool.and_eq_true] at h
  obtain ⟨⟨⟨⟨h0, h0'⟩, h1⟩, h2⟩, h3⟩ := h
  refine ⟨?_, h0', h1, h2, h3⟩
  intro hp; simp [hp] at h0

/-- one more sequential pass = one more rule in the simultaneous scanner -/
theorem rep_sim (rules : List (Str × Str)) (p r : Str) (hc : compat rules p = true) :
    ∀ (n : Nat) (t : Str), t.length ≤ n → rep p r (sim rules t) = sim (rules ++ [(p, r)]) t := by
  obtain ⟨hp, hne, h1, h2, h3⟩ := compat_parts hc
  intro n
  induction n with
  | zero =>
    intro t ht
    have : t = [] := List.eq_nil_of_length_eq_zero (Nat.le_zero.mp ht)
    subst this
    rw [sim_nil, sim_nil, rep_nil]
  | succ n ih =>
    intro t ht
    cases t with
    | nil => rw [sim_nil, sim_nil, rep_nil]
    | cons c t' =>
      cases hf : findRule rules (c :: t') with
      | some pr =>
        obtain ⟨pj, rj⟩ := pr
        obtain ⟨hmem, rest, hrest⟩ := findRule_some hf
        have hpj : pj ≠ [] := by
          have := List.all_eq_true.mp hne (pj, rj) hmem
          intro hq; simp [hq] at this
        have hlen : rest.length ≤ n := by
          have : (c :: t').length = pj.length + rest.length := by rw [hrest]; simp
          have hpos : 0 < pj.length := List.length_pos_iff.mpr hpj
          simp at ht this; omega
        have hf' : findRule (rules ++ [(p, r)]) (pj ++ rest) = some (pj, rj) := by
          rw [← hrest]; simp only [findRule] at hf ⊢; rw [List.find?_append, hf]; rfl
        rw [hrest] at hf ⊢
        rw [sim_match rules pj rj hpj rest hf, sim_match _ pj rj hpj rest hf']
        rw [rep_inert p r rj (List.all_eq_true.mp h1 (pj, rj) hmem), ih rest hlen]
      | none =>
        have hlen : t'.length ≤ n := by simp at ht; omega
        cases hq : p.isPrefixOf (c :: t') with
        | true =>
          obtain ⟨rest, hrest⟩ := split_of_isPrefixOf hq
          have hlen' : rest.length ≤ n := by
            have : (c :: t').length = p.length + rest.length := by rw [hrest]; simp
            have hpos : 0 < p.length := List.length_pos_iff.mpr hp
            simp at ht this; omega
          have hf' : findRule (rules ++ [(p, r)]) (p ++ rest) = some (p, r) := by
            rw [← hrest]; simp only [findRule] at hf ⊢; rw [List.find?_append, hf]; simp [hq]
          rw [hrest]
          rw [sim_transparent rules p h2 rest, sim_match _ p r hp rest hf', rep_match p r hp, ih rest hlen']
        | false =>
          have hf' : findRule (rules ++ [(p, r)]) (c :: t') = none := by
            simp only [findRule] at hf ⊢; rw [List.find?_append, hf]; simp [hq]
          rw [sim_copy _ _ _ hf, sim_copy _ _ _ hf']
          have hn : p.isPrefixOf (c :: sim rules t') = false := by
            cases hq' : p.isPrefixOf (c :: sim rules t') with
            | false => rfl
            | true =>
              exfalso
              cases p with
              | nil => exact hp rfl
              | cons c0 v =>
                obtain ⟨hcc, hv⟩ := List.cons_prefix_cons.mp (isPrefixOf_iff.mp hq')
                have := sim_reflect rules hne v h3 t' hv
                have hpre : (c0 :: v) <+: (c :: t') := List.cons_prefix_cons.mpr ⟨hcc, this⟩
                rw [isPrefixOf_iff.mpr hpre] at hq; cases hq
          rw [rep_copy _ _ _ _ hn, ih t' hlen]

theorem allCompat_patterns_ne {done todo : List (Str × Str)} (h : allCompat done todo = true) :
    ∀ pr ∈ todo, pr.1 ≠ [] := by
  induction todo generalizing done with
  | nil => intro pr hpr; cases hpr
  | cons x todo ih =>
    simp only [allCompat, Bool.and_eq_true] at h
    intro pr hpr
    cases hpr with
    | head => exact (compat_parts h.1).1
    | tail _ hm => exact ih h.2 pr hm

/-- the ordered `str.replace` passes over a compatible rule list = the one-pass simultaneous scanner -/
theorem passes_eq_sim_aux : ∀ (todo done : List (Str × Str)), allCompat done todo = true →
    ∀ t, literalPasses todo (sim done t) = sim (done ++ todo) t := by
  intro todo
  induction todo with
  | nil => intro done _ t; simp [literalPasses]
  | cons x todo ih =>
    intro done h t
    simp only [allCompat, Bool.and_eq_true] at h
    obtain ⟨p, r⟩ := x
    have hp := (compat_parts h.1).1
    have step : replaceAll p r (sim done t) = sim (done ++ [(p, r)]) t := by
      rw [replaceAll_eq_rep p r hp]; exact rep_sim done p r h.1 t.length t (Nat.le_refl _)
    have := ih (done ++ [(p, r)]) h.2 t
    simp only [literalPasses, List.foldl_cons] at this ⊢
    rw [step, this]
    simp

theorem passes_eq_sim (rules : List (Str × Str)) (h : allCompat [] rules = true) (t : Str) :
    literalPasses rules t = sim rules t := by
  have := passes_eq_sim_aux rules [] h t
  rw [sim_empty_rules] at this
  simpa using this

/-! ## Part B: the LaTeX pass over the one-pass literal scan = rendering of the specification -/

def lat (tbl : List (Str × Nat)) (t : Str) : Str := latexGo tbl 0 t

theorem lat_nil (tbl : List (Str × Nat)) : lat tbl [] = [] := by simp [lat, latexGo]

theorem lat_copy (tbl : List (Str × Nat)) (c : Char) (y : Str) (h : c ≠ '\\') : lat tbl (c :: y) = c :: lat tbl y := by
  simp [lat, latexGo, h]

theorem lat_bs_plain (tbl : List (Str × Nat)) (y : Str) (h : matchCmd y = none) :
    lat tbl ('\\' :: y) = '\\' :: lat tbl y := by
  simp [lat, latexGo, h]

theorem lat_cmd (tbl : List (Str × Nat)) (y cmd : Str) (h : matchCmd y = some cmd) :
    lat tbl ('\\' :: y) = look tbl ('\\' :: cmd) ++ lat tbl (y.drop cmd.length) := by
  simp only [lat, latexGo, h, if_true]
  rw [latexGo_skip]

/-! ### letters, heads, brace groups -/

/-- the text does not begin with a letter -/
def hnl : Str → Bool
  | [] => true
  | d :: _ => !isLetter d

abbrev allL (name : Str) : Prop := ∀ c ∈ name, isLetter c = true

theorem takeWhile_hnl {y : Str} (h : hnl y = true) : y.takeWhile isLetter = [] := by
  cases y with
  | nil => rfl
  | cons d y => simp [hnl] at h; simp [h]

theorem dropWhile_hnl {y : Str} (h : hnl y = true) : y.dropWhile isLetter = y := by
  cases y with
  | nil => rfl
  | cons d y => simp [hnl] at h; simp [h]

theorem hnl_dropWhile (y : Str) : hnl (y.dropWhile isLetter) = true := by
  induction y with
  | nil => rfl
  | cons d y ih =>
    rw [List.dropWhile_cons]
    cases hd : isLetter d with
    | true => simpa using ih
    | false => simp [hnl, hd]

theorem allL_takeWhile (y : Str) : allL (y.takeWhile isLetter) := by
  induction y with
  | nil => intro c hc; cases hc
  | cons d y ih =>
    intro c hc
    rw [List.takeWhile_cons] at hc
    cases hd : isLetter d with
    | false => simp [hd] at hc
    | true =>
      simp only [hd, if_true] at hc
      cases hc with
      | head => exact hd
      | tail _ hm => exact ih c hm

theorem takeWhile_app {name Y : Str} (hn : allL name) (hY : hnl Y = true) :
    (name ++ Y).takeWhile isLetter = name := by
  rw [List.takeWhile_append_of_pos hn, takeWhile_hnl hY, List.append_nil]

theorem dropWhile_app {name Y : Str} (hn : allL name) (hY : hnl Y = true) :
    (name ++ Y).dropWhile isLetter = Y := by
  rw [List.dropWhile_append_of_pos hn, dropWhile_hnl hY]

theorem matchCmd_none_of_hnl {y : Str} (h : hnl y = true) : matchCmd y = none := by
  simp [matchCmd, takeWhile_hnl h]

theorem hnl_of_matchCmd_none {y : Str} (h : matchCmd y = none) : hnl y = true := by
  cases y with
  | nil => rfl
  | cons d y =>
    cases hd : isLetter d with
    | false => simp [hnl, hd]
    | true =>
      exfalso
      have hne : (d :: y).takeWhile isLetter ≠ [] := by simp [hd]
      simp only [matchCmd, hne, if_false] at h
      split at h <;> cases h

theorem matchCmd_app {name Y : Str} (hne : name ≠ []) (hn : allL name) (hY : hnl Y = true) :
    matchCmd (name ++ Y) =
      match braceGroup Y with
      | some (g, _) => some (name ++ '{' :: (g ++ ['}']))
      | none => some name := by
  simp only [matchCmd, takeWhile_app hn hY, dropWhile_app hn hY, hne, if_false]
  rfl

theorem splitClose_some {u g z : Str} (h : splitClose u = some (g, z)) : u = g ++ '}' :: z ∧ '}' ∉ g := by
  induction u generalizing g with
  | nil => simp [splitClose] at h
  | cons c u ih =>
    simp only [splitClose] at h
    by_cases hc : c = '}'
    · simp only [hc, if_true, Option.some.injEq, Prod.mk.injEq] at h
      obtain ⟨rfl, rfl⟩ := h
      simp [hc]
    · simp only [hc, if_false] at h
      cases hs : splitClose u with
      | none => simp [hs] at h
      | some gz =>
        obtain ⟨g', z'⟩ := gz
        simp only [hs, Option.some.injEq, Prod.mk.injEq] at h
        obtain ⟨rfl, rfl⟩ := h
        obtain ⟨h1, h2⟩ := ih hs
        refine ⟨by rw [h1]; simp, ?_⟩
        intro hm
        cases hm with
        | head => exact hc rfl
        | tail _ hm' => exact h2 hm'

theorem splitClose_append {g : Str} (hg : '}' ∉ g) (z : Str) : splitClose (g ++ '}' :: z) = some (g, z) := by
  induction g with
  | nil => simp [splitClose]
  | cons c g ih =>
    have hc : c ≠ '}' := fun h => hg (h ▸ List.mem_cons_self)
    have hg' : '}' ∉ g := fun h => hg (List.mem_cons_of_mem _ h)
    simp [splitClose, hc, ih hg']

theorem splitClose_none_iff (u : Str) : splitClose u = none ↔ '}' ∉ u := by
  induction u with
  | nil => simp [splitClose]
  | cons c u ih =>
    by_cases hc : c = '}'
    · simp [splitClose, hc]
    · simp only [splitClose, hc, if_false]
      cases hs : splitClose u with
      | none =>
        have := ih.mp hs
        simp [this, Ne.symm hc]
      | some gz =>
        have : ¬ ('}' ∉ u) := fun h => by rw [ih.mpr h] at hs; cases hs
        simp only [reduceCtorEq, false_iff]
        intro hm
        exact this (fun h => hm (List.mem_cons_of_mem _ h))

theorem braceGroup_some {Y g z : Str} (h : braceGroup Y = some (g, z)) : Y = '{' :: (g ++ '}' :: z) ∧ '}' ∉ g := by
  cases Y with
  | nil => simp [braceGroup] at h
  | cons c Y =>
    simp only [braceGroup] at h
    by_cases hc : c = '{'
    · simp only [hc, if_true] at h
      obtain ⟨h1, h2⟩ := splitClose_some h
      exact ⟨by rw [hc, h1], h2⟩
    · simp [hc] at h

theorem braceGroup_open {g : Str} (hg : '}' ∉ g) (z : Str) : braceGroup ('{' :: (g ++ '}' :: z)) = some (g, z) := by
  simp [braceGroup, splitClose_append hg]

/-! ### the documented tokens -/

theorem docTokens_mem {pat : Str} {e : Event} (h : (pat, e) ∈ docTokens) :
    (pat = ['^'] ∧ e = .sup) ∨ (pat = ['_'] ∧ e = .sub) ∨ (pat = ['>', '='] ∧ e = .ge) ∨ (pat = ['<', '='] ∧ e = .le)
    ∨ (pat = ['\n'] ∧ e = .br) ∨ (pat = patPageNumber ∧ e = .pageNumber) ∨ (pat = patTotalPage ∧ e = .totalPage)
    ∨ (pat = patPageField ∧ e = .pageField) := by
  simpa [docTokens] using h

theorem findTok_some {s pat : Str} {e : Event} (h : findTok s = some (pat, e)) :
    (pat, e) ∈ docTokens ∧ ∃ rest, s = pat ++ rest := by
  refine ⟨List.mem_of_find?_eq_some h, ?_⟩
  unfold findTok at h
  have := List.find?_some h
  exact split_of_isPrefixOf this

theorem findRule_doc (s : Str) : findRule docRules s = (findTok s).map (fun pe => (pe.1, mid pe.2)) := by
  simp only [findRule, docRules, findTok, List.find?_map]
  rfl

theorem tok_ne_nil {pat : Str} {e : Event} (h : (pat, e) ∈ docTokens) : pat ≠ [] := by
  rcases docTokens_mem h with ⟨rfl, _⟩ | ⟨rfl, _⟩ | ⟨rfl, _⟩ | ⟨rfl, _⟩ | ⟨rfl, _⟩ | ⟨rfl, _⟩ | ⟨rfl, _⟩ | ⟨rfl, _⟩ <;>
    simp [patPageNumber, patTotalPage, patPageField]

theorem tok_head {pat : Str} {e : Event} (h : (pat, e) ∈ docTokens) : hnl pat = true := by
  rcases docTokens_mem h with ⟨rfl, _⟩ | ⟨rfl, _⟩ | ⟨rfl, _⟩ | ⟨rfl, _⟩ | ⟨rfl, _⟩ | ⟨rfl, _⟩ | ⟨rfl, _⟩ | ⟨rfl, _⟩ <;>
    decide

theorem mid_head {pat : Str} {e : Event} (h : (pat, e) ∈ docTokens) (Z : Str) : hnl (mid e ++ Z) = true := by
  rcases docTokens_mem h with ⟨_, rfl⟩ | ⟨_, rfl⟩ | ⟨_, rfl⟩ | ⟨_, rfl⟩ | ⟨_, rfl⟩ | ⟨_, rfl⟩ | ⟨_, rfl⟩ | ⟨_, rfl⟩ <;>
    rfl

theorem mid_not_pagefield {pat : Str} {e : Event} (h : (pat, e) ∈ docTokens) (hpf : e ≠ .pageField) :
    '}' ∉ mid e ∧ ∃ tl, mid e = '\\' :: tl := by
  rcases docTokens_mem h with ⟨_, rfl⟩ | ⟨_, rfl⟩ | ⟨_, rfl⟩ | ⟨_, rfl⟩ | ⟨_, rfl⟩ | ⟨_, rfl⟩ | ⟨_, rfl⟩ | ⟨_, rfl⟩
  all_goals first
    | exact absurd rfl hpf
    | exact ⟨by decide, _, rfl⟩

theorem tok_pagefield {pat : Str} {e : Event} (h : (pat, e) ∈ docTokens) (hpf : e = .pageField) : pat = patPageField := by
  rcases docTokens_mem h with ⟨_, rfl⟩ | ⟨_, rfl⟩ | ⟨_, rfl⟩ | ⟨_, rfl⟩ | ⟨_, rfl⟩ | ⟨_, rfl⟩ | ⟨_, rfl⟩ | ⟨rfl, _⟩
  all_goals first
    | rfl
    | cases hpf

def simD (t : Str) : Str := sim docRules t

theorem simD_nil : simD [] = [] := sim_nil _

theorem simD_tok {pat rest : Str} {e : Event} (h : findTok (pat ++ rest) = some (pat, e)) :
    simD (pat ++ rest) = mid e ++ simD rest := by
  have hmem := (findTok_some h).1
  exact sim_match docRules pat (mid e) (tok_ne_nil hmem) rest (by rw [findRule_doc, h]; rfl)

theorem simD_copy {c : Char} {t : Str} (h : findTok (c :: t) = none) : simD (c :: t) = c :: simD t :=
  sim_copy docRules c t (by rw [findRule_doc, h]; rfl)

theorem findTok_letter {c : Char} (hc : isLetter c = true) (t : Str) : findTok (c :: t) = none := by
  apply List.find?_eq_none.mpr
  intro pe hpe hq
  obtain ⟨pat, e⟩ := pe
  have hh := tok_head hpe
  obtain ⟨rest, hrest⟩ := split_of_isPrefixOf hq
  cases pat with
  | nil => exact tok_ne_nil hpe rfl
  | cons d tl =>
    simp only [List.cons_append, List.cons.injEq] at hrest
    rw [← hrest.1] at hh
    simp [hnl, hc] at hh

theorem simD_letters {name : Str} (hn : allL name) (Y : Str) : simD (name ++ Y) = name ++ simD Y := by
  induction name with
  | nil => rfl
  | cons d name ih =>
    have hd : isLetter d = true := hn d List.mem_cons_self
    have hn' : allL name := fun c hc => hn c (List.mem_cons_of_mem _ hc)
    show simD (d :: (name ++ Y)) = d :: (name ++ simD Y)
    rw [simD_copy (findTok_letter hd _), ih hn']

theorem simD_clean : ∀ (w : Str) (Y : Str), '}' ∉ w → cleanUntilClose (w ++ '}' :: Y) = true →
    simD (w ++ '}' :: Y) = w ++ '}' :: simD Y := by
  intro w
  induction w with
  | nil =>
    intro Y _ h
    simp only [List.nil_append, cleanUntilClose, Bool.and_eq_true, Option.isNone_iff_eq_none] at h
    exact simD_copy h.1
  | cons d w ih =>
    intro Y hw h
    have hd : d ≠ '}' := fun hh => hw (hh ▸ List.mem_cons_self)
    have hw' : '}' ∉ w := fun hh => hw (List.mem_cons_of_mem _ hh)
    simp only [List.cons_append, cleanUntilClose, Bool.and_eq_true, Option.isNone_iff_eq_none, hd, if_false] at h
    show simD (d :: (w ++ '}' :: Y)) = d :: (w ++ '}' :: simD Y)
    rw [simD_copy h.1, ih Y hw' h.2]

theorem hnl_simD {y : Str} (h : hnl y = true) : hnl (simD y) = true := by
  cases y with
  | nil => rfl
  | cons d y =>
    cases hf : findTok (d :: y) with
    | none => rw [simD_copy hf]; exact h
    | some pe =>
      obtain ⟨pat, e⟩ := pe
      obtain ⟨hmem, rest, hrest⟩ := findTok_some hf
      rw [hrest] at hf ⊢
      rw [simD_tok hf]
      exact mid_head hmem _

theorem allSuffixes_drop_one {f : Str → Bool} {c : Char} {t : Str} (h : allSuffixes f (c :: t) = true) :
    allSuffixes f t = true := by
  simp only [allSuffixes, Bool.and_eq_true] at h; exact h.2

/-- no `\pagefield` starts anywhere in the text -/
def noPF (u : Str) : Bool := !anySuffix (fun s => patPageField.isPrefixOf s) u

theorem noPF_cons {c : Char} {t : Str} (h : noPF (c :: t) = true) :
    patPageField.isPrefixOf (c :: t) = false ∧ noPF t = true := by
  simp only [noPF, anySuffix, Bool.not_eq_true', Bool.or_eq_false_iff] at h
  exact ⟨h.1, by simp [noPF, h.2]⟩

theorem noPF_append_right : ∀ (a b : Str), noPF (a ++ b) = true → noPF b = true := by
  intro a
  induction a with
  | nil => intro b h; exact h
  | cons c a ih => intro b h; exact ih b (noPF_cons h).2

/-- scanning a text without `}` and without `\pagefield` produces no `}` -/
theorem no_close_simD : ∀ (n : Nat) (u : Str), u.length ≤ n → '}' ∉ u → noPF u = true → '}' ∉ simD u := by
  intro n
  induction n with
  | zero =>
    intro u hu _ _
    have : u = [] := List.eq_nil_of_length_eq_zero (Nat.le_zero.mp hu)
    subst this; rw [simD_nil]; simp
  | succ n ih =>
    intro u hu hc hpf
    cases u with
    | nil => rw [simD_nil]; simp
    | cons d u' =>
      cases hf : findTok (d :: u') with
      | none =>
        rw [simD_copy hf]
        have hd : d ≠ '}' := fun hh => hc (hh ▸ List.mem_cons_self)
        have hc' : '}' ∉ u' := fun hh => hc (List.mem_cons_of_mem _ hh)
        have := ih u' (by simp at hu; omega) hc' (noPF_cons hpf).2
        intro hm
        cases hm with
        | head => exact hd rfl
        | tail _ hm' => exact this hm'
      | some pe =>
        obtain ⟨pat, e⟩ := pe
        obtain ⟨hmem, rest, hrest⟩ := findTok_some hf
        have hne := tok_ne_nil hmem
        have he : e ≠ .pageField := by
          intro he
          have hp := tok_pagefield hmem he
          have h1 := (noPF_cons hpf).1
          rw [hrest, hp, isPrefixOf_append] at h1
          cases h1
        have hlen : rest.length ≤ n := by
          have : (d :: u').length = pat.length + rest.length := by rw [hrest]; simp
          have hpos : 0 < pat.length := List.length_pos_iff.mpr hne
          simp at hu this; omega
        have hc' : '}' ∉ rest := by
          intro hh; apply hc; rw [hrest]; exact List.mem_append_right _ hh
        have hpf' : noPF rest = true := by rw [hrest] at hpf; exact noPF_append_right _ _ hpf
        rw [hrest] at hf ⊢
        rw [simD_tok hf]
        have := ih rest hlen hc' hpf'
        intro hm
        rcases List.mem_append.mp hm with hm | hm
        · exact (mid_not_pagefield hmem he).1 hm
        · exact this hm

/-- a command without a closed brace group in the original text has none after the literal scan,
unless `\pagefield` is ahead -/
theorem braceGroup_simD_none {y : Str} (hb : braceGroup y = none) (hpa : pagefieldAhead y = false) :
    braceGroup (simD y) = none := by
  cases y with
  | nil => rfl
  | cons d u =>
    simp only [pagefieldAhead, Bool.or_eq_false_iff, Bool.and_eq_false_iff] at hpa
    by_cases hd : d = '{'
    · subst hd
      simp only [braceGroup, if_true] at hb
      have hc : '}' ∉ u := (splitClose_none_iff u).mp hb
      have hpf : noPF u = true := by
        rcases hpa.2 with h | h
        · simp at h
        · simp [noPF, h]
      have hf : findTok ('{' :: u) = none := by
        apply List.find?_eq_none.mpr
        intro pe hpe hq
        obtain ⟨pat, e⟩ := pe
        obtain ⟨rest, hrest⟩ := split_of_isPrefixOf hq
        rcases docTokens_mem hpe with ⟨rfl, _⟩ | ⟨rfl, _⟩ | ⟨rfl, _⟩ | ⟨rfl, _⟩ | ⟨rfl, _⟩ | ⟨rfl, _⟩ | ⟨rfl, _⟩ | ⟨rfl, _⟩ <;>
          simp [patPageNumber, patTotalPage, patPageField] at hrest
      rw [simD_copy hf]
      simp only [braceGroup, if_true]
      exact (splitClose_none_iff _).mpr (no_close_simD u.length u (Nat.le_refl _) hc hpf)
    · cases hf : findTok (d :: u) with
      | none => rw [simD_copy hf]; simp [braceGroup, hd]
      | some pe =>
        obtain ⟨pat, e⟩ := pe
        obtain ⟨hmem, rest, hrest⟩ := findTok_some hf
        have he : e ≠ .pageField := by
          intro he
          have hp := tok_pagefield hmem he
          have h1 := hpa.1
          rw [hrest, hp, isPrefixOf_append] at h1
          cases h1
        rw [hrest] at hf ⊢
        rw [simD_tok hf]
        obtain ⟨tl, htl⟩ := (mid_not_pagefield hmem he).2
        rw [htl]
        simp [braceGroup]

/-! ### unfolding lemmas of the specification and of `regular` -/

theorem spec_nil (tbl : List (Str × Nat)) : specGo tbl 0 [] = [] := by simp [specGo]

theorem spec_tok (tbl : List (Str × Nat)) {pat rest : Str} {e : Event} (h : findTok (pat ++ rest) = some (pat, e)) :
    specGo tbl 0 (pat ++ rest) = e :: specGo tbl 0 rest := by
  obtain ⟨c, t, hct, hdrop⟩ := drop_pred_tail (tok_ne_nil (findTok_some h).1) rest
  rw [hct] at h ⊢
  simp only [specGo, h]
  rw [specGo_skip, hdrop]

theorem spec_bs_plain (tbl : List (Str × Nat)) {y : Str} (hf : findTok ('\\' :: y) = none) (hm : matchCmd y = none) :
    specGo tbl 0 ('\\' :: y) = .plain '\\' :: specGo tbl 0 y := by
  simp [specGo, hf, hm]

theorem spec_cmd (tbl : List (Str × Nat)) {y cmd : Str} (hf : findTok ('\\' :: y) = none) (hm : matchCmd y = some cmd) :
    specGo tbl 0 ('\\' :: y) = cmdEvent tbl ('\\' :: cmd) :: specGo tbl 0 (y.drop cmd.length) := by
  simp only [specGo, hf, hm, if_true]
  rw [specGo_skip]

theorem spec_copy (tbl : List (Str × Nat)) {c : Char} {y : Str} (hf : findTok (c :: y) = none) (hc : c ≠ '\\') :
    specGo tbl 0 (c :: y) = .plain c :: specGo tbl 0 y := by
  simp [specGo, hf, hc]

theorem regular_tok {pat rest : Str} {e : Event} (h : findTok (pat ++ rest) = some (pat, e)) :
    regularGo 0 (pat ++ rest) = regularGo 0 rest := by
  obtain ⟨c, t, hct, hdrop⟩ := drop_pred_tail (tok_ne_nil (findTok_some h).1) rest
  rw [hct] at h ⊢
  simp only [regularGo, h]
  rw [regularGo_skip, hdrop]

theorem regular_bs_plain {y : Str} (hf : findTok ('\\' :: y) = none) (hm : matchCmd y = none) :
    regularGo 0 ('\\' :: y) = regularGo 0 y := by
  simp [regularGo, hf, hm]

theorem regular_cmd {y cmd : Str} (hf : findTok ('\\' :: y) = none) (hm : matchCmd y = some cmd) :
    regularGo 0 ('\\' :: y) =
      ((match braceGroup (y.dropWhile isLetter) with
        | some _ => cleanUntilClose (y.dropWhile isLetter)
        | none => !pagefieldAhead (y.dropWhile isLetter))
       && regularGo 0 (y.drop cmd.length)) := by
  simp only [regularGo, hf, hm, if_true]
  rw [regularGo_skip]
  rfl

theorem regular_copy {c : Char} {y : Str} (hf : findTok (c :: y) = none) (hc : c ≠ '\\') :
    regularGo 0 (c :: y) = regularGo 0 y := by
  simp [regularGo, hf, hc]

/-! ### the LaTeX pass on a command -/

theorem drop_cmd (name g Z : Str) :
    (name ++ '{' :: (g ++ '}' :: Z)).drop (name ++ '{' :: (g ++ ['}'])).length = Z := by
  have : name ++ '{' :: (g ++ '}' :: Z) = (name ++ '{' :: (g ++ ['}'])) ++ Z := by simp
  rw [this, List.drop_left]

theorem lat_group (tbl : List (Str × Nat)) {name g : Str} (hne : name ≠ []) (hn : allL name) (hg : '}' ∉ g) (Z : Str) :
    lat tbl ('\\' :: (name ++ '{' :: (g ++ '}' :: Z))) = look tbl ('\\' :: (name ++ '{' :: (g ++ ['}']))) ++ lat tbl Z := by
  have hm : matchCmd (name ++ '{' :: (g ++ '}' :: Z)) = some (name ++ '{' :: (g ++ ['}'])) := by
    rw [matchCmd_app hne hn (by rfl), braceGroup_open hg]
  rw [lat_cmd tbl _ _ hm, drop_cmd]

theorem lat_nogroup (tbl : List (Str × Nat)) {name Y : Str} (hne : name ≠ []) (hn : allL name) (hY : hnl Y = true)
    (hb : braceGroup Y = none) :
    lat tbl ('\\' :: (name ++ Y)) = look tbl ('\\' :: name) ++ lat tbl Y := by
  have hm : matchCmd (name ++ Y) = some name := by rw [matchCmd_app hne hn hY, hb]
  rw [lat_cmd tbl _ _ hm, List.drop_left]

theorem lat_word (tbl : List (Str × Nat)) {name : Str} (hne : name ≠ []) (hn : allL name) (Y : Str) :
    lat tbl ('\\' :: (name ++ ' ' :: Y)) = look tbl ('\\' :: name) ++ ' ' :: lat tbl Y := by
  rw [lat_nogroup tbl hne hn (by rfl) (by simp [braceGroup]), lat_copy tbl ' ' Y (by decide)]

/-! ### facts about the symbol table that the equivalence uses -/

def fldinstGroup : Str :=
  ['\\', '*', '\\', 'f', 'l', 'd', 'i', 'n', 's', 't', ' ', 'N', 'U', 'M', 'P', 'A', 'G', 'E', 'S', ' ']

structure TableFacts (tbl : List (Str × Nat)) : Prop where
  unique : ∀ k, lookupLast tbl k = lookupFirst tbl k
  super : lookupLast tbl ['\\', 's', 'u', 'p', 'e', 'r'] = none
  sub : lookupLast tbl ['\\', 's', 'u', 'b'] = none
  line : lookupLast tbl ['\\', 'l', 'i', 'n', 'e'] = none
  chpgn : lookupLast tbl ['\\', 'c', 'h', 'p', 'g', 'n'] = none
  totalpage : lookupLast tbl ['\\', 't', 'o', 't', 'a', 'l', 'p', 'a', 'g', 'e'] = none
  field : lookupLast tbl ('\\' :: (['f', 'i', 'e', 'l', 'd'] ++ '{' :: (fldinstGroup ++ ['}']))) = none
  geq : lookupLast tbl ['\\', 'g', 'e', 'q'] = some 8805
  leq : lookupLast tbl ['\\', 'l', 'e', 'q'] = some 8804

theorem look_render {tbl : List (Str × Nat)} (F : TableFacts tbl) (w : Str) :
    look tbl w = renderEventD15 (cmdEvent tbl w) := by
  simp only [look, cmdEvent, F.unique]
  cases lookupFirst tbl w <;> rfl

/-- the LaTeX pass maps what the literal passes wrote for a token to the final rendering -/
theorem lat_mid {tbl : List (Str × Nat)} (F : TableFacts tbl) {pat : Str} {e : Event} (h : (pat, e) ∈ docTokens) (Y : Str) :
    lat tbl (mid e ++ Y) = renderEventD15 e ++ lat tbl Y := by
  rcases docTokens_mem h with ⟨_, rfl⟩ | ⟨_, rfl⟩ | ⟨_, rfl⟩ | ⟨_, rfl⟩ | ⟨_, rfl⟩ | ⟨_, rfl⟩ | ⟨_, rfl⟩ | ⟨_, rfl⟩
  · show lat tbl ('\\' :: (['s', 'u', 'p', 'e', 'r'] ++ ' ' :: Y)) = _
    rw [lat_word tbl (by simp) (by decide)]; simp only [look, F.super]; rfl
  · show lat tbl ('\\' :: (['s', 'u', 'b'] ++ ' ' :: Y)) = _
    rw [lat_word tbl (by simp) (by decide)]; simp only [look, F.sub]; rfl
  · show lat tbl ('\\' :: (['g', 'e', 'q'] ++ ' ' :: Y)) = _
    rw [lat_word tbl (by simp) (by decide)]; simp only [look, F.geq]; rfl
  · show lat tbl ('\\' :: (['l', 'e', 'q'] ++ ' ' :: Y)) = _
    rw [lat_word tbl (by simp) (by decide)]; simp only [look, F.leq]; rfl
  · show lat tbl ('\\' :: (['l', 'i', 'n', 'e'] ++ ' ' :: Y)) = _
    rw [lat_word tbl (by simp) (by decide)]; simp only [look, F.line]; rfl
  · show lat tbl ('\\' :: (['c', 'h', 'p', 'g', 'n'] ++ ' ' :: Y)) = _
    rw [lat_word tbl (by simp) (by decide)]; simp only [look, F.chpgn]; rfl
  · show lat tbl ('\\' :: (['t', 'o', 't', 'a', 'l', 'p', 'a', 'g', 'e'] ++ ' ' :: Y)) = _
    rw [lat_word tbl (by simp) (by decide)]; simp only [look, F.totalpage]; rfl
  · show lat tbl ('{' :: '\\' :: (['f', 'i', 'e', 'l', 'd'] ++ '{' :: (fldinstGroup ++ '}' :: ('}' :: ' ' :: Y)))) = _
    rw [lat_copy tbl '{' _ (by decide), lat_group tbl (by simp) (by decide) (by decide),
      lat_copy tbl '}' _ (by decide), lat_copy tbl ' ' _ (by decide)]
    simp only [look, F.field]; rfl

theorem renderD15_cons (e : Event) (es : List Event) : renderD15 (e :: es) = renderEventD15 e ++ renderD15 es := by
  simp [renderD15]

/-! ### the equivalence on regular texts -/

theorem core_aux {tbl : List (Str × Nat)} (F : TableFacts tbl) :
    ∀ (n : Nat) (t : Str), t.length ≤ n → regularGo 0 t = true → lat tbl (simD t) = renderD15 (specGo tbl 0 t) := by
  intro n
  induction n with
  | zero =>
    intro t ht _
    have : t = [] := List.eq_nil_of_length_eq_zero (Nat.le_zero.mp ht)
    subst this
    rw [simD_nil, lat_nil, spec_nil]; rfl
  | succ n ih =>
    intro t ht hreg
    cases t with
    | nil => rw [simD_nil, lat_nil, spec_nil]; rfl
    | cons c t' =>
      have hlen' : t'.length ≤ n := by simp at ht; omega
      cases hf : findTok (c :: t') with
      | some pe =>
        obtain ⟨pat, e⟩ := pe
        obtain ⟨hmem, rest, hrest⟩ := findTok_some hf
        have hne := tok_ne_nil hmem
        have hlen : rest.length ≤ n := by
          have : (c :: t').length = pat.length + rest.length := by rw [hrest]; simp
          have hpos : 0 < pat.length := List.length_pos_iff.mpr hne
          simp at ht this; omega
        rw [hrest] at hf hreg ⊢
        rw [regular_tok hf] at hreg
        rw [simD_tok hf, spec_tok tbl hf, lat_mid F hmem, renderD15_cons, ih rest hlen hreg]
      | none =>
        by_cases hc : c = '\\'
        · subst hc
          cases hm : matchCmd t' with
          | none =>
            rw [regular_bs_plain hf hm] at hreg
            have hh := hnl_of_matchCmd_none hm
            rw [simD_copy hf, spec_bs_plain tbl hf hm, lat_bs_plain tbl _ (matchCmd_none_of_hnl (hnl_simD hh)),
              renderD15_cons, ih t' hlen' hreg]
            rfl
          | some cmd =>
            rw [regular_cmd hf hm] at hreg
            simp only [Bool.and_eq_true] at hreg
            obtain ⟨hside, hreg'⟩ := hreg
            -- decompose t' into its letter run and the rest
            have hsplit : t'.takeWhile isLetter ++ t'.dropWhile isLetter = t' := List.takeWhile_append_dropWhile
            have hn : allL (t'.takeWhile isLetter) := allL_takeWhile t'
            have hY : hnl (t'.dropWhile isLetter) = true := hnl_dropWhile t'
            generalize hname : t'.takeWhile isLetter = name at hsplit hn
            generalize hrest1 : t'.dropWhile isLetter = rest1 at hsplit hY hside
            have hne : name ≠ [] := by
              intro h0
              simp [matchCmd, hname, h0] at hm
            subst hsplit
            rw [spec_cmd tbl hf hm, renderD15_cons, ← look_render F]
            have hmc := matchCmd_app hne hn hY
            rw [hm] at hmc
            have hcopy : simD ('\\' :: (name ++ rest1)) = '\\' :: (name ++ simD rest1) := by
              rw [simD_copy hf, simD_letters hn]
            cases hb : braceGroup rest1 with
            | some gz =>
              obtain ⟨g, rest2⟩ := gz
              obtain ⟨hr1, hg⟩ := braceGroup_some hb
              simp only [hb] at hmc hside
              have hcmd : cmd = name ++ '{' :: (g ++ ['}']) := by simpa using hmc
              subst hcmd
              subst hr1
              rw [drop_cmd] at hreg' ⊢
              have hlen2 : rest2.length ≤ n := by simp at hlen'; omega
              have hclean : simD ('{' :: (g ++ '}' :: rest2)) = '{' :: (g ++ '}' :: simD rest2) := by
                have hw : '}' ∉ ('{' :: g) := by
                  intro hmm
                  cases hmm with
                  | tail _ h' => exact hg h'
                exact simD_clean ('{' :: g) rest2 hw hside
              rw [hcopy, hclean, lat_group tbl hne hn hg, ih rest2 hlen2 hreg']
            | none =>
              simp only [hb] at hmc hside
              have hcmd : cmd = name := by simpa using hmc
              subst hcmd
              rw [List.drop_left] at hreg' ⊢
              have hlen1 : rest1.length ≤ n := by simp at hlen'; omega
              have hpa : pagefieldAhead rest1 = false := by simpa using hside
              rw [hcopy, lat_nogroup tbl hne hn (hnl_simD hY) (braceGroup_simD_none hb hpa), ih rest1 hlen1 hreg']
        · rw [regular_copy hf hc] at hreg
          rw [simD_copy hf, spec_copy tbl hf hc, lat_copy tbl c _ hc, renderD15_cons, ih t' hlen' hreg]
          rfl

/-- on regular texts: LaTeX pass ∘ one-pass literal scan = rtflite's rendering of the one-pass specification -/
theorem core_eq {tbl : List (Str × Nat)} (F : TableFacts tbl) (t : Str) (h : regular t = true) :
    latexPass tbl (sim docRules t) = renderD15 (specWith tbl t) :=
  core_aux F t.length t (Nat.le_refl _) h

/-- without comparison signs the two renderings coincide -/
theorem renderD15_eq_render (es : List Event) (h : noCmp es = true) : renderD15 es = render es := by
  induction es with
  | nil => rfl
  | cons e es ih =>
    simp only [noCmp, List.all_cons, Bool.and_eq_true, decide_eq_true_eq] at h
    have ih' := ih (by simpa [noCmp] using h.2)
    simp only [renderD15, render, List.flatMap_cons] at ih' ⊢
    rw [ih']
    congr 1
    cases e <;> first | rfl | exact absurd rfl h.1.1 | exact absurd rfl h.1.2

/-- a dict built from rows with distinct keys returns the listed value -/
theorem lookupLast_eq_first (tbl : List (Str × Nat)) (hnd : (tbl.map (·.1)).Nodup) (k : Str) :
    lookupLast tbl k = lookupFirst tbl k := by
  have gen : ∀ (l : List (Str × Nat)) (acc : Option Nat), (l.map (·.1)).Nodup →
      l.foldl (fun acc kv => if kv.1 = k then some kv.2 else acc) acc
        = match (l.find? (fun kv => kv.1 = k)).map (·.2) with
          | some v => some v
          | none => acc := by
    intro l
    induction l with
    | nil => intro acc _; rfl
    | cons x l ih =>
      intro acc hnd
      simp only [List.map_cons, List.nodup_cons] at hnd
      simp only [List.foldl_cons, List.find?_cons]
      by_cases hx : x.1 = k
      · simp only [hx, if_true, decide_true, Option.map_some]
        rw [ih _ hnd.2]
        have hnone : l.find? (fun kv => decide (kv.1 = k)) = none := by
          apply List.find?_eq_none.mpr
          intro y hy hyk
          simp only [decide_eq_true_eq] at hyk
          apply hnd.1
          rw [hx, ← hyk]
          exact List.mem_map_of_mem hy
        simp [hnone]
      · simp only [hx, if_false, decide_false]
        exact ih _ hnd.2
  have := gen tbl none hnd
  simp only [lookupLast, lookupFirst]
  rw [this]
  cases (tbl.find? (fun kv => decide (kv.1 = k))).map (·.2) <;> rfl

/-! ## Part C: devices for deciding facts about the 682-row table inside the kernel

A quadratic `Nodup` check on character lists costs minutes in the kernel; keys are therefore encoded as
natural numbers (any function will do: `(l.map f).Nodup → l.Nodup`) and compared bucket by bucket. -/

def encR : List Nat → Nat
  | [] => 0
  | c :: xs => (c + 1) + 2097152 * encR xs

def notIn (x : Nat) : List Nat → Bool
  | [] => true
  | y :: ys => match Nat.beq x y with
    | true => false
    | false => notIn x ys

def nodupB : List Nat → Bool
  | [] => true
  | x :: xs => match notIn x xs with
    | true => nodupB xs
    | false => false

def nodupBuckets (m : Nat) (l : List Nat) : Bool :=
  (List.range m).all (fun v => nodupB (l.filter (fun x => Nat.beq (x % m) v)))

/-- order-insensitive digest of the symbol table binding every command to its code point -/
def tableDigest (rows : List (List Nat × Nat)) : Nat × Nat :=
  (rows.length, (rows.foldl (fun acc p => acc + encR p.1 * (p.2 + 1)) 0) % 2305843009213693951)

theorem notIn_sound {x : Nat} {l : List Nat} (h : notIn x l = true) : x ∉ l := by
  induction l with
  | nil => simp
  | cons y ys ih =>
    simp only [notIn] at h
    cases hb : Nat.beq x y with
    | true => simp [hb] at h
    | false =>
      simp only [hb] at h
      have hne : x ≠ y := by
        intro he; subst he; simp at hb
      intro hm
      cases hm with
      | head => exact hne rfl
      | tail _ hm' => exact ih h hm'

theorem nodupB_sound {l : List Nat} (h : nodupB l = true) : l.Nodup := by
  induction l with
  | nil => simp
  | cons x xs ih =>
    simp only [nodupB] at h
    cases hn : notIn x xs with
    | false => simp [hn] at h
    | true =>
      simp only [hn] at h
      exact List.nodup_cons.mpr ⟨notIn_sound hn, ih h⟩

theorem nodupBuckets_sound {m : Nat} (hm : 0 < m) {l : List Nat} (h : nodupBuckets m l = true) : l.Nodup := by
  rw [List.nodup_iff_count]
  intro a
  have hb := List.all_eq_true.mp h (a % m) (List.mem_range.mpr (Nat.mod_lt _ hm))
  have hnd := nodupB_sound hb
  rw [List.nodup_iff_count] at hnd
  have := hnd a
  rw [List.count_filter (by simp)] at this
  exact this

theorem nodup_of_map {α β : Type} (f : α → β) : ∀ {l : List α}, (l.map f).Nodup → l.Nodup := by
  intro l
  induction l with
  | nil => intro _; simp
  | cons x xs ih =>
    intro h
    simp only [List.map_cons, List.nodup_cons] at h ⊢
    exact ⟨fun hm => h.1 (List.mem_map_of_mem hm), ih h.2⟩

theorem nodup_map_of_inj_on {α β : Type} (f : α → β) : ∀ {l : List α}, l.Nodup →
    (∀ x ∈ l, ∀ y ∈ l, f x = f y → x = y) → (l.map f).Nodup := by
  intro l
  induction l with
  | nil => intro _ _; simp
  | cons x xs ih =>
    intro h hinj
    simp only [List.map_cons, List.nodup_cons] at h ⊢
    refine ⟨?_, ih h.2 (fun a ha b hb => hinj a (List.mem_cons_of_mem _ ha) b (List.mem_cons_of_mem _ hb))⟩
    intro hm
    obtain ⟨y, hy, hfy⟩ := List.mem_map.mp hm
    have := hinj y (List.mem_cons_of_mem _ hy) x List.mem_cons_self hfy
    subst this
    exact h.1 hy

theorem toNat_ofNat_of_lt {n : Nat} (h : n < 55296) : (Char.ofNat n).toNat = n := by
  simp [Char.ofNat, Char.toNat, Nat.isValidChar, h, Char.ofNatAux]

theorem ofCodes_inj : ∀ (xs ys : List Nat), (∀ c ∈ xs, c < 55296) → (∀ c ∈ ys, c < 55296) →
    ofCodes xs = ofCodes ys → xs = ys := by
  intro xs
  induction xs with
  | nil =>
    intro ys _ _ h
    cases ys with
    | nil => rfl
    | cons y ys => simp [ofCodes] at h
  | cons x xs ih =>
    intro ys hx hy h
    cases ys with
    | nil => simp [ofCodes] at h
    | cons y ys =>
      simp only [ofCodes, List.map_cons, List.cons.injEq] at h
      have h1 : x = y := by
        have := congrArg Char.toNat h.1
        rwa [toNat_ofNat_of_lt (hx x List.mem_cons_self), toNat_ofNat_of_lt (hy y List.mem_cons_self)] at this
      have h2 := ih ys (fun c hc => hx c (List.mem_cons_of_mem _ hc)) (fun c hc => hy c (List.mem_cons_of_mem _ hc)) h.2
      rw [h1, h2]

/-- the two kernel-checked facts give distinct keys of the character table -/
theorem latexTable_nodup
    (h1 : nodupBuckets 31 (Generated.latexCodes.map (fun p => encR p.1)) = true)
    (h2 : Generated.latexCodes.all (fun p => p.1.all (fun c => decide (c < 55296))) = true) :
    (latexTable.map (·.1)).Nodup := by
  have hk : (Generated.latexCodes.map (·.1)).Nodup := by
    apply nodup_of_map encR
    rw [List.map_map]
    exact nodupBuckets_sound (by decide) h1
  have : latexTable.map (·.1) = (Generated.latexCodes.map (·.1)).map ofCodes := by
    simp [latexTable, List.map_map, Function.comp_def]
  rw [this]
  apply nodup_map_of_inj_on ofCodes hk
  intro x hx y hy hxy
  have hvalid : ∀ z ∈ Generated.latexCodes.map (·.1), ∀ c ∈ z, c < 55296 := by
    intro z hz c hc
    obtain ⟨p, hp, rfl⟩ := List.mem_map.mp hz
    have := List.all_eq_true.mp h2 p hp
    have := List.all_eq_true.mp this c hc
    simpa using this
  exact ofCodes_inj x y (hvalid x hx) (hvalid y hy) hxy

/-- with distinct keys the specification's lookup finds the listed row -/
theorem lookupFirst_of_mem (tbl : List (Str × Nat)) (hnd : (tbl.map (·.1)).Nodup) {k : Str} {cp : Nat}
    (hm : (k, cp) ∈ tbl) : lookupFirst tbl k = some cp := by
  induction tbl with
  | nil => cases hm
  | cons x tbl ih =>
    simp only [List.map_cons, List.nodup_cons] at hnd
    simp only [lookupFirst, List.find?_cons]
    by_cases hx : x.1 = k
    · simp only [hx, decide_true, Option.map_some]
      cases hm with
      | head => rfl
      | tail _ hm' =>
        exfalso
        apply hnd.1
        rw [hx]
        exact List.mem_map.mpr ⟨(k, cp), hm', rfl⟩
    · simp only [hx, decide_false]
      cases hm with
      | head => exact absurd rfl hx
      | tail _ hm' => exact ih hnd.2 hm'

/-- the specification of a text that is exactly one nameable command -/
theorem spec_single (tbl : List (Str × Nat)) {k : Str} (hn : nameable k = true) (hf : findTok k = none) :
    specGo tbl 0 k = [cmdEvent tbl k] := by
  cases k with
  | nil => simp [nameable] at hn
  | cons c y =>
    simp only [nameable, Bool.and_eq_true, decide_eq_true_eq] at hn
    obtain ⟨hc, hm⟩ := hn
    subst hc
    rw [spec_cmd tbl hf hm, List.drop_length, spec_nil]

end Proofs.Convert
