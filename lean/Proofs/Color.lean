import Model.Color
/-!
Helper lemmas for C12 about `Model.Color`, generic in the colour table `tbl`.
-/
namespace Proofs.Color
open Generated Model.Color

/-! ## dictionary lookup -/

theorem lookupRow_some {tbl : List ColorRow} {n : String} {r : ColorRow} (h : lookupRow tbl n = some r) :
    r ∈ tbl ∧ r.name = n := by
  induction tbl with
  | nil => simp [lookupRow] at h
  | cons row rest ih =>
    simp only [lookupRow] at h
    split at h
    · rename_i r' hr
      cases h
      exact ⟨List.mem_cons_of_mem _ (ih hr).1, (ih hr).2⟩
    · split at h
      · rename_i hn
        cases h
        exact ⟨List.mem_cons_self, by simpa using hn⟩
      · cases h

/-- rows of the table are identified by their master index -/
def IdxInj (tbl : List ColorRow) : Prop := ∀ a ∈ tbl, ∀ b ∈ tbl, a.idx = b.idx → a = b

theorem idxInj_of_nodup {tbl : List ColorRow} (h : (tbl.map (·.idx)).Nodup) : IdxInj tbl := by
  induction tbl with
  | nil => intro a ha; cases ha
  | cons x xs ih =>
    simp only [List.map_cons, List.nodup_cons, List.mem_map, not_exists, not_and] at h
    intro a ha b hb hab
    rcases List.mem_cons.mp ha with rfl | ha' <;> rcases List.mem_cons.mp hb with rfl | hb'
    · rfl
    · exact absurd hab.symm (h.1 b hb')
    · exact absurd hab (h.1 a ha')
    · exact ih h.2 a ha' b hb' hab

/-- two valid names with the same master index are the same name -/
theorem lookup_inj {tbl : List ColorRow} (hI : IdxInj tbl) {a b : String} {ra rb : ColorRow}
    (ha : lookupRow tbl a = some ra) (hb : lookupRow tbl b = some rb) (h : ra.idx = rb.idx) : ra = rb ∧ a = b := by
  have h1 := lookupRow_some ha
  have h2 := lookupRow_some hb
  have := hI ra h1.1 rb h2.1 h
  subst this
  exact ⟨rfl, h1.2.symm.trans h2.2⟩

/-! ## validate_color_list -/

theorem validateFrom_ok {tbl : List ColorRow} : ∀ {cs : List String} {i : Nat} {rows : List ColorRow},
    validateFrom tbl i cs = .ok rows → rows = cs.filterMap (lookupRow tbl) ∧ rows.map (·.name) = cs ∧
      ∀ row ∈ rows, lookupRow tbl row.name = some row
  | [], i, rows, h => by
    simp only [validateFrom, Except.ok.injEq] at h
    subst h
    simp
  | c :: cs, i, rows, h => by
    simp only [validateFrom] at h
    split at h
    · cases h
    · rename_i row hrow
      split at h
      · cases h
      · rename_i rest hrest
        simp only [Except.ok.injEq] at h
        subst h
        have ih := validateFrom_ok hrest
        refine ⟨?_, ?_, ?_⟩
        · simp [hrow, ← ih.1]
        · simp [ih.2.1, (lookupRow_some hrow).2]
        · intro r hr
          rcases List.mem_cons.mp hr with rfl | hr
          · rw [(lookupRow_some hrow).2]; exact hrow
          · exact ih.2.2 r hr

theorem validateFrom_total {tbl : List ColorRow} : ∀ (cs : List String) (i : Nat),
    (∀ c ∈ cs, validColor tbl c = true) → ∃ rows, validateFrom tbl i cs = .ok rows
  | [], _, _ => ⟨[], rfl⟩
  | c :: cs, i, h => by
    have hc := h c List.mem_cons_self
    simp only [validColor, Option.isSome_iff_exists] at hc
    obtain ⟨row, hrow⟩ := hc
    obtain ⟨rest, hrest⟩ := validateFrom_total cs (i + 1) (fun c hc => h c (List.mem_cons_of_mem _ hc))
    exact ⟨row :: rest, by simp [validateFrom, hrow, hrest]⟩

theorem validateFrom_error {tbl : List ColorRow} : ∀ {cs : List String} {i : Nat} {e : Err},
    validateFrom tbl i cs = .error e → ∃ c ∈ cs, validColor tbl c = false
  | [], _, _, h => by simp [validateFrom] at h
  | c :: cs, i, e, h => by
    simp only [validateFrom] at h
    split at h
    · rename_i hrow
      exact ⟨c, List.mem_cons_self, by simp [validColor, hrow]⟩
    · split at h
      · rename_i e' hrest
        obtain ⟨c', hc', hv⟩ := validateFrom_error hrest
        exact ⟨c', List.mem_cons_of_mem _ hc', hv⟩
      · cases h

/-! ## the stable sort by master index -/

theorem insertRow_perm (x : ColorRow) : ∀ l : List ColorRow, (insertRow x l).Perm (x :: l)
  | [] => List.Perm.refl _
  | y :: ys => by
    simp only [insertRow]
    split
    · exact List.Perm.refl _
    · exact ((insertRow_perm x ys).cons y).trans (List.Perm.swap x y ys)

theorem sortRows_perm : ∀ l : List ColorRow, (sortRows l).Perm l
  | [] => List.Perm.refl _
  | x :: xs => (insertRow_perm x (sortRows xs)).trans ((sortRows_perm xs).cons x)

theorem mem_sortRows {l : List ColorRow} {r : ColorRow} : r ∈ sortRows l ↔ r ∈ l :=
  (sortRows_perm l).mem_iff

theorem length_sortRows (l : List ColorRow) : (sortRows l).length = l.length := (sortRows_perm l).length_eq

theorem insertRow_sorted (x : ColorRow) : ∀ l : List ColorRow, l.Pairwise (fun a b => a.idx ≤ b.idx) →
    (insertRow x l).Pairwise (fun a b => a.idx ≤ b.idx)
  | [], _ => by simp [insertRow]
  | y :: ys, h => by
    simp only [insertRow]
    have hy := List.pairwise_cons.mp h
    split
    · rename_i hxy
      refine List.pairwise_cons.mpr ⟨?_, h⟩
      intro b hb
      rcases List.mem_cons.mp hb with rfl | hb
      · exact hxy
      · exact Nat.le_trans hxy (hy.1 b hb)
    · rename_i hxy
      refine List.pairwise_cons.mpr ⟨?_, insertRow_sorted x ys hy.2⟩
      intro b hb
      rcases List.mem_cons.mp ((insertRow_perm x ys).mem_iff.mp hb) with rfl | hb
      · omega
      · exact hy.1 b hb

theorem sortRows_sorted : ∀ l : List ColorRow, (sortRows l).Pairwise (fun a b => a.idx ≤ b.idx)
  | [] => List.Pairwise.nil
  | x :: xs => insertRow_sorted x _ (sortRows_sorted xs)

/-- a list that is already sorted is left alone (the full table: master indices ascend in table order) -/
theorem insertRow_of_le (x : ColorRow) : ∀ l : List ColorRow, (∀ y ∈ l, x.idx ≤ y.idx) → insertRow x l = x :: l
  | [], _ => rfl
  | y :: ys, h => by simp [insertRow, h y List.mem_cons_self]

theorem sortRows_of_sorted : ∀ l : List ColorRow, l.Pairwise (fun a b => a.idx ≤ b.idx) → sortRows l = l
  | [], _ => rfl
  | x :: xs, h => by
    have hx := List.pairwise_cons.mp h
    simp only [sortRows, sortRows_of_sorted xs hx.2]
    exact insertRow_of_le x xs hx.1

/-- sorted lists over an index-injective table that are permutations of each other are equal -/
theorem sorted_perm_eq {tbl : List ColorRow} (hI : IdxInj tbl) {l₁ l₂ : List ColorRow}
    (h₁ : ∀ r ∈ l₁, r ∈ tbl) (hp : l₁.Perm l₂) :
    sortRows l₁ = sortRows l₂ := by
  apply List.Perm.eq_of_pairwise (le := fun a b => a.idx ≤ b.idx) _ (sortRows_sorted l₁) (sortRows_sorted l₂)
    ((sortRows_perm l₁).trans (hp.trans (sortRows_perm l₂).symm))
  intro a b ha hb hab hba
  have ha' : a ∈ tbl := h₁ a (mem_sortRows.mp ha)
  have hb' : b ∈ tbl := h₁ b (hp.mem_iff.mpr (mem_sortRows.mp hb))
  exact hI a ha' b hb' (Nat.le_antisymm hab hba)

/-! ## tableRows -/

theorem tableRows_ok {tbl : List ColorRow} {used : List String} {rows : List ColorRow}
    (h : tableRows tbl used = .ok rows) :
    rows = sortRows ((filtered used).filterMap (lookupRow tbl)) ∧
    (rows.map (·.name)).Perm (filtered used) ∧
    (∀ row ∈ rows, lookupRow tbl row.name = some row) ∧
    (∀ c ∈ filtered used, validColor tbl c = true) := by
  simp only [tableRows, validateList] at h
  split at h
  · cases h
  · rename_i vs hv
    simp only [Except.ok.injEq] at h
    subst h
    have hv' := validateFrom_ok hv
    refine ⟨by rw [← hv'.1], ?_, ?_, ?_⟩
    · rw [← hv'.2.1]
      exact (sortRows_perm vs).map _
    · intro row hrow
      exact hv'.2.2 row (mem_sortRows.mp hrow)
    · intro c hc
      rw [← hv'.2.1] at hc
      obtain ⟨row, hrow, rfl⟩ := List.mem_map.mp hc
      simp [validColor, hv'.2.2 row hrow]

theorem tableRows_total {tbl : List ColorRow} {used : List String}
    (h : ∀ c ∈ used, significant c = true → validColor tbl c = true) : ∃ rows, tableRows tbl used = .ok rows := by
  obtain ⟨vs, hv⟩ := validateFrom_total (tbl := tbl) (filtered used) 0 (by
    intro c hc
    simp only [filtered, List.mem_filter] at hc
    exact h c hc.1 hc.2)
  exact ⟨sortRows vs, by simp [tableRows, validateList, hv]⟩

theorem tableRows_error {tbl : List ColorRow} {used : List String} {e : Err}
    (h : tableRows tbl used = .error e) : ∃ c ∈ used, significant c = true ∧ validColor tbl c = false := by
  simp only [tableRows, validateList] at h
  split at h
  · rename_i e' hv
    obtain ⟨c, hc, hv⟩ := validateFrom_error hv
    simp only [filtered, List.mem_filter] at hc
    exact ⟨c, hc.1, hc.2, hv⟩
  · cases h

theorem tableRows_mem_tbl {tbl : List ColorRow} {used : List String} {rows : List ColorRow}
    (h : tableRows tbl used = .ok rows) : ∀ row ∈ rows, row ∈ tbl :=
  fun row hrow => (lookupRow_some ((tableRows_ok h).2.2.1 row hrow)).1

/-- the table does not depend on the order in which the collected set is enumerated -/
theorem tableRows_perm {tbl : List ColorRow} (hI : IdxInj tbl) {u₁ u₂ : List String} (hp : u₁.Perm u₂) :
    tableRows tbl u₁ = tableRows tbl u₂ ∨
      (∃ e₁ e₂, tableRows tbl u₁ = .error e₁ ∧ tableRows tbl u₂ = .error e₂) := by
  cases h₁ : tableRows tbl u₁ with
  | error e₁ =>
    right
    cases h₂ : tableRows tbl u₂ with
    | error e₂ => exact ⟨e₁, e₂, rfl, rfl⟩
    | ok r₂ =>
      exfalso
      obtain ⟨c, hc, hs, hv⟩ := tableRows_error h₁
      have := (tableRows_ok h₂).2.2.2 c (by
        simp only [filtered, List.mem_filter]
        exact ⟨hp.mem_iff.mp hc, hs⟩)
      simp [this] at hv
  | ok r₁ =>
    left
    have hv₁ := (tableRows_ok h₁).2.2.2
    obtain ⟨r₂, h₂⟩ := tableRows_total (tbl := tbl) (used := u₂) (by
      intro c hc hs
      exact hv₁ c (by
        simp only [filtered, List.mem_filter]
        exact ⟨hp.mem_iff.mpr hc, hs⟩))
    rw [h₂]
    congr 1
    rw [(tableRows_ok h₁).1, (tableRows_ok h₂).1]
    apply sorted_perm_eq hI
    · intro r hr
      obtain ⟨c, _, hc⟩ := List.mem_filterMap.mp hr
      exact (lookupRow_some hc).1
    · exact (hp.filter _).filterMap _

/-! ## position lookup -/

theorem indexIn_le (rows : List ColorRow) (c : String) : indexIn rows c ≤ rows.length := by
  simp only [indexIn]
  split
  · rename_i h
    simp only [List.length_map] at h
    omega
  · omega

theorem indexIn_zero {rows : List ColorRow} {c : String} (h : c ∉ rows.map (·.name)) : indexIn rows c = 0 := by
  simp only [indexIn]
  split
  · rename_i hlt
    exact absurd (List.idxOf_lt_length_iff.mp hlt) h
  · rfl

/-- `list.index` finds the colour itself: the entry at the returned (1-based) position carries the requested name -/
theorem indexIn_spec {rows : List ColorRow} {c : String} (h : c ∈ rows.map (·.name)) :
    1 ≤ indexIn rows c ∧ indexIn rows c ≤ rows.length ∧
    ∃ row, rows[indexIn rows c - 1]? = some row ∧ row.name = c := by
  have hlt : (rows.map (·.name)).idxOf c < (rows.map (·.name)).length := List.idxOf_lt_length_iff.mpr h
  have hget := List.getElem_idxOf hlt
  have hlt' : (rows.map (·.name)).idxOf c < rows.length := by simpa using hlt
  simp only [indexIn, hlt, if_true]
  refine ⟨by omega, by omega, rows[(rows.map (·.name)).idxOf c], ?_, ?_⟩
  · simp [List.getElem?_eq_getElem hlt']
  · rw [List.getElem_map] at hget
    exact hget

/-! ## the collected set -/

theorem mem_dedup {x : String} : ∀ {l : List String}, x ∈ dedup l ↔ x ∈ l
  | [] => by simp [dedup]
  | y :: ys => by
    simp only [dedup, List.mem_cons, List.mem_filter, mem_dedup (l := ys)]
    constructor
    · rintro (h | h)
      · exact Or.inl h
      · exact Or.inr h.1
    · rintro (h | h)
      · exact Or.inl h
      · by_cases hxy : x = y
        · exact Or.inl hxy
        · exact Or.inr ⟨h, by simpa using hxy⟩

theorem nodup_dedup : ∀ l : List String, (dedup l).Nodup
  | [] => by simp [dedup]
  | y :: ys => by
    simp only [dedup, List.nodup_cons, List.mem_filter]
    refine ⟨by simp, (nodup_dedup ys).sublist List.filter_sublist⟩

/-! ## attribute values reach emitters only through `iloc` -/

theorem iloc_mem {m : List (List String)} {r c : Nat} {v : String} (h : iloc m r c = .ok v) : v ∈ m.flatten := by
  unfold iloc at h
  split at h
  · cases h
  · rename_i row0 rest
    split at h
    · cases h
    · split at h
      · cases h
      · rename_i row hrow
        split at h
        · cases h
        · rename_i v' hv
          cases h
          exact List.mem_flatten.mpr ⟨row, List.mem_of_getElem? hrow, List.mem_of_getElem? hv⟩

theorem toNested_colors {a : Attr} {m : List (List String)} (h : a.toNested = some m) {v : String}
    (hv : v ∈ m.flatten) (hne : v ≠ "") : v ∈ a.colors := by
  cases a with
  | none => simp [Attr.toNested] at h
  | flat t xs =>
    cases t with
    | false =>
      simp only [Attr.toNested, Option.some.injEq] at h
      subst h
      simp only [Attr.colors, List.mem_filter]
      refine ⟨?_, by simpa using hne⟩
      split at hv
      · simp at hv
      · simpa using hv
    | true =>
      simp only [Attr.toNested, Option.some.injEq] at h
      subst h
      simp only [Attr.colors, List.mem_filter]
      refine ⟨?_, by simpa using hne⟩
      simp only [List.mem_flatten, List.mem_map] at hv
      obtain ⟨l, ⟨x, hx, rfl⟩, hvl⟩ := hv
      simp at hvl
      subst hvl
      exact hx
  | nested m' =>
    simp only [Attr.toNested, Option.some.injEq] at h
    subst h
    simp only [Attr.colors, List.mem_filter]
    exact ⟨hv, by simpa using hne⟩

/-- whatever `BroadcastValue(value=attr).iloc(r, c)` returns (other than `None` / `""`) is one of the strings
`extract_colors_from_attribute` adds to the set -/
theorem at_colors {a : Attr} {r c : Nat} {v : String} (h : a.at r c = .ok (some v)) (hne : v ≠ "") : v ∈ a.colors := by
  unfold Attr.at at h
  split at h
  · cases h
  · rename_i m hm
    cases hi : iloc m r c with
    | error e => simp [hi, Except.map] at h
    | ok w =>
      simp only [hi, Except.map, Except.ok.injEq, Option.some.injEq] at h
      subst h
      exact toNested_colors hm (iloc_mem hi) hne

theorem emitters_sub (p : Path) (d : Doc) {k : Comp} (h : k ∈ emitters p d) :
    k ∈ d.bodies ∨ k ∈ d.texts ∨ k ∈ d.headers := by
  cases p <;> simp only [emitters, List.mem_append] at h
  · rcases h with (h | h) | h
    · exact Or.inl h
    · exact Or.inr (Or.inl h)
    · exact Or.inr (Or.inr h)
  · rcases h with (h | h) | h
    · exact Or.inl h
    · exact Or.inr (Or.inl h)
    · exact Or.inr (Or.inr h)
  · exact Or.inr (Or.inl h)

theorem text_colors_collected {p : Path} {d : Doc} {k : Comp} (hk : k ∈ emitters p d) {v : String}
    (hv : v ∈ k.textColor.colors ∨ v ∈ k.bgColor.colors) : v ∈ collect d := by
  rw [collect, mem_dedup]
  simp only [Doc.allColors, List.mem_append, List.mem_flatMap]
  rcases emitters_sub p d hk with h | h | h
  · left; left
    exact ⟨k, h, by rcases hv with hv | hv <;> simp [hv]⟩
  · left; right
    exact ⟨k, h, Or.inl hv⟩
  · right
    exact ⟨k, h, Or.inl hv⟩

/-- every component of the document: bodies, text components (title … page footer), column headers -/
def components (d : Doc) : List Comp := d.bodies ++ d.texts ++ d.headers

theorem emitters_components (p : Path) (d : Doc) {k : Comp} (h : k ∈ emitters p d) : k ∈ components d := by
  unfold components
  simp only [List.mem_append]
  rcases emitters_sub p d h with h | h | h
  · exact Or.inl (Or.inl h)
  · exact Or.inl (Or.inr h)
  · exact Or.inr h

/-- the border colours of EVERY component are collected (repo fix: formerly the bodies' only) -/
theorem border_colors_collected {d : Doc} {k : Comp} (hk : k ∈ components d) {a : Attr} (ha : a ∈ k.borderColors)
    {v : String} (hv : v ∈ a.colors) : v ∈ collect d := by
  rw [collect, mem_dedup]
  simp only [Doc.allColors, List.mem_append, List.mem_flatMap]
  unfold components at hk
  simp only [List.mem_append] at hk
  rcases hk with (h | h) | h
  · left; left
    exact ⟨k, h, Or.inr ⟨a, ha, hv⟩⟩
  · left; right
    exact ⟨k, h, Or.inr ⟨a, ha, hv⟩⟩
  · right
    exact ⟨k, h, Or.inr ⟨a, ha, hv⟩⟩

/-! ## resolution of one reference against the table of a (re-enumerated) collected list -/

/-- "reference `i` resolves to colour `c` in the table printed from `rows`": an existing entry, which is the
dictionaries' own row for `c`, and whose printed code reads back as the RGB recorded for `c` -/
structure Resolves (tbl rows : List ColorRow) (c : String) (i : Nat) : Prop where
  pos : 1 ≤ i
  le : i ≤ rows.length
  entry : ∃ row, rows[i - 1]? = some row ∧ row.name = c ∧ lookupRow tbl c = some row ∧
    seenRgb row = requestedRgb tbl c ∧ requestedRgb tbl c = some (rowRgb row)

theorem rtfColorIndex_ctx {tbl : List ColorRow} {u : List String} {rows : List ColorRow} {c : String}
    (hs : significant c = true) (hc : c ∈ u) (hr : tableRows tbl u = .ok rows) :
    rtfColorIndex tbl (some u) c none = .ok (indexIn rows c) ∧
    rtfColorIndex tbl none c (some u) = .ok (indexIn rows c) := by
  have hne : (filtered u).isEmpty = false := by
    have : c ∈ filtered u := by simp [filtered, List.mem_filter, hc, hs]
    cases hf : filtered u with
    | nil => rw [hf] at this; cases this
    | cons _ _ => rfl
  simp [rtfColorIndex, hs, hne, hr]

theorem resolves_of_mem {tbl : List ColorRow} (hI : IdxInj tbl)
    (hS : ∀ row ∈ tbl, seenRgb row = some (rowRgb row))
    {u₁ u₂ : List String} (hp : u₁.Perm u₂) {rows : List ColorRow} (hr : tableRows tbl u₁ = .ok rows)
    {c : String} (hc : c ∈ u₂) (hs : significant c = true) :
    utilsColorIndex tbl (some u₂) c none = indexIn rows c ∧
    Resolves tbl rows c (indexIn rows c) := by
  have hr₂ : tableRows tbl u₂ = .ok rows := by
    rcases tableRows_perm hI hp with h | ⟨e₁, _, h, _⟩
    · rw [← h]; exact hr
    · rw [hr] at h; cases h
  have hidx := (rtfColorIndex_ctx hs hc hr₂).1
  have hmem : c ∈ rows.map (·.name) := by
    apply (tableRows_ok hr₂).2.1.mem_iff.mpr
    simp [filtered, List.mem_filter, hc, hs]
  obtain ⟨h1, h2, row, hrow, hname⟩ := indexIn_spec hmem
  have hrowmem : row ∈ rows := List.mem_of_getElem? hrow
  have hlook : lookupRow tbl c = some row := by
    have := (tableRows_ok hr₂).2.2.1 row hrowmem
    rwa [hname] at this
  have htbl : row ∈ tbl := (lookupRow_some hlook).1
  refine ⟨by simp [utilsColorIndex, hs, hidx], h1, h2, row, hrow, hname, hlook, ?_, ?_⟩
  · simp [requestedRgb, hlook, hS row htbl, rowRgb]
  · simp [requestedRgb, hlook, rowRgb]

theorem utilsColorIndex_default (tbl : List ColorRow) (ctx : Option (List String)) (c : String)
    (used : Option (List String)) (h : significant c = false) : utilsColorIndex tbl ctx c used = 0 := by
  simp [utilsColorIndex, h]

/-- no reference ever points past the end of the table printed for the same collected list -/
theorem utilsColorIndex_le {tbl : List ColorRow} {u : List String} {rows : List ColorRow}
    (hr : tableRows tbl u = .ok rows) (c : String) : utilsColorIndex tbl (some u) c none ≤ rows.length := by
  simp only [utilsColorIndex]
  split
  · omega
  · rename_i hs
    have hs' : significant c = true := by simpa using hs
    cases he : (filtered u).isEmpty with
    | true => simp [rtfColorIndex, hs', he]
    | false =>
      simp only [rtfColorIndex, hs', he, hr]
      exact indexIn_le rows c

end Proofs.Color
