import Model.Escape
import Model.Emit
import Model.EscNodes
import Proofs.Rtf
import Proofs.Escape
import Proofs.Emit
/-!
Helper lemmas for `Props/C01esc.lean`: the escaper's output as syntax nodes (`Model/EscNodes.lean`) prints to the
escaper's bytes, is a valid text hole and has the `\uc1\uN*` form.
-/
namespace Proofs.EscNodes
open Model.Rtf Model.Emit Model.Escape Model.EscNodes

/-! ### the two decimal printers agree -/

theorem toNat_ofNat_ascii (n : Nat) (h : n < 128) : (Char.ofNat n).toNat = n := by
  have hv : n.isValidChar := Or.inl (by omega)
  simp [Char.ofNat, hv, Char.toNat, Char.ofNatAux]

theorem natDigitsAux_agree : ∀ (fuel n : Nat) (acc : List Char) (acc' : List Nat),
    acc.map Char.toNat = acc'.map (· + 48) →
    (Model.Rtf.natDigitsAux fuel n acc).map Char.toNat = (Model.Escape.natDigitsAux fuel n acc').map (· + 48) := by
  intro fuel
  induction fuel with
  | zero => intro n acc acc' h; simpa [Model.Rtf.natDigitsAux, Model.Escape.natDigitsAux] using h
  | succ fuel ih =>
    intro n acc acc' h
    have hd : n % 10 < 10 := Nat.mod_lt _ (by omega)
    unfold Model.Rtf.natDigitsAux Model.Escape.natDigitsAux
    by_cases h10 : n < 10
    · have h0 : n / 10 = 0 := by omega
      have hm : n % 10 = n := by omega
      have hc := Proofs.Rtf.toNat_digit _ hd
      rw [hm] at hc
      simp only [h0, if_true, h10, List.map_cons, h, hm, hc]
      congr 1; omega
    · have h0 : ¬ n / 10 = 0 := by omega
      simp only [h0, if_false, h10]
      apply ih
      simp only [List.map_cons, h, Proofs.Rtf.toNat_digit _ hd]
      congr 1; omega

theorem natDigits_agree (n : Nat) :
    (Model.Rtf.natDigits n).map Char.toNat = (Model.Escape.natDigits n).map (· + 48) :=
  natDigitsAux_agree _ _ _ _ rfl

theorem intDigits_agree (k : Int) : (intDigits k).map Char.toNat = intRepr k := by
  cases k with
  | ofNat n =>
    have h : ¬ (Int.ofNat n < 0) := by simp
    simp only [intDigits, intRepr, h, if_false, Int.natAbs_ofNat', natDigits_agree]
  | negSucc n =>
    have h : Int.negSucc n < 0 := Int.negSucc_lt_zero n
    simp only [intDigits, intRepr, h, if_true, List.map_cons, natDigits_agree, Int.natAbs_negSucc]
    rfl

/-! ### the nodes of one code unit / one code point -/

/-- `\uc1\uN*` for one UTF-16 code unit -/
def unitNodes (u : Nat) : List Node := [cwi "uc" 1, cwi "u" (signed16 u), Node.txt ['*']]

theorem escNodesCp_ascii (n : Nat) (h : n < 128) : escNodesCp n = [Node.txt [Char.ofNat n]] := by
  simp [escNodesCp, h]

theorem escNodesCp_high (n : Nat) (h : ¬ n < 128) : escNodesCp n = (codeUnits n).flatMap unitNodes := by
  simp only [escNodesCp, h, if_false]; rfl

theorem escNodes_cons (n : Nat) (t : List Nat) : escNodes (n :: t) = escNodesCp n ++ escNodes t := by
  simp [escNodes]

/-! ### printing -/

theorem printNodes_flatMap {α : Type} (l : List α) (f : α → List Node) :
    printNodes (l.flatMap f) = l.flatMap (fun x => printNodes (f x)) := by
  induction l with
  | nil => simp [printNodes]
  | cons x l ih => simp only [List.flatMap_cons, Proofs.Emit.printNodes_append, ih]

theorem print_unit (u : Nat) : (printNodes (unitNodes u)).map Char.toNat = escUnit u := by
  have e1 : "uc".toList = ['u', 'c'] := by decide
  have e2 : "u".toList = ['u'] := by decide
  have e3 : intDigits 1 = ['1'] := by decide
  simp only [unitNodes, cwi, printNodes, printNode, e1, e2, e3, escUnit, List.map_append, List.map_cons,
    List.map_nil, intDigits_agree, List.append_nil, List.cons_append, List.nil_append, Bool.false_eq_true, if_false]
  rfl

theorem print_escNodesCp (n : Nat) : (printNodes (escNodesCp n)).map Char.toNat = escapeCp n := by
  by_cases h : n < 128
  · simp [escNodesCp_ascii n h, escapeCp, h, printNodes, printNode, toNat_ofNat_ascii n h]
  · rw [escNodesCp_high n h, printNodes_flatMap]
    simp only [escapeCp, h, if_false, List.map_flatMap, print_unit]

theorem print_escNodes (t : List Nat) : (printNodes (escNodes t)).map Char.toNat = escape t := by
  simp only [escNodes, escape, printNodes_flatMap, List.map_flatMap, print_escNodesCp]

/-! ### text hole -/

theorem safeChar_ofNat (n : Nat) (h : n < 128) (hp : plainCp n = true) : safeChar (Char.ofNat n) = true := by
  simp only [plainCp, Bool.and_eq_true, bne_iff_ne, ne_eq] at hp
  obtain ⟨⟨⟨⟨h1, h2⟩, h3⟩, h4⟩, h5⟩ := hp
  have ht := toNat_ofNat_ascii n h
  have key : ∀ c : Char, n ≠ c.toNat → Char.ofNat n ≠ c := by
    intro c hc e
    rw [e] at ht
    exact hc ht.symm
  simp only [safeChar, Bool.and_eq_true, bne_iff_ne, ne_eq]
  exact ⟨⟨⟨⟨key '\\' h1, key '{' h2⟩, key '}' h3⟩, key '\n' h4⟩, key '\r' h5⟩

theorem plain_unit (u : Nat) : plainNodes (unitNodes u) = true := by
  have e1 : tableWord "uc".toList = false := by decide
  have e2 : tableWord "u".toList = false := by decide
  simp only [unitNodes, cwi, plainNodes, plainNode, e1, e2, Bool.not_false, Bool.and_self]

theorem plainNodes_flatMap {α : Type} (l : List α) (f : α → List Node) (h : ∀ x ∈ l, plainNodes (f x) = true) :
    plainNodes (l.flatMap f) = true := by
  induction l with
  | nil => simp [plainNodes]
  | cons x l ih =>
    rw [List.flatMap_cons, Proofs.Emit.plainNodes_append, h x (by simp), ih (fun y hy => h y (by simp [hy]))]
    rfl

theorem plain_escNodesCp (n : Nat) : plainNodes (escNodesCp n) = true := by
  by_cases h : n < 128
  · simp [escNodesCp_ascii n h, plainNodes, plainNode]
  · rw [escNodesCp_high n h]
    exact plainNodes_flatMap _ _ (fun u _ => plain_unit u)

theorem plain_escNodes (t : List Nat) : plainNodes (escNodes t) = true :=
  plainNodes_flatMap _ _ (fun n _ => plain_escNodesCp n)

theorem nodesOk_flatMap {α : Type} (l : List α) (f : α → List Node)
    (h : ∀ x ∈ l, ∀ after, nodesOk (f x) after = true) : ∀ after, nodesOk (l.flatMap f) after = true := by
  induction l with
  | nil => intro after; simp [nodesOk]
  | cons x l ih =>
    intro after
    rw [List.flatMap_cons, Proofs.Emit.nodesOk_append, h x (by simp), ih (fun y hy => h y (by simp [hy]))]
    rfl

theorem nodesOk_unit (u : Nat) (after : Option Char) : nodesOk (unitNodes u) after = true := by
  have e1 : nameOk "uc".toList = true := by decide
  have e2 : nameOk "u".toList = true := by decide
  have e3 : ∀ k : Int, badAfter (some k) '\\' = false := by intro k; simp only [badAfter]; decide
  have e4 : ∀ k : Int, badAfter (some k) '*' = false := by intro k; simp only [badAfter]; decide
  have e6 : nodesOk [] after = true := by simp [nodesOk]
  have e5 : safeChar '*' = true := by decide
  have n2 : Proofs.Emit.nextChar [Node.txt ['*']] after = some '*' := by
    simp [Proofs.Emit.nextChar, printNodes, printNode]
  simp only [unitNodes, cwi, Proofs.Emit.nodesOk_cons, Proofs.Emit.nextChar_cw, n2, nodeOk, e1, e2, e3, e4, e6,
    List.all_cons, List.all_nil, e5, Bool.and_self, Bool.not_false, Bool.or_true]

theorem nodesOk_escNodesCp (n : Nat) (hp : plainCp n = true) (after : Option Char) :
    nodesOk (escNodesCp n) after = true := by
  by_cases h : n < 128
  · simp [escNodesCp_ascii n h, Proofs.Emit.nodesOk_cons, nodeOk, nodesOk, safeChar_ofNat n h hp]
  · rw [escNodesCp_high n h]
    exact nodesOk_flatMap _ _ (fun u _ a => nodesOk_unit u a) after

theorem nodesOk_escNodes (t : List Nat) (hp : ∀ n ∈ t, plainCp n = true) (after : Option Char) :
    nodesOk (escNodes t) after = true :=
  nodesOk_flatMap _ _ (fun n hn a => nodesOk_escNodesCp n (hp n hn) a) after

/-! ### `\u` form -/

theorem uFormAux_unit (u : Nat) (hu : u < 65536) (fuel : Nat) (rest : List Node) :
    uFormAux (fuel + 1) (unitNodes u ++ rest) = uFormAux fuel rest := by
  have e1 : ("uc".toList == "uc".toList) = true := by decide
  have e2 : ("u".toList == "u".toList) = true := by decide
  obtain ⟨hlo, hhi⟩ := Proofs.Escape.signed16_range u hu
  simp only [unitNodes, cwi, List.cons_append, List.nil_append, uFormAux, e1, e2, if_true, hlo, hhi, decide_true,
    Bool.true_and]

theorem uFormAux_units (us : List Nat) (hu : ∀ u ∈ us, u < 65536) : ∀ (fuel : Nat) (rest : List Node),
    uFormAux (fuel + us.length) (us.flatMap unitNodes ++ rest) = uFormAux fuel rest := by
  induction us with
  | nil => intro fuel rest; simp
  | cons u us ih =>
    intro fuel rest
    rw [List.flatMap_cons, List.append_assoc, List.length_cons, ← Nat.add_assoc,
      uFormAux_unit u (hu u (by simp)), ih (fun v hv => hu v (by simp [hv]))]

theorem codeUnits_length (n : Nat) : 1 ≤ (codeUnits n).length := by
  unfold codeUnits; split <;> simp

theorem length_unitNodes (us : List Nat) : (us.flatMap unitNodes).length = 3 * us.length := by
  induction us with
  | nil => simp
  | cons u us ih => simp only [List.flatMap_cons, List.length_append, ih, unitNodes, List.length_cons,
      List.length_nil]; omega

/-- enough fuel: any fuel ≥ the number of code points suffices (the list length is more than that) -/
theorem uFormAux_escNodes (t : List Nat) (hs : ∀ n ∈ t, isScalar n = true) :
    ∀ fuel, (escNodes t).length ≤ fuel → uFormAux fuel (escNodes t) = true := by
  induction t with
  | nil => intro fuel _; cases fuel <;> simp [escNodes, uFormAux]
  | cons n t ih =>
    intro fuel hf
    have ih' := ih (fun m hm => hs m (by simp [hm]))
    rw [escNodes_cons] at hf ⊢
    by_cases h : n < 128
    · rw [escNodesCp_ascii n h] at hf ⊢
      cases fuel with
      | zero => simp at hf
      | succ f =>
        simp only [List.cons_append, List.nil_append, uFormAux]
        apply ih'
        simp only [List.cons_append, List.nil_append, List.length_cons] at hf
        omega
    · rw [escNodesCp_high n h] at hf ⊢
      have hn : n < 0x110000 := by
        have := hs n (by simp)
        simp only [isScalar, Bool.or_eq_true, Bool.and_eq_true, decide_eq_true_eq] at this
        omega
      have hl := codeUnits_length n
      rw [List.length_append, length_unitNodes] at hf
      obtain ⟨f, rfl⟩ : ∃ f, fuel = f + (codeUnits n).length := ⟨fuel - (codeUnits n).length, by omega⟩
      rw [uFormAux_units _ (Proofs.Escape.codeUnits_lt n hn)]
      apply ih'
      omega

theorem uForm_escNodes (t : List Nat) (hs : ∀ n ∈ t, isScalar n = true) : uForm (escNodes t) = true :=
  uFormAux_escNodes t hs _ (Nat.le_refl _)

end Proofs.EscNodes
