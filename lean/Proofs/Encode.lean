import Model.Encode
import Model.EncodeDomain
import Proofs.Rtf
import Proofs.Emit
import Proofs.Widths
import Proofs.LexNodes
import Proofs.ConvNodes
import Proofs.EncodeAux
import Proofs.EncodeLayout
/-!
Helper lemmas for `Props/C01enc.lean`: every block the whole-encoder model (`Model/Encode.lean`) emits for a document
in the domain (`Model/EncodeDomain.lean`) satisfies the grammar's side conditions, hence `docOk (encode …)`.
-/
namespace Proofs.Encode
open Model.Rtf Model.Emit Model.Encode Model.EncodeDomain Model.Broadcast Generated Proofs.Emit Proofs.ConvNodes

/-! ### the `Except` monad -/

theorem bind_ok {ε α β : Type} {x : Except ε α} {f : α → Except ε β} {b : β} (h : (x >>= f) = .ok b) :
    ∃ a, x = .ok a ∧ f a = .ok b := by
  cases x with
  | error e => simp [bind, Except.bind] at h
  | ok a => exact ⟨a, rfl, h⟩

theorem map_ok {ε α β : Type} {x : Except ε α} {f : α → β} {b : β} (h : (f <$> x) = .ok b) :
    ∃ a, x = .ok a ∧ f a = b := by
  cases x with
  | error e => simp [Functor.map, Except.map] at h
  | ok a => exact ⟨a, rfl, by simpa [Functor.map, Except.map] using h⟩

theorem pure_ok {ε α : Type} {a b : α} (h : (pure a : Except ε α) = .ok b) : a = b := by
  simpa [pure, Except.pure] using h

theorem throw_ok {ε α : Type} {e : ε} {b : α} (h : (throw e : Except ε α) = .ok b) : False := by
  simp [throw, throwThe, MonadExceptOf.throw] at h

/-- `peel h as a ha`: from `h : (do let a ← x; f a) = .ok r` get `ha : x = .ok a` and `h : f a = .ok r` -/
macro "peel " h:ident " as " a:Lean.Parser.Tactic.rcasesPatLo ppSpace ha:Lean.Parser.Tactic.rcasesPatLo : tactic =>
  `(tactic| (have h_peel := bind_ok $h; clear $h; obtain ⟨$a, $ha, h_new⟩ := h_peel; have $h:ident := h_new;
             clear h_new))

/-- pointwise relation of two lists -/
inductive All2 {α β : Type} (R : α → β → Prop) : List α → List β → Prop
  | nil : All2 R [] []
  | cons {a b l r} : R a b → All2 R l r → All2 R (a :: l) (b :: r)

theorem mapM_ok {ε α β : Type} {f : α → Except ε β} : ∀ {l : List α} {r : List β}, l.mapM f = .ok r →
    All2 (fun a b => f a = .ok b) l r := by
  intro l
  induction l with
  | nil => intro r h; simp only [List.mapM_nil] at h; cases pure_ok h; exact .nil
  | cons x l ih =>
    intro r h
    rw [List.mapM_cons] at h
    peel h as y hy
    peel h as ys hys
    cases pure_ok h
    exact .cons hy (ih hys)

theorem all2_mem_right {α β : Type} {R : α → β → Prop} {l : List α} {r : List β} (h : All2 R l r) :
    ∀ b ∈ r, ∃ a ∈ l, R a b := by
  induction h with
  | nil => intro b hb; cases hb
  | cons hab _ ih =>
    intro b hb
    cases hb with
    | head => exact ⟨_, List.mem_cons_self, hab⟩
    | tail _ hb' =>
      obtain ⟨a, ha, hr⟩ := ih b hb'
      exact ⟨a, List.mem_cons_of_mem _ ha, hr⟩

theorem mapM_mem {ε α β : Type} {f : α → Except ε β} {l : List α} {r : List β} (h : l.mapM f = .ok r) :
    ∀ b ∈ r, ∃ a ∈ l, f a = .ok b :=
  all2_mem_right (mapM_ok h)

/-! ### the code tables -/

/-- a control-word name an emitter may take from a code table: letters, no table word, not `u` / `uc` -/
def goodWord (w : List Char) : Bool := wordOk w && !uWord w

def optGood (w : List Char) : Bool := w.isEmpty || goodWord w

theorem lookup_mem {β : Type} {l : List (String × β)} {k : String} {v : β} (h : l.lookup k = some v) : (k, v) ∈ l := by
  induction l with
  | nil => simp at h
  | cons x l ih =>
    obtain ⟨a, b⟩ := x
    simp only [List.lookup] at h
    split at h
    · next he =>
      have : k = a := by simpa using he
      subst this
      cases h
      exact List.mem_cons_self
    · exact List.mem_cons_of_mem _ (ih h)

theorem textJust_table : textJustCodes.all (fun kv => optGood (codeWord kv.2)) = true := by decide
theorem rowJust_table : rowJustCodes.all (fun kv => optGood (codeWord kv.2)) = true := by decide
theorem border_table : borderCodes.all (fun kv => optGood (codeWord kv.2)) = true := by decide
theorem vertAlign_table : vertAlignCodes.all (fun kv => (codeWords kv.2).all goodWord) = true := by decide
theorem format_table : formatCodes.all (fun kv => kv.1 == "" || goodWord (codeWord kv.2)) = true := by decide

theorem goodWord_wordOk {w : List Char} (h : goodWord w = true) : wordOk w = true := by
  simp only [goodWord, Bool.and_eq_true] at h; exact h.1

theorem goodWord_notU {w : List Char} (h : goodWord w = true) : notU w = true := by
  simp only [goodWord, Bool.and_eq_true] at h; exact h.2

theorem optGood_ok {w : List Char} (h : optGood w = true) :
    (w.isEmpty || wordOk w) = true ∧ (optWord w).all notU = true := by
  simp only [optGood, Bool.or_eq_true] at h
  rw [optWord_all]
  rcases h with h | h
  · simp [h]
  · simp [goodWord_wordOk h, goodWord_notU h]

/-! ### resolution of attribute values -/

theorem resolveText_ok {k : ColorCtx} {v : TextVals} {tf : TextFmt} {conv : Bool}
    (h : resolveText k v = .ok (tf, conv)) :
    textFmtOk tf = true ∧ (textWords tf).all notU = true ∧ v.convert.toBool = .ok conv := by
  unfold resolveText at h
  peel h as font h1
  peel h as size h2
  peel h as format h3
  peel h as color h4
  peel h as bg h5
  peel h as just h6
  peel h as fi h7
  peel h as li h8
  peel h as ri h9
  peel h as space h10
  peel h as sb h11
  peel h as sa h12
  peel h as conv' h13
  peel h as hyph h14
  dsimp only at h
  split at h
  · next jc hjc =>
    simp only [pure_bind] at h
    have hj := optGood_ok (by simpa using List.all_eq_true.mp textJust_table _ (lookup_mem hjc))
    split at h
    · cases pure_ok h
      refine ⟨?_, ?_, h13⟩
      · simp only [textFmtOk, hj.1, List.all_nil, Bool.and_self]
      · simp only [textWords, List.append_nil, hj.2]
    · next f =>
      peel h as fmts hf
      cases pure_ok h
      have hfm : ∀ w ∈ fmts, goodWord w = true := by
        intro w hw
        obtain ⟨ch, _, hch⟩ := mapM_mem hf w hw
        split at hch
        · next c hc =>
          cases pure_ok hch
          have := List.all_eq_true.mp format_table _ (lookup_mem hc)
          simp only [Bool.or_eq_true, beq_iff_eq] at this
          rcases this with e | e
          · have := congrArg String.toList e
            simp at this
          · exact e
        · exact (throw_ok hch).elim
      refine ⟨?_, ?_, h13⟩
      · simp only [textFmtOk, hj.1, Bool.true_and, List.all_eq_true]
        exact fun w hw => goodWord_wordOk (hfm w hw)
      · simp only [textWords, List.all_append, hj.2, Bool.true_and, List.all_eq_true]
        exact fun w hw => goodWord_notU (hfm w hw)
  · peel h as x hx
    exact (throw_ok hx).elim

theorem throw_bind' {ε α β : Type} (e : ε) (f : α → Except ε β) : (throw e >>= f) = Except.error e := rfl

theorem resolveBorder_ok {k : ColorCtx} {st w c : Val} {b : BorderFmt} (h : resolveBorder k st w c = .ok b) :
    borderOk b = true ∧ (optWord b.style).all notU = true := by
  unfold resolveBorder at h
  peel h as s h1
  dsimp only at h
  simp only [pure_bind, throw_bind'] at h
  have key : ∀ (wd : Int) (col : Option Int), (match List.lookup s borderCodes with
      | some code => (pure { style := codeWord code, width := wd, color := col } : Except String BorderFmt)
      | none => throw "ValueError") = Except.ok b → borderOk b = true ∧ (optWord b.style).all notU = true := by
    intro wd col h
    split at h
    · next code hc =>
      cases pure_ok h
      have hj := optGood_ok (by simpa using List.all_eq_true.mp border_table _ (lookup_mem hc))
      exact ⟨by simpa [borderOk] using hj.1, hj.2⟩
    · exact (throw_ok h).elim
  split at h
  · split at h
    · exact key _ _ h
    · exact key _ _ h
    · split at h
      · cases h
      · exact key _ _ h
  · peel h as wd hw
    split at h
    · exact key _ _ h
    · exact key _ _ h
    · split at h
      · cases h
      · exact key _ _ h

theorem resolveVJust_ok {v : Val} {ws : List (List Char)} (h : resolveVJust v = .ok ws) :
    ws.all wordOk = true ∧ ws.all notU = true := by
  unfold resolveVJust at h
  split at h
  · cases h; simp
  · split at h
    · next code hc =>
      cases h
      have := List.all_eq_true.mp vertAlign_table _ (lookup_mem hc)
      simp only [List.all_eq_true] at this ⊢
      exact ⟨fun w hw => goodWord_wordOk (this w hw), fun w hw => goodWord_notU (this w hw)⟩
    · cases h
  · cases h

theorem resolveRowJust_ok {v : Val} {w : List Char} (h : resolveRowJust v = .ok w) :
    (w.isEmpty || wordOk w) = true ∧ (optWord w).all notU = true := by
  unfold resolveRowJust at h
  peel h as s h1
  split at h
  · next code hc =>
    cases pure_ok h
    exact optGood_ok (by simpa using List.all_eq_true.mp rowJust_table _ (lookup_mem hc))
  · exact (throw_ok h).elim

/-! ### the values a `convert` flag can take -/

theorem toNested_mem {a : Attr} {m : Mat Val} (h : a.toNested = .ok (some m)) :
    ∀ row ∈ m, ∀ v ∈ row, v ∈ attrVals a := by
  intro row hrow v hv
  cases a with
  | null => simp [Attr.toNested] at h
  | scalar x =>
    simp only [Attr.toNested] at h
    split at h
    · cases h
      simp only [List.mem_cons, List.not_mem_nil, or_false] at hrow
      subst hrow
      simpa [attrVals] using hv
    · cases h
  | list xs =>
    simp only [Attr.toNested] at h
    split at h
    · cases h
      simp only [List.mem_cons, List.not_mem_nil, or_false] at hrow
      subst hrow
      simpa [attrVals] using hv
    · split at h
      · cases h; cases hrow
      · cases h
  | tuple xs =>
    simp only [Attr.toNested] at h
    cases h
    obtain ⟨x, hx, rfl⟩ := List.mem_map.mp hrow
    simp only [List.mem_cons, List.not_mem_nil, or_false] at hv
    subst hv
    simpa [attrVals] using hx
  | nested mm =>
    simp only [Attr.toNested] at h
    cases h
    simp only [attrVals, List.mem_flatten]
    exact ⟨row, hrow, hv⟩

/-- the values of a matrix attribute -/
def MemV (M : MatV) (v : Val) : Prop := ∃ m, M = some m ∧ ∃ row ∈ m, v ∈ row

theorem memV_flag {a : Attr} {M : MatV} {v : Val} {b : Bool} (ha : a.toNested = .ok M) (hv : MemV M v)
    (hb : v.toBool = .ok b) : b ∈ convFlags a := by
  obtain ⟨m, rfl, row, hrow, hvr⟩ := hv
  have := toNested_mem ha row hrow v hvr
  simp only [convFlags, List.mem_append, List.mem_filterMap]
  exact Or.inr ⟨v, this, by simp [hb]⟩

theorem toNested_none {a : Attr} (ha : a.toNested = .ok none) : false ∈ convFlags a := by
  cases a with
  | null => simp [convFlags]
  | scalar x =>
    cases x <;> simp [Attr.toNested, Val.isScalar] at ha
    simp [convFlags]
  | list xs =>
    simp only [Attr.toNested] at ha
    split at ha
    · cases ha
    · split at ha <;> cases ha
  | tuple xs => simp [Attr.toNested] at ha
  | nested m => simp [Attr.toNested] at ha

theorem ilocV_memV {M : MatV} {r c : Nat} {v : Val} (h : ilocV M r c = .ok v) : (M = none ∧ v = .null) ∨ MemV M v :=
  Proofs.EncodeAux.ilocV_mem M r c v h

theorem null_toBool {b : Bool} (h : Val.null.toBool = .ok b) : False := by simp [Val.toBool] at h

/-! ### cells -/

theorem textValsAt_convert {a : TextAttrsOf MatV} {r c : Nat} {tv : TextVals} (h : textValsAt a r c = .ok tv) :
    ilocV a.convert r c = .ok tv.convert := by
  unfold textValsAt at h
  peel h as x1 h1
  peel h as x2 h2
  peel h as x3 h3
  peel h as x4 h4
  peel h as x5 h5
  peel h as x6 h6
  peel h as x7 h7
  peel h as x8 h8
  peel h as x9 h9
  peel h as x10 h10
  peel h as x11 h11
  peel h as x12 h12
  peel h as x13 h13
  peel h as x14 h14
  cases pure_ok h
  exact h13

theorem mk_ok {k : ColorCtx} {st col : MatV} {r j : Nat} {bw : Val} {x : BorderFmt}
    (h : (do let a ← ilocV st r j; let b ← ilocV col r j; resolveBorder k a bw b) = .ok x) :
    borderOk x = true ∧ (optWord x.style).all notU = true := by
  peel h as a ha
  peel h as b hb
  exact resolveBorder_ok h

/-- what the row lemmas need of a cell -/
def CellGood (c : CellFmt) : Prop := cellOk c = true ∧ (cellWords c).all notU = true ∧ UNeutral c.body

theorem cellGood_mk {tf : TextFmt} {body : List Node} {vj : List (List Char)} {l t r b : Option BorderFmt} {x : Int}
    (htf : textFmtOk tf = true ∧ (textWords tf).all notU = true) (hb : HoleOk body)
    (hvj : vj.all wordOk = true ∧ vj.all notU = true)
    (hbd : ∀ o ∈ [l, t, r, b], ∀ bf, o = some bf → borderOk bf = true ∧ (optWord bf.style).all notU = true) :
    CellGood { left := l, top := t, right := r, bottom := b, valign := vj, cellx := x, text := tf, body := body } := by
  have hbo : ∀ o ∈ [l, t, r, b], (match o with | some bf => borderOk bf | none => true) = true ∧
      (borderWords o).all notU = true := by
    intro o ho
    cases o with
    | none => simp [borderWords]
    | some bf => exact ⟨(hbd _ ho bf rfl).1, by simpa [borderWords] using (hbd _ ho bf rfl).2⟩
  have hl := hbo l (by simp)
  have ht := hbo t (by simp)
  have hr := hbo r (by simp)
  have hbb := hbo b (by simp)
  refine ⟨?_, ?_, hb.2.2⟩
  · simp only [cellOk, textOk, htf.1, hb.1, hb.2.1, hvj.1, List.all_cons, List.all_nil, Bool.and_true, Bool.true_and,
      Bool.and_eq_true]
    exact ⟨hl.1, ht.1, hr.1, hbb.1⟩
  · simp only [cellWords, List.all_append, htf.2, hvj.2, hl.2, ht.2, hr.2, hbb.2, Bool.and_self]

theorem encodeCell_ok {k : ColorCtx} {A : TblAttrsOf MatV} {r j : Nat} {isLast : Bool} {text : Model.Encode.Str}
    {width : Option Rat} {c : CellFmt} (h : encodeCell k A r j isLast text width = .ok c)
    (htxt : ∀ v b, ilocV A.convert r j = .ok v → v.toBool = .ok b → txtOk b text = true) :
    CellGood c ∧ ∃ w, width = some w ∧ c.cellx = twip w := by
  unfold encodeCell at h
  peel h as bw h1
  dsimp only at h
  simp only [pure_bind, throw_bind'] at h
  split at h
  · peel h as right hr
    obtain ⟨rb, hrb, rfl⟩ := map_ok hr
    peel h as tv htv
    peel h as x hx
    split at h
    · next w =>
      peel h as left hl
      peel h as top ht
      peel h as bottom hb
      peel h as vjv hvjv
      peel h as vj hvj
      cases pure_ok h
      obtain ⟨f1, f2, f3⟩ := resolveText_ok (show resolveText k tv = .ok (x.1, x.2) from hx)
      refine ⟨cellGood_mk ⟨f1, f2⟩ (hole_txtOk _ _ (htxt _ _ (textValsAt_convert htv) f3)) (resolveVJust_ok hvj) ?_,
        w, rfl, rfl⟩
      intro o ho bf hbf
      simp only [List.mem_cons, List.not_mem_nil, or_false] at ho
      rcases ho with rfl | rfl | rfl | rfl <;> cases hbf
      · exact mk_ok hl
      · exact mk_ok ht
      · exact mk_ok hrb
      · exact mk_ok hb
    · cases h
  · peel h as tv htv
    peel h as x hx
    split at h
    · next w =>
      peel h as left hl
      peel h as top ht
      peel h as bottom hb
      peel h as vjv hvjv
      peel h as vj hvj
      cases pure_ok h
      obtain ⟨f1, f2, f3⟩ := resolveText_ok (show resolveText k tv = .ok (x.1, x.2) from hx)
      refine ⟨cellGood_mk ⟨f1, f2⟩ (hole_txtOk _ _ (htxt _ _ (textValsAt_convert htv) f3)) (resolveVJust_ok hvj) ?_,
        w, rfl, rfl⟩
      intro o ho bf hbf
      simp only [List.mem_cons, List.not_mem_nil, or_false] at ho
      rcases ho with rfl | rfl | rfl | rfl <;> cases hbf
      · exact mk_ok hl
      · exact mk_ok ht
      · exact mk_ok hb
    · cases h

/-! ### elements of the page list -/

/-- an element of the list the renderer joins: every block satisfies the grammar's block condition, all its nodes are
frame nodes (control words, newlines, adjacency-closed groups) and it leaves the `\u` state untouched -/
def ElemOk (e : Elem) : Prop :=
  (∀ b ∈ e, blockOk b = true) ∧ (e.flatMap blockNodes).all frameNode = true ∧ UNeutral (e.flatMap blockNodes)

theorem elemOk_plain (ns : List Node) (h1 : plainNodes ns = true) (h2 : ns.all frameNode = true) (h3 : UNeutral ns) :
    ElemOk [BlockG.plain ns] := by
  refine ⟨?_, ?_, ?_⟩
  · intro b hb
    simp only [List.mem_cons, List.not_mem_nil, or_false] at hb
    subst hb
    exact h1
  · simpa [blockNodes] using h2
  · simpa [blockNodes] using h3

theorem plainRun_uNeutral' (t : TextFmt) (text : List Node) (ht : (textWords t).all notU = true)
    (hu : UNeutral text) : UNeutral (plainRun t text) := by
  have hw := noU_of_cwOnly _ (cwOnly_of_isCw _ _ (runWords_cw notU fixed_notU t ht))
  apply uNeutral_cons
  · exact uNeutral_noU _ (noU_cwi _ _ (by decide))
  · apply uNeutral_grp
    apply uNeutral_congr _ (runWords t ++ text)
    · rw [Proofs.Rtf.toksNodes_append, Proofs.Rtf.toksNodes_append, toksNodes_withSpace]
    · exact uNeutral_append _ _ (uNeutral_noU _ hw) hu

theorem cellContent_uNeutral' (t : TextFmt) (text : List Node) (ht : (textWords t).all notU = true)
    (hu : UNeutral text) : UNeutral (cellContent t text) := by
  have hp := noU_of_cwOnly _ (paraFormat_cw notU fixed_notU t ht)
  apply uNeutral_cons _ _ (uNeutral_noU _ (by decide))
  apply uNeutral_cons _ _ (uNeutral_noU _ (by decide))
  exact uNeutral_append _ _ (uNeutral_noU _ hp) (plainRun_uNeutral' t text ht hu)

theorem row_uNeutral' (r : RowFmt) (hn : rowNoU r = true) (hu : ∀ c ∈ r.cells, UNeutral c.body) :
    UNeutral (rowNodesFull r) := by
  have hw : (rowWords r).all notU = true := hn
  apply rowNodes_uNeutral _ _ _ (uNeutral_noU _ (noU_of_cwOnly _ (rowHead_cw notU fixed_notU r hw)))
    (uNeutral_noU _ (noU_of_cwOnly _ (rowMid_cw notU fixed_notU)))
  intro g hg
  obtain ⟨c, hcm, rfl⟩ := List.mem_map.mp hg
  have hcw := cellWords_of_row notU r hw c hcm
  exact ⟨uNeutral_noU _ (noU_of_cwOnly _ (cellDefn_cw notU fixed_notU c hcw)),
    cellContent_uNeutral' _ _ (textWords_of_cell notU c hcw) (hu c hcm)⟩

theorem rowElem_ok (r : RowFmt) (hj : (r.just.isEmpty || wordOk r.just) = true ∧ (optWord r.just).all notU = true)
    (hc : ∀ c ∈ r.cells, CellGood c)
    (hx : cellxOk 0 (r.cells.map fun c => ({ defn := [], cellx := c.cellx, content := [] } : CellG)) = true) :
    ElemOk (rowElem r) := by
  have hro : rowOk r = true := by
    simp only [rowOk, hj.1, hx, Bool.true_and, Bool.and_true, List.all_eq_true]
    exact fun c hcm => (hc c hcm).1
  have hnu : rowNoU r = true := by
    simp only [rowNoU, rowWords, List.all_append, List.all_flatMap, Bool.and_eq_true, List.all_eq_true]
    refine ⟨List.all_eq_true.mp hj.2, fun c hcm => ?_⟩
    exact List.all_eq_true.mp (hc c hcm).2.1
  have e : (rowElem r).flatMap blockNodes = rowNodesFull r := by
    simp [rowElem, rowNodesFull, blockNodes]
  refine ⟨?_, ?_, ?_⟩
  · intro b hb
    simp only [rowElem, List.mem_cons, List.not_mem_nil, or_false] at hb
    rcases hb with rfl | rfl
    · exact row_block_ok r hro
    · decide
  · rw [e]; exact row_frame r hro
  · rw [e]; exact row_uNeutral' r hnu (fun c hcm => (hc c hcm).2.2)

/-! ### rows -/

/-- every prefix of the boundary vector is a valid `\cellx` sequence -/
def CumOk (cum : List Rat) : Prop :=
  ∀ n, cellxOk 0 ((cum.take n).map fun c => ({ defn := [], cellx := twip c, content := [] } : CellG)) = true

theorem all2_length {α β : Type} {R : α → β → Prop} {l : List α} {r : List β} (h : All2 R l r) : r.length = l.length := by
  induction h with
  | nil => rfl
  | cons _ _ ih => simp [ih]

theorem all2_get {α β : Type} {R : α → β → Prop} {l : List α} {r : List β} (h : All2 R l r) :
    ∀ (i : Nat) (a : α), l[i]? = some a → ∃ b, r[i]? = some b ∧ R a b := by
  induction h with
  | nil => intro i a ha; simp at ha
  | cons hab _ ih =>
    intro i a ha
    cases i with
    | zero => simp only [List.getElem?_cons_zero, Option.some.injEq] at ha; subst ha; exact ⟨_, rfl, hab⟩
    | succ i => simp only [List.getElem?_cons_succ] at ha ⊢; exact ih i a ha

theorem encodeRow_ok {k : ColorCtx} {A : TblAttrsOf MatV} {colWidths : List Rat} {r : Nat}
    {cells : List (Option Model.Encode.Str)} {e : Elem} (h : encodeRow k A colWidths r cells = .ok e)
    (hcum : CumOk colWidths)
    (htxt : ∀ (j : Nat) (c : Option Model.Encode.Str), cells[j]? = some c → ∀ v b, ilocV A.convert r j = .ok v →
      v.toBool = .ok b → txtOk b (c.getD []) = true) : ElemOk e := by
  unfold encodeRow at h
  dsimp only at h
  split at h
  · peel h as x hx
    exact (throw_ok hx).elim
  · peel h as cs hcs
    peel h as jv hjv
    peel h as just hjust
    peel h as hv hhv
    peel h as hh hhh
    cases pure_ok h
    have hall := mapM_ok hcs
    have hlen := all2_length hall
    simp only [List.length_zipIdx] at hlen
    have hget : ∀ i c, cells[i]? = some c → ∃ b, cs[i]? = some b ∧
        encodeCell k A r i (i + 1 == cells.length) (c.getD []) colWidths[i]? = .ok b := by
      intro i c hc
      have := all2_get hall i (c, i) (by simp [List.getElem?_zipIdx, hc])
      simpa using this
    apply rowElem_ok _ (resolveRowJust_ok hjust)
    · intro c hc
      have hc' : c ∈ cs := hc
      obtain ⟨i, hi, hci⟩ := List.getElem_of_mem hc'
      have hi' : i < cells.length := by omega
      obtain ⟨b, hb, hbe⟩ := hget i cells[i] (List.getElem?_eq_getElem hi')
      rw [List.getElem?_eq_getElem hi, Option.some.injEq] at hb
      subst hb
      rw [hci] at hbe
      exact (encodeCell_ok hbe (htxt i _ (List.getElem?_eq_getElem hi'))).1
    · have e : cs.map (fun c => c.cellx) = (colWidths.take cells.length).map twip := by
        apply List.ext_getElem?
        intro i
        by_cases hi : i < cells.length
        · obtain ⟨b, hb, hbe⟩ := hget i cells[i] (List.getElem?_eq_getElem hi)
          obtain ⟨w, hw, hcx⟩ := (encodeCell_ok hbe (htxt i _ (List.getElem?_eq_getElem hi))).2
          simp [List.getElem?_map, hb, hcx, hi, hw]
        · have h1 : cs.length ≤ i := by omega
          have h2 : ((colWidths.take cells.length).map twip).length ≤ i := by
            simp only [List.length_map, List.length_take]; omega
          rw [List.getElem?_eq_none (by simpa using h1), List.getElem?_eq_none h2]
      have := hcum cells.length
      have e2 : (cs.map fun c => ({ defn := [], cellx := c.cellx, content := [] } : CellG)) =
          (cs.map (fun c => c.cellx)).map fun x => ({ defn := [], cellx := x, content := [] } : CellG) := by
        simp [List.map_map, Function.comp_def]
      rw [e2, e, List.map_map]
      exact this

/-! ### good node lists (plain, frame nodes, `\u`-neutral) -/

def NG (ns : List Node) : Prop := plainNodes ns = true ∧ ns.all frameNode = true ∧ UNeutral ns

theorem ng_nil : NG [] := ⟨by simp [plainNodes], by simp, uNeutral_nil⟩

theorem ng_append {a b : List Node} (ha : NG a) (hb : NG b) : NG (a ++ b) :=
  ⟨by rw [plainNodes_append, ha.1, hb.1]; rfl, by rw [List.all_append, ha.2.1, hb.2.1]; rfl,
   uNeutral_append _ _ ha.2.2 hb.2.2⟩

theorem ng_cons {n : Node} {b : List Node} (ha : NG [n]) (hb : NG b) : NG (n :: b) := ng_append ha hb

theorem ng_grp {body : List Node} (h : NG body) : NG [Node.grp body] := by
  refine ⟨by simpa [plainNodes, plainNode] using h.1, ?_, uNeutral_grp body h.2.2⟩
  simp only [List.all_cons, frameNode, List.all_nil, Bool.and_true]
  exact nodesOk_frame body (some '}') h.2.1 (by simp only [goodNext]; decide)

theorem ng_cw (w : List Char) (p : Option Int) (sp : Bool) (h : goodWord w = true) : NG [Node.cw w p sp] := by
  simp only [goodWord, wordOk, Bool.and_eq_true, Bool.not_eq_true'] at h
  obtain ⟨⟨h1, h2⟩, h3⟩ := h
  refine ⟨by simp [plainNodes, plainNode, h2], by simp [frameNode, h1], uNeutral_noU _ ?_⟩
  simp only [uWord] at h3
  simp only [noUNodes, noUNode, h3, Bool.not_false, Bool.and_self]

theorem ng_nl : NG [Node.nl] := ⟨by decide, by decide, uNeutral_noU _ (by decide)⟩

theorem ng_of_cwOnly (ns : List Node) (h1 : ns.all (cwOnly nameOk) = true) (h2 : ns.all (cwOnly notTable) = true)
    (h3 : ns.all (cwOnly notU) = true) : NG ns :=
  ⟨plain_of_cwOnly _ h2, frame_of_cwOnly _ h1, uNeutral_noU _ (noU_of_cwOnly _ h3)⟩

theorem elemOk_of_ng {ns : List Node} (h : NG ns) : ElemOk [BlockG.plain ns] := elemOk_plain ns h.1 h.2.1 h.2.2

/-- what the emitters need of a resolved text format -/
def FmtGood (t : TextFmt) : Prop := textFmtOk t = true ∧ (textWords t).all notU = true

theorem ng_paraFormat {t : TextFmt} (h : FmtGood t) : NG (paraFormat t) := by
  have hw := textWords_ok t h.1
  exact ng_of_cwOnly _ (paraFormat_cw nameOk fixed_nameOk t (all_nameOk _ hw))
    (paraFormat_cw notTable fixed_notTable t (all_notTable _ hw)) (paraFormat_cw notU fixed_notU t h.2)

theorem ng_plainRun {t : TextFmt} {text : List Node} (h : FmtGood t) (hx : HoleOk text) : NG (plainRun t text) := by
  have hw := textWords_ok t h.1
  exact ⟨plainRun_plain t text (all_notTable _ hw) hx.1, plainRun_frame t text (all_nameOk _ hw) hx.2.1,
    plainRun_uNeutral' t text h.2 hx.2.2⟩

theorem ng_pard : NG [cw0 "pard"] := ng_cw _ _ _ (by decide)
theorem ng_par : NG [cw0 "par"] := ng_cw _ _ _ (by decide)
theorem ng_line : NG [cw0 "line"] := ng_cw _ _ _ (by decide)

theorem ng_paragraph {t : TextFmt} {text : List Node} (h : FmtGood t) (hx : HoleOk text) : NG [paragraph t text] := by
  unfold paragraph
  apply ng_grp
  exact ng_cons ng_pard (ng_append (ng_append (ng_paraFormat h) (ng_plainRun h hx)) ng_par)

theorem ng_joinLines : ∀ (ls : List (List Node)), (∀ l ∈ ls, NG l) → NG (joinLines ls)
  | [], _ => ng_nil
  | [l], h => h l (by simp)
  | l :: m :: rest, h => by
    show NG (l ++ cw0 "line" :: joinLines (m :: rest))
    exact ng_append (h l (by simp)) (ng_cons ng_line (ng_joinLines (m :: rest) (fun x hx => h x (by simp [hx]))))

theorem ng_linesParagraph {last : TextFmt} {lines : List (TextFmt × List Node)} (hl : FmtGood last)
    (h : ∀ p ∈ lines, FmtGood p.1 ∧ HoleOk p.2) : NG [linesParagraph last lines] := by
  unfold linesParagraph
  apply ng_grp
  refine ng_cons ng_pard (ng_append (ng_append (ng_paraFormat hl) (ng_joinLines _ ?_)) ng_par)
  intro l hlm
  obtain ⟨p, hp, rfl⟩ := List.mem_map.mp hlm
  exact ng_plainRun (h p hp).1 (h p hp).2

/-! ### text components -/

/-- the flags the `convert` attribute matrix can yield -/
def FlagsIn (M : MatV) (F : List Bool) : Prop := ∀ v b, MemV M v → v.toBool = .ok b → b ∈ F

theorem flagsIn_of_toNested {a : Attr} {M : MatV} (ha : a.toNested = .ok M) : FlagsIn M (convFlags a) :=
  fun _ _ hm hb => memV_flag ha hm hb

theorem flagsIn_sub {M M' : MatV} {F : List Bool} (h : FlagsIn M F) (hs : ∀ v, MemV M' v → MemV M v) : FlagsIn M' F :=
  fun v b hm hb => h v b (hs v hm) hb

theorem flagsIn_iloc {M : MatV} {F : List Bool} (h : FlagsIn M F) {r j : Nat} {v : Val} {b : Bool}
    (hv : ilocV M r j = .ok v) (hb : v.toBool = .ok b) : b ∈ F := by
  rcases ilocV_memV hv with ⟨_, rfl⟩ | hm
  · exact (null_toBool hb).elim
  · exact h v b hm hb

theorem resolveLines_ok {k : ColorCtx} {a : TextAttrsOf MatV} {text : List Model.Encode.Str}
    {lines : List (TextFmt × List Node)} {F : List Bool} (h : resolveLines k a text = .ok lines)
    (hF : FlagsIn a.convert F) (ht : ∀ t ∈ text, ∀ b ∈ F, txtOk b t = true) :
    ∀ p ∈ lines, FmtGood p.1 ∧ HoleOk p.2 := by
  intro p hp
  unfold resolveLines at h
  obtain ⟨ti, hti, hf⟩ := mapM_mem h p hp
  have htm := List.fst_mem_of_mem_zipIdx hti
  dsimp only at hf
  peel hf as tv htv
  peel hf as x hx
  cases pure_ok hf
  obtain ⟨f1, f2, f3⟩ := resolveText_ok (show resolveText k tv = .ok (x.1, x.2) from hx)
  exact ⟨⟨f1, f2⟩, hole_txtOk _ _ (ht _ htm _ (flagsIn_iloc hF (textValsAt_convert htv) f3))⟩

theorem encodeTextLine_ok {k : ColorCtx} {a : TextAttrsOf MatV} {text : List Model.Encode.Str} {n : Node}
    {F : List Bool} (h : encodeTextLine k a text = .ok n)
    (hF : FlagsIn a.convert F) (ht : ∀ t ∈ text, ∀ b ∈ F, txtOk b t = true) : NG [n] := by
  unfold encodeTextLine at h
  peel h as lines hl
  have hg := resolveLines_ok hl hF ht
  split at h
  · exact (throw_ok h).elim
  · next last x hlast =>
    cases pure_ok h
    have hm : (last, x) ∈ lines := List.mem_of_getLast? hlast
    exact ng_linesParagraph (hg _ hm).1 hg

theorem encodeTextParas_ok {k : ColorCtx} {a : TextAttrsOf MatV} {text : List Model.Encode.Str} {ns : List Node}
    {F : List Bool} (h : encodeTextParas k a text = .ok ns)
    (hF : FlagsIn a.convert F) (ht : ∀ t ∈ text, ∀ b ∈ F, txtOk b t = true) : ∀ n ∈ ns, NG [n] := by
  unfold encodeTextParas at h
  peel h as lines hl
  have hg := resolveLines_ok hl hF ht
  cases pure_ok h
  intro n hn
  obtain ⟨p, hp, rfl⟩ := List.mem_map.mp hn
  exact ng_paragraph (hg p hp).1 (hg p hp).2

theorem encodeRow_ok' {k : ColorCtx} {A : TblAttrsOf MatV} {colWidths : List Rat} {r : Nat}
    {cells : List (Option Model.Encode.Str)} {e : Elem} {F : List Bool}
    (h : encodeRow k A colWidths r cells = .ok e) (hcum : CumOk colWidths) (hF : FlagsIn A.convert F)
    (ht : ∀ c ∈ cells, ∀ b ∈ F, txtOk b (c.getD []) = true) : ElemOk e :=
  encodeRow_ok h hcum (fun _ c hc _ _ hv hb => ht c (List.mem_of_getElem? hc) _ (flagsIn_iloc hF hv hb))

theorem encodeRows_ok {k : ColorCtx} {A : TblAttrsOf MatV} {colWidths : List Rat} {off : Nat}
    {rows : List (List (Option Model.Encode.Str))} {es : List Elem} {F : List Bool}
    (h : encodeRows k A colWidths off rows = .ok es) (hcum : CumOk colWidths) (hF : FlagsIn A.convert F)
    (ht : ∀ cells ∈ rows, ∀ c ∈ cells, ∀ b ∈ F, txtOk b (c.getD []) = true) : ∀ e ∈ es, ElemOk e := by
  intro e he
  unfold encodeRows at h
  obtain ⟨ci, hci, hf⟩ := mapM_mem h e he
  exact encodeRow_ok' hf hcum hF (ht _ (List.fst_mem_of_mem_zipIdx hci))

/-! ### boundaries -/

def mkX (x : Int) : CellG := { defn := [], cellx := x, content := [] }

theorem cellxOk_sorted : ∀ (l : List Int) (last : Int), List.Pairwise (· ≤ ·) l → (∀ x ∈ l, last ≤ x ∧ 0 < x) →
    cellxOk last (l.map mkX) = true
  | [], _, _, _ => rfl
  | x :: xs, last, hp, hall => by
    rw [List.pairwise_cons] at hp
    have hx := hall x (by simp)
    simp only [List.map_cons, cellxOk, mkX, hx.1, hx.2, decide_true, Bool.true_and]
    exact cellxOk_sorted xs x hp.2 (fun y hy => ⟨hp.1 y hy, (hall y (by simp [hy])).2⟩)

theorem allPos_of_posW {w : List Rat} (h : posW w = true) : Proofs.Widths.AllPos w := by
  intro x hx
  simpa using List.all_eq_true.mp h x hx

theorem twip_zero : Model.Widths.twip 0 = 0 := by decide +kernel

theorem pos_of_twip_pos {W : Rat} (h : 0 < twip W) : 0 < W := by
  apply Decidable.byContradiction
  intro hn
  have hle : W ≤ 0 := Rat.not_lt.mp hn
  have := Proofs.Widths.twip_mono hle
  rw [twip_zero] at this
  have h' : 0 < Model.Widths.twip W := h
  omega

theorem cumOk_colWidths (v : List Rat) (W : Rat) (hW : 0 < W) (hp : Proofs.Widths.AllPos v)
    (hf : firstOk (Model.Widths.colWidths v W) = true) : CumOk (Model.Widths.colWidths v W) := by
  intro n
  obtain ⟨_, hmono⟩ := Proofs.Widths.twips_monotone v W hW hp
  have e : ((Model.Widths.colWidths v W).take n).map (fun c => ({ defn := [], cellx := twip c, content := [] } : CellG)) =
      (((Model.Widths.colWidths v W).map Model.Widths.twip).take n).map mkX := by
    rw [← List.map_take, List.map_map]; rfl
  rw [e]
  have hsub := List.Pairwise.sublist (List.take_sublist n _) hmono
  apply cellxOk_sorted _ _ hsub
  intro x hx
  have hxm : x ∈ (Model.Widths.colWidths v W).map Model.Widths.twip := List.mem_of_mem_take hx
  cases hc : Model.Widths.colWidths v W with
  | nil => rw [hc] at hxm; simp at hxm
  | cons c cs =>
    rw [hc] at hf hmono hxm
    simp only [firstOk, decide_eq_true_eq] at hf
    have hf' : 0 < Model.Widths.twip c := hf
    simp only [List.map_cons, List.pairwise_cons, List.mem_cons] at hmono hxm
    rcases hxm with rfl | hxm
    · omega
    · have := hmono.1 x hxm; omega

/-! ### attribute records -/

theorem textAttrs_mapM_convert {α β : Type} {f : α → Except String β} {a : TextAttrsOf α} {A : TextAttrsOf β}
    (h : a.mapM f = .ok A) : f a.convert = .ok A.convert := by
  unfold TextAttrsOf.mapM at h
  peel h as x1 h1
  peel h as x2 h2
  peel h as x3 h3
  peel h as x4 h4
  peel h as x5 h5
  peel h as x6 h6
  peel h as x7 h7
  peel h as x8 h8
  peel h as x9 h9
  peel h as x10 h10
  peel h as x11 h11
  peel h as x12 h12
  peel h as x13 h13
  peel h as x14 h14
  cases pure_ok h
  exact h14

theorem tblAttrs_mapM_text {α β : Type} {f : α → Except String β} {a : TblAttrsOf α} {A : TblAttrsOf β}
    (h : a.mapM f = .ok A) : a.toTextAttrsOf.mapM f = .ok A.toTextAttrsOf := by
  unfold TblAttrsOf.mapM at h
  peel h as x0 h0
  peel h as x1 h1
  peel h as x2 h2
  peel h as x3 h3
  peel h as x4 h4
  peel h as x5 h5
  peel h as x6 h6
  peel h as x7 h7
  peel h as x8 h8
  peel h as x9 h9
  peel h as x10 h10
  peel h as x11 h11
  peel h as x12 h12
  peel h as x13 h13
  peel h as x14 h14
  peel h as x15 h15
  peel h as x16 h16
  peel h as x17 h17
  cases pure_ok h
  exact h0

theorem tblAttrs_mapM_convert {α β : Type} {f : α → Except String β} {a : TblAttrsOf α} {A : TblAttrsOf β}
    (h : a.mapM f = .ok A) : f a.convert = .ok A.convert :=
  textAttrs_mapM_convert (tblAttrs_mapM_text h)

/-! ### fixed material -/

theorem ng_all : ∀ (ns : List Node), (∀ n ∈ ns, NG [n]) → NG ns
  | [], _ => ng_nil
  | n :: ns, h => ng_cons (h n (by simp)) (ng_all ns (fun m hm => h m (by simp [hm])))

theorem ng_cwi (s : String) (x : Int) (h : goodWord s.toList = true) : NG [cwi s x] := ng_cw _ _ _ h
theorem ng_cw0 (s : String) (h : goodWord s.toList = true) : NG [cw0 s] := ng_cw _ _ _ h

theorem marginNodes_ok {pg : Page} {ns : List Node} (h : marginNodes pg = .ok ns) : NG ns := by
  unfold marginNodes at h
  dsimp only at h
  split at h
  · peel h as x hx
    exact (throw_ok hx).elim
  · cases pure_ok h
    apply ng_all
    intro n hn
    obtain ⟨pr, hpr, rfl⟩ := List.mem_map.mp hn
    have hm := (List.of_mem_zip hpr).1
    simp only [List.mem_cons, List.not_mem_nil, or_false] at hm
    rcases hm with e | e | e | e | e | e <;> (rw [e]; exact ng_cwi _ _ (by decide))

theorem pageSettings_ok {pg : Page} {ns : List Node} (h : pageSettings pg = .ok ns) : NG ns := by
  unfold pageSettings at h
  peel h as m hm
  cases pure_ok h
  have hl : NG (if pg.landscape = true then [Model.Encode.cwSp "landscape"] else []) := by
    split
    · exact ng_cw _ _ _ (by decide)
    · exact ng_nil
  exact ng_append (ng_append (ng_append (ng_cons (ng_cwi _ _ (by decide)) (ng_cwi _ _ (by decide))) hl) ng_nl)
    (marginNodes_ok hm)

theorem ng_tiny : NG [Node.grp [cw0 "pard", cwi "fs" 2, cw0 "par"]] :=
  ng_grp (ng_cons ng_pard (ng_cons (ng_cwi _ _ (by decide)) ng_par))

theorem pageBreak_ok {pg : Page} {ns : List Node} (h : pageBreak pg = .ok ns) : NG ns := by
  unfold pageBreak at h
  peel h as m hm
  cases pure_ok h
  refine ng_append (ng_append ?_ (marginNodes_ok hm)) (ng_cons ng_nl ng_nl)
  exact ng_cons ng_tiny (ng_cons (ng_cw0 _ (by decide)) (ng_cons ng_tiny (ng_cons ng_nl
    (ng_cons (ng_cwi _ _ (by decide)) (ng_cons (ng_cwi _ _ (by decide)) (ng_cons ng_nl ng_nl))))))

theorem sublineHeading_ok (text : String) (h : rawOk text.toList = true) : NG [sublineHeading text] := by
  unfold sublineHeading
  have hx : HoleOk (textNodes ((Model.Escape.escape (text.toList.map Char.toNat)).map Char.ofNat)) := hole_raw _ h
  apply ng_grp
  refine ng_cons ng_pard (ng_cons (ng_cw0 _ (by decide)) (ng_cons (ng_cwi _ _ (by decide)) (ng_cons (ng_cwi _ _ (by decide))
    (ng_cons (ng_cwi _ _ (by decide)) (ng_cons (ng_cw0 _ (by decide)) (ng_cons (ng_cwi _ _ (by decide))
    (ng_cons ?_ ng_par)))))))
  refine ⟨?_, ?_, ?_⟩
  · simp only [plainNodes, plainNode, hx.1, Bool.and_true]; decide
  · have e : nameOk "f".toList = true := by decide
    simp only [List.all_cons, List.all_nil, frameNode, nodesOk_cons, nodeOk, hx.2.1, Bool.true_or, e, Bool.and_self]
  · apply uNeutral_grp
    exact uNeutral_cons _ _ (uNeutral_noU _ (by decide)) hx.2.2

/-! ### title, subline, page header / footer -/

theorem textCompOk_spec {c : TextComp} (h : textCompOk (some c) = true) :
    ∀ t ∈ c.text.getD [], ∀ b ∈ convFlags c.attrs.convert, txtOk b t = true := by
  intro t ht b hb
  simp only [textCompOk, List.all_eq_true] at h
  have := h t ht
  simp only [txtOkAttr, List.all_eq_true] at this
  exact this b hb

theorem textElem_ok {k : ColorCtx} {c : Option TextComp} {es : List Elem} (h : textElem k c = .ok es)
    (hd : textCompOk c = true) : ∀ e ∈ es, ElemOk e := by
  unfold textElem at h
  split at h
  · cases h; intro e he; cases he
  · next c =>
    split at h
    · cases h; intro e he; cases he
    · cases h; intro e he; cases he
    · next text htext =>
      peel h as a ha
      peel h as n hn
      cases pure_ok h
      intro e he
      simp only [List.mem_cons, List.not_mem_nil, or_false] at he
      subst he
      apply elemOk_of_ng
      apply encodeTextLine_ok hn (flagsIn_of_toNested (textAttrs_mapM_convert ha))
      have := textCompOk_spec hd
      rw [htext] at this
      exact this

theorem pageHF_ok {k : ColorCtx} {word : String} {c : Option TextComp} {ns : List Node} (h : pageHF k word c = .ok ns)
    (hw : goodWord word.toList = true) (hd : textCompOk c = true) : NG ns := by
  unfold pageHF at h
  split at h
  · cases h; exact ng_nil
  · next c =>
    split at h
    · cases h; exact ng_nil
    · cases h; exact ng_nil
    · next text htext =>
      peel h as a ha
      peel h as n hn
      cases pure_ok h
      apply ng_grp
      refine ng_cons (ng_cw0 _ hw) ?_
      apply encodeTextLine_ok hn (flagsIn_of_toNested (textAttrs_mapM_convert ha))
      have := textCompOk_spec hd
      rw [htext] at this
      exact this

/-! ### spanning rows -/

theorem side_ok {k : ColorCtx} {g : Except String Val} {o : Option BorderFmt}
    (h : (do let v ← g; some <$> resolveBorder k v Val.null Val.null) = .ok o) :
    ∀ bf, o = some bf → borderOk bf = true ∧ (optWord bf.style).all notU = true := by
  peel h as v hv
  obtain ⟨b, hb, rfl⟩ := map_ok h
  intro bf hbf
  cases hbf
  exact resolveBorder_ok hb

theorem spanningRow_ok {k : ColorCtx} {d : Doc} {bodyA : TblAttrsOf MatV} {level : Nat} {text : String} {e : Elem}
    (h : spanningRow k d bodyA level text = .ok e)
    (ha : d.body.attrs.convert.toNested = .ok bodyA.convert)
    (ht : ∀ b ∈ convFlags d.body.attrs.convert, txtOk b text.toList = true)
    (hW : 0 < twip d.page.colWidth) : ElemOk e := by
  unfold spanningRow at h
  dsimp only at h
  peel h as x1 h1
  peel h as x2 h2
  peel h as x3 h3
  peel h as x4 h4
  peel h as x5 h5
  peel h as x6 h6
  peel h as x7 h7
  peel h as x8 h8
  peel h as x9 h9
  peel h as x10 h10
  peel h as x11 h11
  peel h as x12 h12
  peel h as x13 h13
  peel h as x14 h14
  peel h as x hx
  peel h as vjv hvjv
  peel h as vj hvj
  peel h as jv hjv
  peel h as just hjust
  peel h as hv hhv
  peel h as hh hhh
  peel h as bl hbl
  peel h as bt hbt
  peel h as br hbr
  peel h as bb hbb
  cases pure_ok h
  obtain ⟨f1, f2, f3⟩ := resolveText_ok (show resolveText k _ = .ok (x.1, x.2) from hx)
  have hflag : x.2 ∈ convFlags d.body.attrs.convert := by
    dsimp only at f3
    split at h13
    · next hnone =>
      cases h13
      rw [hnone] at ha
      have : x.2 = false := by simpa [Val.toBool] using f3.symm
      rw [this]
      exact toNested_none ha
    · exact flagsIn_iloc (flagsIn_of_toNested ha) h13 f3
  have hWne : d.page.colWidth ≠ 0 := by
    have := pos_of_twip_pos hW
    intro e0; rw [e0] at this; exact absurd this (by decide)
  apply rowElem_ok _ (resolveRowJust_ok hjust)
  · intro c hc
    have hc' : c ∈ [_] := hc
    simp only [List.mem_cons, List.not_mem_nil, or_false] at hc'
    subst hc'
    apply cellGood_mk ⟨f1, f2⟩ (hole_txtOk _ _ (ht _ hflag)) (resolveVJust_ok hvj)
    intro o ho bf hbf
    simp only [List.mem_cons, List.not_mem_nil, or_false] at ho
    rcases ho with rfl | rfl | rfl | rfl
    · exact side_ok hbl bf hbf
    · exact side_ok hbt bf hbf
    · exact side_ok hbr bf hbf
    · exact side_ok hbb bf hbf
  · simp only [List.map_cons, List.map_nil, cellxOk, hWne, if_false, Bool.and_true, Bool.and_eq_true, decide_eq_true_eq]
    exact ⟨hW, Int.le_of_lt hW⟩

/-! ### footnote / source -/

theorem footOk_spec {W : Rat} {f : Foot} (h : footOk W (some f) = true) :
    (∀ b ∈ convFlags f.attrs.convert, txtOk b (f.text.getD []) = true) ∧
    (∀ w, f.colRelWidth = some w → posW w = true ∧ firstOk (Model.Widths.colWidths w W) = true) := by
  simp only [footOk, Bool.and_eq_true] at h
  refine ⟨fun b hb => ?_, fun w hw => ?_⟩
  · have := h.1
    simp only [txtOkAttr, List.all_eq_true] at this
    exact this b hb
  · have := h.2
    rw [hw] at this
    simpa using this

def footAttrs (A : TblAttrsOf MatV) (override : Option String) : TblAttrsOf MatV :=
  match override with
  | some s => if s != "" then { A with bBottom := some [[Val.str s]] } else A
  | none => A

theorem footAttrs_convert (A : TblAttrsOf MatV) (o : Option String) : (footAttrs A o).convert = A.convert := by
  unfold footAttrs
  cases o with
  | none => rfl
  | some s => dsimp only; split <;> rfl

/-- every entry of a valid boundary vector is positive -/
theorem cellxOk_pos : ∀ (cs : List CellG) (last : Int), cellxOk last cs = true → ∀ c ∈ cs, 0 < c.cellx
  | [], _, _ => fun c hc => by simp at hc
  | x :: xs, last, h => by
    simp only [cellxOk, Bool.and_eq_true, decide_eq_true_eq] at h
    intro c hc
    rcases List.mem_cons.mp hc with rfl | hc
    · exact h.1.1
    · exact cellxOk_pos xs x.cellx h.2 c hc

/-- the single boundary "last entry of a valid vector" is a valid vector (table-rendered footnote / source) -/
theorem cumOk_last {cum : List Rat} (h : CumOk cum) : CumOk cum.getLast?.toList := by
  intro n
  cases hl : cum.getLast? with
  | none => simp [cellxOk]
  | some c =>
    have hm : c ∈ cum := List.mem_of_getLast? hl
    have hall := h cum.length
    rw [List.take_length] at hall
    have hpos := cellxOk_pos _ _ hall ({ defn := [], cellx := twip c, content := [] } : CellG)
      (List.mem_map.mpr ⟨c, hm, rfl⟩)
    cases n with
    | zero => simp [cellxOk]
    | succ n =>
      simp only [Option.toList, List.take_succ_cons, List.take_nil, List.map_cons, List.map_nil, cellxOk,
        Bool.and_true, Bool.and_eq_true, decide_eq_true_eq]
      exact ⟨hpos, Int.le_of_lt hpos⟩

theorem renderFoot_ok {k : ColorCtx} {d : Doc} {f : Foot} {override : Option String} {es : List Elem}
    (h : renderFoot k d f override = .ok es) (hd : footOk d.page.colWidth (some f) = true)
    (hW : 0 < twip d.page.colWidth) : ∀ e ∈ es, ElemOk e := by
  obtain ⟨htxt, hwid⟩ := footOk_spec hd
  unfold renderFoot at h
  peel h as A hA
  dsimp only at h
  have hF : FlagsIn (footAttrs A override).convert (convFlags f.attrs.convert) := by
    rw [footAttrs_convert]; exact flagsIn_of_toNested (tblAttrs_mapM_convert hA)
  split at h
  · peel h as ps hps
    cases pure_ok h
    intro e he
    obtain ⟨n, hn, rfl⟩ := List.mem_map.mp he
    apply elemOk_of_ng
    refine encodeTextParas_ok (a := (footAttrs A override).toTextAttrsOf) hps hF ?_ n hn
    intro t ht b hb
    split at ht
    · cases ht
    · simp only [List.mem_cons, List.not_mem_nil, or_false] at ht
      subst ht
      exact htxt b hb
  · split at h
    · exact (throw_ok h).elim
    · next w hw =>
      obtain ⟨hpw, hfw⟩ := hwid w hw
      split at h
      · peel h as x hx
        exact (throw_ok hx).elim
      · apply encodeRows_ok (A := footAttrs A override) h
          (cumOk_last (cumOk_colWidths w _ (pos_of_twip_pos hW) (allPos_of_posW hpw) hfw)) hF
        intro cells hcells c hcm b hb
        simp only [List.mem_cons, List.not_mem_nil, or_false] at hcells
        subst hcells
        simp only [List.mem_cons, List.not_mem_nil, or_false] at hcm
        subst hcm
        exact htxt b hb

/-! ### column headers -/

def headAttrs (A : TblAttrsOf MatV) (c : Bool) (n : Nat) (bf : String) : TblAttrsOf MatV :=
  if c then { A with bTop := A.bTop.map fun _ => [List.replicate n (Val.str bf)] } else A

theorem headAttrs_convert (A : TblAttrsOf MatV) (c : Bool) (n : Nat) (bf : String) :
    (headAttrs A c n bf).convert = A.convert := by
  unfold headAttrs; split <;> rfl

/-- the part of the preparation the header renderer uses -/
structure PrepFacts (d : Doc) (p : Prep) (removed : List Nat) : Prop where
  rem : removedIdx d = .ok removed
  keep : p.keep = keepMask d.cols.length removed
  disp : p.dispCols = dropCols d.cols removed

theorem allPos_headerDisplayed {w : List Rat} (h : Proofs.Widths.AllPos w) (keep : List Bool) (n : Nat) :
    Proofs.Widths.AllPos (Model.Widths.headerDisplayed w keep n) := by
  unfold Model.Widths.headerDisplayed
  split
  · exact fun x hx => h x (Proofs.Widths.mem_slice _ _ hx)
  · exact h

def headerV (hw : Option (List Rat)) (n : Nat) : List Rat :=
  match hw with
  | some (w :: ws) => w :: ws
  | _ => List.replicate n 1

/-- the part of `renderHeader` after the choice of the text -/
def headerInner (k : ColorCtx) (d : Doc) (p : Prep) (isFirst : Bool) (idx : Nat) (h : Header)
    (text : List Model.Encode.Str) : Except String (List Elem) := do
  let n := text.length
  if n = 0 then throw "model:header without cells"
  let A ← h.attrs.mapM Attr.toNested
  let hw := h.colRelWidth.map fun w => Model.Widths.headerDisplayed w p.keep n
  let firstRendered := (d.headers.take idx).all fun h' => match h' with
    | some h' => !(h'.text.isSome || d.body.asColheader)
    | none => true
  let A := if isFirst && firstRendered && d.page.borderFirst != "" then
      { A with bTop := A.bTop.map fun _ => [List.replicate n (Val.str d.page.borderFirst)] }
    else A
  let v := headerV hw n
  if Model.Widths.sumQ v = 0 then throw "ZeroDivisionError"
  encodeRows k A (Model.Widths.colWidths v d.page.colWidth) 0 [text.map some]

theorem renderHeader_eq (k : ColorCtx) (d : Doc) (p : Prep) (isFirst : Bool) (idx : Nat) (h : Header) :
    renderHeader k d p isFirst idx h =
      match (match h.text with
        | some t => some t
        | none => if d.body.asColheader then some p.dispCols else none) with
      | none => pure []
      | some text => headerInner k d p isFirst idx h text := rfl

theorem headerInner_ok {k : ColorCtx} {d : Doc} {p : Prep} {isFirst : Bool} {idx : Nat}
    {hdr : Header} {text : List Model.Encode.Str} {es : List Elem} (h : headerInner k d p isFirst idx hdr text = .ok es)
    (hpw : ∀ w0, hdr.colRelWidth = some w0 → posW w0 = true)
    (hwid : firstOk (Model.Widths.colWidths
      (headerV (hdr.colRelWidth.map fun w => Model.Widths.headerDisplayed w p.keep text.length) text.length)
      d.page.colWidth) = true)
    (htx : ∀ t ∈ text, txtOkAttr hdr.attrs.convert t = true)
    (hW : 0 < twip d.page.colWidth) : ∀ e ∈ es, ElemOk e := by
  unfold headerInner at h
  dsimp only at h
  split at h
  · simp only [throw_bind'] at h; cases h
  · peel h as A hA
    by_cases hs : Model.Widths.sumQ (headerV (Option.map (fun w => Model.Widths.headerDisplayed w p.keep text.length)
        hdr.colRelWidth) text.length) = 0
    · simp only [hs, if_true, throw_bind'] at h; cases h
    · simp only [hs, if_false] at h
      have hF : FlagsIn (headAttrs A (isFirst && ((d.headers.take idx).all fun h' => match h' with
          | some h' => !(h'.text.isSome || d.body.asColheader)
          | none => true) && d.page.borderFirst != "") text.length d.page.borderFirst).convert
          (convFlags hdr.attrs.convert) := by
        rw [headAttrs_convert]; exact flagsIn_of_toNested (tblAttrs_mapM_convert hA)
      have hpos : Proofs.Widths.AllPos (headerV (Option.map (fun w => Model.Widths.headerDisplayed w p.keep text.length)
          hdr.colRelWidth) text.length) := by
        unfold headerV
        split
        · next w ws hm =>
          cases hc : hdr.colRelWidth with
          | none => rw [hc] at hm; simp at hm
          | some w0 =>
            rw [hc] at hm
            simp only [Option.map_some, Option.some.injEq] at hm
            rw [← hm]
            exact allPos_headerDisplayed (allPos_of_posW (hpw w0 hc)) _ _
        · exact Proofs.Widths.allPos_replicate _ _ (by decide)
      apply encodeRows_ok (A := headAttrs A _ _ _) h (cumOk_colWidths _ _ (pos_of_twip_pos hW) hpos hwid) hF
      intro cells hcells c hcm b hb
      simp only [List.mem_cons, List.not_mem_nil, or_false] at hcells
      subst hcells
      obtain ⟨t, htm, rfl⟩ := List.mem_map.mp hcm
      show txtOk b t = true
      have key := htx t htm
      simp only [txtOkAttr, List.all_eq_true] at key
      exact key b hb

theorem renderHeader_ok {k : ColorCtx} {d : Doc} {p : Prep} {removed : List Nat} {isFirst : Bool} {idx : Nat}
    {hdr : Header} {es : List Elem} (h : renderHeader k d p isFirst idx hdr = .ok es)
    (hp : PrepFacts d p removed) (hd : headerOk d hdr = true) (hW : 0 < twip d.page.colWidth) :
    ∀ e ∈ es, ElemOk e := by
  simp only [headerOk, Bool.and_eq_true] at hd
  obtain ⟨⟨htx, hpw⟩, hwid⟩ := hd
  simp only [headerWidthOk, hp.rem, ← hp.keep, ← hp.disp] at hwid
  have hpw' : ∀ w0, hdr.colRelWidth = some w0 → posW w0 = true := by
    intro w0 hw0; rw [hw0] at hpw; exact hpw
  rw [renderHeader_eq] at h
  cases ht : hdr.text with
  | some t0 =>
    simp only [ht] at h hwid htx
    exact headerInner_ok h hpw' hwid (fun t htm => List.all_eq_true.mp htx t htm) hW
  | none =>
    by_cases hac : d.body.asColheader = true
    · simp only [ht, hac, if_true] at h hwid htx
      refine headerInner_ok h hpw' hwid (fun t htm => ?_) hW
      simp only [Bool.not_true, Bool.false_or] at htx
      rw [hp.disp] at htm
      exact List.all_eq_true.mp htx t (Proofs.EncodeAux.dropCols_mem _ _ _ htm)
    · simp only [ht, hac] at h
      cases pure_ok h
      intro e he; cases he

/-! ### the preparation -/

theorem ite_throw_ok {ε α β : Type} {c : Prop} [Decidable c] {e : ε} {f : β → Except ε α} {x : Except ε α} {r : α}
    (h : (if c then (throw e >>= f) else x) = .ok r) : x = .ok r := by
  split at h
  · simp only [throw_bind'] at h; cases h
  · exact h

theorem prepare_facts {d : Doc} {p : Prep} (h : prepare d = .ok p) :
    ∃ removed A, PrepFacts d p removed ∧ d.body.attrs.mapM Attr.toNested = .ok A ∧
      p.attrs = processedAttrs A d.rows.length d.cols.length removed ∧
      p.cum = Model.Widths.bodyCum (d.body.colRelWidth.getD []) (keepMask d.cols.length removed) d.page.colWidth ∧
      p.dispRows = d.rows.map (fun r => dropCols r removed) := by
  unfold prepare at h
  peel h as A hA
  peel h as removed hr
  dsimp only at h
  have h := ite_throw_ok h
  cases pure_ok h
  exact ⟨removed, A, ⟨hr, rfl, rfl⟩, hA, rfl, rfl, rfl⟩

theorem memV_map {M : MatV} {g : Mat Val → Mat Val} (hg : ∀ m row, row ∈ g m → ∀ v ∈ row, ∃ row' ∈ m, v ∈ row')
    {v : Val} (h : MemV (M.map g) v) : MemV M v := by
  obtain ⟨m', hm', row, hrow, hv⟩ := h
  cases M with
  | none => simp at hm'
  | some m =>
    simp only [Option.map_some, Option.some.injEq] at hm'
    subst hm'
    obtain ⟨row', hr', hv'⟩ := hg m row hrow v hv
    exact ⟨m, rfl, row', hr', hv'⟩

theorem processed_flags {A : TblAttrsOf MatV} {F : List Bool} (h : FlagsIn A.convert F) (nr nc : Nat) (removed : List Nat) :
    FlagsIn (processedAttrs A nr nc removed).convert F := by
  unfold processedAttrs
  split
  · exact h
  · exact flagsIn_sub h (fun v hv => memV_map (fun m row hrow v hv =>
      Proofs.EncodeAux.expandSlice_mem m nr nc removed row hrow v hv) hv)

theorem pageAttrs_flags {d : Doc} {bodyA : TblAttrsOf MatV} {p : Prep} {pg : Model.Layout.PageCtx} {F : List Bool}
    (h : FlagsIn p.attrs.convert F) : FlagsIn (pageAttrs d bodyA p pg).attrs.convert F := by
  unfold pageAttrs
  split
  · exact h
  · exact flagsIn_sub h (fun v hv => memV_map (fun m row hrow v hv =>
      ⟨row, Proofs.EncodeAux.pageRows_mem m pg.start pg.height row hrow, hv⟩) hv)

theorem allPos_bodyProcessed {bw : List Rat} (h : Proofs.Widths.AllPos bw) (keep : List Bool) :
    Proofs.Widths.AllPos (Model.Widths.bodyProcessed bw keep) := by
  unfold Model.Widths.bodyProcessed
  split
  · exact fun x hx => h x (Proofs.Widths.mem_slice _ _ hx)
  · exact h

theorem cumOk_bodyCum {bw : List Rat} {keep : List Bool} {W : Rat} (hW : 0 < W) (hp : Proofs.Widths.AllPos bw)
    (hf : firstOk (Model.Widths.bodyCum bw keep W) = true) : CumOk (Model.Widths.bodyCum bw keep W) := by
  unfold Model.Widths.bodyCum at hf ⊢
  dsimp only at hf ⊢
  split
  · next he =>
    rw [if_pos he] at hf
    exact cumOk_colWidths _ _ hW (Proofs.Widths.allPos_replicate _ _ (by decide)) hf
  · next he =>
    rw [if_neg he] at hf
    exact cumOk_colWidths _ _ hW (allPos_bodyProcessed hp keep) hf

theorem txtOk_nil (b : Bool) : txtOk b [] = true := by cases b <;> decide

/-! ### blocks -/

/-- the texts the role-level layout hands to the renderer are admissible -/
def BlockTxt (d : Doc) : Model.Layout.Block → Prop
  | .sublineHeading t => rawOk t.toList = true
  | .heading _ t => ∀ b ∈ convFlags d.body.attrs.convert, txtOk b t.toList = true
  | _ => True

structure Ctx (d : Doc) (bodyA : TblAttrsOf MatV) (p : Prep) (removed : List Nat)
    (rows : List (List (Option Model.Encode.Str))) : Prop where
  dom : inDomain d = true
  hW : 0 < twip d.page.colWidth
  pf : PrepFacts d p removed
  bodyConv : d.body.attrs.convert.toNested = .ok bodyA.convert
  pFlags : FlagsIn p.attrs.convert (convFlags d.body.attrs.convert)
  cum : CumOk p.cum
  rowsOk : ∀ r ∈ rows, ∀ c ∈ r, ∀ b ∈ convFlags d.body.attrs.convert, txtOk b (c.getD []) = true

theorem dom_parts {d : Doc} (h : inDomain d = true) :
    0 < twip d.page.colWidth ∧ cellsOk d = true ∧ sublineValsOk d = true ∧ bodyWidthOk d = true ∧
    (∀ hd, some hd ∈ d.headers → headerOk d hd = true) ∧
    textCompOk d.title = true ∧ textCompOk d.subline = true ∧ textCompOk d.pageHeader = true ∧
    textCompOk d.pageFooter = true ∧ footOk d.page.colWidth d.footnote = true ∧
    footOk d.page.colWidth d.source = true := by
  simp only [inDomain, Bool.and_eq_true, decide_eq_true_eq] at h
  obtain ⟨⟨⟨⟨⟨⟨⟨⟨⟨⟨h1, h2⟩, h3⟩, h4⟩, h5⟩, h6⟩, h7⟩, h8⟩, h9⟩, h10⟩, h11⟩ := h
  refine ⟨h1, h2, h3, h4, ?_, h6, h7, h8, h9, h10, h11⟩
  intro hd hm
  have := List.all_eq_true.mp h5 (some hd) hm
  exact this

theorem renderBlock_ok {k : ColorCtx} {d : Doc} {bodyA : TblAttrsOf MatV} {p : Prep} {removed : List Nat}
    {rows : List (List (Option Model.Encode.Str))} {pg : Model.Layout.PageCtx} {b : Model.Layout.Block}
    {es : List Elem} (c : Ctx d bodyA p removed rows)
    (h : renderBlock k d bodyA p rows pg (pageAttrs d bodyA p pg) b = .ok es) (hb : BlockTxt d b) :
    ∀ e ∈ es, ElemOk e := by
  obtain ⟨_, _, _, _, hhd, htitle, hsub, _, _, hfn, hsrc⟩ := dom_parts c.dom
  cases b with
  | brk =>
    simp only [renderBlock] at h
    peel h as ns hns
    cases pure_ok h
    intro e he
    simp only [List.mem_cons, List.not_mem_nil, or_false] at he
    subst he
    exact elemOk_of_ng (pageBreak_ok hns)
  | title =>
    simp only [renderBlock] at h
    peel h as es1 h1
    cases pure_ok h
    intro e he
    rcases List.mem_append.mp he with he | he
    · exact textElem_ok h1 htitle e he
    · simp only [List.mem_cons, List.not_mem_nil, or_false] at he
      subst he
      exact elemOk_of_ng ng_nl
  | subline =>
    simp only [renderBlock] at h
    exact textElem_ok h hsub
  | sublineHeading t =>
    simp only [renderBlock] at h
    split at h
    · cases h; intro e he; cases he
    · cases h
      intro e he
      simp only [List.mem_cons, List.not_mem_nil, or_false] at he
      subst he
      exact elemOk_of_ng (sublineHeading_ok t hb)
  | colHeader i =>
    simp only [renderBlock] at h
    split at h
    · next hdr hh =>
      have hm : some hdr ∈ d.headers := by
        cases hi : d.headers[i]? with
        | none => rw [hi] at hh; simp at hh
        | some o =>
          rw [hi] at hh
          simp only [Option.join_some] at hh
          subst hh
          exact List.mem_of_getElem? hi
      exact renderHeader_ok h c.pf (hhd hdr hm) c.hW
    · cases h; intro e he; cases he
  | heading lvl t =>
    simp only [renderBlock] at h
    peel h as e1 h1
    cases pure_ok h
    intro e he
    simp only [List.mem_cons, List.not_mem_nil, or_false] at he
    subst he
    exact spanningRow_ok h1 c.bodyConv hb c.hW
  | data i =>
    simp only [renderBlock] at h
    split at h
    · next cells hcells =>
      peel h as e1 h1
      cases pure_ok h
      intro e he
      simp only [List.mem_cons, List.not_mem_nil, or_false] at he
      subst he
      exact encodeRow_ok' h1 c.cum (pageAttrs_flags c.pFlags) (c.rowsOk cells (List.mem_of_getElem? hcells))
    · cases h
  | footnote x =>
    simp only [renderBlock] at h
    split at h
    · next f hf => exact renderFoot_ok h (by rw [← hf]; exact hfn) c.hW
    · cases h; intro e he; cases he
  | source x =>
    simp only [renderBlock] at h
    split at h
    · next f hf => exact renderFoot_ok h (by rw [← hf]; exact hsrc) c.hW
    · cases h; intro e he; cases he

/-! ### pages -/

theorem renderPage_ok {k : ColorCtx} {d : Doc} {bodyA : TblAttrsOf MatV} {p : Prep} {removed : List Nat}
    {rows : List (List (Option Model.Encode.Str))} {pg : Model.Layout.PageCtx} {blocks : List Model.Layout.Block}
    {es : List Elem} (c : Ctx d bodyA p removed rows)
    (h : renderPage k d bodyA p rows pg blocks = .ok es) (hb : ∀ b ∈ blocks, BlockTxt d b) :
    ∀ e ∈ es, ElemOk e := by
  unfold renderPage at h
  dsimp only at h
  peel h as ess hess
  cases pure_ok h
  intro e he
  obtain ⟨es1, hes1, he1⟩ := List.mem_flatten.mp he
  obtain ⟨b, hbm, hr⟩ := mapM_mem hess es1 hes1
  exact renderBlock_ok c hr (hb b hbm) e he1

/-! ### the texts of the layout -/

theorem pick_mem {cols : List Model.Encode.Str} {row : List (Option Model.Encode.Str)} {names : List Model.Encode.Str}
    {v : Option Model.Encode.Str} (h : v ∈ pick cols row names) : v = none ∨ v ∈ row := by
  unfold pick at h
  obtain ⟨n, _, rfl⟩ := List.mem_map.mp h
  cases hi : row[cols.idxOf n]? with
  | none => left; rfl
  | some x => right; simpa using List.mem_of_getElem? hi

theorem mkLDoc_rows {measure : Measure} {d : Doc} {p : Prep} {ld : Model.Layout.LDoc} {near : Nat}
    (h : mkLDoc measure d p = .ok (ld, near)) :
    ∀ r ∈ ld.rows, ∃ row1 ∈ d.rows, ∃ row2 ∈ d.rows,
      r.pkey = (pick d.cols row1 d.body.pageByL).map optString ∧
      r.skey = (pick d.cols row2 d.body.sublineByL).map optString := by
  unfold mkLDoc at h
  dsimp only at h
  peel h as rows hrows
  cases pure_ok h
  intro r hr
  obtain ⟨x, hx, rfl⟩ := List.mem_map.mp hr
  obtain ⟨y, hy, hf⟩ := mapM_mem hrows x hx
  have h1 := (List.of_mem_zip (List.fst_mem_of_mem_zipIdx hy)).1
  have h2 := List.of_mem_zip (List.of_mem_zip h1).2
  obtain ⟨row1, hrow1, e1⟩ := List.mem_map.mp h2.1
  obtain ⟨row2, hrow2, e2⟩ := List.mem_map.mp h2.2
  refine ⟨row1, hrow1, row2, hrow2, ?_⟩
  rw [e1, e2]
  peel hf as dl hdl
  split at hf
  · peel hf as pr hpr
    split at hf
    · peel hf as sr hsr
      cases pure_ok hf
      exact ⟨rfl, rfl⟩
    · simp only [pure_bind] at hf
      cases pure_ok hf
      exact ⟨rfl, rfl⟩
  · simp only [pure_bind] at hf
    split at hf
    · peel hf as sr hsr
      cases pure_ok hf
      exact ⟨rfl, rfl⟩
    · cases pure_ok hf
      exact ⟨rfl, rfl⟩

theorem optString_some {v : Option Model.Encode.Str} {s : String} (h : optString v = some s) :
    ∃ s', v = some s' ∧ s.toList = s' := by
  cases v with
  | none => simp [optString] at h
  | some s' =>
    simp only [optString, Option.some.injEq] at h
    subst h
    exact ⟨s', rfl, String.toList_ofList⟩

theorem blockTxt_layout {measure : Measure} {d : Doc} {p : Prep} {ld : Model.Layout.LDoc} {near : Nat}
    (hd : inDomain d = true) (h : mkLDoc measure d p = .ok (ld, near)) :
    ∀ bs ∈ Model.Layout.layout ld, ∀ b ∈ bs, BlockTxt d b := by
  obtain ⟨_, hcells, hsub, _⟩ := dom_parts hd
  have hrows := mkLDoc_rows h
  intro bs hbs b hb
  cases b with
  | heading lvl s =>
    intro fl hfl
    obtain ⟨r, hr, hs⟩ := Proofs.EncodeLayout.layout_heading_text ld bs hbs lvl s hb
    obtain ⟨row1, hrow1, _, _, e1, _⟩ := hrows r hr
    rw [e1] at hs
    obtain ⟨v, hv, hvs⟩ := List.mem_map.mp hs
    obtain ⟨s', rfl, hs'⟩ := optString_some hvs
    rw [hs']
    rcases pick_mem hv with hn | hm
    · cases hn
    · have := List.all_eq_true.mp (List.all_eq_true.mp hcells row1 hrow1) (some s') hm
      simp only [txtOkAttr, List.all_eq_true] at this
      exact this fl hfl
  | sublineHeading t =>
    show rawOk t.toList = true
    apply rawOk_of_plain
    rw [List.all_eq_true]
    intro c hc
    rcases Proofs.EncodeLayout.layout_subline_chars ld bs hbs t hb c hc with rfl | rfl | ⟨r, hr, s, hs, hcs⟩
    · decide
    · decide
    · obtain ⟨_, _, row2, hrow2, _, e2⟩ := hrows r hr
      rw [e2] at hs
      obtain ⟨v, hv, hvs⟩ := List.mem_map.mp hs
      obtain ⟨s', rfl, hs'⟩ := optString_some hvs
      rw [hs'] at hcs
      have := List.all_eq_true.mp (List.all_eq_true.mp hsub row2 hrow2) (some s') hv
      exact List.all_eq_true.mp this c hcs
  | _ => trivial

/-! ### all pages -/

theorem encodePages_ok {measure : Measure} {k : ColorCtx} {d : Doc} {elems : List Elem} {near : Nat}
    (h : encodePages measure k d = .ok (elems, near)) (hd : inDomain d = true) : ∀ e ∈ elems, ElemOk e := by
  obtain ⟨hW, hcells, _, hbw, _⟩ := dom_parts hd
  unfold encodePages at h
  peel h as p hp
  peel h as bodyA hbA
  peel h as x hx
  dsimp only at h
  peel h as rows hrows
  peel h as ess hess
  cases pure_ok h
  obtain ⟨removed, A, pf, hA, hattrs, hcum, hdisp⟩ := prepare_facts hp
  have hAA : A = bodyA := by
    rw [hA] at hbA
    exact Except.ok.inj hbA
  subst hAA
  have hconv := tblAttrs_mapM_convert hA
  simp only [bodyWidthOk, Bool.and_eq_true, pf.rem] at hbw
  have c : Ctx d A p removed rows := {
    dom := hd
    hW := hW
    pf := pf
    bodyConv := hconv
    pFlags := by rw [hattrs]; exact processed_flags (flagsIn_of_toNested hconv) _ _ _
    cum := by rw [hcum]; exact cumOk_bodyCum (pos_of_twip_pos hW) (allPos_of_posW hbw.1) hbw.2
    rowsOk := by
      apply Proofs.EncodeAux.finalRows_cells
        (fun c => ∀ b ∈ convFlags d.body.attrs.convert, txtOk b (c.getD []) = true) (fun b _ => txtOk_nil b) d p _ rows hrows
      intro r hr c hc b hb
      rw [hdisp] at hr
      obtain ⟨r0, hr0, rfl⟩ := List.mem_map.mp hr
      have hc0 := Proofs.EncodeAux.dropCols_mem _ _ _ hc
      have := List.all_eq_true.mp (List.all_eq_true.mp hcells r0 hr0) c hc0
      simp only [txtOkAttr, List.all_eq_true] at this
      exact this b hb }
  intro e he
  obtain ⟨es1, hes1, he1⟩ := List.mem_flatten.mp he
  obtain ⟨pb, hpb, hr⟩ := mapM_mem hess es1 hes1
  have hbl := (List.of_mem_zip hpb).2
  exact renderPage_ok c hr (blockTxt_layout hd (show mkLDoc measure d p = .ok (x.1, x.2) from hx) _ hbl) e he1

/-! ### joining the elements -/

theorem elemOk_nil : ElemOk [] := by
  refine ⟨fun _ h => (by cases h), (by simp), ?_⟩
  simpa using uNeutral_nil

theorem elemOk_append {a b : Elem} (ha : ElemOk a) (hb : ElemOk b) : ElemOk (a ++ b) := by
  refine ⟨?_, ?_, ?_⟩
  · intro x hx
    rcases List.mem_append.mp hx with h | h
    · exact ha.1 x h
    · exact hb.1 x h
  · rw [List.flatMap_append, List.all_append, ha.2.1, hb.2.1]; rfl
  · rw [List.flatMap_append]; exact uNeutral_append _ _ ha.2.2 hb.2.2

theorem joinElems_ok : ∀ (es : List Elem), (∀ e ∈ es, ElemOk e) → ElemOk (joinElems es)
  | [], _ => elemOk_nil
  | [e], h => h e (by simp)
  | e :: f :: rest, h => by
    show ElemOk (e ++ BlockG.plain [Node.nl] :: joinElems (f :: rest))
    exact elemOk_append (h e (by simp)) (elemOk_append (a := [BlockG.plain [Node.nl]]) (elemOk_of_ng ng_nl)
      (joinElems_ok (f :: rest) (fun x hx => h x (by simp [hx]))))

/-! ### the grammar's side condition from good parts -/

theorem docOk_of_parts (head : List Node) (blocks : List BlockG) (hh : NG head) (hb : ElemOk blocks) :
    docOk { head := head, blocks := blocks } = true := by
  have hall : (docNodes { head := head, blocks := blocks }).all frameNode = true := by
    simp only [docNodes, List.all_cons, List.all_append, hh.2.1, hb.2.1, Bool.and_true, frameNode]
    decide
  simp only [docOk, Bool.and_eq_true]
  refine ⟨⟨⟨hh.1, List.all_eq_true.mpr hb.1⟩, ?_⟩, ?_⟩
  · rw [nodesOk_top]
    exact nodesOk_frame _ (some '}') hall (by simp only [goodNext]; decide)
  · have hU : UNeutral (head ++ blocks.flatMap blockNodes) := uNeutral_append _ _ hh.2.2 hb.2.2
    have hr : uWord "rtf".toList = false := by decide
    simp only [toksNode, docNodes, toksNodes, List.cons_append, List.nil_append]
    rw [uOk_open, uOk_cw_noU _ _ _ _ _ hr, hU]
    simp [uOk]

end Proofs.Encode
