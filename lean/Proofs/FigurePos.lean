import Model.Figure
import Model.FigureSpec
import Model.FigureMemo
import Proofs.Figure
/-! Helper lemmas for `Props/C16pos.lean`: the picture of a position, pointwise; the memoising page loop. Core Lean only. -/
namespace Proofs.FigurePos
open Model.Figure Proofs.Figure

/-! ## `readFormats`, `encodePicts` position by position -/

theorem readFormats_getElem? : ∀ (figs : List FigSrc) (fs : List (Fmt × List Nat)), readFormats figs = some fs →
    ∀ (j : Nat) (s : FigSrc), figs[j]? = some s → ∃ f, fmtOfSuffix s.suffix = some f ∧ fs[j]? = some (f, s.bytes)
  | [], _, _, j, s, hs => by simp at hs
  | x :: rest, fs, h, j, s, hs => by
    simp only [readFormats] at h
    split at h
    · rename_i f r hf hr
      injection h with h
      subst h
      cases j with
      | zero =>
        simp only [List.getElem?_cons_zero, Option.some.injEq] at hs
        subst hs
        exact ⟨f, hf, rfl⟩
      | succ j =>
        simp only [List.getElem?_cons_succ] at hs ⊢
        exact readFormats_getElem? rest r hr j s hs
    · cases h

theorem encodePicts_getElem? (ws hs : List Size) : ∀ (i : Nat) (fs : List (Fmt × List Nat)) (ps : List Pict),
    encodePicts ws hs i fs = some ps →
    ∀ j f bs, fs[j]? = some (f, bs) →
      ∃ w h, getDim ws (i + j) = some w ∧ getDim hs (i + j) = some h ∧ ps[j]? = some (encodeFigure f bs w h)
  | _, [], _, _, j, f, bs, hj => by simp at hj
  | i, (f0, bs0) :: rest, ps, h, j, f, bs, hj => by
    simp only [encodePicts] at h
    split at h
    · rename_i w0 h0 ps' hw0 hh0 hps
      injection h with h
      subst h
      cases j with
      | zero =>
        simp only [List.getElem?_cons_zero, Option.some.injEq, Prod.mk.injEq] at hj
        obtain ⟨rfl, rfl⟩ := hj
        exact ⟨w0, h0, by simpa using hw0, by simpa using hh0, rfl⟩
      | succ j =>
        simp only [List.getElem?_cons_succ] at hj ⊢
        obtain ⟨w, h', e1, e2, e3⟩ := encodePicts_getElem? ws hs (i + 1) rest ps' hps j f bs hj
        refine ⟨w, h', ?_, ?_, e3⟩
        · rw [← e1]; congr 1; omega
        · rw [← e2]; congr 1; omega
    · cases h

theorem encodePicts_ne_nil (ws hs : List Size) (i : Nat) (fs : List (Fmt × List Nat)) (ps : List Pict)
    (h : encodePicts ws hs i fs = some ps) (hne : fs ≠ []) : ps ≠ [] := by
  cases fs with
  | nil => exact absurd rfl hne
  | cons x rest =>
    obtain ⟨f, bs⟩ := x
    simp only [encodePicts] at h
    split at h
    · injection h with h
      subst h
      simp
    · cases h

theorem readFormats_ne_nil (figs : List FigSrc) (fs : List (Fmt × List Nat)) (h : readFormats figs = some fs)
    (hne : figs ≠ []) : fs ≠ [] := by
  cases figs with
  | nil => exact absurd rfl hne
  | cons x rest =>
    simp only [readFormats] at h
    split at h
    · injection h with h
      subst h
      simp
    · cases h

/-- what `encodeDoc` returns, opened up -/
theorem encodeDoc_ok (d : FigDoc) (pieces : List Piece) (h : encodeDoc d = .ok pieces) :
    ∃ fs ps, readFormats d.figs = some fs ∧ encodePicts d.widths d.heights 0 fs = some ps ∧ ps ≠ [] ∧
      pieces = figureLoop d.cfg ps := by
  simp only [encodeDoc] at h
  split at h
  · cases h
  · rename_i hne
    split at h
    · cases h
    · rename_i fs hfs
      split at h
      · cases h
      · rename_i ps hps
        injection h with h
        have hne' : d.figs ≠ [] := by
          intro h0
          simp [h0] at hne
        exact ⟨fs, ps, hfs, hps, encodePicts_ne_nil _ _ _ _ _ hps (readFormats_ne_nil _ _ hfs hne'), h.symm⟩

/-- the pictures a reader finds on page `j` of the model's output: the picture of `ps[j]`, nothing else -/
theorem observe_picts (cfg : Cfg) (ps : List Pict) (hne : ps ≠ []) (j : Nat) :
    ((observe (figureLoop cfg ps))[j]?).map (·.picts) = ps[j]?.map (fun p => [obsOfPict p]) := by
  have hl : figureLoop cfg ps = loopFrom cfg ps.length 0 ps := rfl
  simp only [observe, hl, splitPages_loopFrom cfg ps.length ps 0 hne (by simp), List.getElem?_map, bodiesFrom_getElem?,
    Option.map_map]
  cases ps[j]? with
  | none => rfl
  | some p => simp [picts_pageBody]

/-! ## the memoising loop -/

theorem memoFind_mem {κ : Type} [DecidableEq κ] (k : κ) : ∀ (memo : List (κ × Pict)) (p : Pict),
    memoFind k memo = some p → (k, p) ∈ memo
  | [], _, h => by simp [memoFind] at h
  | (k', q) :: rest, p, h => by
    simp only [memoFind] at h
    split at h
    · rename_i hk
      injection h with h
      subst h
      subst hk
      simp
    · exact List.mem_cons_of_mem _ (memoFind_mem k rest p h)

/-- the key determines what a position is encoded from: positions (counted from `i`) with equal keys have equal
format, bytes, width and height -/
def Determined {κ : Type} (ws hs : List Size) (i : Nat) (items : List (Keyed κ)) : Prop :=
  ∀ a b xa xb, items[a]? = some xa → items[b]? = some xb → xa.key = xb.key →
    xa.fmt = xb.fmt ∧ xa.bytes = xb.bytes ∧ getDim ws (i + a) = getDim ws (i + b) ∧ getDim hs (i + a) = getDim hs (i + b)

/-- every remembered picture is the picture any later position with its key would get -/
def MemoOk {κ : Type} (ws hs : List Size) (i : Nat) (memo : List (κ × Pict)) (items : List (Keyed κ)) : Prop :=
  ∀ k p, (k, p) ∈ memo → ∀ j x, items[j]? = some x → x.key = k →
    ∃ w h, getDim ws (i + j) = some w ∧ getDim hs (i + j) = some h ∧ p = encodeFigure x.fmt x.bytes w h

theorem Determined.tail {κ : Type} {ws hs : List Size} {i : Nat} {x : Keyed κ} {rest : List (Keyed κ)}
    (h : Determined ws hs i (x :: rest)) : Determined ws hs (i + 1) rest := by
  intro a b xa xb ha hb hk
  have := h (a + 1) (b + 1) xa xb (by simpa using ha) (by simpa using hb) hk
  have e1 : i + 1 + a = i + (a + 1) := by omega
  have e2 : i + 1 + b = i + (b + 1) := by omega
  rw [e1, e2]
  exact this

theorem MemoOk.tail {κ : Type} {ws hs : List Size} {i : Nat} {memo : List (κ × Pict)} {x : Keyed κ}
    {rest : List (Keyed κ)} (h : MemoOk ws hs i memo (x :: rest)) : MemoOk ws hs (i + 1) memo rest := by
  intro k p hm j y hy hk
  have := h k p hm (j + 1) y (by simpa using hy) hk
  have e1 : i + 1 + j = i + (j + 1) := by omega
  rw [e1]
  exact this

theorem encodePictsMemo_eq {κ : Type} [DecidableEq κ] (ws hs : List Size) :
    ∀ (items : List (Keyed κ)) (i : Nat) (memo : List (κ × Pict)),
      Determined ws hs i items → MemoOk ws hs i memo items →
      encodePictsMemo ws hs i memo items = encodePicts ws hs i (items.map Keyed.plain)
  | [], _, _, _, _ => by simp [encodePictsMemo, encodePicts]
  | x :: rest, i, memo, hd, hm => by
    simp only [encodePictsMemo, List.map_cons, Keyed.plain, encodePicts]
    cases hf : memoFind x.key memo with
    | some p =>
      obtain ⟨w, h, hw, hh, hp⟩ := hm x.key p (memoFind_mem _ _ _ hf) 0 x (by simp) rfl
      simp only [Nat.add_zero] at hw hh
      have ih := encodePictsMemo_eq ws hs rest (i + 1) memo hd.tail hm.tail
      simp only [hw, hh, ih, hp]
      cases encodePicts ws hs (i + 1) (List.map Keyed.plain rest) <;> rfl
    | none =>
      cases hw : getDim ws i with
      | none => simp
      | some w =>
        cases hh : getDim hs i with
        | none => simp
        | some h =>
          have hm' : MemoOk ws hs (i + 1) ((x.key, encodeFigure x.fmt x.bytes w h) :: memo) rest := by
            intro k p hmem j y hy hk
            rcases List.mem_cons.mp hmem with heq | hmem
            · injection heq with hk' hp'
              subst hk' hp'
              obtain ⟨e1, e2, e3, e4⟩ := hd 0 (j + 1) x y (by simp) (by simpa using hy) hk.symm
              simp only [Nat.add_zero] at e3 e4
              have a1 : i + 1 + j = i + (j + 1) := by omega
              refine ⟨w, h, ?_, ?_, ?_⟩
              · rw [a1, ← e3, hw]
              · rw [a1, ← e4, hh]
              · rw [e1, e2]
            · exact hm.tail k p hmem j y hy hk
          have ih := encodePictsMemo_eq ws hs rest (i + 1) _ hd.tail hm'
          simp only [ih]
          cases encodePicts ws hs (i + 1) (List.map Keyed.plain rest) <;> rfl

end Proofs.FigurePos
