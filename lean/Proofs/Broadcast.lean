import Model.Broadcast
/-!
General facts about the functions of `Model/Broadcast.lean` (core Lean only):
`repeatList`, `Mat.iloc`, `Mat.toList`, `Mat.updateCell`, `Mat.pageRows`
on rectangular, non-empty matrices with a positive number of columns (`Good`).
-/
namespace Proofs.Broadcast
open Model.Broadcast

variable {α : Type}

/-! ## repeatList -/

theorem repeatList_length (l : List α) (n : Nat) : (repeatList l n).length = n * l.length := by
  induction n with
  | zero => simp [repeatList]
  | succ n ih => simp [repeatList, ih, Nat.succ_mul, Nat.add_comm]

theorem repeatList_getElem? (l : List α) (n k : Nat) (hk : k < n * l.length) :
    (repeatList l n)[k]? = l[k % l.length]? := by
  induction n generalizing k with
  | zero => simp at hk
  | succ n ih =>
    simp only [repeatList]
    by_cases h : k < l.length
    · rw [List.getElem?_append_left h, Nat.mod_eq_of_lt h]
    · have h' : l.length ≤ k := Nat.le_of_not_gt h
      rw [List.getElem?_append_right h', ih, ← Nat.mod_eq_sub_mod h']
      rw [Nat.succ_mul] at hk; omega

/-- the repetition count of `to_list` is large enough -/
theorem rep_ge (n k : Nat) (hk : 0 < k) : n ≤ max 1 ((n + k - 1) / k) * k := by
  have h1 := Nat.div_add_mod (n + k - 1) k
  have h2 := Nat.mod_lt (n + k - 1) hk
  have h3 : (n + k - 1) / k ≤ max 1 ((n + k - 1) / k) := Nat.le_max_right ..
  have h4 := Nat.mul_le_mul_right k h3
  rw [Nat.mul_comm] at h1
  omega

/-! ## well-formed matrices -/

/-- `m[r][c]` without wrap-around -/
def cell (m : Mat α) (r c : Nat) : Option α := (m[r]?).bind (·[c]?)

/-- non-empty, rectangular, at least one column -/
structure Good (m : Mat α) : Prop where
  ne : m ≠ []
  rect : m.Rect
  cols : 0 < m.ncols

/-- exactly `rows` rows of `cols` entries -/
structure Shape (m : Mat α) (rows cols : Nat) : Prop where
  len : m.length = rows
  row : ∀ x ∈ m, x.length = cols

theorem Shape.ncols {m : Mat α} {rows cols : Nat} (h : Shape m rows cols) (hr : 0 < rows) :
    m.ncols = cols := by
  cases m with
  | nil => have := h.len; simp at this; omega
  | cons x xs => simp [Mat.ncols]; exact h.row x (by simp)

theorem Shape.good {m : Mat α} {rows cols : Nat} (h : Shape m rows cols) (hr : 0 < rows)
    (hc : 0 < cols) : Good m := by
  have hn := h.ncols hr
  refine ⟨?_, ?_, ?_⟩
  · intro e; have := h.len; rw [e] at this; simp at this; omega
  · intro x hx; rw [hn]; exact h.row x hx
  · omega

theorem Good.shape {m : Mat α} (h : Good m) : Shape m m.length m.ncols := ⟨rfl, h.rect⟩

theorem Good.length_pos {m : Mat α} (h : Good m) : 0 < m.length :=
  List.length_pos_iff.mpr h.ne

theorem iloc_eq_cell {m : Mat α} (h : Good m) (r c : Nat) :
    m.iloc r c = cell m (r % m.length) (c % m.ncols) := by
  have hl := h.length_pos
  have hc := h.cols
  unfold Mat.iloc cell
  rw [if_neg (by omega)]
  cases hm : m[r % m.length]? with
  | none => simp
  | some row => simp; intro h0; omega

theorem Shape.iloc {m : Mat α} {rows cols : Nat} (h : Shape m rows cols) {r c : Nat}
    (hr : r < rows) (hc : c < cols) : m.iloc r c = cell m r c := by
  have hg := h.good (by omega) (by omega)
  rw [iloc_eq_cell hg, h.len, h.ncols (by omega), Nat.mod_eq_of_lt hr, Nat.mod_eq_of_lt hc]

/-- on a well-formed matrix `iloc` never fails -/
theorem Good.iloc_isSome {m : Mat α} (h : Good m) (r c : Nat) : (m.iloc r c).isSome := by
  rw [iloc_eq_cell h]
  have hl := h.length_pos
  have hr : r % m.length < m.length := Nat.mod_lt _ hl
  unfold cell
  rw [List.getElem?_eq_getElem hr]
  simp only [Option.bind_some]
  have hlen := h.rect _ (List.getElem_mem hr)
  have hc : c % m.ncols < (m[r % m.length]).length := by rw [hlen]; exact Nat.mod_lt _ h.cols
  rw [List.getElem?_eq_getElem hc]; rfl

/-! ## toList -/

theorem toList_getElem? {m : Mat α} (h : Good m) (rows cols r : Nat) (hr : r < rows) :
    (m.toList rows cols)[r]? =
      (m[r % m.length]?).map fun row =>
        (repeatList row (max 1 ((cols + m.ncols - 1) / m.ncols))).take cols := by
  have hl := h.length_pos
  unfold Mat.toList
  simp only [List.getElem?_map, List.getElem?_take, if_pos hr]
  rw [repeatList_getElem?]
  · simp only [List.getElem?_map, List.length_map, Option.map_map]; rfl
  · have := rep_ge rows m.length hl
    simp only [List.length_map]; omega

theorem toList_shape {m : Mat α} (h : Good m) (rows cols : Nat) :
    Shape (m.toList rows cols) rows cols := by
  have hl := h.length_pos
  have hc := h.cols
  constructor
  · unfold Mat.toList
    simp only [List.length_map, List.length_take, repeatList_length]
    have := rep_ge rows m.length hl
    omega
  · intro x hx
    unfold Mat.toList at hx
    simp only [List.mem_map] at hx
    obtain ⟨y, hy, rfl⟩ := hx
    have hy' := List.mem_of_mem_take hy
    have : ∀ n, ∀ z ∈ repeatList (List.map (fun row => repeatList row
        (max 1 ((cols + m.ncols - 1) / m.ncols))) m) n,
        z.length = max 1 ((cols + m.ncols - 1) / m.ncols) * m.ncols := by
      intro n
      induction n with
      | zero => intro z hz; simp [repeatList] at hz
      | succ n ih =>
        intro z hz
        simp only [repeatList, List.mem_append, List.mem_map] at hz
        rcases hz with ⟨w, hw, rfl⟩ | hz
        · rw [repeatList_length, h.rect w hw]
        · exact ih z hz
    have hlen := this _ y hy'
    have := rep_ge cols m.ncols hc
    simp only [List.length_take]; omega

theorem toList_cell {m : Mat α} (h : Good m) {rows cols r c : Nat} (hr : r < rows) (hc : c < cols) :
    cell (m.toList rows cols) r c = cell m (r % m.length) (c % m.ncols) := by
  unfold cell
  rw [toList_getElem? h rows cols r hr]
  cases hm : m[r % m.length]? with
  | none => simp
  | some row =>
    have hmem : row ∈ m := List.mem_of_getElem? hm
    have hlen := h.rect row hmem
    simp only [Option.map_some, Option.bind_some, List.getElem?_take, if_pos hc]
    rw [repeatList_getElem?, hlen]
    have := rep_ge cols m.ncols h.cols
    rw [hlen]; omega

theorem toList_iloc {m : Mat α} (h : Good m) {rows cols r c : Nat} (hr : r < rows) (hc : c < cols) :
    (m.toList rows cols).iloc r c = m.iloc r c := by
  rw [(toList_shape h rows cols).iloc hr hc, toList_cell h hr hc, iloc_eq_cell h]

theorem toList_good {m : Mat α} (h : Good m) {rows cols : Nat} (hr : 0 < rows) (hc : 0 < cols) :
    Good (m.toList rows cols) := (toList_shape h rows cols).good hr hc

/-- `toList` of a matrix that already has the requested shape is the identity (cell-wise) -/
theorem toList_cell_of_shape {m : Mat α} {rows cols r c : Nat} (h : Shape m rows cols)
    (hr : r < rows) (hc : c < cols) : cell (m.toList rows cols) r c = cell m r c := by
  have hg := h.good (by omega) (by omega)
  rw [toList_cell hg hr hc, h.len, h.ncols (by omega), Nat.mod_eq_of_lt hr, Nat.mod_eq_of_lt hc]

/-! ## updateCell -/

theorem updateCell_shape {m : Mat α} (h : Good m) (rows cols r c : Nat) (v : α) :
    Shape (m.updateCell rows cols r c v) rows cols := by
  have hs := toList_shape h rows cols
  unfold Mat.updateCell
  simp only
  cases he : (m.toList rows cols)[r]? with
  | none => exact hs
  | some row =>
    have hrow := hs.row row (List.mem_of_getElem? he)
    constructor
    · simp [hs.len]
    · intro x hx
      rcases List.mem_or_eq_of_mem_set hx with hx | rfl
      · exact hs.row x hx
      · simp [hrow]

theorem updateCell_good {m : Mat α} (h : Good m) {rows cols : Nat} (hr : 0 < rows) (hc : 0 < cols)
    (r c : Nat) (v : α) : Good (m.updateCell rows cols r c v) :=
  (updateCell_shape h rows cols r c v).good hr hc

theorem updateCell_iloc {m : Mat α} (h : Good m) {rows cols r c r' c' : Nat} (v : α)
    (hr : r < rows) (hc : c < cols) (hr' : r' < rows) (hc' : c' < cols) :
    (m.updateCell rows cols r c v).iloc r' c' =
      if r' = r ∧ c' = c then some v else m.iloc r' c' := by
  rw [(updateCell_shape h rows cols r c v).iloc hr' hc', ← toList_iloc h hr' hc',
    (toList_shape h rows cols).iloc hr' hc']
  have hs := toList_shape h rows cols
  unfold Mat.updateCell
  simp only
  have hlt : r < (m.toList rows cols).length := by rw [hs.len]; exact hr
  rw [List.getElem?_eq_getElem hlt]
  simp only
  have hrow := hs.row _ (List.getElem_mem hlt)
  unfold cell
  by_cases e : r' = r
  · subst e
    rw [List.getElem?_set_self hlt]
    simp only [Option.bind_some, true_and]
    by_cases e2 : c' = c
    · subst e2
      rw [if_pos rfl, List.getElem?_set_self (by omega)]
    · rw [if_neg e2, List.getElem?_set_ne (by omega), List.getElem?_eq_getElem hlt]; rfl
  · rw [List.getElem?_set_ne (by omega), if_neg (by simp [e])]

/-! ## pageRows -/

theorem filterMap_congr' {β γ : Type} {f g : β → Option γ} (l : List β)
    (h : ∀ x ∈ l, f x = g x) : l.filterMap f = l.filterMap g := by
  induction l with
  | nil => rfl
  | cons a l ih =>
    have ha := h a (by simp)
    have ih' := ih (fun x hx => h x (by simp [hx]))
    simp only [List.filterMap_cons, ha, ih']

theorem pageRows_eq_map {m : Mat α} (h : 1 < m.length) (start height : Nat) :
    m.pageRows start height =
      (List.range height).map fun i => (m[(start + i) % m.length]?).getD [] := by
  unfold Mat.pageRows
  rw [if_pos h, ← List.filterMap_eq_map']
  apply filterMap_congr'
  intro i _
  have hlt : (start + i) % m.length < m.length := Nat.mod_lt _ (by omega)
  simp [List.getElem?_eq_getElem hlt]

theorem pageRows_shape {m : Mat α} (h : Good m) (hl : 1 < m.length) (start height : Nat) :
    Shape (m.pageRows start height) height m.ncols := by
  rw [pageRows_eq_map hl]
  constructor
  · simp
  · intro x hx
    simp only [List.mem_map, List.mem_range] at hx
    obtain ⟨i, _, rfl⟩ := hx
    have hlt : (start + i) % m.length < m.length := Nat.mod_lt _ (by omega)
    rw [List.getElem?_eq_getElem hlt]
    exact h.rect _ (List.getElem_mem hlt)

theorem pageRows_good {m : Mat α} (h : Good m) (start : Nat) {height : Nat} (hh : 0 < height) :
    Good (m.pageRows start height) := by
  by_cases hl : 1 < m.length
  · exact (pageRows_shape h hl start height).good hh h.cols
  · unfold Mat.pageRows; rw [if_neg hl]; exact h

theorem pageRows_iloc {m : Mat α} (h : Good m) (start : Nat) {height i : Nat} (hi : i < height)
    (c : Nat) : (m.pageRows start height).iloc i c = m.iloc (start + i) c := by
  by_cases hl : 1 < m.length
  · have hs := pageRows_shape h hl start height
    have hg := hs.good (by omega) h.cols
    rw [iloc_eq_cell hg, iloc_eq_cell h, hs.len, hs.ncols (by omega), Nat.mod_eq_of_lt hi]
    unfold cell
    congr 1
    rw [pageRows_eq_map hl]
    have hlt : (start + i) % m.length < m.length := Nat.mod_lt _ (by omega)
    simp [hi, List.getElem?_eq_getElem hlt]
  · have h1 : m.length = 1 := by have := h.length_pos; omega
    unfold Mat.pageRows
    rw [if_neg hl, iloc_eq_cell h, iloc_eq_cell h, h1, Nat.mod_one, Nat.mod_one]

end Proofs.Broadcast
