import Model.GroupBy
import Model.GroupBySpec
import Model.GroupByHist
import Proofs.GroupBy
/-! helper lemmas for `Props/C13hist.lean` -/
namespace Proofs.GroupByHist
open Model.GroupBy Model.GroupBy.Hist Proofs.GroupBy

theorem runFrom_service (cs : List Call) (s : Unit) : runFrom service s cs = cs.map answer := by
  induction cs generalizing s with
  | nil => rfl
  | cons c cs ih => simp only [runFrom, List.map_cons, ih]; rfl

/-- `enhance_group_by` on a consulted call: the validator's verdict, then the suppression -/
theorem enhance_consulted (df : Frame) (gb : List Str) (hc : Consulted df gb) :
    enhanceGroupBy df gb =
      match validateDataSorting df gb with
      | .error e => .error e
      | .ok () => .ok (suppress df gb) := by
  unfold enhanceGroupBy
  rw [hc.1, hc.2]
  simp only [Bool.false_eq_true, if_false]
  cases validateDataSorting df gb with
  | error e => rfl
  | ok u =>
    cases u
    simp only [suppress]
    rcases gb with _ | ⟨g, _ | ⟨g2, rest⟩⟩ <;> rfl

/-- every remembered key is the key of a consulted table the scan accepted -/
def Inv {κ : Type} (key : Frame → List Str → κ) (seen : List κ) : Prop :=
  ∀ k ∈ seen, ∃ a ga, Consulted a ga ∧ key a ga = k ∧ validateDataSorting a ga = .ok ()

theorem enhanceMemo_sound {κ : Type} [DecidableEq κ] (key : Frame → List Str → κ) (hk : AcceptSound key)
    (seen : List κ) (hs : Inv key seen) (df : Frame) (gb : List Str) :
    Inv key (enhanceMemo key seen df gb).1 ∧ (enhanceMemo key seen df gb).2 = enhanceGroupBy df gb := by
  unfold enhanceMemo
  by_cases h0 : (gb = [] || height df = 0) = true
  · rw [if_pos h0]
    refine ⟨hs, ?_⟩
    unfold enhanceGroupBy
    rw [if_pos h0]
  · rw [if_neg h0]
    by_cases h1 : (gb.any fun c => !(names df).contains c) = true
    · rw [if_pos h1]
      refine ⟨hs, ?_⟩
      unfold enhanceGroupBy
      rw [if_neg h0, if_pos h1]
    · rw [if_neg h1]
      have hc : Consulted df gb := ⟨by simpa using h0, by simpa using h1⟩
      rw [enhance_consulted df gb hc]
      by_cases hm : key df gb ∈ seen
      · rw [if_pos hm]
        obtain ⟨a, ga, hca, hka, hva⟩ := hs _ hm
        have := hk a ga df gb hca hc hka hva
        rw [this]
        exact ⟨hs, rfl⟩
      · rw [if_neg hm]
        cases hv : validateDataSorting df gb with
        | error e => exact ⟨hs, rfl⟩
        | ok u =>
          cases u
          refine ⟨?_, rfl⟩
          intro k hkm
          rcases List.mem_cons.mp hkm with rfl | hkm
          · exact ⟨df, gb, hc, rfl, hv⟩
          · exact hs k hkm

theorem memo_step_sound {κ : Type} [DecidableEq κ] (key : Frame → List Str → κ) (hk : AcceptSound key)
    (seen : List κ) (hs : Inv key seen) (c : Call) :
    Inv key ((memoService key).step seen c).1 ∧ ((memoService key).step seen c).2 = answer c := by
  have h := enhanceMemo_sound key hk seen hs c.df c.gb
  refine ⟨h.1, ?_⟩
  simp only [memoService, answer, h.2]

theorem runFrom_memo {κ : Type} [DecidableEq κ] (key : Frame → List Str → κ) (hk : AcceptSound key)
    (cs : List Call) (seen : List κ) (hs : Inv key seen) :
    runFrom (memoService key) seen cs = cs.map answer := by
  induction cs generalizing seen with
  | nil => rfl
  | cons c cs ih =>
    have h := memo_step_sound key hk seen hs c
    simp only [runFrom, List.map_cons, h.2, ih _ h.1]

theorem enhanceMemo_consulted {κ : Type} [DecidableEq κ] (key : Frame → List Str → κ) (seen : List κ)
    (df : Frame) (gb : List Str) (hc : Consulted df gb) :
    enhanceMemo key seen df gb =
      if key df gb ∈ seen then (seen, .ok (suppress df gb)) else
      match validateDataSorting df gb with
      | .error e => (seen, .error e)
      | .ok () => (key df gb :: seen, .ok (suppress df gb)) := by
  unfold enhanceMemo
  rw [hc.1, hc.2]
  simp only [Bool.false_eq_true, if_false]
  split
  · rfl
  · cases validateDataSorting df gb with
    | error e => rfl
    | ok u => cases u; rfl

/-- a key that is not accept-sound shows in a history of two calls: the second is answered `ok` although the
scan of its own table rejects it -/
theorem memo_two_calls {κ : Type} [DecidableEq κ] (key : Frame → List Str → κ) (a : Frame) (ga : List Str)
    (b : Frame) (gb : List Str) (ha : Consulted a ga) (hb : Consulted b gb) (hkey : key a ga = key b gb)
    (hva : validateDataSorting a ga = .ok ()) :
    run (memoService key) [⟨a, ga, []⟩, ⟨b, gb, []⟩] =
      [.ok (restorePageContext (suppress a ga) a ga []), .ok (restorePageContext (suppress b gb) b gb [])] := by
  simp only [run, runFrom, memoService, enhanceMemo_consulted key _ a ga ha, enhanceMemo_consulted key _ b gb hb,
    hva, List.not_mem_nil, if_false, hkey, List.mem_cons, or_false, if_true]

/-! ### the exact key -/

theorem tuples_congr (a b : Frame) (cols : List Str) (hh : height a = height b)
    (hc : ∀ c ∈ cols, getCol a c = getCol b c) : tuples a cols = tuples b cols := by
  unfold tuples
  rw [hh]
  apply List.map_congr_left
  intro i _
  apply List.map_congr_left
  intro c hcm
  rw [hc c hcm]

theorem validate_congr (a b : Frame) (gb : List Str) (ha : Consulted a gb) (hb : Consulted b gb)
    (hh : height a = height b) (hc : ∀ c ∈ gb.eraseDups, getCol a c = getCol b c) :
    validateDataSorting a gb = validateDataSorting b gb := by
  have hmiss : ∀ (f : Frame), Consulted f gb → (gb.eraseDups.any fun c => !(names f).contains c) = false := by
    intro f hf
    have h2 := hf.2
    rw [List.any_eq_false] at h2 ⊢
    intro c hcm
    exact h2 c (by simpa using hcm)
  have hne : gb ≠ [] := by
    intro h
    have := ha.1
    simp [h] at this
  have hha : height a ≠ 0 := by
    intro h
    have := ha.1
    simp [h] at this
  have hhb : height b ≠ 0 := hh ▸ hha
  unfold validateDataSorting
  simp only [hne, hha, hhb, if_false, hmiss a ha, hmiss b hb, Bool.false_eq_true]
  have hlev : ∀ i, levelOk a gb.eraseDups i = levelOk b gb.eraseDups i := by
    intro i
    unfold levelOk
    by_cases hi : i = 0
    · simp only [hi, if_true]
      cases hu : gb.eraseDups with
      | nil =>
        exfalso
        cases hg : gb with
        | nil => exact hne hg
        | cons g rest =>
          have hm : g ∈ gb.eraseDups := by simp [hg]
          rw [hu] at hm
          simp at hm
      | cons g rest =>
        simp only [List.headD_cons]
        rw [hc g (by rw [hu]; exact List.mem_cons_self)]
    · simp only [hi, if_false]
      rw [tuples_congr a b _ hh (fun c hcm => hc c (List.mem_of_mem_take hcm))]
  have : (List.range gb.eraseDups.length).all (levelOk a gb.eraseDups) =
      (List.range gb.eraseDups.length).all (levelOk b gb.eraseDups) := by
    congr 1
    funext i
    exact hlev i
  rw [this]

/-! ### the sum key: two tables with the same rows in another order -/

private def cA : Cell := some ['A']
private def cB : Cell := some ['B']

def grouped : Frame := [(['g'], [cA, cA, cB, cB]), (['v'], [some ['1'], some ['2'], some ['3'], some ['4']])]
def scattered : Frame := [(['g'], [cA, cB, cA, cB]), (['v'], [some ['1'], some ['2'], some ['3'], some ['4']])]

theorem sumKey_collides (h : List Cell → Nat) : sumKey h grouped [['g']] = sumKey h scattered [['g']] := by
  have e1 : tuples grouped [['g']] = [[cA], [cA], [cB], [cB]] := by decide
  have e2 : tuples scattered [['g']] = [[cA], [cB], [cA], [cB]] := by decide
  have e3 : names grouped = names scattered := by decide
  have e4 : height grouped = height scattered := by decide
  unfold sumKey
  rw [e1, e2, e3, e4]
  simp only [List.map_cons, List.map_nil, List.sum_cons, List.sum_nil]
  have : h [cA] + (h [cA] + (h [cB] + (h [cB] + 0))) = h [cA] + (h [cB] + (h [cA] + (h [cB] + 0))) := by omega
  rw [this]

end Proofs.GroupByHist
