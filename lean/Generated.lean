import Generated.ConvertTables
import Generated.Colors
import Generated.Latex
import Generated.Constants
import Generated.Fonts
