import Model.Paginate
/-!
Specification-side, executable definitions for C03/C04 (used both by the theorems in `Props`
and by the driver as the oracle evaluated on the implementation's observed pagination).
-/
namespace Model.Paginate

/-- load of page `p` among rows already placed: computed by filtering on the page number,
independent of the algorithm's accumulator -/
def loadOn (p : Nat) (done : List (RowMeta × Nat)) : Nat :=
  ((done.filter (fun x => x.2 == p)).map (fun x => x.1.total)).sum

def lastPage (done : List (RowMeta × Nat)) : Nat := (done.getLast?.map (·.2)).getD 0

/-- a grouping rule demands a break before `r` -/
def demands (np : Bool) (r : RowMeta) : Bool := r.sub || (np && r.grp)

/-- Decidable form of the C04 clauses at one position (`done` non-empty). Returns the list of
violated clause names. -/
def breakClauses (avail : Nat) (np : Bool) (done : List (RowMeta × Nat)) (r : RowMeta) (q : Nat) :
    List String :=
  let p := lastPage done
  let over := decide (loadOn p done + r.total > avail)
  let req := demands np r || over
  (if q ≠ p ∧ !req then ["break-not-required"] else []) ++
  (if req ∧ loadOn p done > 0 ∧ q ≠ p + 1 then ["required-break-missing"] else []) ++
  (if q ≠ p ∧ q ≠ p + 1 then ["page-number-jump"] else [])

def checkBreaksAux (avail : Nat) (np : Bool) :
    List (RowMeta × Nat) → List (RowMeta × Nat) → Nat → List (Nat × String)
  | _, [], _ => []
  | done, (r, q) :: rest, i =>
    (if done.isEmpty then (if q = 1 then [] else [(i, "first-page-not-1")])
     else (breakClauses avail np done r q).map (fun s => (i, s))) ++
    checkBreaksAux avail np (done ++ [(r, q)]) rest (i + 1)

/-- all C04 (a)(b)(c) violations of an observed pagination `ps` of `rs` -/
def checkBreaks (nrow additional : Nat) (np : Bool) (rs : List RowMeta) (ps : List Nat) :
    List (Nat × String) :=
  (if rs.length = ps.length then [] else [(0, "length-mismatch")]) ++
  checkBreaksAux (availRows nrow additional) np [] (rs.zip ps) 0

/-- C03-A: load of every page ≤ avail unless the page holds a single row -/
def pageLoads (zs : List (RowMeta × Nat)) : List (Nat × Nat × Nat) :=
  (zs.map (·.2)).eraseDups.map fun p =>
    (p, loadOn p zs, (zs.filter (fun x => x.2 == p)).length)

def checkBudget (avail : Nat) (zs : List (RowMeta × Nat)) : List Nat :=
  (pageLoads zs).filterMap fun (p, load, n) => if load ≤ avail ∨ n = 1 then none else some p

end Model.Paginate
