import Model.Export
/-!
Specification-side definitions for C18: the hypotheses of the theorems (`Unrelated`, `NoClash`),
the "unchanged or a created parent directory" relation (`Same`), and the **decidable oracle**
(`violations`) which the driver evaluates on before/after snapshots of the *real* file system.
Each oracle clause is the restriction of a theorem clause of `Props/C18.lean` to the finitely many
paths that occur in the two snapshots.
-/
namespace Model.Export

/-- neither path is the other or lies below it -/
def Unrelated (a b : Path) : Prop := under a b = false ∧ under b a = false

/-- The precondition on the two names `mkdtemp` picks.  `tempfile.mkdtemp` only guarantees that the
name does not exist *when the directory is created*; the target (and the HTML resource folder) may
not exist yet at that moment, so a clash with them is not excluded by the OS.  The real code has
the same precondition (a target path equal to a future random temp name is overwritten/removed). -/
structure NoClash (P : Params) : Prop where
  tA : Unrelated (P.tmpRoot ++ [P.tA]) (P.dir ++ [P.tname])
  tB : Unrelated (P.tmpRoot ++ [P.tB]) (P.dir ++ [P.tname])
  resA : P.html = true → ∀ n : Name, Unrelated (P.tmpRoot ++ [P.tA]) (P.dir ++ [n ++ filesSuffix])
  resB : P.html = true → ∀ n : Name, Unrelated (P.tmpRoot ++ [P.tB]) (P.dir ++ [n ++ filesSuffix])

/-- `q` is unchanged, or it is a missing ancestor directory of the target that
`mkdir(parents=True)` created (such directories are neither target nor temporary and are **not**
counted as debris — also when the call fails later) -/
def Same (fs : Fs) (dir : Path) (fs' : Fs) (q : Path) : Prop :=
  fget fs' q = fget fs q ∨ (under q dir = true ∧ fget fs q = none ∧ fget fs' q = some .dir)

def sameB (fs : Fs) (dir : Path) (fs' : Fs) (q : Path) : Bool :=
  fget fs' q == fget fs q || (under q dir && fget fs q == none && fget fs' q == some .dir)

theorem sameB_iff (fs : Fs) (dir : Path) (fs' : Fs) (q : Path) :
    sameB fs dir fs' q = true ↔ Same fs dir fs' q := by
  simp [sameB, Same, and_assoc]

/-! ## the oracle on observations -/

structure Obs where
  before : Fs
  after : Fs
  dir : Path
  tname : Name
  tmpRoot : Path
  raised : Bool
  /-- the encoder raised, or the conversion failed: the converter raised / returned something that is not a `Path` /
  its process exited with a non-zero status (whatever it wrote) or left no `<stem>.<fmt>` -/
  mustRaise : Bool
  /-- on success: the bytes the target has to hold (encoder's string / converter's output) -/
  expected : Option Bytes
  /-- HTML and the converter produced a resource folder: its name -/
  resName : Option Name
  /-- entries of that folder, relative to it (the folder itself excluded) -/
  resContent : List (Path × Node)

def Obs.target (o : Obs) : Path := o.dir ++ [o.tname]

def Obs.allKeys (o : Obs) : List Path := keys o.before ++ keys o.after

def inRes (o : Obs) (q : Path) : Bool :=
  match o.resName with
  | some n => under (o.dir ++ [n]) q
  | none => false

/-- names of the violated clauses (empty = the property holds of this observation) -/
def violations (o : Obs) : List String :=
  let t := o.target
  let tempChanged := o.allKeys.any fun q => under o.tmpRoot q && fget o.after q != fget o.before q
  (if o.mustRaise && !o.raised then ["no-raise-after-failed-encode-or-conversion"] else [])
  ++ (if tempChanged then ["temporary-files-left-behind"] else [])
  -- the failure clauses bind whenever the encode / the conversion failed — also when the call did not raise
  ++ (if o.raised || o.mustRaise then
        (if fget o.after t != fget o.before t then ["target-changed-on-failure"] else [])
        ++ (if o.allKeys.any fun q => !under o.tmpRoot q && !sameB o.before o.dir o.after q
            then ["debris-on-failure"] else [])
      else
        (match o.expected with
          | some b => if fget o.after t != some (.file b) then ["target-content-on-success"] else []
          | none => [])
        ++ (match o.resName with
          | some n =>
            let dst := o.dir ++ [n]
            if fget o.after dst != some .dir
               || o.resContent.any (fun e => fget o.after (dst ++ e.1) != some e.2)
               || (keys o.after).any (fun q => under dst q && q != dst
                    && !(o.resContent.any fun e => dst ++ e.1 == q))
            then ["resource-folder-not-exactly-next-to-target"] else []
          | none => [])
        ++ (if o.allKeys.any fun q => !under o.tmpRoot q && q != t && !inRes o q
                  && !sameB o.before o.dir o.after q
            then ["debris-on-success"] else []))

/-- paths on which two file systems differ (over the keys of both) -/
def fsDiff (a b : Fs) : List Path :=
  (keys a ++ keys b).filter fun q => fget a q != fget b q

end Model.Export
