import Model.World
/-!
Decidable specification of C14 at the observation level.  It is polymorphic in what an "outcome" is
(`α`: the model's `Outcome`, or — for the implementation — the digest of the string `rtf_encode()`
returned / the exception it raised) and in what a "frame value" is (`γ`), so that the *same* predicate
is the conclusion of `Props.C14.C14_spec_of_model` and the oracle the driver evaluates on the
implementation's real observations.
-/
namespace Model.World

inductive Clause where
  | historyDependent      -- the target's outcome differs from the fresh interpreter's
  | encodeTwiceDiffers    -- two consecutive `rtf_encode()` calls on one document differ
  | frameModified         -- a caller's DataFrame is not what it was before the history
  | interpreterDependent  -- two fresh interpreters (they differ in their string-hash seed and in nothing else)
                          -- give different outcomes for the same constructor call + encode
  deriving DecidableEq, Repr

structure Obs (α γ : Type) where
  target : α                 -- outcome of the target at the end of the history
  fresh : α                  -- outcome of the same constructor call + encode in a fresh interpreter
  twice : List (α × α)       -- every pair of consecutive encodes of one document object
  frames : List (γ × γ)      -- every caller-owned frame: (value before the history, value after)

def violations {α γ} [DecidableEq α] [DecidableEq γ] (o : Obs α γ) : List Clause :=
  (if o.target = o.fresh then [] else [.historyDependent]) ++
  (if o.twice.all (fun p => decide (p.1 = p.2)) then [] else [.encodeTwiceDiffers]) ++
  (if o.frames.all (fun p => decide (p.1 = p.2)) then [] else [.frameModified])

/-- "What a fresh interpreter produces" is one thing only if every fresh interpreter produces it: `ref` = the
outcome in the reference interpreter, `others` = the outcomes of the same constructor call + encode in fresh
interpreters started with other hash seeds. -/
def seedViolations {α} [DecidableEq α] (ref : α) (others : List α) : List Clause :=
  if others.all (fun o => decide (o = ref)) then [] else [.interpreterDependent]

/-- what the implementation lets us observe of one `rtf_encode()` call -/
inductive ObsOut where
  | ok (digest : Str)
  | raised (cls msg : Str)
  deriving DecidableEq, Repr

def twicePairs : List Out → List (Outcome × Outcome)
  | [] => []
  | .twice a b :: r => (a, b) :: twicePairs r
  | _ :: r => twicePairs r

/-- the observation the model makes of a history followed by a target -/
def modelObs (T : Table) (w₀ : World) (ops : List Op) (c : Ctor) : Obs Outcome Frame :=
  let r := run T w₀ ops
  let t := encodeCtor T r.1 c
  { target := t.2
    fresh := (encodeCtor T w₀ c).2
    twice := twicePairs r.2
    frames := (w₀.frames.map (·.2)).zip (t.1.frames.map (·.2)) }

/-- the outcomes of one constructor call + encode in fresh interpreters with the hash seeds `seeds` -/
def modelFreshOutcomes (T : Table) (w₀ : World) (seeds : List Nat) (c : Ctor) : List Outcome :=
  seeds.map (fun s => (encodeCtor T { w₀ with seed := s } c).2)

end Model.World
