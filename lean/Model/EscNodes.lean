import Model.Escape
import Model.Emit
/-!
Bridge between the escaper model of C10 (`Model/Escape.lean`, code points → bytes) and the syntax-tree emitter model
of C01 (`Model/Emit.lean`): the escaper's output as a list of syntax nodes, so that the side conditions of the emitter
theorems (`textOk`, `uForm`) can be discharged for every text the escaper writes.
-/
namespace Model.EscNodes
open Model.Rtf Model.Emit Model.Escape

/-- one code point: 7-bit characters as text, everything else as `\uc1\uN*` per UTF-16 code unit -/
def escNodesCp (n : Nat) : List Node :=
  if n < 128 then [Node.txt [Char.ofNat n]]
  else (codeUnits n).flatMap fun u => [cwi "uc" 1, cwi "u" (signed16 u), Node.txt ['*']]

def escNodes (t : List Nat) : List Node := t.flatMap escNodesCp

/-- characters the emitters may not receive raw: `\ { }` and line ends -/
def plainCp (n : Nat) : Bool := n != 92 && n != 123 && n != 125 && n != 10 && n != 13

end Model.EscNodes
