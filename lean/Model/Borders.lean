import Model.Broadcast
/-!
Model of `PageFeatureProcessor._apply_pagination_borders` (pagination/processor.py) for the body's
`border_top` / `border_bottom` matrices of ONE page, after the repairs recorded in known_findings.json
(page-relative attribute rows, one rule for the bottom border, "a header row exists only if one is rendered").
Import-free, executable.
-/
namespace Model.Borders
open Model.Broadcast

structure BorderIn where
  isFirst      : Bool
  isLast       : Bool
  start        : Nat              -- index of the page's first row in the table
  height       : Nat              -- page rows
  width        : Nat              -- displayed columns
  top          : Mat String       -- processed body border_top (table-relative, column-sliced)
  bottom       : Mat String       -- processed body border_bottom
  bodyFirst    : Mat String       -- document.rtf_body.border_first
  bodyTopOrig  : Mat String       -- document.rtf_body.border_top (for the override rule)
  bodyLast     : Mat String       -- document.rtf_body.border_last
  pageFirst    : String           -- rtf_page.border_first ("" is falsy)
  pageLast     : String           -- rtf_page.border_last
  hasHeaders   : Bool             -- some header object is rendered
  fnTableHere  : Bool             -- footnote shown on this page and rendered as a table
  srcTableHere : Bool
  deriving Repr, Inhabited

structure BorderOut where
  top         : Mat String        -- page-relative
  bottom      : Mat String
  fnOverride  : Option String     -- component_borders["footnote"]
  srcOverride : Option String
  deriving Repr, Inhabited

/-- `for col in range(width): _apply_border_to_cell(attrs, row, col, side, style(col), page_shape)` -/
def applyRow (m : Mat String) (h w row : Nat) (style : Nat → String) : Mat String :=
  (List.range w).foldl (fun acc c => acc.updateCell h w row c (style c)) m

/-- `_apply_body_border_first`: the style for column `c` -/
def bodyFirstStyle (b : BorderIn) (c : Nat) : String :=
  let bfr := b.bodyFirst.head?.getD []
  let bt0 := b.bodyTopOrig.head?.getD []
  let base := if c < bfr.length then bfr.getD c "" else bfr.getD 0 ""
  let hasBorderTop := b.bodyTopOrig.length > 0 && bt0.length > bfr.length
  if hasBorderTop && c < bt0.length && (bt0.getD c "") != "" then bt0.getD c "" else base

def bodyLastStyle (b : BorderIn) : String := (b.bodyLast.head?.bind List.head?).getD ""

/-- the style that closes the table on this page (`None` when the relevant setting is empty) -/
def closingStyle (b : BorderIn) : Option String :=
  if !b.isLast then
    (if b.bodyLast.length > 0 && bodyLastStyle b != "" then some (bodyLastStyle b) else none)
  else (if b.pageLast != "" then some b.pageLast else none)

def applyBorders (b : BorderIn) : BorderOut :=
  let top0 := b.top.pageRows b.start b.height
  let bot0 := b.bottom.pageRows b.start b.height
  if b.height = 0 then { top := b.top, bottom := b.bottom, fnOverride := none, srcOverride := none } else
  -- 1. first page without header row: page border_first
  let top1 := if b.isFirst && !b.hasHeaders && b.pageFirst != ""
    then applyRow top0 b.height b.width 0 (fun _ => b.pageFirst) else top0
  -- first page with header row, or any later page: body border_first
  let top2 := if ((b.isFirst && b.hasHeaders) || !b.isFirst) && b.bodyFirst.length > 0
    then applyRow top1 b.height b.width 0 (bodyFirstStyle b) else top1
  -- 4. bottom
  match closingStyle b with
  | none => { top := top2, bottom := bot0, fnOverride := none, srcOverride := none }
  | some s =>
    if !(b.fnTableHere || b.srcTableHere) then
      { top := top2, bottom := applyRow bot0 b.height b.width (b.height - 1) (fun _ => s),
        fnOverride := none, srcOverride := none }
    else if b.srcTableHere then { top := top2, bottom := bot0, fnOverride := none, srcOverride := some s }
    else { top := top2, bottom := bot0, fnOverride := some s, srcOverride := none }

/-- what `_encode` reads for page row `i` (segment offset already added), column `c` -/
def topAt (o : BorderOut) (i c : Nat) : Option String := o.top.iloc i c
def bottomAt (o : BorderOut) (i c : Nat) : Option String := o.bottom.iloc i c

end Model.Borders
