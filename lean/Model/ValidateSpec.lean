import Model.Validate
/-!
# C19 — the specification side: what the statement calls *invalid configuration*

Written from the statement and the package documentation, **not** from the validators:
the legal value sets are literal lists here (`doc*`); `Props/C19.lean` proves that the generated code
tables equal them, so that an edit of a table in the source re-opens a proof obligation.
The colour set is the 657-row r2rtf colour table itself (it *is* the documentation of colour names).

`spec* : … → Verdict` is the decidable oracle evaluated by the driver on every generated case and
compared with what the implementation did; the theorems show the model always meets it.
-/
namespace Model.ValidateSpec
open Model.Validate

/-- what the property demands of a constructor call -/
inductive Verdict where
  | reject      -- must raise ValueError (pydantic ValidationError included), nothing is constructed
  | notFound    -- must raise FileNotFoundError
  | rejectAny   -- an invalid field *and* a missing figure file: either of the two
  | accept      -- valid configuration inside the stated domain: must be constructed
  | free        -- outside the stated domain (empty lists, None elements, ill-typed values, rules the
                -- statement does not list): the property does not speak
  deriving DecidableEq, Repr, Inhabited

/-! ## documented value sets -/

def docBorderStyles : List String :=
  ["single", "double", "thick", "dotted", "dashed", "small-dash", "dash-dotted", "dash-dot-dotted",
   "triple", "wavy", "double-wavy", "striped", "embossed", "engraved", "frame", ""]
def docFormatCodes : List String := ["", "b", "i", "u", "s", "^", "_"]
def docTextJust : List String := ["", "l", "c", "r", "d", "j"]
def docRowJust : List String := ["", "l", "c", "r"]
def docVertAlign : List String := ["top", "center", "bottom", "merge_first", "merge_rest", ""]
def docFontNumbers : List Int := [1, 2, 3, 4, 5, 6, 7, 8, 9, 10]
def docOrientation : List String := ["portrait", "landscape"]
def docPlacement : List String := ["first", "last", "all"]
def docPagebyRow : List String := ["column", "first_row"]
def docFigAlign : List String := ["left", "center", "right"]
def docFigPos : List String := ["before", "after"]
def docColorCount : Nat := 657

/-! ## attribute fields -/

inductive Class where
  | border | color | font | format | textJust | rowJust | vertAlign | posInt | posFloat
  deriving DecidableEq, Repr

def classOf : Field → Class
  | .textFont => .font
  | .textFormat => .format
  | .textFontSize => .posFloat
  | .textColor | .textBackgroundColor => .color
  | .textJustification => .textJust
  | .colRelWidth => .posFloat
  | .borderLeft | .borderRight | .borderTop | .borderBottom | .borderFirst | .borderLast => .border
  | .borderColorLeft | .borderColorRight | .borderColorTop | .borderColorBottom | .borderColorFirst
  | .borderColorLast => .color
  | .borderWidth => .posInt
  | .cellHeight => .posFloat
  | .cellJustification => .rowJust
  | .cellVerticalJustification => .vertAlign
  | .cellNrow => .posInt

/-- the value has the Python type the attribute is documented with -/
def wellTypedC : Class → Val → Bool
  | .font, .int _ | .posInt, .int _ => true
  | .posFloat, .int _ | .posFloat, .rat _ => true
  | .font, _ | .posInt, _ | .posFloat, _ => false
  | _, .str _ => true
  | _, _ => false

/-- the value is one the documentation allows -/
def legalC : Class → Val → Bool
  | .border, .str s => docBorderStyles.contains s
  | .color, .str s => s == "" || colorNames.contains s
  | .font, .int i => docFontNumbers.contains i
  | .format, .str s => s.toList.all (fun c => docFormatCodes.contains (String.singleton c))
  | .textJust, .str s => docTextJust.contains s
  | .rowJust, .str s => docRowJust.contains s
  | .vertAlign, .str s => docVertAlign.contains s
  | .posInt, .int i => decide (0 < i)
  | .posFloat, .int i => decide (0 < i)
  | .posFloat, .rat q => decide (0 < q)
  | _, _ => false

def wellTyped (f : Field) (v : Val) : Bool := wellTypedC (classOf f) v
def legal (f : Field) (v : Val) : Bool := legalC (classOf f) v

/-- accepted shapes of the statement: a scalar, a non-empty vector (list or tuple), a non-empty matrix;
`col_rel_width` is a vector attribute -/
def shapeOk (f : Field) : Raw → Bool
  | .none => false
  | .scalar _ => true
  | .flat vs => !vs.isEmpty
  | .tuple vs => !vs.isEmpty
  | .nested rows => !rows.isEmpty && !(rule f).flatOnly

def inDomain (f : Field) (x : Raw) : Bool := shapeOk f x && x.elems.all (wellTyped f)

/-- some element, wherever it sits, is illegal -/
def hasIllegal (f : Field) (x : Raw) : Bool := x.elems.any (fun v => !legal f v)

def extraInDomain (c : Comp) (ex : Extra) : Bool :=
  (match ex.pagebyRow with | some (.str _) => c == .body | some _ => false | none => true) &&
  (match ex.asTable with | some (.bool _) => c == .footnote || c == .source | some _ => false | none => true)

def extraIllegal (ex : Extra) : Bool :=
  match ex.pagebyRow with
  | some (.str s) => !docPagebyRow.contains s
  | _ => false

def suppliedInDomain (kw : Field → Option Raw) (f : Field) : Bool :=
  match kw f with
  | some x => inDomain f x
  | none => true

def suppliedIllegal (kw : Field → Option Raw) (f : Field) : Bool :=
  match kw f with
  | some x => hasIllegal f x
  | none => false

/-- the oracle for a component constructor call -/
def specComp (c : Comp) (kw : Field → Option Raw) (ex : Extra) : Verdict :=
  if !((fieldsOf c).all (suppliedInDomain kw) && extraInDomain c ex) then .free
  else if (fieldsOf c).any (suppliedIllegal kw) || extraIllegal ex then .reject
  else if c == .body && ex.newPage && !ex.pageBy then .reject     -- new_page without page_by
  else .accept

/-! ## RTFPage -/

def pageInDomain : PageField → Raw → Bool
  | .orientation, .scalar (.str _) | .borderFirst, .scalar (.str _) | .borderLast, .scalar (.str _)
  | .pageTitle, .scalar (.str _) | .pageFootnote, .scalar (.str _) | .pageSource, .scalar (.str _) => true
  | .width, .scalar v | .height, .scalar v | .colWidth, .scalar v => wellTypedC .posFloat v
  | .nrow, .scalar v => wellTypedC .posInt v
  | .margin, .flat vs | .margin, .tuple vs => vs.all (wellTypedC .posFloat)
  | _, _ => false

def pageLegal : PageField → Raw → Bool
  | .orientation, .scalar (.str s) => docOrientation.contains s
  | .borderFirst, .scalar (.str s) | .borderLast, .scalar (.str s) => docBorderStyles.contains s
  | .pageTitle, .scalar (.str s) | .pageFootnote, .scalar (.str s) | .pageSource, .scalar (.str s) =>
      docPlacement.contains s
  | .width, .scalar v | .height, .scalar v | .colWidth, .scalar v => legalC .posFloat v
  | .nrow, .scalar v => legalC .posInt v
  | .margin, .flat vs | .margin, .tuple vs => vs.length == 6
  | _, _ => false

def pageSuppliedInDomain (kw : PageField → Option Raw) (f : PageField) : Bool :=
  match kw f with
  | some x => pageInDomain f x
  | none => true

def pageSuppliedIllegal (kw : PageField → Option Raw) (f : PageField) : Bool :=
  match kw f with
  | some x => !pageLegal f x
  | none => false

/-- "a non-positive … col_width": the table width the page ends up with — the supplied `col_width`, or the page
width minus the side allowance (2.25 in portrait, 2.5 in landscape) when none is given — must be positive -/
def pageColWidthIllegal (kw : PageField → Option Raw) : Bool := !decide (0 < resolvedColWidth kw)

def specPage (kw : PageField → Option Raw) : Verdict :=
  if !(pageFields.all (pageSuppliedInDomain kw)) then .free
  else if pageFields.any (pageSuppliedIllegal kw) then .reject
  else if pageColWidthIllegal kw then .reject
  else .accept

/-! ## RTFFigure -/

def figDimInDomain : Raw → Bool
  | .scalar v => wellTypedC .posFloat v
  | .flat vs | .tuple vs => !vs.isEmpty && vs.all (wellTypedC .posFloat)
  | _ => false

def figDimLegal (x : Raw) : Bool := x.elems.all (legalC .posFloat)

def optStrDomain : Option Val → Bool
  | some (.str _) => true
  | some _ => false
  | none => true

def optStrIllegal (ks : List String) : Option Val → Bool
  | some (.str s) => !ks.contains s
  | _ => false

def optDimDomain : Option Raw → Bool
  | some x => figDimInDomain x
  | none => true

def optDimIllegal : Option Raw → Bool
  | some x => !figDimLegal x
  | none => false

def figInDomain (a : FigArgs) : Bool :=
  optStrDomain a.figAlign && optStrDomain a.figPos && optDimDomain a.figWidth && optDimDomain a.figHeight

def figIllegal (a : FigArgs) : Bool :=
  optStrIllegal docFigAlign a.figAlign || optStrIllegal docFigPos a.figPos ||
  optDimIllegal a.figWidth || optDimIllegal a.figHeight

def specFigure (a : FigArgs) : Verdict :=
  if !figInDomain a then .free
  else if figIllegal a && figMissing a then .rejectAny
  else if figIllegal a then .reject
  else if figMissing a then .notFound
  else .accept

/-! ## RTFDocument -/

def sectionLegal (cols : List String) (b : BodySpec) : Bool :=
  let present := fun (o : Option (List String)) => match o with
    | some names => names.all (fun n => cols.contains n)
    | none => true
  -- "grouping columns missing from the data": a group_by column must also still be a column of the displayed
  -- table, i.e. not one that subline_by, or page_by shown as spanning rows, takes out of it
  let spanning := !(b.newPage && b.pagebyColumn)
  let gone := fun (c : String) =>
    (b.sublineBy.getD []).contains c || (spanning && (b.pageBy.getD []).contains c)
  present b.groupBy && present b.pageBy && present b.sublineBy && !(b.groupBy.getD []).any gone

def sectionsLegal (secs : List (List String)) (bs : List BodySpec) : Bool :=
  (secs.zip bs).all (fun p => sectionLegal p.1 p.2)

/-- the document-level rules the statement lists: df xor figure, equal list lengths, grouping columns
present. Mixing a single frame with a body list (or the reverse), an empty section list and the
figure-with-table-footnote rule are not among them (`free`). -/
def specDoc (a : DocArgs) : Verdict :=
  match a.df, a.figure with
  | .none, false => .reject
  | .single _, true | .multi _, true => .reject
  | .none, true => if a.footnote == some true || a.source == some true then .free else .accept
  | .single cols, false =>
    match a.body with
    | .single b => if sectionLegal cols b then .accept else .reject
    | _ => .free
  | .multi secs, false =>
    match a.body with
    | .multi bs =>
      if secs.isEmpty then .free
      else if secs.length != bs.length then .reject
      else if headerMismatch a.header secs.length then .reject
      else if sectionsLegal secs bs then .accept
      else .reject
    | _ => .free

/-- the statement's verdict on real frames: "grouping columns missing from the data" speaks about the column
names, whatever the number of rows (a "no observations" table included) -/
def specDocData (d : DfData) (a : DocArgs) : Verdict :=
  specDoc { a with df := d.toArg }

/-- some name of some grouping option of `b` is not a column -/
def missingName (cols : List String) (b : BodySpec) (name : String) : Bool :=
  !cols.contains name &&
    ((b.groupBy.getD []).contains name || (b.pageBy.getD []).contains name || (b.sublineBy.getD []).contains name)

end Model.ValidateSpec
