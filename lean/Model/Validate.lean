import Generated.Constants
import Generated.Colors
/-!
# Model of the construction-time validators (property C19)

Mirrors, for the *repaired* tree (fixes `d20-validator-field-name`, `d25-cell-justification-row-codes`,
`figure-size-positive`):

* `attributes.py`: `_to_nested_list`, `TextAttributes.convert_to_list` + `validate_text_*`,
  `TableAttributes.convert_to_nested_list`, `convert_col_rel_width_to_list`, `validate_border`,
  `validate_border_colors`, `validate_positive_value`, `validate_cell_justification`,
  `validate_cell_vertical_justification`;
* `input.py`: `RTFPage` field validators, `RTFBody.validate_pageby_row` / `_validate_page_by_logic`,
  `RTFTableTextComponent.validate_as_table`, `RTFFigure` validators and `validate_figure_data`;
* `encode.py`: `RTFDocument.validate_column_names` / `_validate_section_columns`.

pydantic is glue that is modelled only as far as the outcome class depends on it:
1. the `mode="before"` normaliser of the field turns the user's value (`Raw`) into a list shape (`Norm`);
2. the annotation's element type is enforced on every element (`coerce`, lax mode: `True → 1`, `2.0 → 2`);
   a mismatch is a `ValidationError`;
3. the `mode="after"` validator loops over the elements; a `ValueError` raised there becomes a
   `ValidationError`; any other exception (`IndexError` from `v[0]` on an empty list, `TypeError` from
   `_to_nested_list`, `FileNotFoundError`) escapes **immediately**, whereas `ValidationError`s are collected
   over all fields and raised at the end (`runFields`).

The value sets are *referenced* from `Generated.*` (regenerated from the source on every run).
Numbers: a Python `float` is its exact rational value.
-/
namespace Model.Validate

/-! ## exceptions and values -/

inductive Err where
  | validationError   -- pydantic.ValidationError (a ValueError)
  | valueError        -- plain ValueError
  | fileNotFound
  | indexError
  | typeError
  | attributeError
  deriving DecidableEq, Repr, Inhabited

/-- the exception is a `ValueError` (pydantic's `ValidationError` included) -/
def Err.isValueError : Err → Bool
  | .validationError => true
  | .valueError => true
  | _ => false

/-- a Python scalar as a user can write it into an attribute -/
inductive Val where
  | str (s : String)
  | int (i : Int)
  | rat (q : Rat)      -- a float, exact value
  | bool (b : Bool)
  | null               -- None
  deriving DecidableEq, Repr, Inhabited

/-- `isinstance(item, (str, int, float, bool))` -/
def Val.isScalar : Val → Bool
  | .null => false
  | _ => true

/-- the value a user passes for an attribute, by Python shape -/
inductive Raw where
  | none                              -- None
  | scalar (v : Val)                  -- "single"
  | flat (vs : List Val)              -- ["single", ""]       (list of scalars)
  | nested (rows : List (List Val))   -- [["single"], [""]]   (list of lists)
  | tuple (vs : List Val)             -- ("single", "")
  deriving DecidableEq, Repr, Inhabited

/-- every element written anywhere in the value -/
def Raw.elems : Raw → List Val
  | .none => []
  | .scalar v => [v]
  | .flat vs => vs
  | .nested rows => rows.flatten
  | .tuple vs => vs

/-- what a field holds after the `before` normaliser -/
inductive Norm where
  | none
  | flat (vs : List Val)
  | nested (rows : List (List Val))
  deriving DecidableEq, Repr, Inhabited

/-! ## value sets (referenced from the generated tables) -/

def keys (t : List (String × String)) : List String := t.map Prod.fst

def borderKeys : List String := keys Generated.borderCodes
def formatKeys : List String := keys Generated.formatCodes
def textJustKeys : List String := keys Generated.textJustCodes
def rowJustKeys : List String := keys Generated.rowJustCodes
def vertAlignKeys : List String := keys Generated.vertAlignCodes
def colorNames : List String := Generated.colorTable.map (·.name)
/-- `Utils._font_type()["type"]` -/
def fontNumbers : List Int := Generated.fontTable.map (fun r => (r.1 : Int))

/-! ## element types and predicates -/

/-- element type of the field's annotation -/
inductive Kind where
  | str | int | float
  deriving DecidableEq, Repr

/-- pydantic (lax mode) coercion of one element to the annotated type; strings are never coerced to
numbers in the modelled domain (numeric strings are outside it) -/
def coerce : Kind → Val → Except Err Val
  | .str, .str s => .ok (.str s)
  | .int, .int i => .ok (.int i)
  | .int, .rat q => if q.den = 1 then .ok (.int q.num) else .error .validationError
  | .int, .bool b => .ok (.int (if b then 1 else 0))
  | .float, .int i => .ok (.rat i)
  | .float, .rat q => .ok (.rat q)
  | .float, .bool b => .ok (.rat (if b then 1 else 0))
  | _, _ => .error .validationError

/-- the test a validator applies to one (already coerced) element -/
inductive Pred where
  | inSet (ks : List String)   -- `x not in CODES` → raise
  | colorOrEmpty               -- `color and not color_service.validate_color(color)` → raise
  | fontNumber                 -- `font not in Utils._font_type()["type"]` → raise
  | formatChars                -- `for fmt in format: fmt not in FORMAT_CODES` → raise
  | positive                   -- `val <= 0` → raise
  deriving Repr

def Pred.holds : Pred → Val → Bool
  | .inSet ks, .str s => ks.contains s
  | .colorOrEmpty, .str s => s == "" || colorNames.contains s
  | .fontNumber, .int i => fontNumbers.contains i
  | .formatChars, .str s => s.toList.all (fun c => formatKeys.contains (String.singleton c))
  | .positive, .int i => !(decide (i ≤ 0))
  | .positive, .rat q => !(decide (q ≤ 0))
  | _, _ => false

/-! ## the rule table -/

/-- validated attribute fields of `TextAttributes` / `TableAttributes`, in declaration order
(the order pydantic validates them in) -/
inductive Field where
  | textFont | textFormat | textFontSize | textColor | textBackgroundColor | textJustification
  | colRelWidth
  | borderLeft | borderRight | borderTop | borderBottom | borderFirst | borderLast
  | borderColorLeft | borderColorRight | borderColorTop | borderColorBottom | borderColorFirst
  | borderColorLast
  | borderWidth | cellHeight | cellJustification | cellVerticalJustification | cellNrow
  deriving DecidableEq, Repr, Inhabited

structure Rule where
  kind : Kind
  pred : Pred
  /-- the annotation allows `None` -/
  optional : Bool
  /-- the validator reads `v[0]` unguarded (`validate_positive_value`) -/
  idx0 : Bool
  /-- the annotation is a flat `list[float]` (`col_rel_width`) -/
  flatOnly : Bool

def rule : Field → Rule
  | .textFont => ⟨.int, .fontNumber, true, false, false⟩
  | .textFormat => ⟨.str, .formatChars, true, false, false⟩
  | .textFontSize => ⟨.float, .positive, true, false, false⟩
  | .textColor => ⟨.str, .colorOrEmpty, true, false, false⟩
  | .textBackgroundColor => ⟨.str, .colorOrEmpty, true, false, false⟩
  | .textJustification => ⟨.str, .inSet textJustKeys, true, false, false⟩
  | .colRelWidth => ⟨.float, .positive, true, true, true⟩
  | .borderLeft | .borderRight | .borderTop | .borderBottom | .borderFirst | .borderLast =>
      ⟨.str, .inSet borderKeys, false, false, false⟩
  | .borderColorLeft | .borderColorRight | .borderColorTop | .borderColorBottom | .borderColorFirst
  | .borderColorLast => ⟨.str, .colorOrEmpty, false, false, false⟩
  | .borderWidth => ⟨.int, .positive, false, true, false⟩
  | .cellHeight => ⟨.float, .positive, false, true, false⟩
  | .cellJustification => ⟨.str, .inSet rowJustKeys, false, false, false⟩
  | .cellVerticalJustification => ⟨.str, .inSet vertAlignKeys, false, false, false⟩
  | .cellNrow => ⟨.int, .positive, false, true, false⟩

def textFields : List Field :=
  [.textFont, .textFormat, .textFontSize, .textColor, .textBackgroundColor, .textJustification]

def tableFields : List Field :=
  textFields ++
  [.colRelWidth, .borderLeft, .borderRight, .borderTop, .borderBottom, .borderFirst, .borderLast,
   .borderColorLeft, .borderColorRight, .borderColorTop, .borderColorBottom, .borderColorFirst,
   .borderColorLast, .borderWidth, .cellHeight, .cellJustification, .cellVerticalJustification, .cellNrow]

def Field.isText (f : Field) : Bool := textFields.contains f

/-! ## shape normalisers (`mode="before"`) -/

/-- `_to_nested_list` on scalars, lists and tuples -/
def toNested : Raw → Except Err Norm
  | .none => .ok .none
  | .scalar v => if v.isScalar then .ok (.nested [[v]]) else .ok .none
  | .flat vs =>
      if vs.any Val.isScalar then .ok (.nested [vs])     -- one row: per column
      else if vs.isEmpty then .ok (.nested [])           -- `all(...)` of nothing
      else .error .typeError                             -- only `None`s: "Invalid value type"
  | .nested rows => .ok (.nested rows)
  | .tuple vs => .ok (.nested (vs.map fun v => [v]))      -- one column: per row

/-- `TextAttributes.convert_to_list` (flat text components); tuples are accepted as lists by pydantic -/
def toFlat : Raw → Norm
  | .none => .none
  | .scalar v => if v.isScalar then .flat [v] else .none
  | .flat vs => .flat vs
  | .nested [] => .flat []
  | .nested rows => .nested rows
  | .tuple vs => .flat vs

/-- normaliser of field `f` on a table component (`table = true`: RTFBody, RTFColumnHeader, RTFFootnote,
RTFSource) or a text component (RTFTitle, RTFSubline, RTFPageHeader, RTFPageFooter) -/
def normalise (table : Bool) (f : Field) (x : Raw) : Except Err Norm :=
  if (rule f).flatOnly then .ok (toFlat x)       -- convert_col_rel_width_to_list
  else if table then toNested x
  else .ok (toFlat x)

/-! ## element type check and validator loops -/

def coerceRow (k : Kind) : List Val → Except Err (List Val)
  | [] => .ok []
  | v :: vs =>
    match coerce k v with
    | .error e => .error e
    | .ok w =>
      match coerceRow k vs with
      | .error e => .error e
      | .ok ws => .ok (w :: ws)

def coerceRows (k : Kind) : List (List Val) → Except Err (List (List Val))
  | [] => .ok []
  | r :: rs =>
    match coerceRow k r with
    | .error e => .error e
    | .ok r' =>
      match coerceRows k rs with
      | .error e => .error e
      | .ok rs' => .ok (r' :: rs')

/-- `for x in row: if not ok(x): raise ValueError` -/
def loopRow (p : Pred) : List Val → Except Err Unit
  | [] => .ok ()
  | v :: vs => if p.holds v then loopRow p vs else .error .validationError

/-- `for row in v: for x in row: …` -/
def loopRows (p : Pred) : List (List Val) → Except Err Unit
  | [] => .ok ()
  | r :: rs =>
    match loopRow p r with
    | .error e => .error e
    | .ok () => loopRows p rs

/-- the `mode="after"` validator of a field on the type-checked value -/
def afterValidator (r : Rule) : Norm → Except Err Unit
  | .none => .ok ()
  | .flat [] => if r.idx0 then .error .indexError else .ok ()
  | .nested [] => if r.idx0 then .error .indexError else .ok ()
  | .flat vs => loopRow r.pred vs
  | .nested rows => loopRows r.pred rows

/-- type check of the normalised value against the annotation, then the validator -/
def checkNorm (r : Rule) : Norm → Except Err Unit
  | .none => if r.optional then .ok () else .error .validationError
  | .flat vs =>
    match coerceRow r.kind vs with
    | .error e => .error e
    | .ok ws => afterValidator r (.flat ws)
  | .nested rows =>
    if r.flatOnly && !rows.isEmpty then .error .validationError   -- a list is not a float
    else
      match coerceRows r.kind rows with
      | .error e => .error e
      | .ok rows' => afterValidator r (.nested rows')

/-- everything pydantic does for one supplied attribute -/
def validateField (table : Bool) (f : Field) (x : Raw) : Except Err Unit :=
  match normalise table f x with
  | .error e => .error e
  | .ok n => checkNorm (rule f) n

/-- one element passes type check and validator -/
def elemOk (f : Field) (v : Val) : Bool :=
  match coerce (rule f).kind v with
  | .ok w => (rule f).pred.holds w
  | .error _ => false

/-! ## components -/

inductive Comp where
  | body | colHeader | footnote | source | title | subline | pageHeader | pageFooter
  deriving DecidableEq, Repr, Inhabited

def Comp.isTable : Comp → Bool
  | .body | .colHeader | .footnote | .source => true
  | _ => false

def fieldsOf (c : Comp) : List Field := if c.isTable then tableFields else textFields

/-- the non-matrix arguments with a rule of their own -/
structure Extra where
  /-- RTFBody.pageby_row, if supplied -/
  pagebyRow : Option Val := none
  /-- RTFBody.new_page (already a bool) -/
  newPage : Bool := false
  /-- RTFBody.page_by is not None -/
  pageBy : Bool := false
  /-- RTFFootnote/RTFSource.as_table, if supplied -/
  asTable : Option Val := none
  deriving Repr, Inhabited

/-- field loop of pydantic: a non-`ValueError` escapes at once, `ValidationError`s are collected.
Returns whether a `ValidationError` is pending. -/
def runFields (table : Bool) (kw : Field → Option Raw) : List Field → Bool → Except Err Bool
  | [], soft => .ok soft
  | f :: fs, soft =>
    match kw f with
    | none => runFields table kw fs soft
    | some x =>
      match validateField table f x with
      | .ok () => runFields table kw fs soft
      | .error e => if e.isValueError then runFields table kw fs true else .error e

def pagebyRowOk : Val → Bool
  | .str s => ["column", "first_row"].contains s
  | _ => false

def asTableOk : Val → Bool
  | .bool _ => true
  | _ => false

/-- scalar rules of the component classes themselves (all raise `ValueError` inside a field validator) -/
def extraSoft (c : Comp) (ex : Extra) : Bool :=
  (c == .body && (match ex.pagebyRow with | some v => !pagebyRowOk v | none => false)) ||
  ((c == .footnote || c == .source) && (match ex.asTable with | some v => !asTableOk v | none => false))

/-- constructor of a component: `RTFBody(**kw)`, … -/
def constructComp (c : Comp) (kw : Field → Option Raw) (ex : Extra) : Except Err Unit :=
  match runFields c.isTable kw (fieldsOf c) false with
  | .error e => .error e
  | .ok soft =>
    if soft || extraSoft c ex then .error .validationError
    -- RTFBody._validate_page_by_logic, after pydantic returned
    else if c == .body && ex.newPage && !ex.pageBy then .error .valueError
    else .ok ()

/-! ## RTFPage -/

inductive PageField where
  | orientation | width | height | margin | nrow | borderFirst | borderLast | colWidth
  | pageTitle | pageFootnote | pageSource
  deriving DecidableEq, Repr, Inhabited

def pageFields : List PageField :=
  [.orientation, .width, .height, .margin, .nrow, .borderFirst, .borderLast, .colWidth,
   .pageTitle, .pageFootnote, .pageSource]

def strIn (ks : List String) : Val → Bool
  | .str s => ks.contains s
  | _ => false

/-- `float | None` / `int | None` with `v is not None and v <= 0` → raise -/
def optPositive (k : Kind) : Val → Bool
  | .null => true
  | v => match coerce k v with
    | .ok w => Pred.positive.holds w
    | .error _ => false

def isNumber (v : Val) : Bool :=
  match coerce .float v with
  | .ok _ => true
  | .error _ => false

def validatePageField : PageField → Raw → Bool
  | .orientation, .scalar v => strIn ["portrait", "landscape"] v
  | .orientation, .none => false                       -- `None not in [...]`
  | .width, .scalar v | .height, .scalar v | .colWidth, .scalar v => optPositive .float v
  | .nrow, .scalar v => optPositive .int v
  | .width, .none | .height, .none | .colWidth, .none | .nrow, .none => true
  | .margin, .none => true
  | .margin, .flat vs | .margin, .tuple vs => vs.all isNumber && vs.length == 6
  | .borderFirst, .scalar v | .borderLast, .scalar v => strIn borderKeys v
  | .borderFirst, .none | .borderLast, .none => false  -- `None not in BORDER_CODES`
  | .pageTitle, .scalar v | .pageFootnote, .scalar v | .pageSource, .scalar v =>
      strIn ["first", "last", "all"] v
  | _, _ => false                                      -- wrong shape for the annotation

def pageSuppliedOk (kw : PageField → Option Raw) (f : PageField) : Bool :=
  match kw f with
  | none => true
  | some x => validatePageField f x

/-- the number a supplied page field holds (`None` / not supplied / not a number → `none`) -/
def pageNum (kw : PageField → Option Raw) (f : PageField) : Option Rat :=
  match kw f with
  | some (.scalar v) =>
    (match coerce .float v with
     | .ok (.rat q) => some q
     | _ => none)
  | _ => none

def pageLandscape (kw : PageField → Option Raw) : Bool :=
  kw .orientation == some (.scalar (.str "landscape"))

/-- `_set_portrait_defaults` / `_set_landscape_defaults`: `col_width or width - 2.25` (landscape `- 2.5`) with
`width or 8.5` (landscape `11`). The subtraction of two nearby doubles is exact, so the sign of the float result
is the sign of this rational. -/
def resolvedColWidth (kw : PageField → Option Raw) : Rat :=
  let side : Rat := if pageLandscape kw then 5 / 2 else 9 / 4
  let width : Rat := (pageNum kw .width).getD (if pageLandscape kw then 11 else 17 / 2)
  (pageNum kw .colWidth).getD (width - side)

/-- `RTFPage(**kw)`: every field rule is a field validator (`ValidationError`); afterwards `_set_default` resolves
the table width and `_validate_resolved_col_width` raises a plain `ValueError` when it is not positive
(a page narrower than the side allowance) -/
def constructPage (kw : PageField → Option Raw) : Except Err Unit :=
  if pageFields.all (pageSuppliedOk kw) then
    if decide (0 < resolvedColWidth kw) then .ok () else .error .valueError
  else .error .validationError

/-! ## RTFFigure -/

structure FigArgs where
  figAlign : Option Val := none
  figPos : Option Val := none
  figWidth : Option Raw := none
  figHeight : Option Raw := none
  /-- for each path in `figures`: does the file exist? (`none`: `figures=None`) -/
  figures : Option (List Bool) := none
  deriving Repr, Inhabited

/-- `float | list[float]` with `convert_dimensions` and `validate_positive_dimensions` -/
def figDimOk : Raw → Bool
  | .scalar v => v != .null && optPositive .float v
  | .flat vs | .tuple vs => !vs.isEmpty && vs.all (fun v => v != .null && optPositive .float v)
  | _ => false

def optStrIn (ks : List String) : Option Val → Bool
  | some v => strIn ks v
  | none => true

def optDimOk : Option Raw → Bool
  | some x => figDimOk x
  | none => true

/-- every field validator of RTFFigure passes -/
def figFieldsOk (a : FigArgs) : Bool :=
  optStrIn ["left", "center", "right"] a.figAlign && optStrIn ["before", "after"] a.figPos &&
  optDimOk a.figWidth && optDimOk a.figHeight

/-- some path of `figures` does not exist -/
def figMissing (a : FigArgs) : Bool :=
  match a.figures with
  | some ex => !ex.all id
  | none => false

def constructFigure (a : FigArgs) : Except Err Unit :=
  if !figFieldsOk a then .error .validationError
  -- model_validator(mode="after") validate_figure_data: runs only when the fields are valid;
  -- FileNotFoundError is not wrapped by pydantic
  else if figMissing a then .error .fileNotFound
  else .ok ()

/-! ## RTFDocument -/

/-- the grouping arguments of one (constructed) RTFBody -/
structure BodySpec where
  groupBy : Option (List String) := none
  pageBy : Option (List String) := none
  sublineBy : Option (List String) := none
  /-- `new_page` -/
  newPage : Bool := false
  /-- `pageby_row == "column"` (the default) -/
  pagebyColumn : Bool := true
  deriving Repr, Inhabited

/-- the columns the encoder takes out of the table (`prepare_dataframe_for_body_encoding`): `subline_by` always,
`page_by` unless `new_page=True` keeps it as a column (`pageby_row="column"`) -/
def BodySpec.removed (b : BodySpec) : List String :=
  b.sublineBy.getD [] ++ (if b.newPage && b.pagebyColumn then [] else b.pageBy.getD [])

/-- no `group_by` column is one of the removed columns (checked at construction since the repair of D43) -/
def groupKept (b : BodySpec) : Bool := (b.groupBy.getD []).all (fun c => !b.removed.contains c)

inductive DfArg where
  | none
  | single (cols : List String)
  | multi (secs : List (List String))
  deriving Repr, Inhabited

inductive BodyArg where
  | none
  | single (b : BodySpec)
  | multi (bs : List BodySpec)
  deriving Repr, Inhabited

/-- `rtf_column_header`: a flat list (n headers) or the nested per-section form (n sections) -/
inductive HeaderArg where
  | flat (n : Nat)
  | nested (n : Nat)
  deriving Repr, Inhabited

structure DocArgs where
  df : DfArg := .none
  body : BodyArg := .single {}
  header : HeaderArg := .flat 1
  figure : Bool := false
  /-- `as_table` of the footnote / source if present -/
  footnote : Option Bool := none
  source : Option Bool := none
  deriving Repr, Inhabited

def colsPresent (cols : List String) : Option (List String) → Bool
  | none => true
  | some names => names.all (fun n => cols.contains n)

/-- `_validate_section_columns` -/
def sectionOk (cols : List String) (b : BodySpec) : Bool :=
  colsPresent cols b.groupBy && colsPresent cols b.pageBy && colsPresent cols b.sublineBy && groupKept b

/-- the nested `rtf_column_header` form has a length different from the section list -/
def headerMismatch (h : HeaderArg) (nsec : Nat) : Bool :=
  match h with
  | .nested n => n != 0 && n != nsec
  | .flat _ => false

/-- `for section_df, section_body in zip(df, rtf_body): _validate_section_columns` -/
def sectionsOk (secs : List (List String)) (bs : List BodySpec) : Bool :=
  (secs.zip bs).all (fun p => sectionOk p.1 p.2)

/-- `RTFDocument.__init__` after validation, flat header list on an empty section list: `self.rtf_body[0]` -/
def emptyMultiIndexes (secs : List (List String)) (h : HeaderArg) : Bool :=
  secs.isEmpty && (match h with | .flat n => n != 0 | .nested _ => false)

/-- `RTFDocument.validate_column_names` (model_validator, `ValueError` → `ValidationError`) -/
def validateDoc (a : DocArgs) : Except Err Unit :=
  match a.df, a.figure with
  | .none, false => .error .validationError            -- neither
  | .single _, true => .error .validationError         -- both
  | .multi _, true => .error .validationError
  | .none, true =>
    if a.footnote == some true then .error .validationError
    else if a.source == some true then .error .validationError
    else .ok ()
  | .multi secs, false =>
    match a.body with
    | .multi bs =>
      if secs.length != bs.length then .error .validationError
      else if headerMismatch a.header secs.length then .error .validationError
      else if !sectionsOk secs bs then .error .validationError
      else if emptyMultiIndexes secs a.header then .error .indexError
      else .ok ()
    | _ => .error .validationError                     -- "rtf_body must also be a list"
  | .single cols, false =>
    match a.body with
    | .single b => if sectionOk cols b then .ok () else .error .validationError
    | _ => .error .attributeError                      -- `body.group_by` on a list / None (not a listed rule)

/-! ## the data as the document validator sees it: column names and, independently, the number of rows -/

/-- A DataFrame: its column names (`df.columns`) and its height (`df.height`). The validator and
`RTFDocument.__init__` read `df.columns`, `df.shape[1]` and `len(df_list)` only — never the height; the record
carries the height so that this is a statement (`Props/C19.lean`, `C19_document_rows_irrelevant`) and so that
the correspondence runs over 0, 1 and many rows. -/
structure Frame where
  cols : List String
  nrows : Nat := 3
  deriving Repr, Inhabited

/-- the `df` argument on real frames -/
inductive DfData where
  | none
  | single (f : Frame)
  | multi (fs : List Frame)
  deriving Repr, Inhabited

/-- what the validator looks at: the column lists -/
def DfData.toArg : DfData → DfArg
  | .none => .none
  | .single f => .single f.cols
  | .multi fs => .multi (fs.map (·.cols))

/-- the same frames with other heights (`hs` runs along the section list; missing entries keep the height) -/
def DfData.withRows : DfData → List Nat → DfData
  | .none, _ => .none
  | .single f, h :: _ => .single { f with nrows := h }
  | .single f, [] => .single f
  | .multi fs, hs => .multi (reheight fs hs)
where
  reheight : List Frame → List Nat → List Frame
    | [], _ => []
    | f :: fs, [] => f :: fs
    | f :: fs, h :: hs => { f with nrows := h } :: reheight fs hs

/-- `RTFDocument(df=…, …)` on real frames: `_validate_section_columns` reads `df.columns` only -/
def validateDocData (d : DfData) (a : DocArgs) : Except Err Unit :=
  validateDoc { a with df := d.toArg }

/-! ## "nothing is produced" — the pipeline shape -/

/-- `RTFDocument(...)` followed by `rtf_encode()`: the string only exists if construction returned -/
def constructThenEncode {Doc Out : Type} (construct : Except Err Doc) (encode : Doc → Except Err Out) :
    Except Err Out :=
  match construct with
  | .error e => .error e
  | .ok d => encode d

end Model.Validate
