/-
Model of `rtflite.assemble.assemble_rtf` (src/rtflite/assemble.py) on lists of lines.

A *line* is what `file.readlines()` returns (text mode, universal newlines): the characters of the
line including its trailing "\n" (the last line of a file may lack it).  A *file* is its list of lines.

Modelled code (the REPAIRED function, patch `assemble-body-start`):

    if not input_files: return
    missing_files = [f for f in input_files if not os.path.exists(f)]
    if missing_files: raise FileNotFoundError(...)
    rtf_contents = [open(f).readlines() for f in input_files]
    def find_body_start(lines):
        last_idx = None
        for i, line in enumerate(lines):
            if "fcharset" in line: last_idx = i
            elif last_idx is not None: break
        if last_idx is None: return 0, []
        leftover = []
        if last_idx + 1 < len(lines):
            rest = lines[last_idx + 1].partition("}")[2]
            if rest.strip(): leftover = [rest]
        return last_idx + 2, leftover
    for i, lines in enumerate(rtf_contents):
        start_idx, leftover = (0, []) if i == 0 else find_body_start(lines)
        end_idx = len(lines)
        if i < len(rtf_contents) - 1 and lines[-1].strip() == "}": end_idx -= 1
        processed_parts.extend(leftover + lines[start_idx:end_idx])
        if i < len(rtf_contents) - 1: processed_parts.append("\\page\n")
    open(output_file, "w").writelines(processed_parts)

The unrepaired helper (`find_start_index`: LAST line of the whole file containing "fcharset", + 2, no
leftover) is kept as `findStartIndexOld` / `assembleLinesOld` so that the defect it has (D24 and the
figure-with-colours case) stays stated in Lean.

Import-free, executable.
-/
namespace Model.Assemble

abbrev Line := List Char
abbrev File := List Line

/-! ## Python string primitives -/

/-- `pat in s` for `str` -/
def containsSub (pat : List Char) : List Char → Bool
  | [] => pat.isEmpty
  | c :: cs => pat.isPrefixOf (c :: cs) || containsSub pat cs

def fcharsetWord : List Char := ['f', 'c', 'h', 'a', 'r', 's', 'e', 't']

/-- `"fcharset" in line` -/
def hasFc (l : Line) : Bool := containsSub fcharsetWord l

/-- `str.isspace()` of one character = the set `str.strip()` removes (CPython 3: Unicode White_Space
plus the separators U+001C..U+001F).  Checked against CPython over all code points by the harness. -/
def isPySpace (c : Char) : Bool :=
  let n := c.toNat
  (9 ≤ n && n ≤ 13) || (28 ≤ n && n ≤ 32) || n == 0x85 || n == 0xA0 || n == 0x1680 ||
  (0x2000 ≤ n && n ≤ 0x200A) || n == 0x2028 || n == 0x2029 || n == 0x202F || n == 0x205F ||
  n == 0x3000

def lstrip (l : Line) : Line := l.dropWhile isPySpace
def rstrip (l : Line) : Line := (l.reverse.dropWhile isPySpace).reverse
/-- `str.strip()` -/
def strip (l : Line) : Line := rstrip (lstrip l)

/-- `line.strip() == "}"` -/
def stripsToBrace (l : Line) : Bool := strip l == ['}']

/-- `s.partition("}")[2]`: what follows the first `}` (empty when there is none) -/
def afterFirstBrace : Line → Line
  | [] => []
  | c :: cs => if c = '}' then cs else afterFirstBrace cs

/-- `lines[a:b]` for `0 ≤ a`, `0 ≤ b` -/
def slice {α} (l : List α) (a b : Nat) : List α := (l.take b).drop a

/-! ## the repaired helper `find_body_start` -/

/-- the `for i, line in enumerate(lines)` loop with its variable `last_idx`; the value of `last_idx`
when the loop ends (by exhaustion or by `break`) -/
def scanFont : (i : Nat) → (last : Option Nat) → File → Option Nat
  | _, last, [] => last
  | i, last, l :: ls =>
    if hasFc l then scanFont (i + 1) (some i) ls
    else match last with
      | some k => some k
      | none => scanFont (i + 1) none ls

/-- the leftover list built from the line that closes the font table -/
def leftoverOf (close : Line) : File :=
  let rest := afterFirstBrace close
  if strip rest != [] then [rest] else []

def findBodyStart (lines : File) : Nat × File :=
  match scanFont 0 none lines with
  | none => (0, [])
  | some last =>
    let leftover :=
      if last + 1 < lines.length then leftoverOf (lines.getD (last + 1) []) else []
    (last + 2, leftover)

/-! ## the main loop -/

inductive Err where
  | indexError          -- `lines[-1]` on an input without any line that is not the last input
  deriving DecidableEq, Repr

def pageCmd : Line := ['\\', 'p', 'a', 'g', 'e', '\n']

/-- one iteration of `for i, lines in enumerate(rtf_contents)`; `isFirst` is `i == 0`,
`isLast` is `i == len(rtf_contents) - 1` -/
def part (isFirst isLast : Bool) (lines : File) : Except Err File :=
  let sl := if isFirst then ((0 : Nat), ([] : File)) else findBodyStart lines
  if isLast then
    pure (sl.2 ++ slice lines sl.1 lines.length)
  else
    match lines.getLast? with
    | none => throw Err.indexError
    | some l =>
      let e := if stripsToBrace l then lines.length - 1 else lines.length
      pure (sl.2 ++ slice lines sl.1 e ++ [pageCmd])

def assembleAux : (isFirst : Bool) → List File → Except Err File
  | _, [] => pure []
  | first, [f] => part first true f
  | first, f :: g :: rest =>
    match part first false f with
    | .error e => .error e
    | .ok p =>
      match assembleAux false (g :: rest) with
      | .error e => .error e
      | .ok tl => .ok (p ++ tl)

/-- `processed_parts` for the given `rtf_contents` -/
def assembleLines (files : List File) : Except Err File := assembleAux true files

/-! ## the call as a whole, over an abstract file system -/

inductive Result (α : Type) where
  | returned                              -- normal return
  | fileNotFound (missing : List α)       -- `FileNotFoundError("Missing files: …")`
  | indexError
  deriving DecidableEq, Repr

/-- what a call did: how it ended, and the lines handed to `writelines` on the output path
(`none` = the output path was never opened, so it is untouched) -/
structure Outcome (α : Type) where
  result : Result α
  written : Option File
  deriving DecidableEq, Repr

/-- `fs p` = the lines of the file at `p`, `none` when `os.path.exists(p)` is false -/
def assembleRtf {α : Type} (fs : α → Option File) (inputs : List α) : Outcome α :=
  if inputs.isEmpty then ⟨.returned, none⟩ else
  let missing := inputs.filter (fun p => (fs p).isNone)
  if !missing.isEmpty then ⟨.fileNotFound missing, none⟩ else
  let contents := inputs.filterMap fs
  if contents.isEmpty then ⟨.returned, none⟩ else
  match assembleLines contents with
  | .error _ => ⟨.indexError, none⟩
  | .ok ls => ⟨.returned, some ls⟩

/-! ## a concrete file system: a finite map from names to contents

`assembleRtf` takes the resolution of a name to a content as the parameter `fs`.  A name is the string
handed to `os.path.exists` / `open` — whatever characters it contains (`*`, `?`, `[`, blanks, `~`, `$`, …)
it denotes the one file the operating system finds under exactly that name, never a pattern.  `Fs` is the
concrete instance: a directory as an association list (first entry of a name wins), which may hold any
number of files that are NOT listed (neighbours whose names the listed ones would match as patterns, backup
copies, …), and the output path among them. -/

abbrev Fs (α : Type) := List (α × File)

/-- the content found under exactly the name `p` -/
def Fs.read {α : Type} [DecidableEq α] : Fs α → α → Option File
  | [], _ => none
  | (q, f) :: rest, p => if q = p then some f else Fs.read rest p

/-- `open(p, "w").writelines(f)` -/
def Fs.write {α : Type} (d : Fs α) (p : α) (f : File) : Fs α := (p, f) :: d

/-- the call in a directory `d`: every read goes through `d.read` of a listed name, the only write is the
output path; returns the outcome and the directory afterwards -/
def assembleIn {α : Type} [DecidableEq α] (d : Fs α) (inputs : List α) (out : α) : Outcome α × Fs α :=
  let o := assembleRtf d.read inputs
  (o, match o.written with
      | none => d
      | some ls => d.write out ls)

/-! ## several names for one file: the output path may denote the file of an input

`Fs` identifies a file with its name.  In a real directory several names may denote the SAME file — other
spellings of one path (`x`, `./x`, `/abs/x`, `d/../x`), symbolic links, hard links.  `Dir` separates the two:
`key` resolves a name to the identity of the file it denotes, `store` holds the contents by identity.

The code reads EVERY listed input first (`rtf_contents = [open(f).readlines() for f in input_files]`, through the
directory as it is when the call starts) and opens the output path only at the very end
(`open(output_file, "w").writelines(processed_parts)`).  So the output path may denote the file of one of the inputs
(growing a deliverable in place: `assemble_rtf([a, b], c)`, then `assemble_rtf([c, d], c)`): `assembleInDir` evaluates
`assembleRtf` over the directory BEFORE the write and then replaces the content of the one file `key out`, which every
name of that file reads afterwards. -/

structure Dir (α κ : Type) where
  key : α → κ
  store : Fs κ

/-- `os.path.exists(p)` / `open(p).readlines()`: the content of the file the name `p` denotes -/
def Dir.read {α κ : Type} [DecidableEq κ] (d : Dir α κ) (p : α) : Option File := d.store.read (d.key p)

/-- `open(p, "w").writelines(f)`: replaces the content of the file `p` denotes (all its names see it) -/
def Dir.write {α κ : Type} (d : Dir α κ) (p : α) (f : File) : Dir α κ := { d with store := d.store.write (d.key p) f }

/-- the call in a directory where names resolve to files: all reads first, then the single write -/
def assembleInDir {α κ : Type} [DecidableEq κ] (d : Dir α κ) (inputs : List α) (out : α) : Outcome α × Dir α κ :=
  let o := assembleRtf d.read inputs
  (o, match o.written with
      | none => d
      | some ls => d.write out ls)

/-! ## the shape of a file written by rtflite, and the closed form of the result -/

/-- A file cut at its font table:
`pre` (signature line, `\deff0…`), `font` (the font-table entry lines), `close` (the line after the
last entry; it closes the table), `mid` (everything else but the last line), `last`. -/
structure Shaped where
  pre : File
  font : File
  close : Line
  mid : File
  last : Line
  deriving DecidableEq, Repr

namespace Shaped
def file (s : Shaped) : File := s.pre ++ s.font ++ s.close :: s.mid ++ [s.last]
/-- the file without its last line -/
def init (s : Shaped) : File := s.pre ++ s.font ++ s.close :: s.mid
/-- what an input after the first contributes (without its last line) -/
def body (s : Shaped) : File := leftoverOf s.close ++ s.mid
/-- no `fcharset` before the font table, the font table is a non-empty run of `fcharset` lines, the
closing line has none, the last line is `}` (up to surrounding white space).
Nothing is required of `mid`: user text may contain the word. -/
def ok (s : Shaped) : Bool :=
  s.pre.all (fun l => !hasFc l) && !s.font.isEmpty && s.font.all hasFc && !hasFc s.close &&
  stripsToBrace s.last
end Shaped

/-- cut a file at its font table (first run of `fcharset` lines) -/
def decompose (f : File) : Option Shaped :=
  let r1 := f.dropWhile (fun l => !hasFc l)
  match r1.dropWhile hasFc with
  | [] => none
  | close :: r2 =>
    match r2.getLast? with
    | none => none
    | some last =>
      let s : Shaped := ⟨f.takeWhile (fun l => !hasFc l), r1.takeWhile hasFc, close, r2.dropLast, last⟩
      if s.ok then some s else none

/-- the last input of a non-empty argument list -/
def lastOf : Shaped → List Shaped → Shaped
  | s, [] => s
  | _, t :: rest => lastOf t rest

/-- what the inputs after the first contribute: for each, `\page` and its body -/
def tailLines (rest : List Shaped) : File := rest.flatMap (fun t => pageCmd :: t.body)

/-- the specification of the assembled line list: the first input without its last line, then for
every further input `\page` and its body, then the last line of the last input -/
def expected : List Shaped → File
  | [] => []
  | s :: rest => s.init ++ tailLines rest ++ [(lastOf s rest).last]

/-- the assembled file, cut at its font table again: the head of the first input, everything else in
the middle, the last line of the last input -/
def assembled (s : Shaped) (rest : List Shaped) : Shaped :=
  ⟨s.pre, s.font, s.close, s.mid ++ tailLines rest, (lastOf s rest).last⟩

/-! ## brace structure -/

/-- scanner state: group depth, and whether the previous character was an unconsumed backslash -/
structure BState where
  depth : Int
  esc : Bool
  deriving DecidableEq, Repr

def s0 : BState := ⟨0, false⟩
def s1 : BState := ⟨1, false⟩

/-- a backslash consumes the next character (`\{`, `\}`, `\\`, first letter of a control word) -/
def bstep (s : BState) (c : Char) : BState :=
  if s.esc then ⟨s.depth, false⟩
  else if c = '\\' then ⟨s.depth, true⟩
  else if c = '{' then ⟨s.depth + 1, false⟩
  else if c = '}' then ⟨s.depth - 1, false⟩
  else s

def runB (s : BState) (cs : List Char) : BState := cs.foldl bstep s

/-- the depth is at least 1 after every character of `cs` -/
def inside (s : BState) : List Char → Bool
  | [] => true
  | c :: cs => decide (1 ≤ (bstep s c).depth) && inside (bstep s c) cs

/-- One balanced top-level group that closes exactly in the last line: before the last line the
depth is ≥ 1 after every character (so the text starts with `{` and the group is never closed
early), it is exactly 1 — outside an escape — when the last line starts, and the last line is `}`
possibly surrounded by white space. -/
def wellFormedDoc (f : File) : Bool :=
  match f.getLast? with
  | none => false
  | some last =>
    stripsToBrace last && inside s0 f.dropLast.flatten && runB s0 f.dropLast.flatten == s1

/-- `uptoFirstBrace l ++ afterFirstBrace l = l` -/
def uptoFirstBrace : Line → Line
  | [] => []
  | c :: cs => if c = '}' then [c] else c :: uptoFirstBrace cs

/-- the characters of an input after the first that are NOT copied: signature, font table, closing
line up to and including its first `}` -/
def Shaped.headChars (s : Shaped) : List Char := (s.pre ++ s.font).flatten ++ uptoFirstBrace s.close

/-- the skipped head opens the document group and closes everything else it opens -/
def Shaped.headBalanced (s : Shaped) : Bool := runB s0 s.headChars == s1

/-- decidable guard evaluated on every real input: produced-by-rtflite shape -/
def rtfliteShaped (f : File) : Bool :=
  match decompose f with
  | none => false
  | some s =>
    s.headBalanced && wellFormedDoc f &&
    (match f with
     | sig :: _ => ['{', '\\', 'r', 't', 'f', '1', '\\', 'a', 'n', 's', 'i'].isPrefixOf sig
     | [] => false)

/-! ## the unrepaired helper, kept to state the defect -/

def scanLastOld : (i : Nat) → (last : Nat) → (found : Bool) → File → Nat × Bool
  | _, last, found, [] => (last, found)
  | i, last, found, l :: ls =>
    if hasFc l then scanLastOld (i + 1) i true ls else scanLastOld (i + 1) last found ls

def findStartIndexOld (lines : File) : Nat :=
  let r := scanLastOld 0 0 false lines
  if r.2 then r.1 + 2 else 0

def partOld (isFirst isLast : Bool) (lines : File) : Except Err File :=
  let st := if isFirst then 0 else findStartIndexOld lines
  if isLast then pure (slice lines st lines.length)
  else match lines.getLast? with
    | none => throw Err.indexError
    | some l =>
      let e := if stripsToBrace l then lines.length - 1 else lines.length
      pure (slice lines st e ++ [pageCmd])

def assembleAuxOld : (isFirst : Bool) → List File → Except Err File
  | _, [] => pure []
  | first, [f] => partOld first true f
  | first, f :: g :: rest =>
    match partOld first false f with
    | .error e => .error e
    | .ok p =>
      match assembleAuxOld false (g :: rest) with
      | .error e => .error e
      | .ok tl => .ok (p ++ tl)

def assembleLinesOld (files : List File) : Except Err File := assembleAuxOld true files

end Model.Assemble
