import Model.World
import Model.Memo
/-
The process state of `Model/World.lean` with ONE MORE process-global store, filled by the measurements an
encode makes (pagination measures every cell text at its font and size) and by direct measurements
(`get_string_width` is public).  Not the code as it is (there is no such store, `Op.measure` is a no-op): the
class a cache in `strwidth` / `pagination` / `row` would put the code in, so that `Props/C14memo.lean` can say
when purity survives it.
-/
namespace Model.World
open Model.Memo

structure MWorld (κ ν : Type) where
  base : World
  store : Store κ ν

/-- what an encode of a document asks the store for: any function of the document and the caller's objects and
frames (cell texts, fonts, sizes).  A failing encode asks too (pagination runs before rendering). -/
abbrev Reqs (ρ : Type) := Heap → Frames → Doc → List ρ

inductive MOp (ρ : Type) where
  | op (o : Op)          -- an operation of the base world; encodes go through the store
  | ask (r : ρ)          -- a direct measurement

variable {ρ κ ν : Type} [DecidableEq κ]

def storeAfter (S : Spec ρ κ ν) (q : Reqs ρ) (w : World) (st : Store κ ν) : Op → Store κ ν
  | .encode n =>
    match findDoc w n with
    | some d => (askAll S st (q w.heap w.frames d)).1
    | none => st
  | .encodeTwice n =>
    match findDoc w n with
    | some d => (askAll S (askAll S st (q w.heap w.frames d)).1 (q w.heap w.frames d)).1
    | none => st
  | _ => st

def stepM (S : Spec ρ κ ν) (q : Reqs ρ) (T : Table) (mw : MWorld κ ν) : MOp ρ → MWorld κ ν
  | .op o => { base := (step T mw.base o).1, store := storeAfter S q mw.base mw.store o }
  | .ask r => { base := mw.base, store := (ask S mw.store r).1 }

def runM (S : Spec ρ κ ν) (q : Reqs ρ) (T : Table) (mw : MWorld κ ν) : List (MOp ρ) → MWorld κ ν
  | [] => mw
  | o :: os => runM S q T (stepM S q T mw o) os

def baseOps : List (MOp ρ) → List Op
  | [] => []
  | .op o :: r => o :: baseOps r
  | .ask _ :: r => baseOps r

/-- construct and encode the target: the modelled outcome together with the answers its measurements got
(they decide the line count of every row, hence the page breaks) -/
def encodeCtorM (S : Spec ρ κ ν) (q : Reqs ρ) (T : Table) (mw : MWorld κ ν) (c : Ctor) : Outcome × List ν :=
  match construct mw.base.heap mw.base.frames c with
  | .ok d => ((encodeDoc T mw.base d).2, (askAll S mw.store (q mw.base.heap mw.base.frames d)).2)
  | .error e => (.error e, [])

def freshM (w₀ : World) : MWorld κ ν := { base := w₀, store := [] }

end Model.World
