import Model.Encode
import Model.GroupBy
import Model.GroupBySpec
/-!
# What the constructors of rtflite guarantee (`accepted`), the attribute shapes of C01's quantifier
(`shapesInQuantifier`) and the widths the encoder asks for (`measureOk`)

`Props/C01total.lean` proves TOTALITY of the encoder model `Model.Encode.encode`:

    Accepted d → ShapesInQuantifier d → MeasureOk measure d →
      (∃ g, encode measure d = .ok g) ∨ (encode measure d = .error "ValueError" ∧ the group_by keys are not contiguous)

Three decidable predicates on the post-construction state `d : Doc`; every clause names the validator / constructor
line of `/repo/src/rtflite` it mirrors.

* `accepted d` — the state the constructors and pydantic validators GUARANTEE (`input.py`, `attributes.py`,
  `encode.py`): every attribute holds values of the field's type inside the validated set, non-Optional fields are not
  `None`, page geometry positive, margin of length 6, `page_by` / `group_by` / `subline_by` name columns, … .
  Nothing is in it that the constructors do not enforce.
* `shapesInQuantifier d` — C01 quantifies over "attribute shapes: scalar, per-column, matrix".  The constructors accept
  more: empty attribute lists, ragged matrices, an explicit `None` for a text attribute `TextContent` requires,
  `col_rel_width=None` on a table-rendered footnote, an empty header text, width vectors shorter than the cells they
  serve, `page_by` consuming every column.  On each of these `rtf_encode()` RAISES (reproductions below, replayed on the
  real code); they are recorded as domain decisions (DESIGN §8), and this predicate is exactly their complement.
  `Props/C01total.lean` has one witness per clause (`accepted` holds, the clause fails, the encoder raises).
* `measureOk measure d` — `get_string_width` answers every (text, font, size) the pagination asks for
  (`requests d`, computed by the same traversal as `calculate_row_metadata`).
-/
namespace Model.EncodeAccepted
open Model.Encode Model.Broadcast Generated

/-! ## values of one field: what the pydantic type and the field's `mode="after"` validator leave -/

/-- `text_font: list[int] | list[list[int]]` + `validate_text_font` (`font in Utils._font_type()["type"]` = 1 … 10) -/
def okFont : Val → Bool
  | .int i => decide (1 ≤ i) && decide (i ≤ 10)
  | _ => false

/-- `text_format: list[str] …` + `validate_text_format` (every character is a key of `FORMAT_CODES`) -/
def okFormat : Val → Bool
  | .str s => s.toList.all fun ch => (formatCodes.lookup (String.ofList [ch])).isSome
  | _ => false

/-- `text_font_size`, `cell_height`: `list[float] …` + `validate_text_font_size` / `validate_positive_value` (`> 0`) -/
def okPosNum : Val → Bool
  | .int i => decide (0 < i)
  | .float q => decide (0 < q)
  | _ => false

/-- `text_color`, `text_background_color`, `border_color_*`: `""` or `color_service.validate_color(color)` -/
def okColor : Val → Bool
  | .str s => s == "" || Color.validColor colorTable s
  | _ => false

/-- `validate_text_justification`: a key of `TEXT_JUSTIFICATION_CODES` -/
def okTextJust : Val → Bool
  | .str s => (textJustCodes.lookup s).isSome
  | _ => false

/-- `text_indent_*`, `text_space*`: `list[int] | list[list[int]]` -/
def okInt : Val → Bool
  | .int _ => true
  | _ => false

/-- `text_hyphenation`, `text_convert`: `list[bool] | list[list[bool]]` -/
def okBool : Val → Bool
  | .bool _ => true
  | _ => false

/-- `border_left … border_last`: `validate_border` (a key of `BORDER_CODES`) -/
def okBorder : Val → Bool
  | .str s => (borderCodes.lookup s).isSome
  | _ => false

/-- `border_width`, `cell_nrow`: `list[list[int]]` + `validate_positive_value` -/
def okPosInt : Val → Bool
  | .int i => decide (0 < i)
  | _ => false

/-- `validate_cell_justification`: a key of `ROW_JUSTIFICATION_CODES` -/
def okRowJust : Val → Bool
  | .str s => (rowJustCodes.lookup s).isSome
  | _ => false

/-- `validate_cell_vertical_justification`: a key of `VERTICAL_ALIGNMENT_CODES` -/
def okVJust : Val → Bool
  | .str s => (vertAlignCodes.lookup s).isSome
  | _ => false

/-- one attribute field: the admissible scalars, whether the pydantic type is non-Optional (`list[list[str]]`, no
`| None`), whether the encoder needs a value (`TextContent` / `Border` / `Row` declare the field without default) -/
structure Spec where
  ok : Val → Bool
  nonOpt : Bool
  req : Bool

def textSpec : TextAttrsOf Spec :=
  { font := ⟨okFont, false, true⟩, format := ⟨okFormat, false, false⟩, size := ⟨okPosNum, false, true⟩,
    color := ⟨okColor, false, false⟩, bg := ⟨okColor, false, false⟩, just := ⟨okTextJust, false, true⟩,
    indFirst := ⟨okInt, false, true⟩, indLeft := ⟨okInt, false, true⟩, indRight := ⟨okInt, false, true⟩,
    space := ⟨okInt, false, true⟩, spBefore := ⟨okInt, false, true⟩, spAfter := ⟨okInt, false, true⟩,
    hyph := ⟨okBool, false, true⟩, convert := ⟨okBool, false, true⟩ }

def tblSpec : TblAttrsOf Spec :=
  { toTextAttrsOf := textSpec,
    bLeft := ⟨okBorder, true, true⟩, bRight := ⟨okBorder, true, true⟩, bTop := ⟨okBorder, true, true⟩,
    bBottom := ⟨okBorder, true, true⟩, bFirst := ⟨okBorder, true, false⟩, bLast := ⟨okBorder, true, false⟩,
    bcLeft := ⟨okColor, true, false⟩, bcRight := ⟨okColor, true, false⟩, bcTop := ⟨okColor, true, false⟩,
    bcBottom := ⟨okColor, true, false⟩, bcFirst := ⟨okColor, true, false⟩, bcLast := ⟨okColor, true, false⟩,
    bWidth := ⟨okPosInt, true, false⟩, cellHeight := ⟨okPosNum, true, true⟩, cellJust := ⟨okRowJust, true, true⟩,
    cellVJust := ⟨okVJust, true, false⟩, cellNrow := ⟨okPosInt, true, false⟩ }

/-- a field-wise conjunction over two records -/
def TextAttrsOf.zipAll {σ α : Type} (p : σ → α → Bool) (s : TextAttrsOf σ) (a : TextAttrsOf α) : Bool :=
  p s.font a.font && p s.format a.format && p s.size a.size && p s.color a.color && p s.bg a.bg && p s.just a.just &&
  p s.indFirst a.indFirst && p s.indLeft a.indLeft && p s.indRight a.indRight && p s.space a.space &&
  p s.spBefore a.spBefore && p s.spAfter a.spAfter && p s.hyph a.hyph && p s.convert a.convert

def TblAttrsOf.zipAll {σ α : Type} (p : σ → α → Bool) (s : TblAttrsOf σ) (a : TblAttrsOf α) : Bool :=
  TextAttrsOf.zipAll p s.toTextAttrsOf a.toTextAttrsOf &&
  p s.bLeft a.bLeft && p s.bRight a.bRight && p s.bTop a.bTop && p s.bBottom a.bBottom && p s.bFirst a.bFirst &&
  p s.bLast a.bLast && p s.bcLeft a.bcLeft && p s.bcRight a.bcRight && p s.bcTop a.bcTop && p s.bcBottom a.bcBottom &&
  p s.bcFirst a.bcFirst && p s.bcLast a.bcLast && p s.bWidth a.bWidth && p s.cellHeight a.cellHeight &&
  p s.cellJust a.cellJust && p s.cellVJust a.cellVJust && p s.cellNrow a.cellNrow

/-- `None` (also the scalar `None`, which `_to_nested_list` maps to `None`) -/
def Attr.isNone : Attr → Bool
  | .null => true
  | .scalar .null => true
  | _ => false

/-- every scalar the attribute holds is of the field's type and inside the validated set (a list holds no `None`:
the element types are `int` / `float` / `str` / `bool`) -/
def valsOk (ok : Val → Bool) : Attr → Bool
  | .null => true
  | .scalar .null => true
  | .scalar v => ok v
  | .list xs => xs.all ok
  | .tuple xs => xs.all ok
  | .nested m => m.all fun row => row.all ok

/-- **constructor guarantee** for one attribute -/
def accAttr (s : Spec) (a : Attr) : Bool := valsOk s.ok a && (!s.nonOpt || !Attr.isNone a)

/-- shapes on which `BroadcastValue.iloc` is total after `_to_nested_list`: a scalar, a non-empty flat list (one row,
"per column"), a non-empty tuple (one column), a non-empty rectangular matrix with at least one column -/
def shapeOk : Attr → Bool
  | .null => true
  | .scalar _ => true
  | .list xs => !xs.isEmpty
  | .tuple xs => !xs.isEmpty
  | .nested m => !m.isEmpty && decide (0 < Mat.ncols m) && m.all fun row => row.length == Mat.ncols m

/-- **quantifier shape** of one attribute: a shape of C01's quantifier, and a value when the encoder needs one -/
def shpAttr (s : Spec) (a : Attr) : Bool := shapeOk a && (!s.req || !Attr.isNone a)

/-! ## `accepted`: what the constructors guarantee -/

def posW (w : List Rat) : Bool := w.all fun x => decide (0 < x)

/-- `col_rel_width: list[float] | None` + `validate_positive_value` (`v[0]` raises `IndexError` on `[]`) -/
def widthsAcc (w : Option (List Rat)) : Bool :=
  match w with
  | none => true
  | some w => !w.isEmpty && posW w

/-- `RTFTitle`, `RTFSubline`, `RTFPageHeader`, `RTFPageFooter` (`TextAttributes` validators) -/
def textCompAcc (c : Option TextComp) : Bool :=
  match c with
  | none => true
  | some c => TextAttrsOf.zipAll accAttr textSpec c.attrs

/-- a header's `col_rel_width`: its own (validated by `validate_positive_value`) or a copy of the body's resolved
widths (`_inherit_header_widths`; `[]` for a frame without columns) — positive entries either way -/
def widthsPos (w : Option (List Rat)) : Bool := posW (w.getD [])

/-- `RTFColumnHeader` (`TableAttributes` validators) -/
def headerAcc (h : Option Header) : Bool :=
  match h with
  | none => true
  | some h => TblAttrsOf.zipAll accAttr tblSpec h.attrs && widthsPos h.colRelWidth

/-- `RTFFootnote`, `RTFSource` -/
def footAcc (f : Option Foot) : Bool :=
  match f with
  | none => true
  | some f => TblAttrsOf.zipAll accAttr tblSpec f.attrs && widthsAcc f.colRelWidth

/-- `RTFPage`: `validate_width_height` (`width`, `height`, `nrow`, `col_width` > 0; the derived default
`col_width = width − 2.25 / 2.5` is checked too since the repair of the narrow-page defect), `validate_margin` /
`_validate_margin_length` (6 values), `validate_border` (`border_first`, `border_last` ∈ `BORDER_CODES`) -/
def pageAcc (pg : Page) : Bool :=
  decide (0 < pg.width) && decide (0 < pg.height) && decide (0 < pg.nrow) && decide (0 < pg.colWidth) &&
  decide (pg.margin.length = 6) && (borderCodes.lookup pg.borderFirst).isSome &&
  (borderCodes.lookup pg.borderLast).isSome

def namesIn (cols : List Str) (names : Option (List Str)) : Bool :=
  (names.getD []).all fun n => cols.contains n

/-- `RTFBody` + `RTFDocument`: `TableAttributes` validators; `_validate_section_columns` (`group_by`, `page_by`,
`subline_by` name columns of the frame); `_validate_page_by_logic` (`new_page` needs `page_by`);
`_resolve_body_widths` + `validate_positive_value` (positive widths); a `group_by` column is not one that `page_by`
(shown as spanning rows) or `subline_by` removes from the table (constructor check added with the repair of the
"group_by columns not found" defect) -/
def bodyAcc (d : Doc) : Bool :=
  TblAttrsOf.zipAll accAttr tblSpec d.body.attrs && posW (d.body.colRelWidth.getD []) &&
  namesIn d.cols d.body.groupBy && namesIn d.cols d.body.pageBy && namesIn d.cols d.body.sublineBy &&
  (!d.body.newPage || d.body.pageBy.isSome) &&
  (d.body.groupByL.all fun g => !(removedNames d.body).contains g)

/-- a polars frame: unique column names, every row has one value per column -/
def frameAcc (d : Doc) : Bool :=
  decide d.cols.Nodup && d.rows.all fun r => r.length == d.cols.length

/-- **the post-construction state rtflite's constructors and validators guarantee** -/
def accepted (d : Doc) : Bool :=
  frameAcc d && pageAcc d.page && bodyAcc d && d.headers.all headerAcc &&
  textCompAcc d.pageHeader && textCompAcc d.pageFooter && textCompAcc d.title && textCompAcc d.subline &&
  footAcc d.footnote && footAcc d.source

def Accepted (d : Doc) : Prop := accepted d = true

instance (d : Doc) : Decidable (Accepted d) := by unfold Accepted; infer_instance

/-! ## `shapesInQuantifier`: the attribute shapes C01 quantifies over

Each clause excludes one class of configurations the constructors accept and `rtf_encode()` raises on
(`df = pl.DataFrame({"a": ["x","y","z"], "b": ["1","2","3"]})`, `D = rtf.RTFDocument`):

* S-shape (`shapeOk`): `D(df=df, rtf_body=RTFBody(text_font=[]))`, `RTFBody(text_format=[])`, `RTFBody(text_font=[[]])`,
  `RTFTitle(text="x", text_font=[])` → `ZeroDivisionError` (`attributes.py: row_index % len(self.value)`);
  `RTFBody(text_font=[[1, 2], [1]])` → `ValueError` ("Invalid DataFrame index or slice", ragged matrix);
* S-req (`req`): `RTFBody(text_font=None)` (also `text_font_size`, `text_indent_*`, `text_space*`, `text_convert`,
  `text_hyphenation`), `RTFTitle(text="x", text_justification=None)` → pydantic `ValidationError` of `TextContent`
  inside `rtf_encode()`;
* S-foot: `RTFFootnote(text="x", col_rel_width=None)`, `RTFSource(text="x", as_table=True, col_rel_width=None)` →
  `TypeError` (`row.py: sum(rel_widths)` of `None`);
* S-cols: `RTFBody(page_by=["a", "b"])` (every column removed) → `ZeroDivisionError` (`pagination/core.py`);
  `D(df=pl.DataFrame())` → `ValidationError` (`BroadcastValue(dimension=(0, 0))`);
* S-header: `RTFColumnHeader(text=[])` → `ValidationError` (`BroadcastValue` dimension, cols must be positive);
* S-widths: `RTFBody(col_rel_width=[1, 1])` on a 3-column frame, `RTFColumnHeader(text=["a","b","c"])` on a 2-column
  frame → `IndexError` (`attributes.py: col_widths[j]`). -/

def textCompShape (c : Option TextComp) : Bool :=
  match c with
  | none => true
  | some c => TextAttrsOf.zipAll shpAttr textSpec c.attrs

/-- the cells of a header row and the width vector `encode_column_header` uses for it (as `renderHeader`) -/
def headerCells (d : Doc) (removed : List Nat) (h : Header) : Option (Nat × List Rat) :=
  let text := match h.text with
    | some t => some t
    | none => if d.body.asColheader then some (dropCols d.cols removed) else none
  match text with
  | none => none
  | some text =>
    let n := text.length
    let hw := h.colRelWidth.map fun w => Widths.headerDisplayed w (keepMask d.cols.length removed) n
    some (n, match hw with
      | some (w :: ws) => w :: ws
      | _ => List.replicate n 1)

def headerShape (d : Doc) (removed : List Nat) (h : Option Header) : Bool :=
  match h with
  | none => true
  | some h =>
    TblAttrsOf.zipAll shpAttr tblSpec h.attrs &&
    (match headerCells d removed h with
     | none => true
     | some (n, v) => decide (0 < n) && decide (n ≤ v.length))

def footShape (f : Option Foot) : Bool :=
  match f with
  | none => true
  | some f => TblAttrsOf.zipAll shpAttr tblSpec f.attrs && (!f.asTable || f.colRelWidth.isSome)

/-- at least one column is displayed and the body's width vector covers the displayed columns -/
def bodyShape (d : Doc) (removed : List Nat) : Bool :=
  let keep := keepMask d.cols.length removed
  TblAttrsOf.zipAll shpAttr tblSpec d.body.attrs && decide (0 < Widths.nDisplayed keep) &&
  decide (Widths.nDisplayed keep ≤ (Widths.bodyCum (d.body.colRelWidth.getD []) keep d.page.colWidth).length)

def shapesInQuantifier (d : Doc) : Bool :=
  match removedIdx d with
  | .error _ => false
  | .ok removed =>
    bodyShape d removed && d.headers.all (headerShape d removed) &&
    textCompShape d.pageHeader && textCompShape d.pageFooter && textCompShape d.title && textCompShape d.subline &&
    footShape d.footnote && footShape d.source

def ShapesInQuantifier (d : Doc) : Prop := shapesInQuantifier d = true

instance (d : Doc) : Decidable (ShapesInQuantifier d) := by unfold ShapesInQuantifier; infer_instance

/-! ## `measureOk`: the widths `calculate_row_metadata` asks for -/

/-- `font_size` of `dataLines` (`None` → 9) -/
def sizeAt (A : TblAttrsOf MatV) (r k : Nat) : Option Rat :=
  match ilocV A.size r k with
  | .ok .null => some 9
  | .ok v => (match v.toRat with
    | .ok q => some q
    | .error _ => none)
  | .error _ => none

/-- `font` of `dataLines` (`None` → 1) -/
def fontAt (A : TblAttrsOf MatV) (r k : Nat) : Option Int :=
  match ilocV A.font r k with
  | .ok .null => some 1
  | .ok (.int i) => some i
  | _ => none

/-- the `get_string_width` calls of one table row (same traversal as `dataLines`) -/
def rowRequests (A : TblAttrsOf MatV) (r : Nat) : List (Option Str) → List Rat → Nat → List (Str × Int × Rat)
  | [], _, _ => []
  | _, [], _ => []
  | cell :: cells, _ :: cum, k =>
    (match fontAt A r k, sizeAt A r k with
     | some f, some s => [(strOfCell cell, f, s)]
     | _, _ => []) ++ rowRequests A r cells cum (k + 1)

/-- the list `mkLDoc` maps over: per table row the displayed cells, its page_by / subline_by values, whether they
change at this row, and the row index -/
def ldocInput (d : Doc) (p : Prep) :
    List ((((List (Option Str)) × (List (Option Str)) × (List (Option Str))) × Bool × Bool) × Nat) :=
  let pb := d.body.pageByL
  let sb := d.body.sublineByL
  let pkeys := d.rows.map fun r => pick d.cols r pb
  let skeys := d.rows.map fun r => pick d.cols r sb
  let pch := Paginate.changes (pkeys.map fun k => k.map strOfCell)
  let sch := Paginate.changes (skeys.map fun k => k.map strOfCell)
  ((p.dispRows.zip (pkeys.zip skeys)).zip (pch.zip sch)).zipIdx

/-- the heading text `headingRows` measures (font 1, size 9) when it is not empty -/
def headingRequest (names : List Str) (vals : List (Option Str)) : List (Str × Int × Rat) :=
  if (headingText names vals).isEmpty then [] else [(headingText names vals, 1, 9)]

def rowReqs (d : Doc) (p : Prep)
    (x : (((List (Option Str)) × (List (Option Str)) × (List (Option Str))) × Bool × Bool) × Nat) :
    List (Str × Int × Rat) :=
  rowRequests p.attrs x.2 x.1.1.1 p.cum 0 ++
  (if !d.body.pageByL.isEmpty && x.1.2.1 then headingRequest d.body.pageByL x.1.1.2.1 else []) ++
  (if !d.body.sublineByL.isEmpty && x.1.2.2 then headingRequest d.body.sublineByL x.1.1.2.2 else [])

/-- every `(text, font, size)` the pagination of `d` passes to `get_string_width` -/
def requests (d : Doc) : List (Str × Int × Rat) :=
  match prepare d with
  | .error _ => []
  | .ok p => (ldocInput d p).flatMap (rowReqs d p)

/-- the measuring function answers every request of `d` -/
def measureOk (measure : Measure) (d : Doc) : Bool :=
  (requests d).all fun q => (measure q.1 q.2.1 q.2.2).isSome

def MeasureOk (measure : Measure) (d : Doc) : Prop := measureOk measure d = true

instance (measure : Measure) (d : Doc) : Decidable (MeasureOk measure d) := by unfold MeasureOk; infer_instance

/-! ## the refusal C01 allows: non-contiguous group_by keys -/

/-- the keys of every level of the (de-duplicated) `group_by` list are contiguous in the frame handed to the grouping
service (the displayed columns of the processed frame); decidable twin of `Proofs.EncodeTotal.GroupKeysContiguous` -/
def groupKeysContiguous (d : Doc) : Bool :=
  match prepare d with
  | .error _ => true
  | .ok p =>
    let df := toFrame p.dispCols p.dispRows
    GroupBy.allLevelsContiguousB (d.body.groupByL.eraseDups.map (GroupBy.getCol df)) (GroupBy.height df)

end Model.EncodeAccepted
