/-
Model of the figure path of rtflite (DESIGN.md §7/C16, A.2 "Figure path", A.10):

  * `RTFFigureService._binary_to_hex`        → `hexLines`
  * `RTFFigureService._get_png_dimensions`   → `pngDims`
  * `RTFFigureService._get_jpeg_dimensions`  → `jpegScan` / `jpegDims`   (fuel = data length)
  * `RTFFigureService._get_image_dimensions` → `imageDims`
  * `RTFFigureService._get_dimension`        → `getDim`
  * `figure._determine_image_format`         → `fmtOfSuffix`             (suffix table only)
  * `RTFFigureService._encode_single_figure` → `encodeFigure`
  * `UnifiedRTFEncoder._encode_figure_only`  → `pageParts` / `figureLoop` / `encodeDoc`

and of the reader side used by the statement (an RTF reader ignores CR/LF/blank inside picture
data and splits the body at `\page`): `unhex`, `splitPages`.

Bytes are `Nat` (the theorems say where `< 256` matters).  A Python `float` of inches enters as
the exact ratio `num/den` of that float (`float.as_integer_ratio()`); `int(x * k)` is modelled as
truncation of the exact product (DESIGN.md §6: float rounding inside the product is not modelled;
`nearBelow` in FigureSpec detects the inputs on which that matters).
Import-free, executable.
-/
namespace Model.Figure

/-! ## `_binary_to_hex` -/

/-- one nibble of `bytes.hex()` (lower case) -/
def hexDigit : Nat → Char
  | 0 => '0' | 1 => '1' | 2 => '2' | 3 => '3' | 4 => '4' | 5 => '5' | 6 => '6' | 7 => '7'
  | 8 => '8' | 9 => '9' | 10 => 'a' | 11 => 'b' | 12 => 'c' | 13 => 'd' | 14 => 'e' | 15 => 'f'
  | _ => '?'

def hexByte (b : Nat) : List Char := [hexDigit (b / 16), hexDigit (b % 16)]

/-- `data.hex()` -/
def hexString (bs : List Nat) : List Char := bs.flatMap hexByte

/-- `for i in range(0, len(s), n): lines.append(s[i : i + n])`; `fuel` bounds the number of
lines (the caller passes `len(s)`; adequacy is `Proofs.Figure.chunks_flatten`). -/
def chunksAux (n : Nat) : Nat → List Char → List (List Char)
  | 0, _ => []
  | fuel + 1, s => if s.isEmpty then [] else s.take n :: chunksAux n fuel (s.drop n)

/-- `"\n".join(lines)` -/
def joinNl : List (List Char) → List Char
  | [] => []
  | [l] => l
  | l :: ls => l ++ '\n' :: joinNl ls

def lineLength : Nat := 80

def hexLines (bs : List Nat) : List Char :=
  let s := hexString bs
  joinNl (chunksAux lineLength s.length s)

/-! ### reader side: what an RTF reader makes of picture data -/

def unhexDigit (c : Char) : Option Nat :=
  if '0' ≤ c ∧ c ≤ '9' then some (c.toNat - 48)
  else if 'a' ≤ c ∧ c ≤ 'f' then some (c.toNat - 87)
  else if 'A' ≤ c ∧ c ≤ 'F' then some (c.toNat - 55)
  else none

/-- characters a reader skips inside hexadecimal picture data -/
def isSkip (c : Char) : Bool := c == '\n' || c == '\r' || c == ' '

def unhexPairs : List Char → Option (List Nat)
  | [] => some []
  | [_] => none
  | a :: b :: t =>
    match unhexDigit a, unhexDigit b, unhexPairs t with
    | some h, some l, some r => some ((16 * h + l) :: r)
    | _, _, _ => none

/-- decode picture data: skip line breaks/blanks, read pairs of hex digits; `none` when a
character is not a hex digit or a nibble is left over -/
def unhex (s : List Char) : Option (List Nat) := unhexPairs (s.filter (fun c => !isSkip c))

/-! ## header parsers -/

/-- big-endian value of a byte slice (`struct.unpack(">I"/">H", …)`) -/
def beNat (bs : List Nat) : Nat := bs.foldl (fun a b => a * 256 + b) 0

/-- `data[a:b]` for `a ≤ b` -/
def slice (bs : List Nat) (a b : Nat) : List Nat := (bs.drop a).take (b - a)

/-- `b"\x89PNG\r\n\x1a\n"` -/
def pngSig : List Nat := [0x89, 0x50, 0x4E, 0x47, 0x0D, 0x0A, 0x1A, 0x0A]

/-- `_get_png_dimensions`: (width, height) or `none` for `(None, None)` -/
def pngDims (bs : List Nat) : Option (Nat × Nat) :=
  if 24 < bs.length ∧ bs.take 8 = pngSig then
    some (beNat (slice bs 16 20), beNat (slice bs 20 24))
  else none

/-- the 13 start-of-frame markers of the code (C4 = DHT, C8 = JPG, CC = DAC are not SOF) -/
def sofMarkers : List Nat :=
  [0xC0, 0xC1, 0xC2, 0xC3, 0xC5, 0xC6, 0xC7, 0xC9, 0xCA, 0xCB, 0xCD, 0xCE, 0xCF]

def isSof (m : Nat) : Bool := sofMarkers.contains m

inductive Scan where
  | found (w h : Nat)
  | notFound
  | outOfFuel
  deriving DecidableEq, Repr

/-- stand-alone markers (no length field): TEM `FF01`, RSTn `FFD0`–`FFD7` -/
def isStandalone (m : Nat) : Bool := m == 0x01 || (0xD0 ≤ m && m ≤ 0xD7)

/-- The `while i < len(data) - 9` loop, on the suffix `rest = data[i:]` (so `i < len - 9` is
`9 < rest.length`, `data[i+k]` is `rest[k]`, `i += k` is `rest.drop k`). One unit of fuel per
iteration.  Order of the tests as in the code: fill byte (`FF FF` → `i += 1`), stand-alone marker
(`i += 2`), SOF, otherwise a segment with a length field. -/
def jpegScan : Nat → List Nat → Scan
  | 0, _ => .outOfFuel
  | fuel + 1, rest =>
    if 9 < rest.length then
      if rest.getD 0 0 = 0xFF then
        if rest.getD 1 0 = 0xFF then jpegScan fuel (rest.drop 1)
        else if isStandalone (rest.getD 1 0) then jpegScan fuel (rest.drop 2)
        else if isSof (rest.getD 1 0) then
          .found (rest.getD 7 0 * 256 + rest.getD 8 0) (rest.getD 5 0 * 256 + rest.getD 6 0)
        else
          jpegScan fuel (rest.drop (2 + (rest.getD 2 0 * 256 + rest.getD 3 0)))
      else jpegScan fuel (rest.drop 1)
    else .notFound

/-- `_get_jpeg_dimensions` (fuel = data length; `Proofs.Figure.jpegScan_fuel` shows it is never
exhausted) -/
def jpegDims (bs : List Nat) : Option (Nat × Nat) :=
  if bs.length < 10 ∨ bs.take 2 ≠ [0xFF, 0xD8] then none
  else
    match jpegScan bs.length (bs.drop 2) with
    | .found w h => some (w, h)
    | _ => none

inductive Fmt where
  | png | jpeg | emf
  deriving DecidableEq, Repr

/-- `_get_image_dimensions` (the `try/except` cannot fire: no slice above can be short) -/
def imageDims (f : Fmt) (bs : List Nat) : Option (Nat × Nat) :=
  match f with
  | .png => pngDims bs
  | .jpeg => jpegDims bs
  | .emf => none

/-! ## format, sizes -/

def asciiLower (c : Char) : Char :=
  if 'A' ≤ c ∧ c ≤ 'Z' then Char.ofNat (c.toNat + 32) else c

/-- `_determine_image_format` on `path.suffix` — the extension table only.  `none` = the code goes
on to `mimetypes.guess_type` / `ValueError` (not modelled, outside C16's domain). -/
def fmtOfSuffix (suffix : List Char) : Option Fmt :=
  let s := suffix.map asciiLower
  if s = ['.', 'p', 'n', 'g'] then some .png
  else if s = ['.', 'j', 'p', 'g'] then some .jpeg
  else if s = ['.', 'j', 'p', 'e', 'g'] then some .jpeg
  else if s = ['.', 'e', 'm', 'f'] then some .emf
  else none

/-! ### the suffix of a file NAME

`_determine_image_format` looks at `path.suffix`, which `pathlib` derives from the FINAL component of the path
(`PurePath.name`, the text behind the last `/`) as the text from its LAST dot on — provided that dot is neither the
first nor the last character of the name (`i = name.rfind('.')`, `name[i:] if 0 < i < len(name) - 1 else ''`).  So of a
name with several dots only the last dot-token counts: `plot.emf.png` is a PNG, `scan.png.jpg` a JPEG, `.png` (a hidden
file), `plot.png.` and `plot` have no suffix, and nothing a directory is called matters. -/

/-- `PurePath.name` of a POSIX path without a trailing slash: the text behind the last `/` -/
def baseName (path : List Char) : List Char :=
  (path.reverse.takeWhile (fun c => c != '/')).reverse

/-- `PurePath.suffix` of a name (Python 3.12 `pathlib`) -/
def suffixOfName (name : List Char) : List Char :=
  let r := name.reverse
  let ext := r.takeWhile (fun c => c != '.')
  match r.dropWhile (fun c => c != '.') with
  | _ :: _ :: _ => if ext.isEmpty then [] else '.' :: ext.reverse
  | _ => []

/-- `_determine_image_format(Path(path))`, extension table only: the format of the LAST suffix of the final
component, case-insensitively -/
def fmtOfPath (path : List Char) : Option Fmt := fmtOfSuffix (suffixOfName (baseName path))

/-- control word (without backslash) written after `{\pict` -/
def blipWord : Fmt → List Char
  | .png => ['p', 'n', 'g', 'b', 'l', 'i', 'p']
  | .jpeg => ['j', 'p', 'e', 'g', 'b', 'l', 'i', 'p']
  | .emf => ['e', 'm', 'f', 'b', 'l', 'i', 'p']

/-- exact value `num/den` of a non-negative Python float -/
structure Size where
  num : Nat
  den : Nat
  deriving DecidableEq, Repr

/-- `int(x * k)` on the exact value -/
def truncMul (s : Size) (k : Nat) : Nat := s.num * k / s.den

/-- `_get_dimension`: positional, last value reused; `none` = `IndexError` on an empty list.
(Scalars were turned into one-element lists at construction.) -/
def getDim {α} (dims : List α) (i : Nat) : Option α :=
  if i < dims.length then dims[i]? else dims.getLast?

/-! ## `_encode_single_figure` (the part C16 observes) -/

structure Pict where
  fmt : Fmt
  picw : Nat
  pich : Nat
  wgoal : Nat
  hgoal : Nat
  payload : List Char
  deriving DecidableEq, Repr

def encodeFigure (f : Fmt) (bs : List Nat) (w h : Size) : Pict :=
  let d := match imageDims f bs with
    | some d => d
    | none => (truncMul w 96, truncMul h 96)
  { fmt := f, picw := d.1, pich := d.2, wgoal := truncMul w 1440, hgoal := truncMul h 1440,
    payload := hexLines bs }

/-! ## `_encode_figure_only`: the per-figure page loop -/

inductive Placement where
  | first | last | all
  deriving DecidableEq, Repr

/-- `show_on_all or (p == "first" and is_first) or (p == "last" and is_last)` -/
def shows (p : Placement) (isFirst isLast : Bool) : Bool :=
  match p with
  | .all => true
  | .first => isFirst
  | .last => isLast

structure Cfg where
  pageTitle : Placement
  pageFootnote : Placement
  pageSource : Placement
  /-- `encode_title(...)` is a non-empty string -/
  hasTitle : Bool
  /-- `document.rtf_subline` is set and encodes to a non-empty string (placed by `page_title`) -/
  hasSubline : Bool
  /-- `rtf_footnote is not None` and its paragraph is non-empty -/
  hasFootnote : Bool
  hasSource : Bool
  deriving DecidableEq, Repr

inductive Piece where
  | title | subline | pict (p : Pict) | par | footnote | source | pageBreak
  deriving DecidableEq, Repr

/-- body of loop iteration `i` of `num` without the trailing page break -/
def pageBody (cfg : Cfg) (num i : Nat) (p : Pict) : List Piece :=
  let isFirst := i == 0
  let isLast := i + 1 == num
  (if cfg.hasTitle && shows cfg.pageTitle isFirst isLast then [.title] else [])
  ++ (if cfg.hasSubline && shows cfg.pageTitle isFirst isLast then [.subline] else [])
  ++ [.pict p, .par]
  ++ (if cfg.hasFootnote && shows cfg.pageFootnote isFirst isLast then [.footnote] else [])
  ++ (if cfg.hasSource && shows cfg.pageSource isFirst isLast then [.source] else [])

def pageParts (cfg : Cfg) (num i : Nat) (p : Pict) : List Piece :=
  pageBody cfg num i p ++ (if i + 1 == num then [] else [.pageBreak])

/-- `for i in range(num)` from index `i` on -/
def loopFrom (cfg : Cfg) (num : Nat) : Nat → List Pict → List Piece
  | _, [] => []
  | i, p :: ps => pageParts cfg num i p ++ loopFrom cfg num (i + 1) ps

def figureLoop (cfg : Cfg) (ps : List Pict) : List Piece := loopFrom cfg ps.length 0 ps

/-- reader side: pages are the maximal `\page`-free stretches -/
def splitPages : List Piece → List (List Piece)
  | [] => [[]]
  | .pageBreak :: t => [] :: splitPages t
  | x :: t =>
    match splitPages t with
    | [] => [[x]]
    | p :: ps => (x :: p) :: ps

structure FigSrc where
  /-- `Path(file).suffix` -/
  suffix : List Char
  bytes : List Nat
  deriving DecidableEq, Repr

structure FigDoc where
  figs : List FigSrc
  widths : List Size
  heights : List Size
  cfg : Cfg
  deriving Repr

inductive DocOut where
  /-- no figures: `rtf_encode()` returns the empty string -/
  | empty
  /-- some suffix is outside the extension table (MIME fallback / `ValueError`, not modelled) -/
  | unknownSuffix
  /-- `fig_width` / `fig_height` is an empty list: `IndexError` -/
  | indexError
  | ok (pieces : List Piece)
  deriving Repr

/-- the pictures in loop order; `none` on the first failing `_get_dimension` -/
def encodePicts (ws hs : List Size) : Nat → List (Fmt × List Nat) → Option (List Pict)
  | _, [] => some []
  | i, (f, bs) :: rest =>
    match getDim ws i, getDim hs i, encodePicts ws hs (i + 1) rest with
    | some w, some h, some ps => some (encodeFigure f bs w h :: ps)
    | _, _, _ => none

def readFormats : List FigSrc → Option (List (Fmt × List Nat))
  | [] => some []
  | s :: rest =>
    match fmtOfSuffix s.suffix, readFormats rest with
    | some f, some r => some ((f, s.bytes) :: r)
    | _, _ => none

def encodeDoc (d : FigDoc) : DocOut :=
  if d.figs.isEmpty then .empty
  else
    match readFormats d.figs with
    | none => .unknownSuffix
    | some fs =>
      match encodePicts d.widths d.heights 0 fs with
      | none => .indexError
      | some ps => .ok (figureLoop d.cfg ps)

end Model.Figure
