/-
Model of what happens to the `rtf_column_header=` ARGUMENT of `RTFDocument` between the caller and the renderer's
header loop — the step between "the header rows the user configured" and the header LIST the layout / encoder models
start from (`Model.Layout.LDoc.headers`, `Model.Encode.Doc.headers`).

  * the field `rtf_column_header : Sequence[RTFColumnHeader] | Sequence[Sequence[RTFColumnHeader | None]]` with the
    "before" validator `convert_column_header_to_list` (src/rtflite/encode.py): a single `RTFColumnHeader` becomes
    the one-element LIST; a list stays a list and a tuple stays a TUPLE (pydantic keeps the sequence type); `None`
    and a flat sequence holding `None` are refused (ValidationError)                              → `validate`
  * `validate_column_names` (df a list): a nested LIST whose length differs from the section count is refused
  * `RTFDocument.__init__`: a non-empty header sequence is REBUILT AS A LIST of the headers with `col_rel_width`
    inherited from the body (`[self._inherit_header_widths(h, body) for h in …]`); an empty sequence is left as it
    is; in the flat path an entry that is itself a non-empty sequence has no `col_rel_width` (AttributeError — the
    recorded refusal of nested headers on a single table and of a tuple as first section), an empty one is falsy and
    kept; df a list and the FIRST entry a `list`: per section, `zip(strict=True)`            → `initFlatPath`, `initMulti`
  * `_encode_multi_section` (src/rtflite/encoding/unified_encoder.py): section i renders with `hdr[i]` when
    `is_nested_header_list(hdr)`, else section 0 with the whole value and later sections with `None` → `sectionVal`
  * `PageRenderer._render_column_headers` (src/rtflite/encoding/renderer.py) dispatches on the PYTHON TYPE of the
    value through src/rtflite/type_guards.py: `is_nested_header_list` / `is_flat_header_list` test
    `isinstance(_, list)`, `is_single_header` excludes lists and tuples — a TUPLE is recognised by none of the three
    and renders no header row; `None` entries are skipped                                       → `toProcess`, `rendered`

Import-free, executable, polymorphic in the header payload `α` (the driver runs it on (row id, has own widths)).
-/
namespace Model.HeaderInput

/-- the two Python sequence types the constructors accept -/
inductive Box where
  | list
  | tuple
  deriving DecidableEq, Repr

/-- a value of the field: `None`, one `RTFColumnHeader`, a sequence of `RTFColumnHeader | None`, or a sequence of
such sequences (an empty sequence is `flat box []`) -/
inductive Val (α : Type) where
  | none
  | single (h : α)
  | flat (box : Box) (rows : List (Option α))
  | nested (box : Box) (secs : List (Box × List (Option α)))
  deriving Repr

inductive Err where
  | validation   -- pydantic ValidationError
  | attribute    -- AttributeError
  | value        -- ValueError (zip(strict=True))
  deriving DecidableEq, Repr

variable {α : Type}

/-- field validation incl. `convert_column_header_to_list` -/
def validate : Val α → Except Err (Val α)
  | .none => .error .validation
  | .single h => .ok (.flat .list [some h])
  | .flat box rows => if rows.all Option.isSome then .ok (.flat box rows) else .error .validation
  | .nested box secs => .ok (.nested box secs)

/-- `[self._inherit_header_widths(h, body) for h in self.rtf_column_header]` guarded by `if self.rtf_column_header`
(single table; flat format of a section list).  `f` = the header with the body's widths inherited if it has none. -/
def initFlatPath (f : α → α) : Val α → Except Err (Val α)
  | .flat box [] => .ok (.flat box [])
  | .flat _ rows => .ok (.flat .list (rows.map (Option.map f)))
  | .nested box secs =>
      if secs.isEmpty then .ok (.flat box [])
      else if secs.any (fun s => !s.2.isEmpty) then .error .attribute
      else .ok (.nested .list secs)
  | v => .ok v

/-- `isinstance(hdr[0], list)` -/
def firstIsList {β : Type} : List (Box × β) → Bool
  | (.list, _) :: _ => true
  | _ => false

/-- df a list of `n` frames -/
def initMulti (f : α → α) (n : Nat) : Val α → Except Err (Val α)
  | .nested box secs =>
      if firstIsList secs then
        if box == .list && secs.length != n then .error .validation
        else if secs.length != n then .error .value
        else .ok (.nested .list (secs.map fun s => if s.2.isEmpty then s else (.list, s.2.map (Option.map f))))
      else initFlatPath f (.nested box secs)
  | v => initFlatPath f v

/-- the field after `RTFDocument(…, rtf_column_header=arg)`; `nsec = none`: df a single frame, `some n`: a list of n -/
def construct (f : α → α) (nsec : Option Nat) (arg : Val α) : Except Err (Val α) :=
  match validate arg with
  | .error e => .error e
  | .ok v =>
    match nsec with
    | none => initFlatPath f v
    | some n => initMulti f n v

/-- `is_nested_header_list` -/
def isNestedList : Val α → Bool
  | .nested .list secs => firstIsList secs
  | _ => false

/-- the value the temporary document of section `i` carries -/
def sectionVal (v : Val α) (i : Nat) : Val α :=
  if isNestedList v then
    match v with
    | .nested _ secs =>
        match secs[i]? with
        | some s => .flat s.1 s.2
        | none => .none
    | _ => .none
  else if i == 0 then v else .none

/-- `headers_to_process` of `_render_column_headers`: the type guards see a `list` or a non-sequence, nothing else -/
def toProcess : Val α → Except Err (List (Option α))
  | .none => .ok []
  | .single h => .ok [some h]
  | .flat .list rows => .ok rows
  | .flat .tuple _ => .ok []
  | .nested .tuple _ => .ok []
  | .nested .list [] => .ok []
  | .nested .list ((.list, r) :: rest) => .ok (r ++ rest.flatMap (·.2))
  | .nested .list ((.tuple, _) :: _) => .error .attribute     -- "flat" by the guard; a tuple entry has no `.text`

/-- the header objects that reach `encode_column_header`, in order (`None` entries are skipped) -/
def rendered (v : Val α) : Except Err (List α) :=
  match toProcess v with
  | .error e => .error e
  | .ok rows => .ok (rows.filterMap id)

/-- per section of the document: the header objects rendered above its table -/
def renderedDoc (nsec : Option Nat) (v : Val α) : Except Err (List (List α)) :=
  match nsec with
  | none => (rendered v).map ([·])
  | some n => (List.range n).mapM fun i => rendered (sectionVal v i)

/-- construction followed by rendering -/
def renderedOf (f : α → α) (nsec : Option Nat) (arg : Val α) : Except Err (List (List α)) :=
  match construct f nsec arg with
  | .error e => .error e
  | .ok v => renderedDoc nsec v

end Model.HeaderInput
