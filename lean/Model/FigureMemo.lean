import Model.Figure
/-!
# The page loop with a per-encode memo of finished picture groups

`Model.Figure.encodePicts` is the code that exists: position `i` of `figures` is encoded from what stands AT position
`i` — the format of the file's suffix, the bytes read, `getDim fig_width i`, `getDim fig_height i` — and from nothing
else.  The same file may be listed at several positions (a legend between panels, one placeholder for every missing
panel); the list is a list of positions, not a set of files.

This file is the SPECIFICATION side of that remark.  `encodePictsMemo` is the family of page loops that remember the
finished `{\pict …}` group of a position under some key (the path as spelled, the resolved path, a hash of the bytes,
the base name, …) and reuse it at a later position with the same key.  `Props/C16pos.lean` proves when such a loop is
the page loop (`C16_memo_sound`: the key determines format, bytes, width and height of every position it is used at)
and exhibits what happens otherwise (`C16_path_memo_not_positional`: a memo under the path alone shows a file listed
twice at the size of its first occurrence — the document oracle rejects the result).  Nothing here is driven by the
harness; the executable model of the code is `encodePicts`.
-/
namespace Model.Figure

/-- one position of `figures` as a memoising loop sees it: the key it remembers pictures under, the format of the
suffix, the bytes read -/
structure Keyed (κ : Type) where
  key : κ
  fmt : Fmt
  bytes : List Nat
  deriving Repr

/-- the unkeyed position list (`rtf_read_figure`'s result) -/
def Keyed.plain {κ : Type} (x : Keyed κ) : Fmt × List Nat := (x.fmt, x.bytes)

/-- the first remembered picture under key `k` -/
def memoFind {κ : Type} [DecidableEq κ] (k : κ) : List (κ × Pict) → Option Pict
  | [] => none
  | (k', p) :: rest => if k' = k then some p else memoFind k rest

/-- the pictures in loop order with a memo: a position whose key was seen before reuses the remembered picture (its
own width and height are not even looked up); otherwise as `encodePicts`, and the picture is remembered -/
def encodePictsMemo {κ : Type} [DecidableEq κ] (ws hs : List Size) :
    Nat → List (κ × Pict) → List (Keyed κ) → Option (List Pict)
  | _, _, [] => some []
  | i, memo, x :: rest =>
    match memoFind x.key memo with
    | some p =>
      match encodePictsMemo ws hs (i + 1) memo rest with
      | some ps => some (p :: ps)
      | none => none
    | none =>
      match getDim ws i, getDim hs i with
      | some w, some h =>
        match encodePictsMemo ws hs (i + 1) ((x.key, encodeFigure x.fmt x.bytes w h) :: memo) rest with
        | some ps => some (encodeFigure x.fmt x.bytes w h :: ps)
        | none => none
      | _, _ => none

end Model.Figure
