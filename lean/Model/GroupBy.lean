/-
Model of `rtflite.services.grouping_service.GroupingService` (group_by value suppression) and of the
part of `UnifiedRTFEncoder._apply_data_post_processing` that drives it:

  * `enhance_group_by`                → `enhanceGroupBy`
  * `_suppress_single_column`         → `suppressSingle`
  * `_suppress_hierarchical_columns`  → `suppressHier`   (`showMask` = `should_show`)
  * `restore_page_context`            → `restorePageContext`
  * `validate_data_sorting(df, group_by=…)` → `validateDataSorting` (`contig` = the
    `current_value / seen_values` loop)
  * page-start indices from page heights, per-page slices → `pageStarts`, `postProcess`

The model is of the code **after** the two repairs `fixes/groupby-null-aware-suppression.patch`
(null-aware `ne_missing`, conditions evaluated on the original frame) and
`fixes/groupby-tuple-keys.patch` (deeper-level keys are tuples of values, not `"|"`-joined strings).
The behaviour of the code **before** the repairs is kept below as `Legacy.*` (polars' three-valued
logic, conditions evaluated on the frame whose higher levels are already blanked, string keys), so
that the defects are stated and machine-checked too (`Props/C13.lean`, section "legacy").

Import-free, executable.  A polars frame is a list of named columns; a cell is `Option (List Char)`
(`none` = null; `some s` = the string value).
-/
namespace Model.GroupBy

abbrev Str := List Char
abbrev Cell := Option Str
abbrev Col := List Cell
abbrev Frame := List (Str × Col)

inductive Err
  | valueError
  deriving DecidableEq, Repr, Inhabited

/-! ## frame primitives -/

/-- `df.height` -/
def height : Frame → Nat
  | [] => 0
  | (_, c) :: _ => c.length

def names (f : Frame) : List Str := f.map (·.1)

/-- `df[name]`; every use is guarded by the "missing columns" check of `enhance_group_by` -/
def getCol (f : Frame) (name : Str) : Col := (f.lookup name).getD []

/-- `df.with_columns(values.alias(name))`: replaces the column of that name, appends otherwise -/
def setCol (f : Frame) (name : Str) (v : Col) : Frame :=
  if name ∈ names f then f.map (fun p => if p.1 = name then (p.1, v) else p) else f ++ [(name, v)]

/-- `series[i]` for `i < len`; null otherwise (never reached out of range in the modelled code) -/
def cellAt (c : Col) (i : Nat) : Cell := (c[i]?).join

/-! ## polars expressions used by the suppression -/

/-- `s.shift(1)`: a null in front, the last value dropped -/
def shift1 (c : Col) : Col := (none :: c).take c.length

/-- `a.ne_missing(b)`: two-valued, null is equal to null and different from everything else -/
def neMissing (a b : Col) : List Bool := List.zipWith (fun x y => decide (x ≠ y)) a b

/-- `col.ne_missing(col.shift(1))` -/
def changed (c : Col) : List Bool := neMissing c (shift1 c)

/-- `pl.int_range(df.height) == 0` -/
def row0 (n : Nat) : List Bool := (List.range n).map (fun i => i == 0)

/-- `a | b` on two-valued masks -/
def orMask (a b : List Bool) : List Bool := List.zipWith (fun x y => x || y) a b

/-- `pl.when(mask).then(col).otherwise(None)` -/
def whenThen (m : List Bool) (c : Col) : Col := List.zipWith (fun b v => if b then v else none) m c

/-! ## suppression -/

/-- `_suppress_single_column` -/
def suppressSingle (df : Frame) (column : Str) : Frame :=
  let c := getCol df column
  let isFirst := orMask (changed c) (row0 (height df))
  setCol df column (whenThen isFirst c)

/-- `should_show` of level `column` under the higher levels `higher`:
`conditions = [row0] + [changed h for h in higher] + [changed column]`, OR-ed from the left -/
def showMask (df : Frame) (higher : List Str) (column : Str) : List Bool :=
  (higher.map (fun h => changed (getCol df h)) ++ [changed (getCol df column)]).foldl orMask
    (row0 (height df))

/-- the new values of level `i` (all read from the *original* frame `df`) -/
def levelValues (df : Frame) (gb : List Str) (i : Nat) (column : Str) : Col :=
  whenThen (showMask df (gb.take i) column) (getCol df column)

/-- `_suppress_hierarchical_columns`: `for i, column in enumerate(group_by): result_df = result_df.with_columns(…)` -/
def suppressHier (df : Frame) (gb : List Str) : Frame :=
  gb.zipIdx.foldl (fun res p => setCol res p.1 (levelValues df gb p.2 p.1)) df

/-! ## contiguity validation -/

/-- the loop `for j in range(1, len(values))` with `current_value` and `seen_values` -/
def contigAux {α} [DecidableEq α] : α → List α → List α → Bool
  | _, _, [] => true
  | cur, seen, v :: vs =>
    if v ≠ cur then
      if v ∈ seen then false else contigAux v (v :: seen) vs
    else contigAux cur seen vs

def contig {α} [DecidableEq α] : List α → Bool
  | [] => true
  | v :: vs => contigAux v [v] vs

/-- `df.select(cols).rows()` -/
def tuples (df : Frame) (cols : List Str) : List (List Cell) :=
  (List.range (height df)).map (fun i => cols.map (fun c => cellAt (getCol df c) i))

/-- one iteration of `for i, var in enumerate(unique_vars)`: `true` = no `ValueError` raised -/
def levelOk (df : Frame) (uv : List Str) (i : Nat) : Bool :=
  if i = 0 then contig (getCol df (uv.headD [])) else contig (tuples df (uv.take (i + 1)))

/-- `validate_data_sorting(df, group_by=gb)` (page_by, subline_by absent) -/
def validateDataSorting (df : Frame) (gb : List Str) : Except Err Unit :=
  if height df = 0 then .ok () else
  if gb = [] then .ok () else
  -- _validate_no_overlapping_grouping_vars: nothing to overlap with
  let uv := gb.eraseDups
  if uv.any (fun c => !(names df).contains c) then .error .valueError else
  if (List.range uv.length).all (levelOk df uv) then .ok () else .error .valueError

/-- `enhance_group_by` -/
def enhanceGroupBy (df : Frame) (gb : List Str) : Except Err Frame :=
  if gb = [] || height df = 0 then .ok df else
  if gb.any (fun c => !(names df).contains c) then .error .valueError else
  match validateDataSorting df gb with
  | .error e => .error e
  | .ok () =>
    match gb with
    | [column] => .ok (suppressSingle df column)
    | _ => .ok (suppressHier df gb)

/-! ## page context -/

/-- inner loop of `restore_page_context` for one page-start index -/
def restoreOne (orig : Frame) (gb : List Str) (res : Frame) (idx : Nat) : Frame :=
  if idx < height orig then
    gb.foldl (fun r col => setCol r col ((getCol r col).set idx (cellAt (getCol orig col) idx))) res
  else res

/-- `restore_page_context(suppressed_df, original_df, group_by, page_start_indices)` -/
def restorePageContext (sup orig : Frame) (gb : List Str) (starts : List Nat) : Frame :=
  if gb = [] || starts = [] then sup else starts.foldl (restoreOne orig gb) sup

/-- `page_start_indices` of `_apply_data_post_processing`: cumulative heights of the pages before,
for every page but the first -/
def pageStartsAux : Nat → Bool → List Nat → List Nat
  | _, _, [] => []
  | cum, notFirst, h :: hs => (if notFirst then [cum] else []) ++ pageStartsAux (cum + h) true hs

def pageStarts (heights : List Nat) : List Nat := pageStartsAux 0 false heights

/-- consecutive slices `col.slice(curr, rows)` -/
def splitCol (c : Col) : List Nat → List Col
  | [] => []
  | h :: hs => c.take h :: splitCol (c.drop h) hs

def sliceFrame (f : Frame) (start len : Nat) : Frame := f.map (fun p => (p.1, (p.2.drop start).take len))

def splitFrameAux (f : Frame) : Nat → List Nat → List Frame
  | _, [] => []
  | cur, h :: hs => sliceFrame f cur h :: splitFrameAux f (cur + h) hs

/-- the whole frame after suppression and restoration (what the per-page slices are cut from) -/
def restored (df : Frame) (gb : List Str) (heights : List Nat) : Except Err Frame :=
  match enhanceGroupBy df gb with
  | .error e => .error e
  | .ok s => .ok (restorePageContext s df gb (pageStarts heights))

/-- `_apply_data_post_processing` step 2: per-page data after group_by handling
(`heights` = the page heights the pagination strategy produced) -/
def postProcess (df : Frame) (gb : List Str) (heights : List Nat) : Except Err (List Frame) :=
  if gb = [] then .ok (splitFrameAux df 0 heights) else
  match restored df gb heights with
  | .error e => .error e
  | .ok r => .ok (splitFrameAux r 0 heights)

/-! ## legacy: the behaviour before the repairs (defects D17, D17b, validator collisions) -/
namespace Legacy

/-- polars' three-valued `a != b`: null if either side is null -/
def neK (a b : Col) : List (Option Bool) :=
  List.zipWith (fun x y => match x, y with
    | some u, some v => some (decide (u ≠ v))
    | _, _ => none) a b

def changedK (c : Col) : List (Option Bool) := neK c (shift1 c)

/-- Kleene `a | b`: true wins over null -/
def orK (a b : List (Option Bool)) : List (Option Bool) :=
  List.zipWith (fun x y => match x, y with
    | some true, _ => some true
    | _, some true => some true
    | some false, some false => some false
    | _, _ => none) a b

/-- `pl.when(mask).then(col).otherwise(None)`: a null mask takes `otherwise` -/
def whenThenK (m : List (Option Bool)) (c : Col) : Col :=
  List.zipWith (fun b v => if b = some true then v else none) m c

def row0K (n : Nat) : List (Option Bool) := (row0 n).map some

def suppressSingle (df : Frame) (column : Str) : Frame :=
  let c := getCol df column
  setCol df column (whenThenK (orK (changedK c) (row0K (height df))) c)

/-- conditions are evaluated on `res`, the frame whose higher levels are already blanked -/
def suppressHier (df : Frame) (gb : List Str) : Frame :=
  gb.zipIdx.foldl (fun res p =>
    let conds := (gb.take p.2).map (fun h => changedK (getCol res h)) ++ [changedK (getCol res p.1)]
    setCol res p.1 (whenThenK (conds.foldl orK (row0K (height df))) (getCol res p.1))) df

/-- `pl.concat_str([col.cast(Utf8).fill_null("__NULL__") …], separator="|")` -/
def joinKey (cells : List Cell) : Str :=
  (cells.map (fun c => c.getD "__NULL__".toList)).intersperse ['|'] |>.flatten

def levelOk (df : Frame) (uv : List Str) (i : Nat) : Bool :=
  if i = 0 then contig (getCol df (uv.headD [])) else contig ((tuples df (uv.take (i + 1))).map joinKey)

def validateDataSorting (df : Frame) (gb : List Str) : Except Err Unit :=
  if height df = 0 then .ok () else
  if gb = [] then .ok () else
  let uv := gb.eraseDups
  if uv.any (fun c => !(names df).contains c) then .error .valueError else
  if (List.range uv.length).all (levelOk df uv) then .ok () else .error .valueError

def enhanceGroupBy (df : Frame) (gb : List Str) : Except Err Frame :=
  if gb = [] || height df = 0 then .ok df else
  if gb.any (fun c => !(names df).contains c) then .error .valueError else
  match validateDataSorting df gb with
  | .error e => .error e
  | .ok () =>
    match gb with
    | [column] => .ok (suppressSingle df column)
    | _ => .ok (suppressHier df gb)

end Legacy

end Model.GroupBy
