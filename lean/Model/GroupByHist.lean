import Model.GroupBy
/-
`GroupingService` over HISTORIES: one service object answering a sequence of calls (property C13).

The encoder uses ONE object for the whole process (`grouping_service = GroupingService()` at module level), so what
an evaluation returns could depend on the evaluations made before it.  In the code it does not: `__init__` is
`pass`, no method assigns to `self`, to the class or to a module global.  `service` is that object — its state is
`Unit` — and `run service` folds it over any sequence of calls.

The class of state such an object most plausibly acquires is kept beside it (`memoService`): accepted tables are
remembered under a key, and a table whose key is known skips the contiguity scan of `validate_data_sorting`.
Whether that is harmless is a property of the key alone (`AcceptSound`, `Props/C13hist.lean`); `sumKey` — table
layout, grouping variables, height and the SUM of per-row hashes of the grouping columns, for any row hash — is the
order-insensitive instance.

Import-free (Model only), executable.
-/
namespace Model.GroupBy.Hist
open Model.GroupBy

/-- one evaluation: the frame, the group_by list and the page-start indices handed to the service
(`enhance_group_by(df, gb)` followed by `restore_page_context(·, df, gb, starts)`) -/
structure Call where
  df : Frame
  gb : List Str
  starts : List Nat

/-- what the evaluation returns as a function of ITS OWN arguments -/
def answer (c : Call) : Except Err Frame :=
  match enhanceGroupBy c.df c.gb with
  | .error e => .error e
  | .ok s => .ok (restorePageContext s c.df c.gb c.starts)

/-- a service object: the state it keeps between calls and how one call is answered in a state -/
structure Service (σ : Type) where
  init : σ
  step : σ → Call → σ × Except Err Frame

def runFrom {σ : Type} (S : Service σ) : σ → List Call → List (Except Err Frame)
  | _, [] => []
  | s, c :: cs => (S.step s c).2 :: runFrom S (S.step s c).1 cs

/-- the answers to a history of calls made on a new object, in order -/
def run {σ : Type} (S : Service σ) (cs : List Call) : List (Except Err Frame) := runFrom S S.init cs

/-- the object the code has: nothing is kept -/
def service : Service Unit := { init := (), step := fun _ c => ((), answer c) }

/-! ## remembered acceptances -/

/-- the suppression step of `enhance_group_by` (after validation) -/
def suppress (df : Frame) (gb : List Str) : Frame :=
  match gb with
  | [column] => suppressSingle df column
  | _ => suppressHier df gb

/-- `enhance_group_by` whose `validate_data_sorting` remembers the tables it accepted under `key`
(`seen` = the keys remembered so far) and does not scan a table whose key is known -/
def enhanceMemo {κ : Type} [DecidableEq κ] (key : Frame → List Str → κ) (seen : List κ) (df : Frame)
    (gb : List Str) : List κ × Except Err Frame :=
  if gb = [] || height df = 0 then (seen, .ok df) else
  if gb.any (fun c => !(names df).contains c) then (seen, .error .valueError) else
  if key df gb ∈ seen then (seen, .ok (suppress df gb)) else
  match validateDataSorting df gb with
  | .error e => (seen, .error e)
  | .ok () => (key df gb :: seen, .ok (suppress df gb))

def memoService {κ : Type} [DecidableEq κ] (key : Frame → List Str → κ) : Service (List κ) :=
  { init := []
    step := fun seen c =>
      let r := enhanceMemo key seen c.df c.gb
      (r.1, match r.2 with
            | .error e => .error e
            | .ok s => .ok (restorePageContext s c.df c.gb c.starts)) }

/-- the calls on which the store is consulted at all (non-empty frame and group_by, columns present) -/
def Consulted (df : Frame) (gb : List Str) : Prop :=
  (gb = [] || height df = 0) = false ∧ gb.any (fun c => !(names df).contains c) = false

/-- the key never identifies an accepted table with one the scan rejects -/
def AcceptSound {κ : Type} (key : Frame → List Str → κ) : Prop :=
  ∀ (a : Frame) (ga : List Str) (b : Frame) (gb : List Str), Consulted a ga → Consulted b gb →
    key a ga = key b gb → validateDataSorting a ga = .ok () → validateDataSorting b gb = .ok ()

/-- the table itself (what the scan reads of it): height, grouping variables, grouping columns -/
def exactKey (df : Frame) (gb : List Str) : Nat × List Str × List Col :=
  (height df, gb, gb.eraseDups.map (getCol df))

/-- layout, grouping variables, height and the sum of a per-row hash `h` over the grouping columns' rows -/
def sumKey (h : List Cell → Nat) (df : Frame) (gb : List Str) : List Str × List Str × Nat × Nat :=
  (names df, gb, height df, ((tuples df gb).map h).sum)

end Model.GroupBy.Hist
