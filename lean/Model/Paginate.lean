/-
Model of `rtflite.pagination.core.PageBreakCalculator`:
  * `_assign_pages`            → `assignAux` / `assignPages`
  * group-change detection of `calculate_row_metadata` → `changes`
  * `max(1, int(w / cw) + 1)`  → `linesNeeded`
Import-free, executable.  Python semantics kept as they are (see DESIGN.md A.3).
-/
namespace Model.Paginate

/-- The three fields of `RowMetadata` that `_assign_pages` reads. -/
structure RowMeta where
  total : Nat      -- total_rows
  grp   : Bool     -- is_group_start
  sub   : Bool     -- is_subline_start
  deriving Repr, DecidableEq, Inhabited

/-- `force_break` for one row; `nf` is `i > 0`. -/
def forceBreak (np : Bool) (nf : Bool) (r : RowMeta) : Bool :=
  (r.sub && nf) || (np && r.grp && nf)

/-- Does the loop start a new page before `r`?  (`cur` = `current_rows`.) -/
def breaksBefore (avail : Nat) (np : Bool) (cur : Nat) (nf : Bool) (r : RowMeta) : Bool :=
  (forceBreak np nf r || decide (cur + r.total > avail)) && decide (cur > 0)

/-- The loop of `_assign_pages` with its accumulators `(page, cur)`; `nf` = "not the first row". -/
def assignAux (avail : Nat) (np : Bool) : (page cur : Nat) → (nf : Bool) → List RowMeta → List Nat
  | _, _, _, [] => []
  | page, cur, nf, r :: rs =>
    let brk := breaksBefore avail np cur nf r
    let page' := if brk then page + 1 else page
    let cur'  := if brk then 0 else cur
    page' :: assignAux avail np page' (cur' + r.total) true rs

/-- `available_rows = max(1, nrow - additional)`; Python ints, so the difference may be
negative — `max 1` of a negative number and of the truncated `0` agree. -/
def availRows (nrow additional : Nat) : Nat := max 1 (nrow - additional)

def assignPages (nrow additional : Nat) (np : Bool) (rs : List RowMeta) : List Nat :=
  assignAux (availRows nrow additional) np 1 0 false rs

/-- Accumulator state after processing `rs` (used by the prefix-stability theorem). -/
def stateAfter (avail : Nat) (np : Bool) : (page cur : Nat) → (nf : Bool) → List RowMeta → Nat × Nat × Bool
  | page, cur, nf, [] => (page, cur, nf)
  | page, cur, nf, r :: rs =>
    let brk := breaksBefore avail np cur nf r
    let page' := if brk then page + 1 else page
    let cur'  := if brk then 0 else cur
    stateAfter avail np page' (cur' + r.total) true rs

/-- `page_by_changes` / `subline_by_changes`: row 0 always starts a group; row `i>0` starts one
iff its key (the list of `str(value)` of the grouping columns) differs from row `i-1`. -/
def changesFrom {α} [DecidableEq α] : α → List α → List Bool
  | _, [] => []
  | prev, k :: ks => (decide (k ≠ prev)) :: changesFrom k ks

def changes {α} [DecidableEq α] : List α → List Bool
  | [] => []
  | k :: ks => true :: changesFrom k ks

/-- `max(1, int(w / cw) + 1)` on exact non-negative rationals `w = wn/wd`, `cw = cn/cd`. -/
def linesNeeded (wn wd cn cd : Nat) : Nat := max 1 ((wn * cd) / (wd * cn) + 1)

/-- Row metadata from per-row data lines, heading rows and keys (total = data + pageby + subline). -/
structure RowIn (κ : Type) where
  dataRows    : Nat
  pagebyRows  : Nat          -- heading rows if the row starts a page_by group (0 if all dividers)
  sublineRows : Nat
  pkey        : κ            -- str() of the page_by values
  skey        : κ            -- str() of the subline_by values

def mkMeta {κ} [DecidableEq κ] (hasPageBy hasSubline : Bool) (rows : List (RowIn κ)) : List RowMeta :=
  let pch := changes (rows.map (·.pkey))
  let sch := changes (rows.map (·.skey))
  (rows.zip (pch.zip sch)).map fun (r, p, s) =>
    let pr := if hasPageBy && p then r.pagebyRows else 0
    let sr := if hasSubline && s then r.sublineRows else 0
    { total := r.dataRows + pr + sr, grp := hasPageBy && p, sub := hasSubline && s }

end Model.Paginate
