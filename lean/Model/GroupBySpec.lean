import Model.GroupBy
/-!
Specification side of C13 — written without reference to the algorithm.  Used by the theorems in
`Props/C13.lean` and, compiled, by the driver as the oracle evaluated on what the implementation
really produced.
-/
namespace Model.GroupBy

/-- hierarchical key of row `i` up to level `l` (inclusive); a null is a value of its own -/
def hkey (gcols : List Col) (l i : Nat) : List Cell := (gcols.take (l + 1)).map (fun c => cellAt c i)

/-- row `i` repeats the hierarchical key (up to level `l`) of the preceding row -/
def isRepeat (gcols : List Col) (l i : Nat) : Bool :=
  decide (0 < i) && decide (hkey gcols l i = hkey gcols l (i - 1))

/-- row `i` is the first data row of a page (`starts` = first rows of the pages after the first) -/
def isPageStart (starts : List Nat) (i : Nat) : Bool := i == 0 || starts.contains i

/-- the cell the property demands at level `l`, row `i`: blank (`none`) exactly for a true repeat
that is not the first row of a page, the original value otherwise -/
def expectedCell (gcols : List Col) (starts : List Nat) (l i : Nat) : Cell :=
  if isRepeat gcols l i && !isPageStart starts i then none else cellAt (gcols.getD l []) i

/-- what the reader sees of a cell: null and a blanked cell both render as the empty text -/
def display (c : Cell) : Str := c.getD []

/-! ### contiguity -/

/-- structural form of "equal keys are contiguous": a key that occurs again later is immediately
followed by itself -/
def contigB {α} [DecidableEq α] : List α → Bool
  | [] => true
  | v :: vs => (decide (v ∈ vs → vs.head? = some v)) && contigB vs

/-- the statement's form: between two occurrences of a key there is nothing but that key -/
def Contiguous {α} (ks : List α) : Prop :=
  ∀ (pre mid post : List α) (a : α), ks = pre ++ a :: (mid ++ a :: post) → ∀ x ∈ mid, x = a

/-- every prefix level of the group key is contiguous -/
def allLevelsContiguousB (gcols : List Col) (n : Nat) : Bool :=
  (List.range gcols.length).all fun l => contigB ((List.range n).map (hkey gcols l))

/-! ### fill-down -/

/-- filling blanks downward: a blank takes the last shown value above it (`carry`) -/
def fillFrom (carry : Cell) : Col → Col
  | [] => []
  | none :: xs => carry :: fillFrom carry xs
  | some v :: xs => some v :: fillFrom (some v) xs

/-- fill-down within one page (nothing is carried across the page boundary) -/
def fillDown (c : Col) : Col := fillFrom none c

/-! ### oracle on observed output -/

/-- violations of the cell clause: `(level, row, clause)`; `observed` are the rendered texts of the
group columns (one list per level), compared with the display of the demanded cell -/
def cellViolations (gcols : List Col) (starts : List Nat) (observed : List (List Str)) (n : Nat) :
    List (Nat × Nat × String) :=
  (List.range gcols.length).flatMap fun l =>
    (List.range n).filterMap fun i =>
      let want := expectedCell gcols starts l i
      let got := (observed.getD l []).getD i ['\x00']
      if got = display want then none
      else if isRepeat gcols l i && !isPageStart starts i then some (l, i, "true-repeat-not-blanked")
      else if got = [] then some (l, i, "blanked-but-not-a-repeat-or-first-row-of-page")
      else some (l, i, "value-altered")

/-- violations of the fill-down clause per page: `(level, page, row-in-page)` where a non-null original
is not reconstructed -/
def fillViolations (gcols : List Col) (heights : List Nat) (observed : List (List Str)) :
    List (Nat × Nat × Nat) :=
  (List.range gcols.length).flatMap fun l =>
    let orig := splitCol (gcols.getD l []) heights
    let obs := splitCol ((observed.getD l []).map (fun s => if s = [] then none else some s)) heights
    (List.range heights.length).flatMap fun p =>
      let f := fillDown (obs.getD p [])
      let o := orig.getD p []
      (List.range o.length).filterMap fun i =>
        match cellAt o i with
        | none => none
        | some v => if v = [] ∨ cellAt f i = some v then none else some (l, p, i)

end Model.GroupBy
