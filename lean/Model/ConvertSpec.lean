import Model.Convert
/-!
# Specification of the text conversion (C11): a one-pass, left-to-right tokeniser

`spec t : List Event` reads the text once, left to right.  At every position, in this order:

1. a *documented literal token* starts here (`^`, `_`, `>=`, `<=`, newline, `\pagenumber`, `\totalpage`,
   `\pagefield` — matched as literal prefixes) → its event;
2. a backslash followed by at least one ASCII letter → a *command*: the longest letter run names it, a
   directly following brace group `{…}` (up to the first `}`) is looked up together with it; a hit in the
   symbol table → `mapped ch`, a miss → the whole looked-up text stays → `verbatim`;
3. anything else → `plain c`.

`render` is the natural reading of the events as RTF run content (`≥` for `ge`), `renderD15` is what
rtflite writes (`≥` followed by the delimiter blank of the intermediate `\geq `, observation D15).

`regular t` is the decidable side condition under which the multi-pass implementation equals the
one-pass reading (see `Props/C11.lean`): inside the brace group of a command no literal token starts,
and a command without a brace group is not followed by `\pagefield` (directly, or after an unclosed `{`).
-/
namespace Model.Convert

inductive Event where
  | plain (c : Char)
  | mapped (c : Char)
  | sup | sub | ge | le | br
  | pageNumber | totalPage | pageField
  | verbatim (w : Str)
  deriving Repr, DecidableEq

/-! ### the documented literal tokens -/

def patPageNumber : Str := ['\\', 'p', 'a', 'g', 'e', 'n', 'u', 'm', 'b', 'e', 'r']
def patTotalPage : Str := ['\\', 't', 'o', 't', 'a', 'l', 'p', 'a', 'g', 'e']
def patPageField : Str := ['\\', 'p', 'a', 'g', 'e', 'f', 'i', 'e', 'l', 'd']

def docTokens : List (Str × Event) :=
  [(['^'], .sup), (['_'], .sub), (['>', '='], .ge), (['<', '='], .le), (['\n'], .br),
   (patPageNumber, .pageNumber), (patTotalPage, .totalPage), (patPageField, .pageField)]

/-- first documented literal token that is a prefix of the text -/
def findTok (s : Str) : Option (Str × Event) := docTokens.find? (fun pe => pe.1.isPrefixOf s)

/-- symbol table lookup of the specification: the code point *listed* for the command (first row) -/
def lookupFirst (tbl : List (Str × Nat)) (k : Str) : Option Nat := (tbl.find? (fun kv => kv.1 = k)).map (·.2)

def cmdEvent (tbl : List (Str × Nat)) (w : Str) : Event :=
  match lookupFirst tbl w with
  | some cp => .mapped (Char.ofNat cp)
  | none => .verbatim w

def specGo (tbl : List (Str × Nat)) : Nat → Str → List Event
  | _, [] => []
  | k + 1, _ :: t => specGo tbl k t
  | 0, c :: t =>
    match findTok (c :: t) with
    | some (pat, e) => e :: specGo tbl (pat.length - 1) t
    | none =>
      if c = '\\' then
        match matchCmd t with
        | some cmd => cmdEvent tbl (c :: cmd) :: specGo tbl cmd.length t
        | none => .plain c :: specGo tbl 0 t
      else .plain c :: specGo tbl 0 t

def specWith (tbl : List (Str × Nat)) (t : Str) : List Event := specGo tbl 0 t

/-- the specification over the symbol table of the source tree -/
def spec (t : Str) : List Event := specWith latexTable t

/-! ### rendering -/

def rSuper : Str := ['\\', 's', 'u', 'p', 'e', 'r', ' ']
def rSub : Str := ['\\', 's', 'u', 'b', ' ']
def rLine : Str := ['\\', 'l', 'i', 'n', 'e', ' ']
def rChpgn : Str := ['\\', 'c', 'h', 'p', 'g', 'n', ' ']
def rTotalPage : Str := ['\\', 't', 'o', 't', 'a', 'l', 'p', 'a', 'g', 'e', ' ']
def rNumPages : Str :=
  ['{', '\\', 'f', 'i', 'e', 'l', 'd', '{', '\\', '*', '\\', 'f', 'l', 'd', 'i', 'n', 's', 't', ' ',
   'N', 'U', 'M', 'P', 'A', 'G', 'E', 'S', ' ', '}', '}', ' ']
def chGe : Char := Char.ofNat 8805
def chLe : Char := Char.ofNat 8804

/-- natural rendering of one event as RTF run content -/
def renderEvent : Event → Str
  | .plain c => [c]
  | .mapped c => [c]
  | .sup => rSuper
  | .sub => rSub
  | .ge => [chGe]
  | .le => [chLe]
  | .br => rLine
  | .pageNumber => rChpgn
  | .totalPage => rTotalPage
  | .pageField => rNumPages
  | .verbatim w => w

/-- what rtflite writes: as `renderEvent`, but a blank follows the comparison signs (D15) -/
def renderEventD15 : Event → Str
  | .ge => [chGe, ' ']
  | .le => [chLe, ' ']
  | e => renderEvent e

def render (es : List Event) : Str := es.flatMap renderEvent
def renderD15 (es : List Event) : Str := es.flatMap renderEventD15

/-- no comparison-sign event (outside this class D15 shows) -/
def noCmp (es : List Event) : Bool := es.all (fun e => e ≠ .ge && e ≠ .le)

/-- what the literal passes write for a token (the value in `RTF_CHAR_MAPPING`) -/
def mid : Event → Str
  | .ge => ['\\', 'g', 'e', 'q', ' ']
  | .le => ['\\', 'l', 'e', 'q', ' ']
  | e => renderEvent e

/-- the documented mapping as replacement rules -/
def docRules : List (Str × Str) := docTokens.map (fun pe => (pe.1, mid pe.2))

/-! ### the one-pass literal scanner (simultaneous replacement) -/

def findRule (rules : List (Str × Str)) (s : Str) : Option (Str × Str) :=
  rules.find? (fun pr => pr.1.isPrefixOf s)

def simGo (rules : List (Str × Str)) : Nat → Str → Str
  | _, [] => []
  | k + 1, _ :: t => simGo rules k t
  | 0, c :: t =>
    match findRule rules (c :: t) with
    | some (p, r) => r ++ simGo rules (p.length - 1) t
    | none => c :: simGo rules 0 t

def sim (rules : List (Str × Str)) (t : Str) : Str := simGo rules 0 t

/-! ### decidable compatibility of an ordered rule list (makes sequential = simultaneous) -/

def incomp (a b : Str) : Bool := !(a.isPrefixOf b) && !(b.isPrefixOf a)

/-- `f` holds of every non-empty suffix -/
def allSuffixes (f : Str → Bool) : Str → Bool
  | [] => true
  | c :: t => f (c :: t) && allSuffixes f t

/-- rule `(p, _)` may be applied after the simultaneous application of `rules`:
patterns non-empty; no occurrence of `p` can touch an output of `rules`; no pattern of `rules` can
match inside `p`; no output of `rules` can fake the tail of `p`. -/
def compat (rules : List (Str × Str)) (p : Str) : Bool :=
  !p.isEmpty && rules.all (fun pr => !pr.1.isEmpty)
  && rules.all (fun pr => allSuffixes (fun s => incomp p s) pr.2)
  && allSuffixes (fun s => rules.all (fun pr => incomp pr.1 s)) p
  && allSuffixes (fun s => rules.all (fun pr => incomp s pr.2)) p.tail

def allCompat (done : List (Str × Str)) : List (Str × Str) → Bool
  | [] => true
  | pr :: todo => compat done pr.1 && allCompat (done ++ [pr]) todo

/-! ### the side condition `regular` -/

/-- from a `{` on: no literal token starts at any position up to and including the first `}` -/
def cleanUntilClose : Str → Bool
  | [] => true
  | c :: t => (findTok (c :: t)).isNone && (if c = '}' then true else cleanUntilClose t)

def anySuffix (f : Str → Bool) : Str → Bool
  | [] => false
  | c :: t => f (c :: t) || anySuffix f t

/-- `\pagefield` follows directly, or after a `{` (the output of `\pagefield` begins with `{` and
contains `}`, so it would supply or close a brace group for the command in front of it) -/
def pagefieldAhead : Str → Bool
  | [] => false
  | c :: t => patPageField.isPrefixOf (c :: t) || (c = '{' && anySuffix (fun s => patPageField.isPrefixOf s) t)

def regularGo : Nat → Str → Bool
  | _, [] => true
  | k + 1, _ :: t => regularGo k t
  | 0, c :: t =>
    match findTok (c :: t) with
    | some (pat, _) => regularGo (pat.length - 1) t
    | none =>
      if c = '\\' then
        match matchCmd t with
        | some cmd =>
          (match braceGroup (t.dropWhile isLetter) with
           | some _ => cleanUntilClose (t.dropWhile isLetter)
           | none => !pagefieldAhead (t.dropWhile isLetter))
          && regularGo cmd.length t
        | none => regularGo 0 t
      else regularGo 0 t

/-- the texts on which multi-pass and one-pass reading coincide (up to D15) -/
def regular (t : Str) : Bool := regularGo 0 t

/-- diagnosis for the harness (not used in theorems; the harness checks `regular t ↔ irregular t = []`):
1 = a literal token starts inside the brace group of a command, 2 = `\pagefield` ahead of a group-less command -/
def irregularGo : Nat → Str → List Nat
  | _, [] => []
  | k + 1, _ :: t => irregularGo k t
  | 0, c :: t =>
    match findTok (c :: t) with
    | some (pat, _) => irregularGo (pat.length - 1) t
    | none =>
      if c = '\\' then
        match matchCmd t with
        | some cmd =>
          (match braceGroup (t.dropWhile isLetter) with
           | some _ => if cleanUntilClose (t.dropWhile isLetter) then [] else [1]
           | none => if pagefieldAhead (t.dropWhile isLetter) then [2] else [])
          ++ irregularGo cmd.length t
        | none => irregularGo 0 t
      else irregularGo 0 t

def irregular (t : Str) : List Nat := irregularGo 0 t

/-! ### documented command syntax -/

/-- `k` is a backslash followed by letters and an optional closed brace group, and nothing else -/
def nameable (k : Str) : Bool :=
  match k with
  | [] => false
  | c :: t => c = '\\' && matchCmd t = some t

/-! ### reading a rendered run back (oracle side): control words of the run -/

/-- observable items of a run: characters and the switches / fields rtflite can emit -/
inductive Obs where
  | ch (c : Char)
  | sup | sub | br | pageNumber | totalPage | numPages
  deriving Repr, DecidableEq

def rendTable : List (Str × Obs) :=
  [(rSuper, .sup), (rSub, .sub), (rLine, .br), (rChpgn, .pageNumber), (rTotalPage, .totalPage), (rNumPages, .numPages)]

/-- greedy left-to-right reading of a converted text into observable items -/
def readObsGo : Nat → Str → List Obs
  | _, [] => []
  | k + 1, _ :: t => readObsGo k t
  | 0, c :: t =>
    match rendTable.find? (fun po => po.1.isPrefixOf (c :: t)) with
    | some (pat, o) => o :: readObsGo (pat.length - 1) t
    | none => .ch c :: readObsGo 0 t

def readObs (t : Str) : List Obs := readObsGo 0 t

end Model.Convert
