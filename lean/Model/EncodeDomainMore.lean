import Model.EncodeDomain
import Model.EncodeMulti
import Model.EncodeFigure
/-!
# The domains of C01 for the multi-section and the figure-only encoder models

* `InDomainMulti d`: every per-section document (`Model.EncodeMulti.sectionDoc`, the `temp_document` the code hands to
  `_encode_body_section`) is in the single-section domain `InDomain`, and the page header / footer texts of the ORIGINAL
  document (the preamble is built from it) are admissible.
* `InDomainFig d`: the texts of title, subline, page header, page footer, footnote and source are admissible for their
  `text_convert` values; the footnote is always rendered paragraph-style, so it needs no width clause; a source rendered
  as table needs the width clauses of `footOk` and a table width of at least half a twip.  The picture data needs no
  clause: `hexLines` only writes hexadecimal digits, `?` and line ends, whatever the bytes are.
-/
namespace Model.EncodeDomainMore
open Model.Encode Model.EncodeDomain Model.EncodeMulti Model.EncodeFigure

def inDomainMulti (d : MDoc) : Bool :=
  (sectionDocs d).all inDomain && textCompOk d.pageHeader && textCompOk d.pageFooter

def InDomainMulti (d : MDoc) : Prop := inDomainMulti d = true

instance (d : MDoc) : Decidable (InDomainMulti d) := by unfold InDomainMulti; infer_instance

/-- the text clause of `footOk` -/
def footTxtOk (f : Option Foot) : Bool :=
  match f with
  | none => true
  | some f => txtOkAttr f.attrs.convert (f.text.getD [])

def sourceOkF (W : Rat) (f : Option Foot) : Bool :=
  match f with
  | none => true
  | some f => if f.asTable then decide (0 < twip W) && footOk W (some f) else footTxtOk (some f)

def inDomainFig (d : FDoc) : Bool :=
  textCompOk d.title && textCompOk d.subline && textCompOk d.pageHeader && textCompOk d.pageFooter &&
  footTxtOk d.footnote && sourceOkF d.page.colWidth d.source

def InDomainFig (d : FDoc) : Prop := inDomainFig d = true

instance (d : FDoc) : Decidable (InDomainFig d) := by unfold InDomainFig; infer_instance

end Model.EncodeDomainMore
