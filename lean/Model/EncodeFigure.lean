import Model.Encode
import Model.EncodeMulti
import Model.Figure
/-!
# Executable model of the figure-only encoder

`UnifiedRTFEncoder._encode_figure_only` (`df is None`): the figures are read from disk at encode time (the file bytes
are part of the model's input), and the document is

    start · font table · colour table · "\n" · {\header…} · {\footer…} · page settings
    per figure i:  [title "\n"] [subline] align {\pict…} "\par " [footnote] [source] [page break]
    "\n\n}"

everything joined with `""` after dropping the empty strings.  Title and subline follow `page_title`, footnote
`page_footnote`, source `page_source` (`"all"`, `"first"` = figure 0, `"last"` = the last figure).  The `"\n"` after
the title is appended whenever the placement shows the title, also when the title encodes to `""`.  The footnote is
rendered paragraph-style whatever its `as_table` says (deep copy with `as_table = False`); the source keeps its own
`as_table`.  The page break is `generate_page_break` (it restates paper size and margins).

The picture itself is `Model.Figure.encodeFigure` (`hexLines`, `imageDims`, `truncMul`), the format comes from the file
suffix (`fmtOfSuffix`; a suffix outside the table is reported as `ValueError`, the MIME fallback is not modelled), the
size of figure `i` from `getDim`.
-/
namespace Model.EncodeFigure
open Model.Encode Model.EncodeMulti Model.Rtf Model.Emit Generated

structure FigFile where
  suffix : List Char                   -- `Path(file).suffix`
  bytes : List Nat
  deriving Repr, Inhabited

structure FDoc where
  figs : List FigFile                  -- `rtf_figure.figures` (`[]` also for `None`)
  widths : List Rat                    -- `fig_width` (one-element list for a scalar)
  heights : List Rat
  align : String
  page : Page
  pageHeader : Option TextComp
  pageFooter : Option TextComp
  title : Option TextComp
  subline : Option TextComp
  footnote : Option Foot
  source : Option Foot
  body : Option (TblAttrsOf Attr)      -- `rtf_body` (default `RTFBody()`): colours only
  headers : List (Option Header)       -- `rtf_column_header` (default `[RTFColumnHeader()]`): colours only
  deriving Repr, Inhabited

def colorDocF (d : FDoc) : Color.Doc :=
  { bodies := (d.body.toList).map bodyColorComp,
    texts := textColorComps d.title d.subline d.footnote d.source d.pageHeader d.pageFooter,
    headers := headerColorComps d.headers }

/-- a positive Python float as `Model.Figure.Size` -/
def sizeOf (q : Rat) : Figure.Size := { num := q.num.toNat, den := q.den }

/-- `alignment_map.get(alignment, "\\ql ")` -/
def alignWord (a : String) : String :=
  if a == "center" then "qc" else if a == "right" then "qr" else "ql"

/-- `_encode_single_figure`: alignment word, `{\pict\<fmt>blip\picwN\pichN\picwgoalN\pichgoalN <hex lines>}` -/
def pictNodes (align : String) (p : Figure.Pict) : List Node :=
  [cwSp (alignWord align),
   Node.grp ([cw0 "pict", Node.cw (Figure.blipWord p.fmt) none false, cwi "picw" p.picw, cwi "pich" p.pich,
              cwi "picwgoal" p.wgoal, Node.cw "pichgoal".toList (some p.hgoal) true] ++ textNodes p.payload)]

/-! ## `int(width * 1440)`, `int(width * 96)`: the IEEE-754 product, then truncation

`Model.Figure.truncMul` truncates the exact product; the code truncates the DOUBLE product, which differs when the exact
product lies less than half an ulp below an integer (`6.1 * 1440` is `8784.0` as a double, `8783.99…` exactly).  The
double product of two doubles is the exact product rounded to nearest, ties to even, so it is modelled exactly here
(normal range; sizes are positive and far from overflow). -/

def pow2 (e : Int) : Rat := if 0 ≤ e then ((2 ^ e.toNat : Nat) : Rat) else 1 / ((2 ^ (-e).toNat : Nat) : Rat)

/-- round half to even -/
def roundHalfEven (x : Rat) : Int :=
  let f := x.floor
  let r := x - f
  if r < 1 / 2 then f else if 1 / 2 < r then f + 1 else if f % 2 = 0 then f else f + 1

/-- the double nearest to a positive rational (53-bit significand, ties to even) -/
def roundDouble (q : Rat) : Rat :=
  if q ≤ 0 then q else
  let e0 : Int := (Nat.log2 q.num.toNat : Int) - (Nat.log2 q.den : Int) - 52
  -- `q * 2^-e0` lies in `(2^51, 2^53)`; make it `[2^52, 2^53)`
  let e := if q * pow2 (-e0) < pow2 52 then e0 - 1 else e0
  (roundHalfEven (q * pow2 (-e)) : Rat) * pow2 e

/-- `int(w * k)` for a positive float `w` and a small integer `k` -/
def truncFMul (w : Rat) (k : Nat) : Nat := (roundDouble (w * (k : Rat))).floor.toNat

/-- `_encode_single_figure` up to printing: `Model.Figure.encodeFigure` with the products taken in doubles -/
def pictOf (fmt : Figure.Fmt) (bytes : List Nat) (w h : Rat) : Figure.Pict :=
  let p := Figure.encodeFigure fmt bytes (sizeOf w) (sizeOf h)
  let p := { p with wgoal := truncFMul w 1440, hgoal := truncFMul h 1440 }
  match Figure.imageDims fmt bytes with
  | some _ => p
  | none => { p with picw := truncFMul w 96, pich := truncFMul h 96 }

/-- a document that carries only what `renderFoot` reads: `rtf_page.col_width` -/
def pageOnly (pg : Page) : Doc := { (default : Doc) with page := pg }

/-- the pieces of loop iteration `i` of `num` (+ near-boundary count) -/
def figurePieces (k : ColorCtx) (d : FDoc) (title : List Elem) (num i : Nat) (fmt : Figure.Fmt) (bytes : List Nat) :
    Except String (List BlockG × Nat) := do
  let isFirst := i == 0
  let isLast := i + 1 == num
  let titleHere := d.page.pageTitle.shows isFirst isLast
  let t := if titleHere then title.flatten ++ [BlockG.plain [Node.nl]] else []
  let s ← if d.subline.isSome && titleHere then (·.flatten) <$> textElem k d.subline else pure []
  let w ← match Figure.getDim d.widths i with
    | some w => pure w
    | none => throw "IndexError"
  let h ← match Figure.getDim d.heights i with
    | some h => pure h
    | none => throw "IndexError"
  let p := pictOf fmt bytes w h
  let pic := [BlockG.plain (pictNodes d.align p), BlockG.plain [cwSp "par"]]
  let fn ← match d.footnote with
    | some f =>
      if d.page.pageFootnote.shows isFirst isLast then
        joinElems <$> renderFoot k (pageOnly d.page) { f with asTable := false } none
      else pure []
    | none => pure []
  let src ← match d.source with
    | some f =>
      if d.page.pageSource.shows isFirst isLast then joinElems <$> renderFoot k (pageOnly d.page) f none
      else pure []
    | none => pure []
  let brk ← if isLast then pure [] else do pure [BlockG.plain (← pageBreak d.page)]
  return (t ++ s ++ pic ++ fn ++ src ++ brk, 0)

/-- start, font table, colour table, "\n", header, footer, page settings — joined with `""` -/
def preambleF (k : ColorCtx) (d : FDoc) : Except String (List Node) := do
  let fontTbl ← match Color.fontTableText fontTable with
    | .ok s => pure s
    | .error _ => throw "ValueError"
  let colorTbl ← match Color.generateColorTable colorTable (some k.used) with
    | .ok s => pure s
    | .error _ => throw "ValueError"
  return [cw0 "ansi", Node.nl, cwi "deff" 0, cwi "deflang" 1033] ++ textNodes fontTbl.toList ++
    textNodes colorTbl.toList ++ [Node.nl] ++ (← pageHF k "header" d.pageHeader) ++
    (← pageHF k "footer" d.pageFooter) ++ (← pageSettings d.page)

/-- `none` = the empty string (no figures) -/
def encodeWithF (d : FDoc) : Except String (Option DocG × Nat) := do
  if d.figs.isEmpty then return (none, 0)
  -- `rtf_read_figure`
  let files ← d.figs.mapM fun f => match Figure.fmtOfSuffix f.suffix with
    | some fmt => pure (fmt, f.bytes)
    | none => throw "ValueError"
  let k := ctxOfColors (colorDocF d)
  let title ← textElem k d.title
  let head ← preambleF k d
  let num := files.length
  let pieces ← files.zipIdx.mapM fun ((fmt, bytes), i) => figurePieces k d title num i fmt bytes
  let near := (pieces.map (·.2)).foldl (· + ·) 0
  return (some { head := head, blocks := pieces.flatMap (·.1) ++ [BlockG.plain [Node.nl, Node.nl]] }, near)

/-- the string `rtf_encode()` returns for a figure-only document -/
def encodeTextF (d : FDoc) : Except String (List Char) := do
  match (← encodeWithF d).1 with
  | some g => return printDoc g
  | none => return []

/-- twip conversions near a rounding boundary -/
def nearTwipsF (d : FDoc) : Nat :=
  let W := d.page.colWidth
  let foot := ([d.footnote, d.source].filterMap id).flatMap fun f =>
    cumOf f.colRelWidth 1 W ++ attrRats f.attrs.cellHeight
  (([d.page.width, d.page.height, W] ++ d.page.margin ++ foot).filter nearTwip).length

end Model.EncodeFigure
