import Model.Rtf
/-!
The grammar of rtflite's output (C01): a document is `{\rtf1 head blocks }` where a block is plain material
(paragraphs, breaks, pictures, destinations — anything without table control words) or a table row printed from
ONE list of cells (`Row._as_rtf`: all cell definitions, then all cell contents).  `docOk` is the decidable side
condition; `Props/C01.lean` proves `docOk d → wellFormed (printDoc d)`, and every run re-prints the real output
through `printDoc` to check that it is an instance of the grammar.
-/
namespace Model.Rtf

def safeChar (c : Char) : Bool := c != '\\' && c != '{' && c != '}' && c != '\n' && c != '\r'

def nameOk (n : List Char) : Bool := !n.isEmpty && n.all isLetter

def hv (c : Char) : Nat := (hexVal c).getD 0

mutual
def toksNode : Node → List Tok
  | .cw n p _ => [Tok.cw n p]
  | .sym c => [Tok.sym c]
  | .hex a b => [Tok.hex (16 * hv a + hv b)]
  | .txt s => s.map Tok.chr
  | .nl => []
  | .grp body => Tok.open :: toksNodes body ++ [Tok.close]
def toksNodes : List Node → List Tok
  | [] => []
  | n :: ns => toksNode n ++ toksNodes ns
end

/-- a control word printed without delimiter space must not be followed by a character that the lexer would
read as part of it (or as its delimiter) -/
def badAfter (p : Option Int) (c : Char) : Bool :=
  match p with
  | none => isLetter c || isDigit c || c == '-' || c == ' '
  | some _ => isDigit c || c == ' '

mutual
/-- `next` = the first character printed after this node (`none` at the end of input) -/
def nodeOk : Node → (next : Option Char) → Bool
  | .cw n p sp, next => nameOk n && (sp || match next with
      | some c => !badAfter p c
      | none => true)
  | .sym c, _ => validSym c
  | .hex a b, _ => (hexVal a).isSome && (hexVal b).isSome
  | .txt s, _ => s.all safeChar
  | .nl, _ => true
  | .grp body, _ => nodesOk body (some '}')
def nodesOk : List Node → (after : Option Char) → Bool
  | [], _ => true
  | n :: ns, after =>
    nodeOk n (match (printNodes ns).head? with
      | some c => some c
      | none => after) && nodesOk ns after
end

def tableWord (n : List Char) : Bool :=
  n == "trowd".toList || n == "cellx".toList || n == "cell".toList || n == "row".toList

mutual
/-- no table control word at any depth -/
def plainNode : Node → Bool
  | .cw n _ _ => !tableWord n
  | .grp body => plainNodes body
  | _ => true
def plainNodes : List Node → Bool
  | [] => true
  | n :: ns => plainNode n && plainNodes ns
end

structure CellG where
  defn    : List Node      -- borders, alignment … of the cell definition
  cellx   : Int
  content : List Node      -- paragraph and text of the cell
  deriving Repr, Inhabited

inductive BlockG
  | plain (ns : List Node)
  | row (head : List Node) (cells : List CellG) (mid : List Node)
  deriving Repr, Inhabited

structure DocG where
  head   : List Node       -- what follows `{\rtf1` before the first block
  blocks : List BlockG
  deriving Repr, Inhabited

def cw0 (s : String) : Node := Node.cw s.toList none false

def rowNodes (head : List Node) (cells : List CellG) (mid : List Node) : List Node :=
  cw0 "trowd" :: head ++
  cells.flatMap (fun c => c.defn ++ [Node.cw "cellx".toList (some c.cellx) false]) ++
  cells.flatMap (fun c => c.content ++ [cw0 "cell"]) ++
  mid ++ [cw0 "row"]

def blockNodes : BlockG → List Node
  | .plain ns => ns
  | .row head cells mid => rowNodes head cells mid

def docNodes (d : DocG) : List Node :=
  Node.cw "rtf".toList (some 1) false :: d.head ++ d.blocks.flatMap blockNodes

def printDoc (d : DocG) : List Char := printNode (Node.grp (docNodes d))

/-- boundaries positive and non-decreasing -/
def cellxOk : Int → List CellG → Bool
  | _, [] => true
  | last, c :: cs => decide (0 < c.cellx) && decide (last ≤ c.cellx) && cellxOk c.cellx cs

def blockOk : BlockG → Bool
  | .plain ns => plainNodes ns
  | .row head cells mid =>
    plainNodes head && plainNodes mid && cells.all (fun c => plainNodes c.defn && plainNodes c.content) &&
    cellxOk 0 cells

/-- the decidable side condition of the grammar -/
def docOk (d : DocG) : Bool :=
  plainNodes d.head && d.blocks.all blockOk &&
  nodesOk [Node.grp (docNodes d)] none &&
  uOk 1 [] 0 (toksNode (Node.grp (docNodes d)))

/-! ### linear-time form of the side condition (`Proofs/Rtf.lean`: `docOkFast d = docOk d`) -/

mutual
/-- the first character the node prints (`none` for an empty `txt`) -/
def firstCharNode : Node → Option Char
  | .cw _ _ _ => some '\\'
  | .sym _ => some '\\'
  | .hex _ _ => some '\\'
  | .txt s => s.head?
  | .nl => some '\n'
  | .grp _ => some '{'
/-- the first character of the first node that prints something -/
def firstChar : List Node → Option Char
  | [] => none
  | n :: ns => match firstCharNode n with
    | some c => some c
    | none => firstChar ns
end

mutual
def nodeOkFast : Node → (next : Option Char) → Bool
  | .cw n p sp, next => nameOk n && (sp || match next with
      | some c => !badAfter p c
      | none => true)
  | .sym c, _ => validSym c
  | .hex a b, _ => (hexVal a).isSome && (hexVal b).isSome
  | .txt s, _ => s.all safeChar
  | .nl, _ => true
  | .grp body, _ => nodesOkFast body (some '}')
def nodesOkFast : List Node → (after : Option Char) → Bool
  | [], _ => true
  | n :: ns, after =>
    nodeOkFast n (match firstChar ns with
      | some c => some c
      | none => after) && nodesOkFast ns after
end

def docOkFast (d : DocG) : Bool :=
  plainNodes d.head && d.blocks.all blockOk &&
  nodesOkFast [Node.grp (docNodes d)] none &&
  uOk 1 [] 0 (toksNode (Node.grp (docNodes d)))

end Model.Rtf
