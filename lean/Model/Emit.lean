import Model.Rtf
import Model.RtfDoc
/-!
Byte-exact model of rtflite's emitters for text, cells and rows (`row.py`: `TextContent._as_rtf`,
`_get_paragraph_formatting`, `_get_text_formatting`, `Border._as_rtf`, `Cell._as_rtf`, `Row._as_rtf`;
`attributes.py`: `TextAttributes._encode_text`), as functions into the syntax tree `Node` / the grammar `BlockG`
of Model/RtfDoc.lean.  `printNodes` of the result is the string the code writes (with the `"\n"` that the caller's
`"\n".join` puts between the elements of the list `Row._as_rtf` returns).

Inputs are the *resolved* integers and control-word names of one text / cell / row (what `BroadcastValue.iloc`
handed to the constructors, after `point_to_halfpoint`, `_get_color_index`, the `*_CODES` lookups); the text hole is
the already converted and escaped text as a node list.
Import-free apart from the Rtf models, executable.
-/
namespace Model.Emit
open Model.Rtf

def cwi (s : String) (k : Int) : Node := Node.cw s.toList (some k) false

/-- resolved text attributes of one `TextContent` -/
structure TextFmt where
  hyph     : Bool
  sb       : Int
  sa       : Int
  sl       : Option Int          -- `int(space * 240)` when `space != 1`
  fi       : Int
  li       : Int
  ri       : Int
  just     : List Char           -- control word of the justification without backslash, `[]` for ""
  halfPts  : Int                 -- `point_to_halfpoint(size)`
  fontIdx  : Int                 -- `font - 1`
  color    : Option Int          -- `\cf` index when a colour is set
  bg       : Option Int          -- background index when set
  formats  : List (List Char)    -- control words of the format characters, in emission (sorted-character) order
  deriving Repr, Inhabited

/-- `_get_paragraph_formatting` -/
def paraFormat (t : TextFmt) : List Node :=
  [if t.hyph then cw0 "hyphpar" else cwi "hyphpar" 0, cwi "sb" t.sb, cwi "sa" t.sa] ++
  (match t.sl with
   | some k => [cwi "sl" k, cwi "slmult" 1]
   | none => []) ++
  [cwi "fi" t.fi, cwi "li" t.li, cwi "ri" t.ri] ++
  (if t.just.isEmpty then [] else [Node.cw t.just none false])

/-- control words inside the text group before the delimiter blank -/
def runWords (t : TextFmt) : List Node :=
  [cwi "f" t.fontIdx] ++
  (match t.color with
   | some c => [cwi "cf" c]
   | none => []) ++
  (match t.bg with
   | some b => [cwi "chshdng" 0, cwi "chcbpat" b, cwi "cb" b]
   | none => []) ++
  t.formats.map (fun w => Node.cw w none false)

/-- give the LAST control word its delimiter blank (`f"{formatting} {text}"`) -/
def withSpace : List Node → List Node
  | [] => []
  | [Node.cw n p _] => [Node.cw n p true]
  | [x] => [x]
  | x :: y :: rest => x :: withSpace (y :: rest)

/-- `_get_text_formatting() + " " + text + "}"`  (method "plain"): `\fsN{\fK… text}` -/
def plainRun (t : TextFmt) (text : List Node) : List Node :=
  [cwi "fs" t.halfPts, Node.grp (withSpace (runWords t) ++ text)]

/-- method "cell": `\pard` para text-run `\cell` is added by the row grammar -/
def cellContent (t : TextFmt) (text : List Node) : List Node :=
  Node.nl :: cw0 "pard" :: paraFormat t ++ plainRun t text

/-- method "paragraph": `{\pard para \fsN{\fK text}\par}` -/
def paragraph (t : TextFmt) (text : List Node) : Node :=
  Node.grp (cw0 "pard" :: paraFormat t ++ plainRun t text ++ [cw0 "par"])

/-- method "line" of `_encode_text`: the lines rendered "plain", joined by `\line`, wrapped in the paragraph
formatting of the LAST line -/
def joinLines : List (List Node) → List Node
  | [] => []
  | [l] => l
  | l :: rest => l ++ cw0 "line" :: joinLines rest

def linesParagraph (last : TextFmt) (lines : List (TextFmt × List Node)) : Node :=
  Node.grp (cw0 "pard" :: paraFormat last ++ joinLines (lines.map fun (t, x) => plainRun t x) ++ [cw0 "par"])

/-- one cell border -/
structure BorderFmt where
  style : List Char        -- control word of the style, `[]` for ""
  width : Int
  color : Option Int
  deriving Repr, Inhabited

def borderNodes (side : String) (b : BorderFmt) : List Node :=
  [cw0 side] ++ (if b.style.isEmpty then [] else [Node.cw b.style none false]) ++ [cwi "brdrw" b.width] ++
  (match b.color with
   | some c => [cwi "brdrcf" c]
   | none => [])

structure CellFmt where
  left   : Option BorderFmt
  top    : Option BorderFmt
  right  : Option BorderFmt
  bottom : Option BorderFmt
  valign : List (List Char)     -- control words of the vertical alignment (two for merged cells), `[]` for ""
  cellx  : Int
  text   : TextFmt
  body   : List Node            -- converted, escaped text
  deriving Repr, Inhabited

def optBorder (side : String) : Option BorderFmt → List Node
  | some b => borderNodes side b
  | none => []

/-- `Cell._as_rtf` without the final `\cellx` (added by the row grammar) -/
def cellDefn (c : CellFmt) : List Node :=
  Node.nl :: optBorder "clbrdrl" c.left ++ optBorder "clbrdrt" c.top ++ optBorder "clbrdrr" c.right ++
  optBorder "clbrdrb" c.bottom ++ c.valign.map (fun w => Node.cw w none false)

structure RowFmt where
  gaph  : Int                   -- `int(inch_to_twip(height) / 2)`
  just  : List Char             -- `trqc` … or `[]`
  cells : List CellFmt
  deriving Repr, Inhabited

/-- `Row._as_rtf`, elements joined by newline -/
def rowBlock (r : RowFmt) : BlockG :=
  BlockG.row
    ([cwi "trgaph" r.gaph, cwi "trleft" 0] ++ (if r.just.isEmpty then [] else [Node.cw r.just none false]))
    (r.cells.map fun c => { defn := cellDefn c, cellx := c.cellx, content := cellContent c.text c.body })
    [Node.nl, cw0 "intbl"]

/-- the row followed by `\pard` (the last element of the list is `\intbl\row\pard`) -/
def rowNodesFull (r : RowFmt) : List Node := blockNodes (rowBlock r) ++ [cw0 "pard"]

/-! ### side conditions -/

def wordOk (w : List Char) : Bool := nameOk w && !tableWord w

/-- a text hole: plain, adjacency-closed up to its end, `\u` escapes of the escaper's form -/
def textOk (ns : List Node) : Bool := plainNodes ns && nodesOk ns (some '}')

def textFmtOk (t : TextFmt) : Bool :=
  (t.just.isEmpty || wordOk t.just) && t.formats.all wordOk

def borderOk (b : BorderFmt) : Bool := b.style.isEmpty || wordOk b.style

def cellOk (c : CellFmt) : Bool :=
  textFmtOk c.text && textOk c.body && c.valign.all wordOk &&
  [c.left, c.top, c.right, c.bottom].all (fun o => match o with | some b => borderOk b | none => true)

def rowOk (r : RowFmt) : Bool :=
  (r.just.isEmpty || wordOk r.just) && r.cells.all cellOk && cellxOk 0 (r.cells.map fun c =>
    { defn := [], cellx := c.cellx, content := [] })

/-! ### the control-word names a row takes from its inputs (everything else it emits is a fixed word) -/

/-- one of the two control words of the `\u` discipline -/
def uWord (w : List Char) : Bool := w == "u".toList || w == "uc".toList

/-- an optional word: `[]` stands for "" (nothing is emitted) -/
def optWord (w : List Char) : List (List Char) := if w.isEmpty then [] else [w]

def textWords (t : TextFmt) : List (List Char) := optWord t.just ++ t.formats

def borderWords : Option BorderFmt → List (List Char)
  | some b => optWord b.style
  | none => []

def cellWords (c : CellFmt) : List (List Char) :=
  textWords c.text ++ c.valign ++ borderWords c.left ++ borderWords c.top ++ borderWords c.right ++
  borderWords c.bottom

def rowWords (r : RowFmt) : List (List Char) := optWord r.just ++ r.cells.flatMap cellWords

/-- none of the input words is `u` / `uc` (rtflite takes them from fixed code tables: `trqc`, `clvertalt`,
`brdrs`, `b`, `qc` …) -/
def rowNoU (r : RowFmt) : Bool := (rowWords r).all fun w => !uWord w

end Model.Emit

namespace Model.Emit
open Model.Rtf

mutual
/-- no `\u` / `\uc` control word at any depth -/
def noUNode : Node → Bool
  | .cw n _ _ => !(n == "u".toList || n == "uc".toList)
  | .grp body => noUNodes body
  | _ => true
def noUNodes : List Node → Bool
  | [] => true
  | n :: ns => noUNode n && noUNodes ns
end

/-- the escaper's form of a text hole: every `\u` occurs as `\uc1\uN` followed by a text node that starts with the
fallback character; nested groups (page fields) contain no `\u` at all.  `fuel` = length of the list. -/
def uFormAux : Nat → List Node → Bool
  | 0, ns => ns.isEmpty
  | _ + 1, [] => true
  | fuel + 1, Node.cw n p sp :: rest =>
    if n == "uc".toList then
      match p, sp, rest with
      | some 1, false, Node.cw m (some k) false :: Node.txt (_ :: _) :: rest' =>
        m == "u".toList && decide (-32768 ≤ k) && decide (k ≤ 32767) && uFormAux fuel rest'
      | _, _, _ => false
    else if n == "u".toList then false
    else uFormAux fuel rest
  | fuel + 1, Node.grp body :: rest => noUNodes body && uFormAux fuel rest
  | fuel + 1, _ :: rest => uFormAux fuel rest

def uForm (ns : List Node) : Bool := uFormAux ns.length ns

/-- a document made of a head and emitted rows (each followed by `\pard` and a newline, as
`"\n".join(...)` of the row lists produces) -/
def rowsDoc (head : List Node) (rows : List RowFmt) : DocG :=
  { head := head, blocks := rows.flatMap fun r => [rowBlock r, BlockG.plain [cw0 "pard", Node.nl]] }

end Model.Emit
