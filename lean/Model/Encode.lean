import Model.Broadcast
import Model.Widths
import Model.Paginate
import Model.Layout
import Model.Borders
import Model.Color
import Model.Convert
import Model.Escape
import Model.GroupBy
import Model.Emit
import Model.Rtf
import Model.RtfDoc
import Model.TextNodes
import Generated.Constants
import Generated.Colors
/-!
# Executable model of the whole single-section table encoder

`encode measure doc` computes, from the post-construction state of an `RTFDocument` (one `pl.DataFrame`, `RTFPage`,
title, subline, page header / footer, a flat list of column headers, `RTFBody`, footnote, source) and the string widths
the pagination measures (`measure` = `get_string_width` restricted to the arguments the code passes: Pillow is a
parameter), the document `RTFDocument.rtf_encode()` returns, as an instance `DocG` of the output grammar of
`Model/RtfDoc.lean`; `printDoc` of it is the string, byte for byte.

The model is a composition of the partial models:

* `Model.Color`     colour context (`collect`), dense colour table text, dense index (`tableRows` / `indexIn`)
* `Model.Widths`    `_col_widths`, `inch_to_twip`, body / header width selection and slicing
* `Model.Paginate` + `Model.Layout`   row metadata → page numbers → page slices → role-level blocks of every page
* `Model.Broadcast` `_to_nested_list`-normalised matrices: `iloc`, `toList`, `expandSlice`, `pageRows`
* `Model.Borders`   `_apply_pagination_borders` for `border_top` / `border_bottom` of one page
* `Model.GroupBy`   group_by suppression and page-context restoration
* `Model.Convert` + `Model.Escape`   `_convert_special_chars`
* `Model.Emit`      byte-exact emitters of text runs, paragraphs, cells, rows

What is new here is the glue the code has between them (unified_encoder.py, renderer.py, encoding_service.py,
`TableAttributes._encode`, `TextAttributes._encode_text`, `encode_spanning_row`, page settings / break / margins) and
the resolution of raw attribute values (`Val`) into the emitters' integers and control words, including the pydantic
coercions of `TextContent` / `Border` / `Cell` / `Row`.

Floats are exact rationals (`float.as_integer_ratio()`); `nearCount` counts the places where an exact value lies
within 2^-30 of a rounding / truncation boundary, so that the harness can set such documents aside.
Errors are Python exception class names (best effort) or `model:` messages.
-/
namespace Model.Encode
open Model.Broadcast Model.Rtf Model.Emit Generated

abbrev Str := List Char

/-! ## attribute values -/

/-- one scalar as Python holds it -/
inductive Val
  | null
  | bool (b : Bool)
  | int (i : Int)
  | float (q : Rat)
  | str (s : String)
  deriving Repr, Inhabited, DecidableEq

/-- an attribute as the component's `__dict__` holds it -/
inductive Attr
  | null
  | scalar (v : Val)
  | list (xs : List Val)
  | tuple (xs : List Val)
  | nested (m : List (List Val))
  deriving Repr, Inhabited

abbrev MatV := Option (Mat Val)

def Val.isScalar : Val → Bool
  | .null => false
  | _ => true

/-- `_to_nested_list` (run by the `BroadcastValue` validator on every use) -/
def Attr.toNested : Attr → Except String MatV
  | .null => .ok none
  | .scalar v => if v.isScalar then .ok (some [[v]]) else .ok none
  | .list xs =>
    if xs.any Val.isScalar then .ok (some [xs])
    else if xs.isEmpty then .ok (some [])
    else .error "TypeError"
  | .tuple xs => .ok (some (xs.map fun x => [x]))
  | .nested m => .ok (some m)

/-- `BroadcastValue(value=a).iloc(r, c)` -/
def ilocV (a : MatV) (r c : Nat) : Except String Val :=
  match a with
  | none => .ok .null
  | some m =>
    if m.length = 0 || m.ncols = 0 then .error "ZeroDivisionError" else
    match m.iloc r c with
    | some v => .ok v
    | none => .error "ValueError"

/-! ### pydantic (lax mode) coercions of the emitter classes' fields -/

def Val.truthy : Val → Bool
  | .null => false
  | .bool b => b
  | .int i => i != 0
  | .float q => q != 0
  | .str s => s != ""

/-- field `int` -/
def Val.toInt : Val → Except String Int
  | .int i => .ok i
  | .bool b => .ok (if b then 1 else 0)
  | .float q => if q.den = 1 then .ok q.num else .error "ValidationError"
  | _ => .error "ValidationError"

/-- field `float` -/
def Val.toRat : Val → Except String Rat
  | .int i => .ok i
  | .bool b => .ok (if b then 1 else 0)
  | .float q => .ok q
  | _ => .error "ValidationError"

/-- field `bool` -/
def Val.toBool : Val → Except String Bool
  | .bool b => .ok b
  | .int i => if i = 0 then .ok false else if i = 1 then .ok true else .error "ValidationError"
  | .float q => if q = 0 then .ok false else if q = 1 then .ok true else .error "ValidationError"
  | _ => .error "ValidationError"

/-- field `str` -/
def Val.toStr : Val → Except String String
  | .str s => .ok s
  | _ => .error "ValidationError"

/-- field `str | None` -/
def Val.toOptStr : Val → Except String (Option String)
  | .str s => .ok (some s)
  | .null => .ok none
  | _ => .error "ValidationError"

/-! ## arithmetic -/

/-- Python `int(x)` of a float with exact value `x` -/
def pyInt (x : Rat) : Int := if 0 ≤ x then x.floor else - ((-x).floor)

def eps30 : Rat := 1 / 1073741824

/-- `x` within 2^-30 of an integer (an exact 0 is computed exactly by the floats too) -/
def nearInt (x : Rat) : Bool :=
  let d := x - x.floor
  x != 0 && (decide (d < eps30) || decide (1 - d < eps30))

/-- `inch_to_twip(x)` sits within 2^-30 of a rounding boundary -/
def nearTwip (x : Rat) : Bool := Widths.nearHalf eps30 (x * 1440)

def twip (x : Rat) : Int := Widths.twip x

/-! ## components -/

structure TextAttrsOf (α : Type) where
  font : α
  format : α
  size : α
  color : α
  bg : α
  just : α
  indFirst : α
  indLeft : α
  indRight : α
  space : α
  spBefore : α
  spAfter : α
  hyph : α
  convert : α
  deriving Repr, Inhabited

structure TblAttrsOf (α : Type) extends TextAttrsOf α where
  bLeft : α
  bRight : α
  bTop : α
  bBottom : α
  bFirst : α
  bLast : α
  bcLeft : α
  bcRight : α
  bcTop : α
  bcBottom : α
  bcFirst : α
  bcLast : α
  bWidth : α
  cellHeight : α
  cellJust : α
  cellVJust : α
  cellNrow : α
  deriving Repr, Inhabited

def TextAttrsOf.mapM {α β} (f : α → Except String β) (a : TextAttrsOf α) : Except String (TextAttrsOf β) := do
  return { font := ← f a.font, format := ← f a.format, size := ← f a.size, color := ← f a.color, bg := ← f a.bg,
           just := ← f a.just, indFirst := ← f a.indFirst, indLeft := ← f a.indLeft, indRight := ← f a.indRight,
           space := ← f a.space, spBefore := ← f a.spBefore, spAfter := ← f a.spAfter, hyph := ← f a.hyph,
           convert := ← f a.convert }

def TblAttrsOf.mapM {α β} (f : α → Except String β) (a : TblAttrsOf α) : Except String (TblAttrsOf β) := do
  return { toTextAttrsOf := ← a.toTextAttrsOf.mapM f,
           bLeft := ← f a.bLeft, bRight := ← f a.bRight, bTop := ← f a.bTop, bBottom := ← f a.bBottom,
           bFirst := ← f a.bFirst, bLast := ← f a.bLast, bcLeft := ← f a.bcLeft, bcRight := ← f a.bcRight,
           bcTop := ← f a.bcTop, bcBottom := ← f a.bcBottom, bcFirst := ← f a.bcFirst, bcLast := ← f a.bcLast,
           bWidth := ← f a.bWidth, cellHeight := ← f a.cellHeight, cellJust := ← f a.cellJust,
           cellVJust := ← f a.cellVJust, cellNrow := ← f a.cellNrow }

def TblAttrsOf.map {α β} (f : α → β) (a : TblAttrsOf α) : TblAttrsOf β :=
  { font := f a.font, format := f a.format, size := f a.size, color := f a.color, bg := f a.bg,
    just := f a.just, indFirst := f a.indFirst, indLeft := f a.indLeft, indRight := f a.indRight,
    space := f a.space, spBefore := f a.spBefore, spAfter := f a.spAfter, hyph := f a.hyph, convert := f a.convert,
    bLeft := f a.bLeft, bRight := f a.bRight, bTop := f a.bTop, bBottom := f a.bBottom,
    bFirst := f a.bFirst, bLast := f a.bLast, bcLeft := f a.bcLeft, bcRight := f a.bcRight,
    bcTop := f a.bcTop, bcBottom := f a.bcBottom, bcFirst := f a.bcFirst, bcLast := f a.bcLast,
    bWidth := f a.bWidth, cellHeight := f a.cellHeight, cellJust := f a.cellJust,
    cellVJust := f a.cellVJust, cellNrow := f a.cellNrow }

/-- title, subline, page header, page footer -/
structure TextComp where
  text : Option (List Str)           -- `None` or the lines
  attrs : TextAttrsOf Attr
  deriving Repr, Inhabited

structure Header where
  text : Option (List Str)
  colRelWidth : Option (List Rat)
  attrs : TblAttrsOf Attr
  deriving Repr, Inhabited

/-- footnote, source: the text is one string after construction (lines joined by `\line `); `[]` is `some []` -/
structure Foot where
  text : Option Str
  asTable : Bool
  colRelWidth : Option (List Rat)
  attrs : TblAttrsOf Attr
  deriving Repr, Inhabited

structure Body where
  attrs : TblAttrsOf Attr
  colRelWidth : Option (List Rat)
  asColheader : Bool
  groupBy : Option (List Str)
  pageBy : Option (List Str)
  sublineBy : Option (List Str)
  newPage : Bool
  pagebyHeader : Bool
  pagebyColumn : Bool               -- `pageby_row == "column"`
  deriving Repr, Inhabited

structure Page where
  width : Rat
  height : Rat
  margin : List Rat
  nrow : Nat
  landscape : Bool
  borderFirst : String
  borderLast : String
  colWidth : Rat
  pageTitle : Layout.Placement
  pageFootnote : Layout.Placement
  pageSource : Layout.Placement
  deriving Repr, Inhabited

structure Doc where
  cols : List Str
  rows : List (List (Option Str))    -- `None` = null, otherwise `str(value)`
  page : Page
  pageHeader : Option TextComp
  pageFooter : Option TextComp
  title : Option TextComp
  subline : Option TextComp
  headers : List (Option Header)
  body : Body
  footnote : Option Foot
  source : Option Foot
  deriving Repr, Inhabited

/-- `get_string_width(text, font=font, font_size=size)` on the arguments the code passes -/
abbrev Measure := Str → Int → Rat → Option Rat

/-! ## colours -/

def valStrs (vs : List Val) : List String :=
  vs.filterMap fun v => match v with
    | .str s => some s
    | _ => none

/-- the strings `extract_colors_from_attribute` sees -/
def toColorAttr : Attr → Color.Attr
  | .null => .none
  | .scalar (.str s) => .flat false [s]
  | .scalar _ => .none
  | .list xs => .flat false (valStrs xs)
  | .tuple xs => .flat true (valStrs xs)
  | .nested m => .nested (m.map valStrs)

def textColorComp (a : TextAttrsOf Attr) : Color.Comp :=
  { textColor := toColorAttr a.color, bgColor := toColorAttr a.bg }

/-- a table component (body, footnote, source, column header): text colour, background and the six border colours -/
def tblColorComp (b : TblAttrsOf Attr) : Color.Comp :=
  { textColor := toColorAttr b.color, bgColor := toColorAttr b.bg,
    borderColors := [b.bcLeft, b.bcRight, b.bcTop, b.bcBottom, b.bcFirst, b.bcLast].map toColorAttr }

def colorDoc (d : Doc) : Color.Doc :=
  { bodies := [tblColorComp d.body.attrs],
    texts := ([d.title, d.subline].filterMap id).map (fun t => textColorComp t.attrs) ++
             ([d.footnote, d.source].filterMap id).map (fun f => tblColorComp f.attrs) ++
             ([d.pageHeader, d.pageFooter].filterMap id).map (fun t => textColorComp t.attrs),
    headers := (d.headers.filterMap id).map fun h => tblColorComp h.attrs }

/-- the colour context of one encode: what `Utils._get_color_index` answers for every name.
`= Color.utilsColorIndex colorTable (some ctx) c none`, with the sorted dense table computed once. -/
structure ColorCtx where
  used : List String
  rows : Except Color.Err (List ColorRow)

def mkColorCtx (d : Doc) : ColorCtx :=
  let used := Color.collect (colorDoc d)
  { used := used, rows := Color.tableRows colorTable used }

def ColorCtx.index (k : ColorCtx) (c : String) : Int :=
  if !Color.significant c then 0
  else if (Color.filtered k.used).isEmpty then 0
  else match k.rows with
    | .ok rows => (Color.indexIn rows c : Nat)
    | .error _ => 0

/-! ## text -/

/-- `TextContent._convert_special_chars` -/
def convText (conv : Bool) (t : Str) : Str :=
  (Escape.escape ((Convert.convertCore conv t).map Char.toNat)).map Char.ofNat

/-- the text hole of an emitter: the converted text read back into syntax nodes (`printNodes (textNodes t) = t`) -/
def textNodes (t : Str) : List Node := TextNodes.lexNodes t

/-- strip the backslashes of a code-table entry: `"\\clvertalc\\clvmgf"` ↦ `["clvertalc", "clvmgf"]` -/
def splitWords : List Char → List (List Char) → List Char → List (List Char)
  | [], acc, cur => (if cur.isEmpty then acc else cur.reverse :: acc).reverse
  | c :: cs, acc, cur =>
    if c = '\\' then splitWords cs (if cur.isEmpty then acc else cur.reverse :: acc) []
    else splitWords cs acc (c :: cur)

def codeWords (code : String) : List (List Char) := splitWords code.toList [] []

/-- a code-table entry with exactly one control word (or none: `""`) -/
def codeWord (code : String) : List Char := (codeWords code).headD []

/-- the raw values one `TextContent` is constructed from -/
structure TextVals where
  font : Val
  size : Val
  format : Val
  color : Val
  bg : Val
  just : Val
  indFirst : Val
  indLeft : Val
  indRight : Val
  space : Val
  spBefore : Val
  spAfter : Val
  convert : Val
  hyph : Val
  deriving Repr, Inhabited

/-- insertion sort of characters by code point, duplicates dropped: `sorted(list(set(format)))` -/
def insertChar (c : Char) : List Char → List Char
  | [] => [c]
  | d :: ds => if c.toNat < d.toNat then c :: d :: ds else if c = d then d :: ds else d :: insertChar c ds

def sortedSet (cs : List Char) : List Char := cs.foldr insertChar []

/-- construction of a `TextContent` (pydantic validation) followed by what `_get_paragraph_formatting` and
`_get_text_formatting` need; returns the emitter's format and the `convert` flag -/
def resolveText (k : ColorCtx) (v : TextVals) : Except String (TextFmt × Bool) := do
  let font ← v.font.toInt
  let size ← v.size.toRat
  let format ← v.format.toOptStr
  let color ← v.color.toOptStr
  let bg ← v.bg.toOptStr
  let just ← v.just.toStr
  let fi ← v.indFirst.toInt
  let li ← v.indLeft.toInt
  let ri ← v.indRight.toInt
  let space ← v.space.toInt
  let sb ← v.spBefore.toInt
  let sa ← v.spAfter.toInt
  let conv ← v.convert.toBool
  let hyph ← v.hyph.toBool
  let justCode ← match textJustCodes.lookup just with
    | some c => pure c
    | none => throw "ValueError"
  let fmts ← match format with
    | none => pure []
    | some f => (sortedSet f.toList).mapM fun ch =>
        match formatCodes.lookup (String.ofList [ch]) with
        | some c => pure (codeWord c)
        | none => throw "ValueError"
  let colorIdx (o : Option String) : Option Int := match o with
    | some c => if c != "" then some (k.index c) else none
    | none => none
  return ({ hyph := hyph, sb := sb, sa := sa, sl := if space != 1 then some (space * 240) else none,
            fi := fi, li := li, ri := ri, just := codeWord justCode, halfPts := pyInt (size * 2),
            fontIdx := font - 1, color := colorIdx color, bg := colorIdx bg, formats := fmts }, conv)

/-- the attribute values of text position `(r, c)` -/
def textValsAt (a : TextAttrsOf MatV) (r c : Nat) : Except String TextVals := do
  return { font := ← ilocV a.font r c, size := ← ilocV a.size r c, format := ← ilocV a.format r c,
           color := ← ilocV a.color r c, bg := ← ilocV a.bg r c, just := ← ilocV a.just r c,
           indFirst := ← ilocV a.indFirst r c, indLeft := ← ilocV a.indLeft r c, indRight := ← ilocV a.indRight r c,
           space := ← ilocV a.space r c, spBefore := ← ilocV a.spBefore r c, spAfter := ← ilocV a.spAfter r c,
           convert := ← ilocV a.convert r c, hyph := ← ilocV a.hyph r c }

/-- `TextAttributes._encode_text`: the resolved lines -/
def resolveLines (k : ColorCtx) (a : TextAttrsOf MatV) (text : List Str) :
    Except String (List (TextFmt × List Node)) :=
  text.zipIdx.mapM fun (t, i) => do
    let (f, conv) ← resolveText k (← textValsAt a i 0)
    return (f, textNodes (convText conv t))

/-- `_encode_text(text, method="line")` -/
def encodeTextLine (k : ColorCtx) (a : TextAttrsOf MatV) (text : List Str) : Except String Node := do
  let lines ← resolveLines k a text
  match lines.getLast? with
  | none => throw "UnboundLocalError"
  | some (last, _) => return linesParagraph last lines

/-- `_encode_text(text, method="paragraph")` -/
def encodeTextParas (k : ColorCtx) (a : TextAttrsOf MatV) (text : List Str) : Except String (List Node) := do
  return (← resolveLines k a text).map fun (f, t) => paragraph f t

/-! ## rows: `TableAttributes._encode` -/

/-- an element of the list the renderer joins with newlines (a row is several strings, already joined) -/
abbrev Elem := List BlockG

def rowElem (r : RowFmt) : Elem := [rowBlock r, BlockG.plain [cw0 "pard"]]

def resolveBorder (k : ColorCtx) (style width color : Val) : Except String BorderFmt := do
  let st ← style.toStr
  let w ← match width with
    | .null => pure (defaultBorderWidth : Int)
    | w => w.toInt
  let col ← match color with
    | .str c => pure (if c != "" then some (k.index c) else none)
    | .null => pure none
    | c => if c.truthy then throw "ValidationError" else pure none
  match borderCodes.lookup st with
  | some code => return { style := codeWord code, width := w, color := col }
  | none => throw "ValueError"

def resolveVJust (v : Val) : Except String (List (List Char)) :=
  match v with
  | .null => .ok []
  | .str s => match vertAlignCodes.lookup s with
    | some code => .ok (codeWords code)
    | none => .error "KeyError"
  | _ => .error "ValidationError"

def resolveRowJust (v : Val) : Except String (List Char) := do
  let s ← v.toStr
  match rowJustCodes.lookup s with
  | some code => return codeWord code
  | none => throw "ValueError"

/-- `int(inch_to_twip(height) / 2)` -/
def gaphOf (h : Rat) : Int := pyInt ((twip h : Rat) / 2)

/-- one cell of `_encode` at attribute position `(r, j)` -/
def encodeCell (k : ColorCtx) (A : TblAttrsOf MatV) (r j : Nat) (isLast : Bool) (text : Str) (width : Option Rat) :
    Except String CellFmt := do
  let bw ← ilocV A.bWidth r j
  let mk (st col : MatV) : Except String BorderFmt := do
    resolveBorder k (← ilocV st r j) bw (← ilocV col r j)
  let right ← if isLast then some <$> mk A.bRight A.bcRight else pure none
  let (tf, conv) ← resolveText k (← textValsAt A.toTextAttrsOf r j)
  let w ← match width with
    | some w => pure w
    | none => throw "IndexError"
  let left ← mk A.bLeft A.bcLeft
  let top ← mk A.bTop A.bcTop
  let bottom ← mk A.bBottom A.bcBottom
  let vj ← resolveVJust (← ilocV A.cellVJust r j)
  return { left := some left, top := some top, right := right, bottom := some bottom, valign := vj,
           cellx := twip w, text := tf, body := textNodes (convText conv text) }

/-- one row of `_encode`: `r` = row index + `row_offset` -/
def encodeRow (k : ColorCtx) (A : TblAttrsOf MatV) (colWidths : List Rat) (r : Nat) (cells : List (Option Str)) :
    Except String Elem := do
  let n := cells.length
  if n = 0 then throw "ValidationError"      -- `BroadcastValue(dimension=(rows, 0))`
  let cs ← cells.zipIdx.mapM fun (c, j) =>
    encodeCell k A r j (j + 1 == n) (c.getD []) colWidths[j]?
  let just ← resolveRowJust (← ilocV A.cellJust r 0)
  let h ← (← ilocV A.cellHeight r 0).toRat
  return rowElem { gaph := gaphOf h, just := just, cells := cs }

/-- `attrs._encode(df, col_widths, row_offset)` -/
def encodeRows (k : ColorCtx) (A : TblAttrsOf MatV) (colWidths : List Rat) (off : Nat)
    (rows : List (List (Option Str))) : Except String (List Elem) :=
  rows.zipIdx.mapM fun (cells, i) => encodeRow k A colWidths (i + off) cells

/-! ## column removal: `prepare_dataframe_for_body_encoding` -/

def Body.pageByL (b : Body) : List Str := b.pageBy.getD []
def Body.sublineByL (b : Body) : List Str := b.sublineBy.getD []
def Body.groupByL (b : Body) : List Str := b.groupBy.getD []

/-- spanning rows replace the page_by columns -/
def Body.pageByRemoved (b : Body) : Bool := !b.newPage || !b.pagebyColumn

/-- `columns_to_remove` -/
def removedNames (b : Body) : List Str :=
  b.sublineByL ++ (if b.pageBy.isSome && b.pageByRemoved then b.pageByL else [])

/-- indices of the removed columns; a name that is no column raises `ValueError` (`list.index`) -/
def removedIdx (d : Doc) : Except String (List Nat) :=
  (removedNames d.body).mapM fun n =>
    let i := d.cols.idxOf n
    if i < d.cols.length then .ok i else .error "ValueError"

def keepMask (ncols : Nat) (removed : List Nat) : List Bool :=
  (List.range ncols).map fun c => !removed.contains c

/-- the processed attributes: every list attribute expanded to the frame's grid and column-sliced -/
def processedAttrs (A : TblAttrsOf MatV) (nrows ncols : Nat) (removed : List Nat) : TblAttrsOf MatV :=
  if removed.isEmpty then A else A.map fun a => a.map fun m => m.expandSlice nrows ncols removed

/-! ## pagination input: `calculate_row_metadata` -/

/-- `str(value)` -/
def strOfCell : Option Str → Str
  | none => "None".toList
  | some s => s

def optString : Option Str → Option String
  | none => none
  | some s => some (String.ofList s)

/-- `max(1, int(w / cw) + 1)` and whether `w / cw` is near a truncation boundary -/
def linesOf (w cw : Rat) : Nat × Bool :=
  (max 1 ((pyInt (w / cw) + 1).toNat), nearInt (w / cw))

/-- data rows of one table row: the displayed cells against the cumulative widths -/
def dataLines (measure : Measure) (A : TblAttrsOf MatV) (r : Nat) :
    (cells : List (Option Str)) → (cum : List Rat) → (k : Nat) → (prev : Rat) → (acc : Nat × Bool) →
    Except String (Nat × Bool)
  | [], _, _, _, acc => .ok acc
  | _, [], _, _, acc => .ok acc                       -- `if width_idx >= len(col_widths): break`
  | cell :: cells, c :: cum, k, prev, acc => do
    let size ← match ← ilocV A.size r k with
      | .null => pure (9 : Rat)
      | v => match v.toRat with
        | .ok q => pure q
        | .error _ => throw "TypeError"
    let font ← match ← ilocV A.font r k with
      | .null => pure (1 : Int)
      | .int i => pure i
      | _ => throw "ValueError"
    let w ← match measure (strOfCell cell) font size with
      | some w => pure w
      | none => throw "model:width-missing"
    let cw := c - prev
    if cw = 0 then throw "ZeroDivisionError"
    let (l, near) := linesOf w cw
    dataLines measure A r cells cum (k + 1) c (max acc.1 l, acc.2 || near)

/-- `" | ".join(f"{col}: {val}" …)` over the non-divider values -/
def headingText (names : List Str) (vals : List (Option Str)) : Str :=
  let parts := (names.zip vals).filterMap fun (n, v) =>
    if strOfCell v == "-----".toList then none else some (n ++ ": ".toList ++ strOfCell v)
  (parts.intersperse " | ".toList).flatten

/-- `_calculate_header_rows(text, total_width, font_size=int(font_size))` for a group-start row -/
def headingRows (measure : Measure) (total : Rat) (names : List Str) (vals : List (Option Str)) :
    Except String (Nat × Bool) := do
  let t := headingText names vals
  if t.isEmpty then return (0, false)
  let w ← match measure t 1 9 with
    | some w => pure w
    | none => throw "model:width-missing"
  if total = 0 then throw "ZeroDivisionError"
  return linesOf w total

/-- values of the named columns in one row -/
def pick (cols : List Str) (row : List (Option Str)) (names : List Str) : List (Option Str) :=
  names.map fun n => (row[cols.idxOf n]?).join

structure Prep where
  removed : List Nat
  keep : List Bool
  ncolsDisp : Nat
  dispCols : List Str
  dispRows : List (List (Option Str))      -- the processed frame
  attrs : TblAttrsOf MatV                  -- processed attributes
  cum : List Rat                           -- `col_widths`
  deriving Inhabited

def prepare (d : Doc) : Except String Prep := do
  let A ← d.body.attrs.mapM Attr.toNested
  let removed ← removedIdx d
  let ncols := d.cols.length
  let keep := keepMask ncols removed
  let bw := d.body.colRelWidth.getD []
  let pw := Widths.bodyProcessed bw keep
  let nd := Widths.nDisplayed keep
  let v := if pw.isEmpty then List.replicate nd 1 else pw
  if Widths.sumQ v = 0 && !v.isEmpty then throw "ZeroDivisionError"
  return { removed := removed, keep := keep, ncolsDisp := nd, dispCols := dropCols d.cols removed,
           dispRows := d.rows.map fun r => dropCols r removed,
           attrs := processedAttrs A d.rows.length ncols removed,
           cum := Widths.bodyCum bw keep d.page.colWidth }

def placementOf (t : Option Str) : Bool := match t with
  | some s => !s.isEmpty
  | none => false

def footComp (f : Option Foot) : Layout.Comp :=
  match f with
  | none => .absent
  | some f => if placementOf f.text then (if f.asTable then .table else .para) else .absent

def hasText (t : Option TextComp) : Bool :=
  match t with
  | some c => match c.text with
    | some l => !l.isEmpty
    | none => false
  | none => false

/-- the role-level document of `Model.Layout` (+ the number of near-boundary line estimates) -/
def mkLDoc (measure : Measure) (d : Doc) (p : Prep) : Except String (Layout.LDoc × Nat) := do
  let pb := d.body.pageByL
  let sb := d.body.sublineByL
  let hasPB := !pb.isEmpty
  let hasSB := !sb.isEmpty
  -- the table width: the last cumulative width (repo fix: formerly the sum of the cumulative widths)
  let total := p.cum.getLast?.getD 0
  let pkeys := d.rows.map fun r => pick d.cols r pb
  let skeys := d.rows.map fun r => pick d.cols r sb
  let pch := Paginate.changes (pkeys.map fun k => k.map strOfCell)
  let sch := Paginate.changes (skeys.map fun k => k.map strOfCell)
  let rows ← ((p.dispRows.zip (pkeys.zip skeys)).zip (pch.zip sch)).zipIdx.mapM
    fun (((cells, pk, sk), pc, sc), r) => do
      let (ln, n1) ← dataLines measure p.attrs r cells p.cum 0 0 (1, false)
      let (pr, n2) ← if hasPB && pc then headingRows measure total pb pk else pure (1, false)
      let (sr, n3) ← if hasSB && sc then headingRows measure total sb sk else pure (1, false)
      let row : Layout.LRow := { lines := ln, pkey := pk.map optString, skey := sk.map optString,
                                 pbRows := pr, sbRows := sr }
      return (row, (if n1 then 1 else 0) + (if n2 then 1 else 0) + (if n3 then 1 else 0))
  let ld : Layout.LDoc := {
    nrow := d.page.nrow, rows := rows.map (·.1), hasPageBy := hasPB, hasSubline := hasSB,
    newPage := d.body.newPage, pagebyColumn := d.body.pagebyColumn, pagebyHeader := d.body.pagebyHeader,
    headers := d.headers.map (fun h => match h with
      | some h => h.text.isSome
      | none => false),
    asColheader := d.body.asColheader, hasTitle := hasText d.title, hasSublineTxt := hasText d.subline,
    footnote := footComp d.footnote, source := footComp d.source,
    pageTitle := d.page.pageTitle, pageFootnote := d.page.pageFootnote, pageSource := d.page.pageSource }
  return (ld, (rows.map (·.2)).foldl (· + ·) 0)

/-! ## group_by: `_apply_data_post_processing` -/

def toFrame (cols : List Str) (rows : List (List (Option Str))) : GroupBy.Frame :=
  cols.zipIdx.map fun (n, j) => (n, rows.map fun r => (r[j]?).join)

def ofFrame (f : GroupBy.Frame) (nrows : Nat) : List (List (Option Str)) :=
  (List.range nrows).map fun i => f.map fun (_, col) => (col[i]?).join

/-- the processed frame after suppression and page-start restoration -/
def finalRows (d : Doc) (p : Prep) (heights : List Nat) : Except String (List (List (Option Str))) :=
  let gb := d.body.groupByL
  if gb.isEmpty then .ok p.dispRows else
  match GroupBy.restored (toFrame p.dispCols p.dispRows) gb heights with
  | .ok f => .ok (ofFrame f p.dispRows.length)
  | .error _ => .error "ValueError"

/-! ## page attributes: `PageFeatureProcessor._apply_pagination_borders` -/

def matStr (m : MatV) : Mat String :=
  match m with
  | none => []
  | some m => m.map fun row => row.map fun v => match v with
    | .str s => s
    | _ => ""

def strMat (m : Mat String) : MatV := some (m.map fun row => row.map Val.str)

/-- a header object that will be rendered -/
def hasHeaderRow (d : Doc) : Bool :=
  d.headers.any fun h => match h with
    | some h => h.text.isSome || d.body.asColheader
    | none => false

def footTableHere (f : Option Foot) (pl : Layout.Placement) (isFirst isLast : Bool) : Bool :=
  match f with
  | some f => placementOf f.text && pl.shows isFirst isLast && f.asTable
  | none => false

structure PageAttrs where
  attrs : TblAttrsOf MatV
  fnOverride : Option String
  srcOverride : Option String
  deriving Inhabited

def pageAttrs (d : Doc) (bodyA : TblAttrsOf MatV) (p : Prep) (pg : Layout.PageCtx) : PageAttrs :=
  if pg.height = 0 then { attrs := p.attrs, fnOverride := none, srcOverride := none } else
  let isFirst := pg.number == 1
  let isLast := pg.number == pg.total
  let sliced := p.attrs.map fun a => a.map fun m => m.pageRows pg.start pg.height
  let fill (m : MatV) : Mat String :=          -- `if not page_attrs.border_top:` → a grid of ""
    match m with
    | some (r :: rs) => matStr (some (r :: rs))
    | _ => List.replicate pg.height (List.replicate p.ncolsDisp "")
  let o := Borders.applyBorders {
    isFirst := isFirst, isLast := isLast, start := pg.start, height := pg.height, width := p.ncolsDisp,
    top := fill p.attrs.bTop, bottom := fill p.attrs.bBottom,
    bodyFirst := matStr bodyA.bFirst, bodyTopOrig := matStr bodyA.bTop, bodyLast := matStr bodyA.bLast,
    pageFirst := d.page.borderFirst, pageLast := d.page.borderLast, hasHeaders := hasHeaderRow d,
    fnTableHere := footTableHere d.footnote d.page.pageFootnote isFirst isLast,
    srcTableHere := footTableHere d.source d.page.pageSource isFirst isLast }
  { attrs := { sliced with bTop := strMat o.top, bBottom := strMat o.bottom },
    fnOverride := o.fnOverride, srcOverride := o.srcOverride }

/-! ## fixed material -/

def cwSp (s : String) : Node := Node.cw s.toList none true

def marginNodes (pg : Page) : Except String (List Node) := do
  if pg.margin.length != 6 then throw "ValueError"
  return (["margl", "margr", "margt", "margb", "headery", "footery"].zip pg.margin).map fun (n, m) => cwi n (twip m)

/-- `generate_page_settings` -/
def pageSettings (pg : Page) : Except String (List Node) := do
  return [cwi "paperw" (twip pg.width), cwi "paperh" (twip pg.height)] ++
    (if pg.landscape then [cwSp "landscape"] else []) ++ [Node.nl] ++ (← marginNodes pg)

/-- `encode_page_break` -/
def pageBreak (pg : Page) : Except String (List Node) := do
  let tiny := Node.grp [cw0 "pard", cwi "fs" 2, cw0 "par"]
  return [tiny, cw0 "page", tiny, Node.nl, cwi "paperw" (twip pg.width), cwi "paperh" (twip pg.height),
          Node.nl, Node.nl] ++ (← marginNodes pg) ++ [Node.nl, Node.nl]

/-- `_generate_subline_header` -/
def sublineHeading (text : String) : Node :=
  let t := (Escape.escape (text.toList.map Char.toNat)).map Char.ofNat
  Node.grp [cw0 "pard", cw0 "hyphpar", cwi "fi" 0, cwi "li" 0, cwi "ri" 0, cw0 "ql", cwi "fs" 18,
            Node.grp (Node.cw "f".toList (some 0) true :: textNodes t), cw0 "par"]

/-- `{\header …}` / `{\footer …}` -/
def pageHF (k : ColorCtx) (word : String) (c : Option TextComp) : Except String (List Node) :=
  match c with
  | none => .ok []
  | some c => match c.text with
    | none => .ok []
    | some [] => .ok []
    | some text => do
      let a ← c.attrs.mapM Attr.toNested
      return [Node.grp [cw0 word, ← encodeTextLine k a text]]

/-- title / subline as one element -/
def textElem (k : ColorCtx) (c : Option TextComp) : Except String (List Elem) :=
  match c with
  | none => .ok []
  | some c => match c.text with
    | none => .ok []
    | some [] => .ok []
    | some text => do
      let a ← c.attrs.mapM Attr.toNested
      return [[BlockG.plain [← encodeTextLine k a text]]]

/-! ## column headers: `_render_column_headers` + `encode_column_header` -/

def renderHeader (k : ColorCtx) (d : Doc) (p : Prep) (isFirst : Bool) (idx : Nat) (h : Header) :
    Except String (List Elem) := do
  let text := match h.text with
    | some t => some t
    | none => if d.body.asColheader then some p.dispCols else none
  match text with
  | none => return []
  | some text =>
    let n := text.length
    if n = 0 then throw "model:header without cells"
    let A ← h.attrs.mapM Attr.toNested
    let hw := h.colRelWidth.map fun w => Widths.headerDisplayed w p.keep n
    -- `not header_elements`: this is the first header object that renders anything on the page
    let firstRendered := (d.headers.take idx).all fun h' => match h' with
      | some h' => !(h'.text.isSome || d.body.asColheader)
      | none => true
    let A := if isFirst && firstRendered && d.page.borderFirst != "" then
        { A with bTop := A.bTop.map fun _ => [List.replicate n (Val.str d.page.borderFirst)] }
      else A
    let v := match hw with
      | some (w :: ws) => w :: ws
      | _ => List.replicate n 1
    if Widths.sumQ v = 0 then throw "ZeroDivisionError"
    encodeRows k A (Widths.colWidths v d.page.colWidth) 0 [text.map some]

/-! ## spanning rows: `encode_spanning_row` -/

def spanningRow (k : ColorCtx) (d : Doc) (bodyA : TblAttrsOf MatV) (level : Nat) (text : String) :
    Except String Elem := do
  let name := (d.body.pageByL)[level]?.getD []
  let ci := d.cols.idxOf name
  let ci := if ci < d.cols.length then ci else 0
  let get (a : MatV) (dflt : Val) : Except String Val :=
    match a with
    | none => .ok dflt
    | some _ => ilocV a 0 ci
  let tv : TextVals := {
    font := ← get bodyA.font (.int 0), size := ← get bodyA.size (.int 18), format := ← get bodyA.format (.str ""),
    color := ← get bodyA.color (.str ""), bg := ← get bodyA.bg (.str ""), just := ← get bodyA.just (.str "c"),
    indFirst := ← get bodyA.indFirst (.int 0), indLeft := ← get bodyA.indLeft (.int 0),
    indRight := ← get bodyA.indRight (.int 0), space := ← get bodyA.space (.int 1),
    spBefore := ← get bodyA.spBefore (.int 15), spAfter := ← get bodyA.spAfter (.int 15),
    convert := ← get bodyA.convert (.bool false), hyph := ← get bodyA.hyph (.bool true) }
  let (tf, conv) ← resolveText k tv
  let side (a : MatV) : Except String (Option BorderFmt) := do
    some <$> resolveBorder k (← get a (.str "single")) .null .null
  let vj ← resolveVJust (← get bodyA.cellVJust (.str "bottom"))
  let just ← resolveRowJust (← get bodyA.cellJust (.str "c"))
  let h ← (← get bodyA.cellHeight (.float (3 / 20))).toRat
  let w := if d.page.colWidth = 0 then (17 / 2 : Rat) else d.page.colWidth
  let cell : CellFmt := {
    left := ← side bodyA.bLeft, top := ← side bodyA.bTop, right := ← side bodyA.bRight, bottom := ← side bodyA.bBottom,
    valign := vj, cellx := twip w, text := tf, body := textNodes (convText conv text.toList) }
  return rowElem { gaph := gaphOf h, just := just, cells := [cell] }

/-! ## footnote / source: `encode_footnote`, `encode_source` -/

def renderFoot (k : ColorCtx) (d : Doc) (f : Foot) (override : Option String) : Except String (List Elem) := do
  let A ← f.attrs.mapM Attr.toNested
  let A := match override with
    | some s => if s != "" then { A with bBottom := some [[Val.str s]] } else A
    | none => A
  let text := f.text.getD []
  if !f.asTable then
    let ps ← encodeTextParas k A.toTextAttrsOf (if text.isEmpty then [] else [text])
    return ps.map fun n => [BlockG.plain [n]]
  else
    match f.colRelWidth with
    | none => throw "TypeError"
    | some w =>
      if Widths.sumQ w = 0 && !w.isEmpty then throw "ZeroDivisionError"
      -- one cell spanning the table: it ends at the last boundary (repo fix; formerly at the first)
      encodeRows k A ((Widths.colWidths w d.page.colWidth).getLast?.toList) 0 [[some text]]

/-! ## one page: `PageRenderer.render` driven by the role-level layout -/

def renderBlock (k : ColorCtx) (d : Doc) (bodyA : TblAttrsOf MatV) (p : Prep) (rows : List (List (Option Str)))
    (pg : Layout.PageCtx) (pa : PageAttrs) : Layout.Block → Except String (List Elem)
  | .brk => do return [[BlockG.plain (← pageBreak d.page)]]
  | .title => do return (← textElem k d.title) ++ [[BlockG.plain [Node.nl]]]
  | .subline => textElem k d.subline
  | .sublineHeading t =>
    -- `if not text: return ""` is a test of the JOINED text (Layout tests the list of parts)
    if t.isEmpty then .ok [] else .ok [[BlockG.plain [sublineHeading t]]]
  | .colHeader i =>
    match (d.headers[i]?).join with
    | some h => renderHeader k d p (pg.number == 1) i h
    | none => .ok []
  | .heading lvl t => do return [← spanningRow k d bodyA lvl t]
  | .data i =>
    match rows[i]? with
    | some cells => do return [← encodeRow k pa.attrs p.cum (i - pg.dataStart) cells]
    | none => .error "model:row out of range"
  | .footnote _ =>
    match d.footnote with
    | some f => renderFoot k d f pa.fnOverride
    | none => .ok []
  | .source _ =>
    match d.source with
    | some f => renderFoot k d f pa.srcOverride
    | none => .ok []

def renderPage (k : ColorCtx) (d : Doc) (bodyA : TblAttrsOf MatV) (p : Prep) (rows : List (List (Option Str)))
    (pg : Layout.PageCtx) (blocks : List Layout.Block) : Except String (List Elem) := do
  let pa := pageAttrs d bodyA p pg
  return (← blocks.mapM (renderBlock k d bodyA p rows pg pa)).flatten

/-- `"\n".join(chunks)` -/
def joinElems : List Elem → List BlockG
  | [] => []
  | [e] => e
  | e :: es => e ++ BlockG.plain [Node.nl] :: joinElems es

/-! ## the document: `UnifiedRTFEncoder.encode` -/

def encodePages (measure : Measure) (k : ColorCtx) (d : Doc) : Except String (List Elem × Nat) := do
  let p ← prepare d
  let bodyA ← d.body.attrs.mapM Attr.toNested
  let (ld, near) ← mkLDoc measure d p
  let pages := ld.pages
  let rows ← finalRows d p (pages.map (·.height))
  let elems ← (pages.zip (Layout.layout ld)).mapM fun (pg, blocks) => renderPage k d bodyA p rows pg blocks
  return (elems.flatten, near)

def encodeWith (measure : Measure) (d : Doc) : Except String (DocG × Nat) := do
  let k := mkColorCtx d
  let (elems, near) ← encodePages measure k d
  let fontTbl ← match Color.fontTableText fontTable with
    | .ok s => pure s
    | .error _ => throw "ValueError"
  let colorTbl ← match Color.generateColorTable colorTable (some k.used) with
    | .ok s => pure s
    | .error _ => throw "ValueError"
  let head : List Node :=
    [cw0 "ansi", Node.nl, cwi "deff" 0, cwi "deflang" 1033, Node.nl] ++ textNodes fontTbl.toList ++ [Node.nl] ++
    textNodes colorTbl.toList ++ [Node.nl, Node.nl, Node.nl] ++ (← pageHF k "header" d.pageHeader) ++ [Node.nl] ++
    (← pageHF k "footer" d.pageFooter) ++ [Node.nl] ++ (← pageSettings d.page) ++ [Node.nl]
  return ({ head := head, blocks := joinElems elems ++ [BlockG.plain [Node.nl, Node.nl, Node.nl, Node.nl]] }, near)

/-- the encoded document as an instance of the output grammar -/
def encode (measure : Measure) (d : Doc) : Except String DocG := (·.1) <$> encodeWith measure d

/-- the string `rtf_encode()` returns -/
def encodeText (measure : Measure) (d : Doc) : Except String (List Char) := printDoc <$> encode measure d

/-! ## near-boundary census (a superset of the values the encoder rounds) -/

def attrRats (a : Attr) : List Rat :=
  let vs := match a with
    | .null => []
    | .scalar v => [v]
    | .list xs => xs
    | .tuple xs => xs
    | .nested m => m.flatten
  vs.filterMap fun v => match v with
    | .int i => some (i : Rat)
    | .float q => some q
    | _ => none

def cumOf (w : Option (List Rat)) (n : Nat) (W : Rat) : List Rat :=
  match w with
  | some (x :: xs) => Widths.colWidths (x :: xs) W
  | _ => Widths.colWidths (List.replicate n 1) W

/-- number of twip conversions whose exact value is within 2^-30 of a rounding boundary -/
def nearTwips (d : Doc) : Nat :=
  let W := d.page.colWidth
  let keep := match removedIdx d with
    | .ok r => keepMask d.cols.length r
    | .error _ => []
  let nd := Widths.nDisplayed keep
  let hdr := (d.headers.filterMap id).flatMap fun h =>
    let n := match h.text with
      | some t => t.length
      | none => nd
    cumOf h.colRelWidth n W ++ cumOf (h.colRelWidth.map fun w => Widths.headerDisplayed w keep n) n W ++
    attrRats h.attrs.cellHeight
  let foot := ([d.footnote, d.source].filterMap id).flatMap fun f =>
    cumOf f.colRelWidth 1 W ++ attrRats f.attrs.cellHeight
  let all := [d.page.width, d.page.height, W] ++ d.page.margin ++
    Widths.bodyCum (d.body.colRelWidth.getD []) keep W ++ attrRats d.body.attrs.cellHeight ++ hdr ++ foot
  (all.filter nearTwip).length

def nearCount (measure : Measure) (d : Doc) : Nat :=
  nearTwips d + (match encodeWith measure d with
    | .ok (_, n) => n
    | .error _ => 0)

end Model.Encode
