/-
Model of the process state that concurrent `RTFDocument.rtf_encode()` calls share, and of
their interleavings (property C15).  Import-free, executable.

What is modelled (read from /repo/src/rtflite at the time of writing):

* `services/color_service.py`
    - the *colour context* "palette of the document being encoded":
        `set_document_context(document)`   → `Ev.setCtx palette`
        `get_rtf_color_index(colour)`      → `Ev.lookup colour`   (result recorded by the thread)
        `clear_document_context()`         → `Ev.clearCtx`
      `UnifiedRTFEncoder.encode` brackets every encode (all three paths) with set … finally clear.
      CURRENT code keeps the context in a `contextvars.ContextVar` (default `None`): every thread
      has its own cell and a new thread starts with `None`            → `CtxMode.Local`.
      OLD code (before commit 981b773) kept it in an attribute of the module-level singleton
      `color_service`: one cell for the whole process                  → `CtxMode.Global`.
* `pagination/strategies/registry.py` — `StrategyRegistry._strategies`, a class-level dict, i.e.
  one dict per process.  `UnifiedRTFEncoder.__init__` (run by *every* `rtf_encode()`, because a new
  `RTFEncodingEngine` is built per call) executes `register("default", …)`, `register("page_by", …)`,
  `register("subline", …)`                                           → `Ev.register name cls`
  and `_encode_body_section` reads it once per section: `StrategyRegistry.get(name)`
                                                                     → `Ev.getStrategy name`.
  The dict is shared in both modes; what makes it harmless is that all writers write the same
  value under the same key (`Canonical`) and every reader has written the key itself before it
  reads (`freeGets p = []`).
* Everything else an encode touches is either immutable after import (colour tables, font tables,
  `_FONT_PATHS`, `RTF_FONT_NAMES`, the stateless singletons `color_service` tables /
  `grouping_service`), created per call (`TextConversionService`, Pillow font objects, the encoder
  and its services) or owned by the caller's document.  Such work is `Ev.emit v`: it appends a
  value to the thread's own output and touches nothing shared.

Colours are identified by their master index in `color_table` (1..657); `0` stands for `""` and
`"black"`, which the code short-cuts to index 0 before looking at any context.

Which cell is a `ContextVar`?  What makes the colour context `Local` is not the class of the
variable but the discipline of its use: every encode *binds* the variable (`.set(value)`), so the
binding lives in the calling thread's context, and the default (`None`) is immutable.  A
`ContextVar("…", default={})` that is never `.set()` and whose default object is *mutated in
place* (`var.get().clear()`, `var.get()[k] = v`) is the opposite case: `.get()` hands every thread
the one default object, so the container is one cell per process — an instance of `Shared.cell` /
`CtxMode.Global`, with `clear()` ↦ `Ev.clearCtx`, the first fill ↦ `Ev.setCtx`, a read ↦
`Ev.lookup` (`memoProg` below).  Such a memo that is reset at the start of each use rather than
cleared at the end is exact under sequential use (`Props.C15.C15_global_sequential_reset`) and
breaks under a single preemption (`Props.C15.C15_shared_default_memo_interferes`).  The check
classifies every `ContextVar` of the package on every run (harness/props/c15.py, cell classes).

Which cell is an attribute of an INPUT object?  `RTFDocument` keeps the component objects it is
given by reference (`RTFPage`, `RTFTitle`, `RTFFootnote`, `RTFSource`, `RTFPageHeader`,
`RTFPageFooter`; an `RTFBody` / `RTFColumnHeader` whose `col_rel_width` is explicit and of full
length — only otherwise does the constructor make a copy of its own), and callers hand one such
object to several documents.  Anything an encode *stores on* such an object (a pydantic
`PrivateAttr`, an instance attribute, an entry of a container the object holds — e.g. "the RTF
rows of this column header as they repeat on pages 2…n") is therefore reachable from every thread
that encodes a document holding the object: one cell per process, `Shared.cell` /
`CtxMode.Global`, exactly like the singleton attribute of the old colour service.  It is the
per-thread cell (`CtxMode.Local`, `Thread.ctx`) only for documents that share no object, which is
why a check whose concurrent documents are all built from fresh objects cannot see it.  The shape
"reset on the first page, filled by the first later page that finds it empty, reused by every
later page" is `objMemoProg` below (`Ev.fetch` = get-or-compute on the cell): exact under
sequential use (`Props.C15.C15_object_memo_sequential`, an instance of
`C15_global_sequential_reset`), and one preemption of a document anywhere between its reset and
one of its later pages lets it replay what the *other* document stored
(`Props.C15.C15_shared_object_memo_interferes`); documents with objects of their own are the
`Local` instance and are never affected (`C15_local_complete`).  The check puts documents that
share component objects by identity in flight together and classifies every shared object on
every run (harness/props/c15.py: sets `shared-*`, cell classes of kind `input-object`).
-/
namespace Model.Interleave

abbrev Color := Nat
abbrev Palette := List Color
abbrev Name := Nat
abbrev Cls := Nat

/-! ## `get_rtf_color_index` -/

/-- insertion into a sorted list (`sorted(..., key=master index)`; keys are the values) -/
def insertSorted (x : Nat) : List Nat → List Nat
  | [] => [x]
  | y :: ys => if x ≤ y then x :: y :: ys else y :: insertSorted x ys

def sortNat : List Nat → List Nat
  | [] => []
  | x :: xs => insertSorted x (sortNat xs)

/-- `list.index(c)`; `none` is the `ValueError` branch -/
def indexOf? (c : Nat) : List Nat → Option Nat
  | [] => none
  | y :: ys => if y = c then some 0 else (indexOf? c ys).map (· + 1)

/-- `ColorService.get_rtf_color_index(color)` (no explicit `used_colors`) as a function of the
context cell it reads: no context → master index; context → 1-based position in the context's
colours sorted by master index after dropping `""`/`"black"`, 0 when absent or nothing is left. -/
def colorIndex (ctx : Option Palette) (c : Color) : Nat :=
  if c = 0 then 0 else
  match ctx with
  | none => c
  | some p =>
    let f := p.filter (· ≠ 0)
    if f.isEmpty then 0 else
    match indexOf? c (sortNat f) with
    | some k => k + 1
    | none => 0

/-! ## events, outputs, threads -/

inductive Ev where
  | register (n : Name) (c : Cls)   -- `StrategyRegistry.register(n, c)`
  | getStrategy (n : Name)          -- `StrategyRegistry.get(n)`; result recorded
  | setCtx (p : Palette)            -- `color_service.set_document_context(doc)`, p = collected colours
  | lookup (c : Color)              -- `color_service.get_rtf_color_index(c)`; result recorded
  | clearCtx                        -- `color_service.clear_document_context()`
  | emit (v : Nat)                  -- local computation; contributes `v` to the thread's output
  | fetch (p : Palette) (c : Color) -- get-or-compute on the colour cell: an empty cell is filled with
                                    -- `p` (what this thread resolves), then read like `lookup c`
  deriving Repr, DecidableEq, Inhabited

inductive Out where
  | idx (n : Nat)                   -- a colour index that went into the RTF (`\cfN`, `\cbN`, `\brdrcfN`)
  | strat (c : Option Cls)          -- the strategy class obtained (`none` = `ValueError: not found`)
  | val (v : Nat)                   -- locally computed piece of output
  deriving Repr, DecidableEq, Inhabited

/-- `StrategyRegistry._strategies`; the newest binding of a key shadows older ones (dict assignment) -/
abbrev Registry := List (Name × Cls)

def regGet : Registry → Name → Option Cls
  | [], _ => none
  | (k, c) :: r, n => if k = n then some c else regGet r n

def regSet (r : Registry) (n : Name) (c : Cls) : Registry := (n, c) :: r

/-- what a thread owns: the rest of its program, its *own* colour cell (used in `Local` mode —
the ContextVar value of this thread) and the outputs recorded so far -/
structure Thread where
  prog : List Ev
  ctx : Option Palette
  out : List Out
  deriving Repr, DecidableEq, Inhabited

/-- what all threads share: the strategy registry and the process-wide colour cell (used in
`Global` mode — the attribute of the `color_service` singleton in the old code) -/
structure Shared where
  reg : Registry
  cell : Option Palette
  deriving Repr, DecidableEq, Inhabited

inductive CtxMode where
  | Global   -- OLD code: one colour cell per process
  | Local    -- CURRENT code: one colour cell per thread (ContextVar)
  deriving Repr, DecidableEq, Inhabited

/-- get-or-compute: a cell that holds something is left alone, an empty one receives `p` -/
def fillCell (cell : Option Palette) (p : Palette) : Option Palette :=
  match cell with
  | none => some p
  | some q => some q

/-- effect of one event of a thread (whose `prog` has already been advanced) -/
def exec (m : CtxMode) (e : Ev) (t : Thread) (s : Shared) : Thread × Shared :=
  match e with
  | .register n c => (t, { s with reg := regSet s.reg n c })
  | .getStrategy n => ({ t with out := t.out ++ [.strat (regGet s.reg n)] }, s)
  | .setCtx p =>
    match m with
    | .Global => (t, { s with cell := some p })
    | .Local => ({ t with ctx := some p }, s)
  | .lookup c =>
    match m with
    | .Global => ({ t with out := t.out ++ [.idx (colorIndex s.cell c)] }, s)
    | .Local => ({ t with out := t.out ++ [.idx (colorIndex t.ctx c)] }, s)
  | .clearCtx =>
    match m with
    | .Global => (t, { s with cell := none })
    | .Local => ({ t with ctx := none }, s)
  | .emit v => ({ t with out := t.out ++ [.val v] }, s)
  | .fetch p c =>
    match m with
    | .Global =>
      ({ t with out := t.out ++ [.idx (colorIndex (fillCell s.cell p) c)] },
       { s with cell := fillCell s.cell p })
    | .Local =>
      ({ t with ctx := fillCell t.ctx p, out := t.out ++ [.idx (colorIndex (fillCell t.ctx p) c)] }, s)

structure State where
  threads : List Thread
  sh : Shared
  deriving Repr, DecidableEq, Inhabited

/-- small step: the scheduler picks thread `i`; it executes its next event.  Picking a thread
that does not exist or has finished is a stutter step. -/
def step (m : CtxMode) (i : Nat) (σ : State) : State :=
  match σ.threads[i]? with
  | none => σ
  | some t =>
    match t.prog with
    | [] => σ
    | e :: rest =>
      let r := exec m e { t with prog := rest } σ.sh
      { threads := σ.threads.set i r.1, sh := r.2 }

/-- a schedule is a list of thread ids -/
def run (m : CtxMode) : List Nat → State → State
  | [], σ => σ
  | i :: is, σ => run m is (step m i σ)

/-- fresh threads (a new thread's ContextVar holds the default `None`), process cell empty -/
def init (r₀ : Registry) (progs : List (List Ev)) : State :=
  { threads := progs.map (fun p => { prog := p, ctx := none, out := [] }),
    sh := { reg := r₀, cell := none } }

/-- the thread alone in a process, after `k` of its steps -/
def soloState (m : CtxMode) (r₀ : Registry) (p : List Ev) (k : Nat) : State :=
  run m (List.replicate k 0) (init r₀ [p])

/-- outputs recorded by thread `i` -/
def outOf (σ : State) (i : Nat) : List Out :=
  match σ.threads[i]? with
  | some t => t.out
  | none => []

/-- the complete output of the program when run alone -/
def solo (m : CtxMode) (r₀ : Registry) (p : List Ev) : List Out :=
  outOf (soloState m r₀ p p.length) 0

/-! ## well-formedness of programs with respect to the registry -/

/-- every `register` writes the canonical class of its name -/
def canonicalB (canon : Name → Cls) (p : List Ev) : Bool :=
  p.all fun e => match e with
    | .register n c => c == canon n
    | _ => true

/-- names a program reads from the registry before having registered them itself -/
def freeGets : List Ev → List Name
  | [] => []
  | .register n _ :: es => (freeGets es).filter (· ≠ n)
  | .getStrategy n :: es => n :: freeGets es
  | _ :: es => freeGets es

/-- shape of the program of one `rtf_encode()`: canonical registrations, and they come first -/
def wfB (canon : Name → Cls) (p : List Ev) : Bool :=
  canonicalB canon p && (freeGets p).isEmpty

/-- a registry holding only canonical bindings (what any number of finished encodes leave behind) -/
def regOkB (canon : Name → Cls) (r : Registry) : Bool :=
  r.all fun kc => kc.2 == canon kc.1

/-! ## decidable specification predicates (used by the theorems and by the driver's oracle) -/

def isPrefixB : List Out → List Out → Bool
  | [], _ => true
  | _ :: _, [] => false
  | a :: as, b :: bs => a == b && isPrefixB as bs

/-- "thread `i` was not interfered with": what it has produced so far is an initial part of what
it produces alone, and all of it once it has finished -/
def notInterfered (soloOut : List Out) (finished : Bool) (observed : List Out) : Bool :=
  if finished then observed == soloOut else isPrefixB observed soloOut

/-- the colour cell a program leaves behind, given the cell it found -/
def cellAfter : Option Palette → List Ev → Option Palette
  | c, [] => c
  | _, .setCtx p :: es => cellAfter (some p) es
  | _, .clearCtx :: es => cellAfter none es
  | c, .register _ _ :: es => cellAfter c es
  | c, .getStrategy _ :: es => cellAfter c es
  | c, .lookup _ :: es => cellAfter c es
  | c, .emit _ :: es => cellAfter c es
  | c, .fetch p _ :: es => cellAfter (fillCell c p) es

/-- the program never reads the colour cell before it has written it itself (`set` or `clear`
first): its lookups do not depend on what earlier users left in a process-wide cell -/
def opensWithReset : List Ev → Bool
  | [] => true
  | .setCtx _ :: _ => true
  | .clearCtx :: _ => true
  | .lookup _ :: _ => false
  | .fetch _ _ :: _ => false
  | .register _ _ :: es => opensWithReset es
  | .getStrategy _ :: es => opensWithReset es
  | .emit _ :: es => opensWithReset es

/-- the schedule without any preemption: thread `k`, `k+1`, … each run to completion in turn -/
def seqScheduleFrom : Nat → List (List Ev) → List Nat
  | _, [] => []
  | k, p :: ps => List.replicate p.length k ++ seqScheduleFrom (k + 1) ps

def seqSchedule (progs : List (List Ev)) : List Nat := seqScheduleFrom 0 progs

/-- all events of a thread in one go (what a block `replicate n i` of a schedule does) -/
def runEvents (m : CtxMode) : List Ev → Thread → Shared → Thread × Shared
  | [], t, s => (t, s)
  | e :: es, t, s =>
    let r := exec m e { t with prog := es } s
    runEvents m es r.1 r.2

/-- the program of one encode as `UnifiedRTFEncoder` executes it: three registrations, set,
per section one registry read, the lookups, clear (used for non-vacuity and witnesses) -/
def encodeProg (palette : Palette) (strategies : List Name) (lookups : List Color) : List Ev :=
  [.register 0 0, .register 1 1, .register 2 2, .setCtx palette]
    ++ strategies.map .getStrategy ++ lookups.map .lookup ++ [.clearCtx]

/-- a memo of values resolved once per section, as events on one cell: forget what the previous
section left (`clear`), the first use resolves and stores the section's own values (`set`), every
use (`uses` of them) reads what the cell holds; nothing is cleared at the end.  `resolved` stands
for the stored values, the index of `key` in it for what a use obtains. -/
def memoProg (resolved : Palette) (key : Color) (uses : Nat) : List Ev :=
  [.clearCtx, .setCtx resolved] ++ List.replicate uses (.lookup key)

/-- a memo kept ON AN OBJECT (a private attribute of a component object, e.g. the rendered rows
of a column header that repeat on the pages after the first), as events on the cell that object
is: the first page forgets what the previous table left (`clear`), every later page (`pages - 1`
of them) takes what the cell holds and, finding it empty, first stores what it resolves itself
(`fetch`).  `resolved` stands for the rows this document would render (its `\cellx` positions,
its `\cf` indices), the index of `key` in it for what a page obtains.  For documents that hold
objects of their own the cell is `Thread.ctx` (`Local`); for documents that were given the same
object it is `Shared.cell` (`Global`). -/
def objMemoProg (resolved : Palette) (key : Color) (pages : Nat) : List Ev :=
  .clearCtx :: List.replicate (pages - 1) (.fetch resolved key)

end Model.Interleave
