import Model.Widths
/-!
# C08 — configuration objects over a history of uses and re-configurations (the page object)
-/
namespace Model.WidthsHist
open Model.Widths

/-! ## a page object over a history of uses and re-configurations

`RTFPage` is a caller-owned object: it is handed to one document after another, written between them
(`page.col_width = w`), copied (`page.model_copy(update={"col_width": w})`, `copy.deepcopy(page)`) — and whatever sits
in the object's `__dict__` travels with every such copy.  The encoder reads `col_width` whenever it needs the table
width and keeps nothing on the object. -/

/-- what a caller does with the page object at hand -/
inductive PageOp where
  /-- `page.col_width = w`, or `page = page.model_copy(update={"col_width": w})` -/
  | setWidth (w : Rat)
  /-- assignment / copy-update of another option (orientation, width, height, margin, nrow), `model_copy()`, `deepcopy`:
  once the object exists `col_width` is a field of its own -/
  | other
  /-- a document that holds the object is encoded -/
  | encode
  deriving Repr, DecidableEq, Inhabited

/-- the page object: the `col_width` field, and what an encoder keeps ON the object (copied along by `model_copy`) -/
structure PageObj where
  colWidth : Rat
  kept : Option Rat := none
  deriving Repr, DecidableEq, Inhabited

/-- the code: an encode reads `col_width` and keeps nothing on the object -/
def pageStep (p : PageObj) : PageOp → PageObj
  | .setWidth w => { p with colWidth := w }
  | .other => p
  | .encode => p

/-- NOT the code: an encoder that keeps the table width on the object the first time a spanning row needs it -/
def pageStepKeep (p : PageObj) : PageOp → PageObj
  | .setWidth w => { p with colWidth := w }
  | .other => p
  | .encode => { p with kept := some (p.kept.getD p.colWidth) }

def pageRun (p : PageObj) (ops : List PageOp) : PageObj := ops.foldl pageStep p
def pageRunKeep (p : PageObj) (ops : List PageOp) : PageObj := ops.foldl pageStepKeep p

/-- the table width every row kind is laid out at (`document.rtf_page.col_width`, read at encode time) -/
def widthUsed (p : PageObj) : Rat := p.colWidth
/-- … and what the keeping encoder would lay its spanning rows out at -/
def widthUsedKeep (p : PageObj) : Rat := p.kept.getD p.colWidth

/-- the CONFIGURED table width after a history: the last width written, else the constructor's -/
def configuredWidth (w0 : Rat) : List PageOp → Rat
  | [] => w0
  | .setWidth w :: ops => configuredWidth w ops
  | .other :: ops => configuredWidth w0 ops
  | .encode :: ops => configuredWidth w0 ops

/-- the configured width at every `encode` of a history, in order -/
def widthsAtEncodes (w0 : Rat) : List PageOp → List Rat
  | [] => []
  | .setWidth w :: ops => widthsAtEncodes w ops
  | .other :: ops => widthsAtEncodes w0 ops
  | .encode :: ops => w0 :: widthsAtEncodes w0 ops

end Model.WidthsHist
