import Model.Paginate
/-!
Role-level model of the single-section pipeline
  `UnifiedRTFEncoder._encode_body_section` → strategy `paginate` → `_apply_data_post_processing`
  → `PageRenderer.render` / `_render_body`
(DESIGN.md A.2–A.4).  The result is, per page, the sequence of *blocks with roles*; texts and cell
attributes are not part of this layer.
Import-free, executable.
-/
namespace Model.Layout
open Model.Paginate

inductive Placement | first | last | all
  deriving DecidableEq, Repr, Inhabited

/-- `_should_show` -/
def Placement.shows : Placement → (isFirst isLast : Bool) → Bool
  | .all, _, _ => true
  | .first, f, _ => f
  | .last, _, l => l

/-- footnote / source component: absent (or empty text), paragraph style, table style -/
inductive Comp | absent | para | table
  deriving DecidableEq, Repr, Inhabited

/-- `str(value)` of a grouping value (`none` is a polars null → `"None"`) -/
def strOf : Option String → String
  | none => "None"
  | some s => s

def isDivider (v : Option String) : Bool := strOf v == "-----"

structure LRow where
  lines  : Nat                    -- data_rows: max(1, int(w/cw)+1) over displayed cells
  pkey   : List (Option String)   -- page_by values, in page_by order
  skey   : List (Option String)   -- subline_by values
  pbRows : Nat                    -- rows a page_by heading for this row takes (measured)
  sbRows : Nat
  deriving Repr, Inhabited

structure LDoc where
  nrow          : Nat
  rows          : List LRow
  hasPageBy     : Bool
  hasSubline    : Bool
  newPage       : Bool
  pagebyColumn  : Bool            -- pageby_row == "column"
  pagebyHeader  : Bool
  headers       : List Bool       -- one per RTFColumnHeader object: `text is not None`
  asColheader   : Bool
  hasTitle      : Bool
  hasSublineTxt : Bool            -- rtf_subline with text
  footnote      : Comp
  source        : Comp
  pageTitle     : Placement
  pageFootnote  : Placement
  pageSource    : Placement
  deriving Repr, Inhabited

inductive Block
  | brk
  | title
  | subline
  | sublineHeading (text : String)
  | colHeader (k : Nat)
  | heading (level : Nat) (text : String)
  | data (i : Nat)
  | footnote (asTable : Bool)
  | source (asTable : Bool)
  deriving DecidableEq, Repr, Inhabited

/-- spanning rows are shown: `not new_page or pageby_row != "column"` -/
def LDoc.spanning (d : LDoc) : Bool := d.hasPageBy && (!d.newPage || !d.pagebyColumn)

/-- `calculate_additional_rows_per_page` -/
def LDoc.additional (d : LDoc) : Nat :=
  (if d.hasSubline then 1 else 0) + (d.headers.filter id).length +
  (if d.footnote != .absent then 1 else 0) + (if d.source != .absent then 1 else 0)

/-- heading rows: 0 when every value is a divider (the heading text is then empty) -/
def headingRows (k : List (Option String)) (measured : Nat) : Nat :=
  if k.all isDivider then 0 else measured

/-- the strategy's call of `calculate_row_metadata`: subline > page_by > default -/
def LDoc.meta (d : LDoc) : List RowMeta :=
  let rin : List (RowIn (List String)) := d.rows.map fun r =>
    { dataRows := r.lines, pagebyRows := headingRows r.pkey r.pbRows,
      sublineRows := headingRows r.skey r.sbRows,
      pkey := r.pkey.map strOf, skey := r.skey.map strOf }
  mkMeta d.hasPageBy d.hasSubline rin

def LDoc.forceNewPage (d : LDoc) : Bool := if d.hasSubline then true else (d.hasPageBy && d.newPage)

def LDoc.pageNums (d : LDoc) : List Nat :=
  assignPages d.nrow d.additional d.forceNewPage d.meta

/-! ### page slices (`metadata.filter(page == p)` → min/max row_index → `df.slice`) -/

def insertSorted (x : Nat) : List Nat → List Nat
  | [] => [x]
  | y :: ys => if x ≤ y then x :: y :: ys else y :: insertSorted x ys

def isort : List Nat → List Nat
  | [] => []
  | x :: xs => insertSorted x (isort xs)

/-- `metadata["page"].unique().sort()` -/
def uniquePages (ps : List Nat) : List Nat := isort ps.eraseDups

/-- indices of rows assigned to page `p` -/
def idxOf (p : Nat) (ps : List Nat) : List Nat :=
  (ps.zipIdx.filter (fun x => x.1 == p)).map (·.2)

def listMin : List Nat → Nat
  | [] => 0
  | x :: xs => xs.foldl min x
def listMax : List Nat → Nat
  | [] => 0
  | x :: xs => xs.foldl max x

/-- (start_row, height) of page `p`: `min`/`max` of its row indices, height = max − min + 1 -/
def sliceOf (p : Nat) (ps : List Nat) : Nat × Nat :=
  let ix := idxOf p ps
  (listMin ix, listMax ix - listMin ix + 1)

structure PageCtx where
  number    : Nat
  total     : Nat
  start     : Nat      -- start_row in the original frame (used for headings / boundaries)
  height    : Nat      -- rows of the slice
  dataStart : Nat      -- first row of the re-sliced processed frame (`_apply_data_post_processing`)
  deriving Repr, Inhabited

def mkPagesAux (ps : List Nat) (total : Nat) : List Nat → Nat → List PageCtx
  | [], _ => []
  | p :: rest, cum =>
    let s := sliceOf p ps
    { number := p, total := total, start := s.1, height := s.2, dataStart := cum } ::
      mkPagesAux ps total rest (cum + s.2)

/-- the strategy's page list followed by the cumulative re-slicing -/
def LDoc.pages (d : LDoc) : List PageCtx :=
  let ps := d.pageNums
  let us := uniquePages ps
  if us.isEmpty then
    [{ number := 1, total := 1, start := 0, height := 0, dataStart := 0 }]   -- synthetic page
  else mkPagesAux ps us.length us 0

/-! ### group headings (`_get_group_headers`, `_detect_group_boundaries`, `_render_body`) -/

/-- filtered `group_values` of a row: per level, `none` when the value is a divider -/
def groupValues (k : List (Option String)) : List (Option (Option String)) :=
  k.map fun v => if isDivider v then none else some v

/-- page-top spanning rows: one per level whose (filtered) value `is not None` -/
def topHeadings (k : List (Option String)) : List Block :=
  ((groupValues k).zipIdx.filterMap fun (gv, lvl) =>
    match gv with
    | some (some s) => some (Block.heading lvl s)
    | _ => none)

/-- one boundary of `_render_body`: walk the levels in page_by order with `force_render`,
return the heading blocks. `last` / `new` are the filtered dicts (`none` = key absent). -/
def boundaryHeadings : (last new : List (Option (Option String))) → (lvl : Nat) → (force : Bool) → List Block
  | l :: ls, n :: ns, lvl, force =>
    match n with
    | some (some s) =>      -- `val = new_values.get(col)` is a real value
      -- `last_val is None` (key absent, or a null remembered) always renders
      let differs := match l with
        | some (some v) => s != v
        | _ => true
      if differs || force then
        Block.heading lvl s :: boundaryHeadings ls ns (lvl + 1) true
      else boundaryHeadings ls ns (lvl + 1) force
    | _ => boundaryHeadings ls ns (lvl + 1) force     -- None (absent or null): `continue`
  | _, _, _, _ => []

/-- the remembered values after one boundary of `_render_body`: the same walk over the levels as
`boundaryHeadings` (same `force_render`); a level without heading (`val is None`: divider = absent, or
null) is forgotten (`last_values.pop`) when an outer level was rendered, then
`last_values.update(new_values)`: keys present in `new` (real or null) overwrite. -/
def updateLast : (last new : List (Option (Option String))) → (force : Bool) → List (Option (Option String))
  | l :: ls, n :: ns, force =>
    match n with
    | some (some s) =>
      let differs := match l with
        | some (some v) => s != v
        | _ => true
      some (some s) :: updateLast ls ns (differs || force)
    | some none => some none :: updateLast ls ns force          -- popped or not, `update` writes the null
    | none => (if force then none else l) :: updateLast ls ns force
  | ls, [], _ => ls
  | [], ns, _ => ns

/-- body of one page with spanning rows: rows `[start, start+height)` of the original frame decide
the boundaries (raw value inequality of consecutive rows); data rows are numbered from `dataStart`. -/
def bodyBlocks : (keys : List (List (Option String))) → (prevKey : Option (List (Option String))) →
    (last : List (Option (Option String))) → (dataIdx : Nat) → List Block
  | [], _, _, _ => []
  | k :: ks, prev, last, i =>
    match prev with
    | none => Block.data i :: bodyBlocks ks (some k) last (i + 1)        -- first row of the page
    | some pk =>
      if pk != k then
        let nv := groupValues k
        boundaryHeadings last nv 0 false ++ Block.data i :: bodyBlocks ks (some k) (updateLast last nv false) (i + 1)
      else Block.data i :: bodyBlocks ks (some k) last (i + 1)

def dataBlocks (start n : Nat) : List Block := (List.range n).map fun j => Block.data (start + j)

/-- `PageRenderer.render` for one page -/
def renderPage (d : LDoc) (pg : PageCtx) : List Block :=
  let isFirst := pg.number == 1
  let isLast := pg.number == pg.total
  let needsHeader := d.pagebyHeader || isFirst
  let pageKeys := ((d.rows.drop pg.start).take pg.height).map (·.pkey)
  let firstRow := d.rows[pg.start]?
  (if isFirst then [] else [Block.brk]) ++
  (if d.hasTitle && d.pageTitle.shows isFirst isLast then [Block.title] else []) ++
  (if d.hasSublineTxt && d.pageTitle.shows isFirst isLast then [Block.subline] else []) ++
  (if d.hasSubline then
     match firstRow with
     | some r =>
       let parts := (groupValues r.skey).filterMap fun gv => match gv with
         | some (some s) => some s
         | some none => none      -- null: `if v is not None`
         | none => none
       if parts.isEmpty then [] else [Block.sublineHeading (", ".intercalate parts)]
     | none => []
   else []) ++
  (if needsHeader then
     (d.headers.zipIdx.filterMap fun (hasText, k) =>
        if hasText || d.asColheader then some (Block.colHeader k) else none)
   else []) ++
  (if d.spanning then
     match firstRow with
     | some r => topHeadings r.pkey
     | none => []
   else []) ++
  (if d.spanning then
     match firstRow with
     | some r => bodyBlocks pageKeys none (groupValues r.pkey) pg.dataStart
     | none => dataBlocks pg.dataStart pg.height
   else dataBlocks pg.dataStart pg.height) ++
  (if d.footnote != .absent && d.pageFootnote.shows isFirst isLast
     then [Block.footnote (d.footnote == .table)] else []) ++
  (if d.source != .absent && d.pageSource.shows isFirst isLast
     then [Block.source (d.source == .table)] else [])

def layout (d : LDoc) : List (List Block) := d.pages.map (renderPage d)

end Model.Layout
