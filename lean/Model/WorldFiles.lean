import Model.World
import Model.Memo
/-
The process state of `Model/World.lean` together with the part of the OUTSIDE world an encode reads: the
working directory and the contents of the files a figure document names (property C14).

`_encode_figure_only` calls `rtf_read_figure(document.rtf_figure.figures)` on every `rtf_encode()`: for every
path, in order, `Path(p).exists()` (else `FileNotFoundError`), the format from the suffix of the *name*, and
`open(path, "rb").read()`.  Nothing is kept: what a figure document embeds is a function of the document's
paths **and of the file system at the time of the call** (`Fs.read`: a relative path is resolved against the
working directory of that moment, an absolute one is not; the bytes are the ones in the file then).  "What a
fresh interpreter produces for an equal-valued document" is therefore the outcome of a fresh process in the
file system as it is when the target is encoded (`encodeCtorF … (freshF w₀ fs)` with `fs` the state reached).

* `Fs`, `FsEv`, `Fs.step` — what can happen between two operations of a history: a file is written (created,
  overwritten in place, replaced atomically, copied over) with some content, deleted, renamed (possibly onto an
  existing file, possibly into another directory), touched (new time stamp, same bytes), the process changes
  its working directory.  Histories WITHOUT any file change (`chdir` / `touch` only) are the ones inside the
  quantifier of C14 as written; histories with file changes are judged against the same reference and
  labelled separately by the harness.
* `FWorld` — the base world, the file system, and ONE process-global store in front of the file reads (the
  class a cache of image bytes puts the code in; the code as it is has none, i.e. answers `Fs.read` itself).
  A request is `(file system at the call, path as the caller spelled it)`; the value a miss computes is
  `Fs.read`.  `Props/C14files.lean`: the store is harmless iff its key determines that value
  (`Model.Memo.Faithful`), which a key made of the path — as spelled, or even resolved — does not.
-/
namespace Model.World
open Model.Memo

/-- identity of a byte string (the harness numbers the images it writes) -/
abbrev Content := Nat

/-- a path as a figure component spells it; directories and file names are numbered -/
inductive PathRef where
  | abs (dir : Nat) (name : Nat)   -- <root>/d<dir>/<name>, however spelled (str, Path, with `..`, `../d<dir>/<name>`)
  | rel (name : Nat)               -- <name>, ./<name>: resolved against the working directory AT THE CALL
  deriving DecidableEq, Repr, Inhabited

structure Fs where
  cwd : Nat
  files : List ((Nat × Nat) × Content)      -- (directory, name) ↦ content
  deriving DecidableEq, Repr, Inhabited

def Fs.resolve (fs : Fs) : PathRef → Nat × Nat
  | .abs d n => (d, n)
  | .rel n => (fs.cwd, n)

/-- `open(path, "rb").read()` after `Path(path).exists()`: `none` = `FileNotFoundError` -/
def Fs.read (fs : Fs) (p : PathRef) : Option Content := aget (fs.resolve p) fs.files

inductive FsEv where
  | write (d n : Nat) (c : Content)        -- create, overwrite in place, replace atomically, copy over
  | delete (d n : Nat)
  | rename (d n d' n' : Nat)               -- os.replace (an existing target is overwritten)
  | chdir (d : Nat)
  | touch (d n : Nat)                      -- os.utime: another time stamp, the same bytes
  deriving DecidableEq, Repr, Inhabited

/-- does the event change the content behind any name?  (`false`: the working directory or a time stamp only) -/
def FsEv.changesFiles : FsEv → Bool
  | .chdir _ => false
  | .touch _ _ => false
  | _ => true

def Fs.step (fs : Fs) : FsEv → Fs
  | .write d n c => { fs with files := aset (d, n) c fs.files }
  | .delete d n => { fs with files := fs.files.filter (fun e => e.1 != (d, n)) }
  | .rename d n d' n' =>
    match aget (d, n) fs.files with
    | some c => { fs with files := aset (d', n') c (fs.files.filter (fun e => e.1 != (d, n))) }
    | none => fs
  | .chdir d => { fs with cwd := d }
  | .touch _ _ => fs

def Fs.run (fs : Fs) : List FsEv → Fs
  | [] => fs
  | e :: es => (fs.step e).run es

/-- one file read as the store sees it: the state of the file system at the call and the path as spelled -/
structure FileReq where
  fs : Fs
  path : PathRef
  deriving DecidableEq, Repr, Inhabited

/-- a store of file contents with key `key` in front of `Fs.read` -/
def readSpec {κ : Type} (key : FileReq → κ) : Spec FileReq κ (Option Content) :=
  { key := key, compute := fun r => r.fs.read r.path }

/-- keyed by the path exactly as the caller spelled it (`lru_cache` on a function of the path) -/
def spellingKey : Spec FileReq PathRef (Option Content) := readSpec (·.path)

/-- keyed by the resolved absolute path (`Path(p).resolve()`) -/
def resolvedKey : Spec FileReq (Nat × Nat) (Option Content) := readSpec (fun r => r.fs.resolve r.path)

/-- keyed by the resolved path together with a fingerprint of what is in the file now (idealised: the content) -/
def fingerprintKey : Spec FileReq ((Nat × Nat) × Option Content) (Option Content) :=
  readSpec (fun r => (r.fs.resolve r.path, r.fs.read r.path))

/-- no store at all: the code as it is (every request is its own key) -/
def noStore : Spec FileReq FileReq (Option Content) := readSpec id

/-! ## the world with a file system and a store of file contents -/

structure FWorld (κ : Type) where
  base : World
  fs : Fs
  store : Store κ (Option Content)

/-- the paths a document's encode reads, in order: any function of the caller's objects and the document
(the `figures` list of its `RTFFigure`; none for a table document) -/
abbrev Paths := Heap → Doc → List PathRef

inductive FOp where
  | op (o : Op)          -- an operation of the base world; encodes of figure documents read files through the store
  | ev (e : FsEv)        -- something happens to the file system / the working directory
  deriving Repr

variable {κ : Type} [DecidableEq κ]

/-- the reads of one encode of `d` in file system `fs`, the store threaded through -/
def readDoc (S : Spec FileReq κ (Option Content)) (q : Paths) (h : Heap) (fs : Fs) (st : Store κ (Option Content))
    (d : Doc) : Store κ (Option Content) × List (Option Content) :=
  askAll S st ((q h d).map (fun p => { fs := fs, path := p }))

def storeAfterF (S : Spec FileReq κ (Option Content)) (q : Paths) (w : World) (fs : Fs)
    (st : Store κ (Option Content)) : Op → Store κ (Option Content)
  | .encode n =>
    match findDoc w n with
    | some d => (readDoc S q w.heap fs st d).1
    | none => st
  | .encodeTwice n =>
    match findDoc w n with
    | some d => (readDoc S q w.heap fs (readDoc S q w.heap fs st d).1 d).1
    | none => st
  | _ => st

/-- what the encodes of one operation read (one list per `rtf_encode()` call).  A constructor call reads nothing but
looks: `RTFDocument(rtf_figure=…)` validates the figure component again (`Path(p).exists()` for every path, never
through a store), so the entry of a `construct` is what its paths designate at that moment — a `none` in it is the
constructor's `FileNotFoundError` (C19's business; the harness constructs figure documents while their files exist). -/
def readsOf (S : Spec FileReq κ (Option Content)) (q : Paths) (w : World) (fs : Fs)
    (st : Store κ (Option Content)) : Op → List (List (Option Content))
  | .construct _ c =>
    match construct w.heap w.frames c with
    | .ok d => [(q w.heap d).map fs.read]
    | .error _ => []
  | .encode n =>
    match findDoc w n with
    | some d => [(readDoc S q w.heap fs st d).2]
    | none => []
  | .encodeTwice n =>
    match findDoc w n with
    | some d => [(readDoc S q w.heap fs st d).2, (readDoc S q w.heap fs (readDoc S q w.heap fs st d).1 d).2]
    | none => []
  | _ => []

def stepF (S : Spec FileReq κ (Option Content)) (q : Paths) (T : Table) (fw : FWorld κ) : FOp → FWorld κ
  | .op o => { base := (step T fw.base o).1, fs := fw.fs, store := storeAfterF S q fw.base fw.fs fw.store o }
  | .ev e => { base := fw.base, fs := fw.fs.step e, store := fw.store }

def runF (S : Spec FileReq κ (Option Content)) (q : Paths) (T : Table) (fw : FWorld κ) : List FOp → FWorld κ
  | [] => fw
  | o :: os => runF S q T (stepF S q T fw o) os

/-- the history with what every operation's encodes read (for the correspondence with the implementation) -/
def traceF (S : Spec FileReq κ (Option Content)) (q : Paths) (T : Table) (fw : FWorld κ) :
    List FOp → List (List (List (Option Content)))
  | [] => []
  | .op o :: os => readsOf S q fw.base fw.fs fw.store o :: traceF S q T (stepF S q T fw (.op o)) os
  | .ev e :: os => [] :: traceF S q T (stepF S q T fw (.ev e)) os

def baseOpsF : List FOp → List Op
  | [] => []
  | .op o :: r => o :: baseOpsF r
  | .ev _ :: r => baseOpsF r

def eventsF : List FOp → List FsEv
  | [] => []
  | .op _ :: r => eventsF r
  | .ev e :: r => e :: eventsF r

/-- construct and encode the target: the modelled outcome of the base world and the content every path of the
document was answered with (`none` for a path = `FileNotFoundError`) -/
def encodeCtorF (S : Spec FileReq κ (Option Content)) (q : Paths) (T : Table) (fw : FWorld κ) (c : Ctor) :
    Outcome × List (Option Content) :=
  match construct fw.base.heap fw.base.frames c with
  | .ok d => ((encodeDoc T fw.base d).2, (readDoc S q fw.base.heap fw.fs fw.store d).2)
  | .error e => (.error e, [])

/-- a fresh process (nothing remembered) in file system `fs` -/
def freshF (w₀ : World) (fs : Fs) : FWorld κ := { base := w₀, fs := fs, store := [] }

end Model.World
