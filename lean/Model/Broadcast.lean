/-!
Model of `rtflite.attributes.BroadcastValue` on nested lists (`_to_nested_list` already applied) and of the
attribute handling around it:
  * `iloc`           `value[r % len(value)][c % len(value[0])]`, `IndexError → ValueError` on ragged input
  * `toList`         `to_list()` with a dimension (repeat, then crop)
  * `updateCell`     `update_cell` (expand to the dimension, assign)
  * `expandSlice`    the column removal of `prepare_dataframe_for_body_encoding`
                     (expand every list attribute to the full original grid, drop the removed columns)
  * `pageRows`       `PageFeatureProcessor._slice_attribute_rows` (rows of one page of a multi-row attribute)
Import-free, executable.  `none` stands for the ValueError of `iloc` on ragged matrices.
-/
namespace Model.Broadcast

abbrev Mat (α : Type) := List (List α)

def Mat.ncols {α} (m : Mat α) : Nat := (m.head?.map List.length).getD 0

/-- `BroadcastValue.iloc` (value not None, non-empty) -/
def Mat.iloc {α} (m : Mat α) (r c : Nat) : Option α :=
  if m.length = 0 then none else
  match m[r % m.length]? with
  | none => none
  | some row => if m.ncols = 0 then none else row[c % m.ncols]?

/-- all rows as long as the first one -/
def Mat.Rect {α} (m : Mat α) : Prop := ∀ row ∈ m, row.length = m.ncols

def repeatList {α} (l : List α) : Nat → List α
  | 0 => []
  | n + 1 => l ++ repeatList l n

/-- `to_list()` with `dimension = (rows, cols)` -/
def Mat.toList {α} (m : Mat α) (rows cols : Nat) : Mat α :=
  let rc := m.length
  let cc := m.ncols
  let rrep := max 1 ((rows + rc - 1) / rc)
  let crep := max 1 ((cols + cc - 1) / cc)
  ((repeatList (m.map fun row => repeatList row crep) rrep).take rows).map (·.take cols)

def setAt {α} (l : List α) (i : Nat) (v : α) : List α := l.set i v

/-- `update_cell(r, c, v)` with the given dimension -/
def Mat.updateCell {α} (m : Mat α) (rows cols r c : Nat) (v : α) : Mat α :=
  let e := m.toList rows cols
  match e[r]? with
  | none => e            -- Python would raise IndexError; callers stay in range
  | some row => e.set r (row.set c v)

/-- drop the columns whose index is in `removed` -/
def dropCols {α} (row : List α) (removed : List Nat) : List α :=
  (row.zipIdx.filter fun x => !removed.contains x.2).map (·.1)

/-- column removal: expand to the full (rows × cols) grid, then drop the removed columns -/
def Mat.expandSlice {α} (m : Mat α) (rows cols : Nat) (removed : List Nat) : Mat α :=
  (m.toList rows cols).map fun row => dropCols row removed

/-- original column index of the `j`-th displayed column -/
def keptIdx (cols : Nat) (removed : List Nat) : List Nat :=
  (List.range cols).filter fun c => !removed.contains c

/-- `_slice_attribute_rows`: a multi-row attribute is cut to the page's rows, others are kept -/
def Mat.pageRows {α} (m : Mat α) (start height : Nat) : Mat α :=
  if m.length > 1 then
    (List.range height).filterMap fun i => m[(start + i) % m.length]?
  else m

end Model.Broadcast
