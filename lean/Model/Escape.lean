/-
Model for C10 "every Unicode character reaches the reader intact".

Writer side (rtflite, *repaired* tree — patch `fixes/unicode-escape.patch`):
  * `TextContent._escape_non_ascii`  (the per-character loop that ends
    `TextContent._convert_special_chars`, src/rtflite/row.py)            → `escapeCp` / `escape`
  * Python `str(int)` used by the f-string `\u{rtf_value}`                 → `natDigits` / `intRepr`
  * `Path.write_text(..., encoding="utf-8")` (`RTFDocument.write_rtf`)     → `utf8Cp` / `utf8`
  * `PageRenderer._format_group_header` + `_generate_subline_header`
    (src/rtflite/encoding/renderer.py)                                     → `formatGroupHeader` / `sublineHeader`

Reader side (the specification the theorems are relative to; DESIGN.md §6 "RTF semantics"):
  * `decode` — how an RTF reader turns the bytes of a text run into characters: 7-bit bytes are
    themselves, bytes >= 0x80 and `\'hh` are decoded with the ANSI code page (cp1252), `\uN` is the
    UTF-16 code unit `N mod 65536` (N is a *signed 16-bit* number, so anything outside
    [-32768, 32767] is recorded as an error), the `\ucK` in force tells how many following
    "characters" are the fallback representation and are skipped, surrogate pairs are combined,
    CR/LF are ignored, `{`/`}` open/close a scope (they save/restore `\uc` and end skipping),
    any other control word is formatting (no text; one skippable item).

A Python `str` is a sequence of code points, so text is `List Nat` here (a `Char` is exactly a code
point that is a Unicode scalar value; `Props/C10.lean` quantifies over `Char`).  The escaper only
produces 7-bit characters, so its output *is* its UTF-8 byte sequence (`Proofs.Escape.utf8_escape`).

Import-free, executable.
-/
namespace Model.Escape

/-! ## writer side -/

/-- decimal digits (values 0..9, most significant first); `fuel` only makes the recursion structural -/
def natDigitsAux : (fuel n : Nat) → List Nat → List Nat
  | 0, _, acc => acc
  | fuel + 1, n, acc => if n < 10 then n :: acc else natDigitsAux fuel (n / 10) (n % 10 :: acc)

def natDigits (n : Nat) : List Nat := natDigitsAux (n + 1) n []

/-- Python `str(i)` for an `int`, as code points -/
def intRepr (i : Int) : List Nat :=
  if i < 0 then 45 :: (natDigits i.natAbs).map (· + 48) else (natDigits i.natAbs).map (· + 48)

/-- `code_unit - (0 if code_unit < 32768 else 65536)` -/
def signed16 (u : Nat) : Int := if u < 32768 then (u : Int) else (u : Int) - 65536

/-- `f"\\uc1\\u{rtf_value}*"` -/
def escUnit (u : Nat) : List Nat := [92, 117, 99, 49, 92, 117] ++ intRepr (signed16 u) ++ [42]

/-- the UTF-16 code units of a code point >= 128 (`>> 10` and `& 0x3FF` as `/ 1024`, `% 1024`) -/
def codeUnits (n : Nat) : List Nat :=
  if n < 0x10000 then [n] else [0xD800 + (n - 0x10000) / 1024, 0xDC00 + (n - 0x10000) % 1024]

/-- one iteration of the loop in `TextContent._escape_non_ascii` -/
def escapeCp (n : Nat) : List Nat :=
  if n < 128 then [n] else (codeUnits n).flatMap escUnit

/-- `TextContent._escape_non_ascii` = `_convert_special_chars` with `convert=False` -/
def escape (t : List Nat) : List Nat := t.flatMap escapeCp

/-- UTF-8 bytes of one code point; `none` where Python raises `UnicodeEncodeError` -/
def utf8Cp (n : Nat) : Option (List Nat) :=
  if n < 0x80 then some [n]
  else if n < 0x800 then some [0xC0 + n / 64, 0x80 + n % 64]
  else if 0xD800 ≤ n ∧ n < 0xE000 then none
  else if n < 0x10000 then some [0xE0 + n / 4096, 0x80 + n / 64 % 64, 0x80 + n % 64]
  else if n < 0x110000 then some [0xF0 + n / 262144, 0x80 + n / 4096 % 64, 0x80 + n / 64 % 64, 0x80 + n % 64]
  else none

/-- `s.encode("utf-8")` -/
def utf8 : List Nat → Option (List Nat)
  | [] => some []
  | n :: t => match utf8Cp n, utf8 t with
    | some a, some b => some (a ++ b)
    | _, _ => none

/-- `", ".join(str(v) for v in group_values.values() if v is not None)` (values given as `str(v)`) -/
def joinComma : List (List Nat) → List Nat
  | [] => []
  | [a] => a
  | a :: b :: r => a ++ [44, 32] ++ joinComma (b :: r)

def formatGroupHeader (vals : List (Option (List Nat))) : List Nat :=
  joinComma (vals.filterMap id)

/-- `{\pard\hyphpar\fi0\li0\ri0\ql\fs18{\f0 ` -/
def sublinePrefix : List Nat :=
  [123, 92, 112, 97, 114, 100, 92, 104, 121, 112, 104, 112, 97, 114, 92, 102, 105, 48, 92, 108, 105, 48,
   92, 114, 105, 48, 92, 113, 108, 92, 102, 115, 49, 56, 123, 92, 102, 48, 32]

/-- `}\par}` -/
def sublineSuffix : List Nat := [125, 92, 112, 97, 114, 125]

/-- `PageRenderer._generate_subline_header` on `info["group_values"]` -/
def sublineHeader (vals : List (Option (List Nat))) : List Nat :=
  let text := formatGroupHeader vals
  if text = [] then [] else sublinePrefix ++ escape text ++ sublineSuffix

/-! ## the property's domain -/

/-- Unicode scalar value -/
def isScalar (n : Nat) : Bool := n < 0xD800 || (0xE000 ≤ n && n < 0x110000)

/-- C0 controls (U+0000–U+001F), DEL, C1 controls (U+0080–U+009F) -/
def isControl (n : Nat) : Bool := n < 32 || (127 ≤ n && n < 160)

/-- the characters C10 speaks about: scalar values that are no C0/C1 control and not raw `\ { }` -/
def inDomain (n : Nat) : Bool :=
  isScalar n && !isControl n && n != 92 && n != 123 && n != 125

/-- what the round trip really needs (a superset of `inDomain`): a scalar value that is not
RTF syntax (`\ { }`) and not ignored by readers (CR, LF) -/
def readable (n : Nat) : Bool :=
  isScalar n && n != 92 && n != 123 && n != 125 && n != 10 && n != 13

/-! ## reader side -/

/-- one `\u` seen by the reader: its argument, the `\uc` in force, and how many following items
the reader consumed as its fallback representation -/
structure UEv where
  arg : Int
  uc : Nat
  skipped : Nat
  deriving DecidableEq, Repr, Inhabited

inductive Err
  | uNoParam        -- `\u` without a number
  | uRange          -- `\u` argument outside the signed 16-bit range
  | uInSkip         -- `\u` met while fallback characters of the previous `\u` were still due
  | loneSurrogate   -- high surrogate not followed by a low one / low one without a high one
  | badSymbol       -- control symbol a text run cannot contain
  | badHex          -- `\'` not followed by two hex digits
  | truncated       -- input ends inside a control sequence
  | unbalanced      -- `}` without `{`
  deriving DecidableEq, Repr, Inhabited

inductive Mode
  | ground
  | bs                                            -- just after a backslash
  | word (name : List Nat)                        -- letters of a control word so far
  | minus (name : List Nat)                       -- control word followed by `-`
  | num (name : List Nat) (neg : Bool) (acc : Nat)  -- inside the numeric parameter
  | hex1
  | hex2 (hi : Nat)
  deriving DecidableEq, Repr, Inhabited

structure St where
  mode : Mode := .ground
  uc : Nat := 1                 -- RTF default
  skip : Nat := 0               -- fallback items still to skip
  hi : Option Nat := none       -- pending high surrogate
  out : List Nat := []          -- decoded code points, reversed
  us : List UEv := []           -- `\u` events, reversed
  words : Nat := 0              -- other control words seen (formatting)
  errs : List Err := []         -- reversed
  stack : List Nat := []        -- saved `\uc` of the enclosing groups
  deriving DecidableEq, Repr, Inhabited

def isLetter (b : Nat) : Bool := (65 ≤ b && b ≤ 90) || (97 ≤ b && b ≤ 122)
def isDigit (b : Nat) : Bool := 48 ≤ b && b ≤ 57

def hexVal (b : Nat) : Option Nat :=
  if 48 ≤ b ∧ b ≤ 57 then some (b - 48)
  else if 65 ≤ b ∧ b ≤ 70 then some (b - 55)
  else if 97 ≤ b ∧ b ≤ 102 then some (b - 87)
  else none

/-- Windows-1252, 0x80–0x9F (the five undefined bytes map to the C1 control of the same number) -/
def cp1252High : List Nat :=
  [0x20AC, 0x81, 0x201A, 0x0192, 0x201E, 0x2026, 0x2020, 0x2021, 0x02C6, 0x2030, 0x0160, 0x2039, 0x0152, 0x8D,
   0x017D, 0x8F, 0x90, 0x2018, 0x2019, 0x201C, 0x201D, 0x2022, 0x2013, 0x2014, 0x02DC, 0x2122, 0x0161, 0x203A,
   0x0153, 0x9D, 0x017E, 0x0178]

/-- a byte in the ANSI code page declared by `\ansi` (no `\ansicpg`): cp1252 -/
def ansi (b : Nat) : Nat :=
  if b < 0x80 then b else if b < 0xA0 then cp1252High.getD (b - 0x80) b else b

/-- the last `\u` got one more fallback item -/
def bump : List UEv → List UEv
  | e :: r => { e with skipped := e.skipped + 1 } :: r
  | [] => []

/-- one character of text arrives (plain byte, `\'hh`, control symbol) -/
def emitChar (st : St) (c : Nat) : St :=
  if st.skip > 0 then { st with skip := st.skip - 1, us := bump st.us }
  else match st.hi with
    | some _ => { st with hi := none, out := c :: st.out, errs := .loneSurrogate :: st.errs }
    | none => { st with out := c :: st.out }

/-- `\uN` -/
def applyU (st : St) (p : Option Int) : St :=
  match p with
  | none => { st with errs := .uNoParam :: st.errs }
  | some n =>
    let st := if n < -32768 ∨ n > 32767 then { st with errs := .uRange :: st.errs } else st
    let st := if st.skip > 0 then { st with errs := .uInSkip :: st.errs } else st
    let cu := (n % 65536).toNat
    let st := { st with us := { arg := n, uc := st.uc, skipped := 0 } :: st.us, skip := st.uc }
    if 0xD800 ≤ cu ∧ cu < 0xDC00 then
      match st.hi with
      | some _ => { st with hi := some cu, errs := .loneSurrogate :: st.errs }
      | none => { st with hi := some cu }
    else if 0xDC00 ≤ cu ∧ cu < 0xE000 then
      match st.hi with
      | some h => { st with hi := none, out := (0x10000 + (h - 0xD800) * 1024 + (cu - 0xDC00)) :: st.out }
      | none => { st with errs := .loneSurrogate :: st.errs }
    else
      match st.hi with
      | some _ => { st with hi := none, out := cu :: st.out, errs := .loneSurrogate :: st.errs }
      | none => { st with out := cu :: st.out }

/-- a complete control word `\name[param]` -/
def applyCW (st : St) (name : List Nat) (p : Option Int) : St :=
  if name = [117] then applyU st p
  else if st.skip > 0 then { st with skip := st.skip - 1, us := bump st.us }
  else if name = [117, 99] then
    match p with
    | some n => { st with uc := n.toNat }
    | none => { st with uc := 1 }
  else { st with words := st.words + 1 }

def stepGround (st : St) (b : Nat) : St :=
  if b = 92 then { st with mode := .bs }
  else if b = 123 then { st with skip := 0, stack := st.uc :: st.stack }
  else if b = 125 then
    match st.stack with
    | u :: r => { st with skip := 0, uc := u, stack := r }
    | [] => { st with skip := 0, errs := .unbalanced :: st.errs }
  else if b = 10 ∨ b = 13 then st
  else emitChar st (ansi b)

/-- the byte that ended a control word: a space is the delimiter and belongs to it, anything else
is ordinary input -/
def endWord (st : St) (b : Nat) : St := if b = 32 then st else stepGround st b

def step (st : St) (b : Nat) : St :=
  match st.mode with
  | .ground => stepGround st b
  | .bs =>
    if isLetter b then { st with mode := .word [b] }
    else if b = 39 then { st with mode := .hex1 }
    else if b = 92 ∨ b = 123 ∨ b = 125 then emitChar { st with mode := .ground } b
    else if b = 126 then emitChar { st with mode := .ground } 0xA0
    else if b = 45 then emitChar { st with mode := .ground } 0xAD
    else if b = 95 then emitChar { st with mode := .ground } 0x2011
    else { st with mode := .ground, errs := .badSymbol :: st.errs }
  | .word nm =>
    if isLetter b then { st with mode := .word (nm ++ [b]) }
    else if isDigit b then { st with mode := .num nm false (b - 48) }
    else if b = 45 then { st with mode := .minus nm }
    else endWord (applyCW { st with mode := .ground } nm none) b
  | .minus nm =>
    if isDigit b then { st with mode := .num nm true (b - 48) }
    else endWord (stepGround (applyCW { st with mode := .ground } nm none) 45) b
  | .num nm neg acc =>
    if isDigit b then { st with mode := .num nm neg (acc * 10 + (b - 48)) }
    else endWord (applyCW { st with mode := .ground } nm (some (if neg then -(acc : Int) else (acc : Int)))) b
  | .hex1 =>
    match hexVal b with
    | some h => { st with mode := .hex2 h }
    | none => { st with mode := .ground, errs := .badHex :: st.errs }
  | .hex2 h =>
    match hexVal b with
    | some l => emitChar { st with mode := .ground } (ansi (h * 16 + l))
    | none => { st with mode := .ground, errs := .badHex :: st.errs }

def run (st : St) (bs : List Nat) : St := bs.foldl step st

/-- end of input: a pending control word is complete; anything else pending is an error -/
def finish (st : St) : St :=
  let st := match st.mode with
    | .ground => st
    | .word nm => applyCW { st with mode := .ground } nm none
    | .minus nm => stepGround (applyCW { st with mode := .ground } nm none) 45
    | .num nm neg acc => applyCW { st with mode := .ground } nm (some (if neg then -(acc : Int) else (acc : Int)))
    | _ => { st with mode := .ground, errs := .truncated :: st.errs }
  match st.hi with
  | some _ => { st with hi := none, errs := .loneSurrogate :: st.errs }
  | none => st

structure Decoded where
  text : List Nat
  us : List UEv
  words : Nat
  errs : List Err
  depth : Nat       -- groups still open at the end
  deriving DecidableEq, Repr, Inhabited

/-- the reader: bytes of a text run → what it shows -/
def decode (bs : List Nat) : Decoded :=
  let st := finish (run {} bs)
  { text := st.out.reverse, us := st.us.reverse, words := st.words, errs := st.errs.reverse,
    depth := st.stack.length }

/-! ## specification predicates (decidable; used by the theorems and, through the driver, as the
oracle on the implementation's real output) -/

/-- "Unicode escapes stay within RTF's signed 16-bit `\u` range and are followed by exactly the
declared number of fallback characters" -/
def uOk (e : UEv) : Bool := decide (-32768 ≤ e.arg) && decide (e.arg ≤ 32767) && e.skipped == e.uc

/-- the reader shows exactly `orig`, met nothing malformed, every `\u` is fine -/
def intact (orig : List Nat) (d : Decoded) : Bool :=
  d.text == orig && d.errs.isEmpty && d.us.all uOk && d.depth == 0

/-- `\u` events a text is expected to produce (argument, `\uc` in force = 1, one fallback skipped) -/
def uTraceCp (n : Nat) : List UEv :=
  if n < 128 then [] else (codeUnits n).map fun u => { arg := signed16 u, uc := 1, skipped := 1 }

def uTrace (t : List Nat) : List UEv := t.flatMap uTraceCp

end Model.Escape
