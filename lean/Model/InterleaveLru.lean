/-
A bounded "most recently used" store on a process-wide service object, keyed by CONTENT (property
C15; import-free, executable).

Shape modelled (the way a palette → dense-colour-positions cache on the `color_service` singleton
would be written): a lookup under key `k` does
    if k in cache: cache.move_to_end(k)          -- `touch`
    else:          cache[k] = build(k)            -- `touch`   (a function call follows: switch point)
                   trim()                         -- `trim`: while len(cache) > cap: popitem(last=False)
    return cache[k]                               -- `read`: KeyError if `k` is gone
Entries are keyed by content, so WHICH value a reader obtains never depends on the schedule (same
key, same value: like the canonical registrations of the strategy registry); what does depend on
the schedule is WHETHER the entry is still there.  Between a thread's `touch` and its `read` the
other threads may touch and trim: with capacity `cap`, `cap` other keys touched in between evict
the thread's own entry.  Hence: one thread — never; two threads, cap = 2 — never; three threads
with three different keys — one preemption of the victim between insert and re-read, the two
others each resolving one colour in the gap.  (`Props/C15lru.lean`.)

Which cell is it?  An attribute of the module-level singleton: one cell per process
(`Model.Interleave.CtxMode.Global` in kind), but with a state space (an ordered set of keys) the
two-valued colour cell does not have; therefore a model of its own.
-/
namespace Model.InterleaveLru

/-- keys of the cache, least recently used first -/
abbrev Cache := List Nat

inductive Ev where
  | touch (k : Nat)   -- hit: `move_to_end(k)`; miss: insert `k` as the most recent entry (no trimming yet)
  | trim              -- drop least recently used entries beyond the capacity
  | read (k : Nat)    -- `cache[k]`; recorded: `true` = present, `false` = `KeyError`
  deriving Repr, DecidableEq, Inhabited

def touch (c : Cache) (k : Nat) : Cache := c.filter (· ≠ k) ++ [k]

def trim (cap : Nat) (c : Cache) : Cache := c.drop (c.length - cap)

structure State where
  cache : Cache
  progs : List (List Ev)
  outs : List (List Bool)
  deriving Repr, DecidableEq, Inhabited

/-- thread `i` executes its next event (stutter if it has none / does not exist) -/
def step (cap : Nat) (i : Nat) (σ : State) : State :=
  match σ.progs[i]? with
  | some (e :: rest) =>
    let progs := σ.progs.set i rest
    match e with
    | .touch k => { σ with cache := touch σ.cache k, progs := progs }
    | .trim => { σ with cache := trim cap σ.cache, progs := progs }
    | .read k =>
      { σ with progs := progs, outs := σ.outs.set i ((σ.outs[i]?.getD []) ++ [σ.cache.contains k]) }
  | _ => σ

def run (cap : Nat) : List Nat → State → State
  | [], σ => σ
  | i :: is, σ => run cap is (step cap i σ)

def init (c₀ : Cache) (progs : List (List Ev)) : State :=
  { cache := c₀, progs := progs, outs := progs.map fun _ => [] }

/-- one lookup under key `k` (the miss path; on a hit `trim` finds nothing to drop) -/
def lookupProg (k : Nat) : List Ev := [.touch k, .trim, .read k]

/-- an encode that resolves `n` colours under its palette `k` -/
def encodeProg (k : Nat) (n : Nat) : List Ev := (List.replicate n (lookupProg k)).flatten

/-- every read recorded so far found its entry (no thread has raised `KeyError`) -/
def allHits (σ : State) : Bool := σ.outs.all fun o => o.all id

/-- all schedules of the given length over threads `0 … n-1` -/
def allScheds (n : Nat) : Nat → List (List Nat)
  | 0 => [[]]
  | len + 1 => (allScheds n len).flatMap fun s => (List.range n).map fun i => i :: s

end Model.InterleaveLru
