import Model.Validate
import Model.ValidateSpec
/-!
# C19 over HISTORIES: constructor calls with file-system changes in between

`Model.Validate.constructFigure` takes, for every path of `figures`, *whether the file exists at the time of
the call* (`FigArgs.figures : Option (List Bool)`): existence is an input of each call, there is no state in
the model.  This file makes the "time of the call" explicit:

* `Fs` — the part of the file system `RTFFigure.validate_figure_data` looks at: the working directory and the
  set of existing files (directory number, file name);
* `Ev` — what can happen between two constructor calls: a file is created (or its content replaced), deleted,
  renamed (onto a new name, another suffix, another directory, an existing file), the process changes its
  working directory — and `call`, a `RTFFigure(...)` construction whose paths are *names*
  (`PathRef`: absolute, or relative = resolved against the working directory **at the call**);
* `constructFigureAt fs c` — the verdict of one call in state `fs`: the field validators, then the loop of
  `validate_figure_data` over the paths in order (`Path(p).exists()` else `FileNotFoundError`;
  `_determine_image_format` — decided by the suffix of the *name* — else `ValueError`);
* `run fs evs` — the verdicts of the calls of a history, in order.

Whether a name is embeddable is a function of the name alone (`.png`, `.jpg`, `.jpeg`, `.emf`, any case; the
`mimetypes` fallback of `_determine_image_format` is not modelled: the harness uses no suffix it would map to
PNG/JPEG), the content of a file plays no role at construction (replacing a PNG by text leaves the verdict).
-/
namespace Model.ValidateHist
open Model.Validate Model.ValidateSpec

/-! ## the file system as `validate_figure_data` sees it -/

/-- a path as written in a call -/
inductive PathRef where
  | abs (dir : Nat) (name : String)   -- <root>/d<dir>/<name>, however spelled (str, Path, with `..`)
  | rel (name : String)               -- <name>, ./<name>: resolved against the working directory at the call
  deriving DecidableEq, Repr, Inhabited

structure Fs where
  cwd : Nat
  files : List (Nat × String)
  deriving Repr, Inhabited

def Fs.has (fs : Fs) (d : Nat) (n : String) : Bool := fs.files.contains (d, n)

def Fs.resolve (fs : Fs) : PathRef → Nat × String
  | .abs d n => (d, n)
  | .rel n => (fs.cwd, n)

def lowerC (c : Char) : Char := if 'A' ≤ c ∧ c ≤ 'Z' then Char.ofNat (c.toNat + 32) else c

/-- the characters after the last dot, lower-cased (`none`: no dot) -/
def afterLastDot : List Char → Option (List Char) → Option (List Char)
  | [], acc => acc
  | '.' :: r, _ => afterLastDot r (some [])
  | c :: r, acc => afterLastDot r (acc.map (· ++ [lowerC c]))

/-- `Path(name).suffix.lower()` without its dot (a leading dot starts no suffix) -/
def suffixOf (n : String) : List Char :=
  match n.toList with
  | [] => []
  | _ :: r => (afterLastDot r none).getD []

/-- `_determine_image_format` succeeds (suffix table) -/
def embeddable (n : String) : Bool :=
  ["png".toList, "jpg".toList, "jpeg".toList, "emf".toList].contains (suffixOf n)

inductive PathSt where
  | missing   -- no such file now
  | image     -- exists, embeddable suffix
  | other     -- exists, a format the encoder cannot embed
  deriving DecidableEq, Repr, Inhabited

def Fs.status (fs : Fs) (p : PathRef) : PathSt :=
  let q := fs.resolve p
  if fs.has q.1 q.2 then (if embeddable q.2 then .image else .other) else .missing

/-! ## events -/

structure FigCall where
  figAlign : Option Val := none
  figPos : Option Val := none
  figWidth : Option Raw := none
  figHeight : Option Raw := none
  /-- `figures=` (`none`: not given); a single path is the one-element list -/
  paths : Option (List PathRef) := none
  deriving Repr, Inhabited

inductive Ev where
  | create (d : Nat) (n : String)                 -- write a file (new, or new content for an existing one)
  | delete (d : Nat) (n : String)                 -- unlink
  | rename (d : Nat) (n : String) (d' : Nat) (n' : String)   -- os.replace (an existing target is overwritten)
  | chdir (d : Nat)
  | call (c : FigCall)
  deriving Repr, Inhabited

def Ev.isCall : Ev → Bool
  | .call _ => true
  | _ => false

/-- the state after an event; a constructor call changes nothing -/
def step (fs : Fs) : Ev → Fs
  | .create d n => if fs.has d n then fs else { fs with files := (d, n) :: fs.files }
  | .delete d n => { fs with files := fs.files.filter (· != (d, n)) }
  | .rename d n d' n' =>
      if fs.has d n then
        { fs with files := (d', n') :: fs.files.filter (fun x => x != (d, n) && x != (d', n')) }
      else fs
  | .chdir d => { fs with cwd := d }
  | .call _ => fs

/-! ## one call, judged in the state at that call -/

/-- the arguments as `Model.Validate` takes them: existence flags read off the state at the call -/
def FigCall.toArgs (fs : Fs) (c : FigCall) : FigArgs :=
  { figAlign := c.figAlign, figPos := c.figPos, figWidth := c.figWidth, figHeight := c.figHeight,
    figures := c.paths.map (·.map fun p => fs.status p != .missing) }

/-- the loop of `validate_figure_data`: the first offending path decides -/
def checkPaths : List PathSt → Except Err Unit
  | [] => .ok ()
  | .missing :: _ => .error .fileNotFound
  | .other :: _ => .error .validationError   -- ValueError from a model validator → ValidationError
  | .image :: r => checkPaths r

def constructFigureAt (fs : Fs) (c : FigCall) : Except Err Unit :=
  if !figFieldsOk (c.toArgs fs) then .error .validationError
  else match c.paths with
    | none => .ok ()
    | some ps => checkPaths (ps.map fs.status)

/-- some path of the call names no file in this state -/
def anyMissing (fs : Fs) (c : FigCall) : Bool :=
  match c.paths with
  | some ps => ps.any (fun p => fs.status p == .missing)
  | none => false

/-- some path of the call names an existing file of a format that cannot be embedded -/
def anyOther (fs : Fs) (c : FigCall) : Bool :=
  match c.paths with
  | some ps => ps.any (fun p => fs.status p == .other)
  | none => false

/-- The specification verdict of a call **in the state at the call**.  The statement names the missing file
(`FileNotFoundError`) and the figure keywords / sizes (`ValueError`); an existing file of an unsupported format
is not in its list: alone it is `free` (model comparison only), together with a missing file either exception
is admitted (the loop stops at the first offending path). -/
def specFigureAt (fs : Fs) (c : FigCall) : Verdict :=
  let a := c.toArgs fs
  if !figInDomain a then .free
  else if anyMissing fs c && (figIllegal a || anyOther fs c) then .rejectAny
  else if anyMissing fs c then .notFound
  else if figIllegal a then .reject
  else if anyOther fs c then .free
  else .accept

/-! ## histories -/

/-- the verdicts of the calls of a history, in order, each in the state reached by the events before it -/
def run : Fs → List Ev → List (Except Err Unit)
  | _, [] => []
  | fs, .call c :: r => constructFigureAt fs c :: run fs r
  | fs, e :: r => run (step fs e) r

/-- the specification verdicts, likewise -/
def runSpec : Fs → List Ev → List Verdict
  | _, [] => []
  | fs, .call c :: r => specFigureAt fs c :: runSpec fs r
  | fs, e :: r => runSpec (step fs e) r

/-- the path statuses of every call (for the harness: compared with `os.path.exists` at the real call) -/
def runStatus : Fs → List Ev → List (List PathSt)
  | _, [] => []
  | fs, .call c :: r => ((c.paths.getD []).map fs.status) :: runStatus fs r
  | fs, e :: r => runStatus (step fs e) r

end Model.ValidateHist
