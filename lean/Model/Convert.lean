import Generated.ConvertTables
/-!
# Model of the text conversion of `TextContent._convert_special_chars` (src/rtflite/row.py)

Everything *before* the final per-character escaper (the escaper is C10's model and enters here as a
parameter `esc`):

```
if self.convert:
    for char, rtf in RTFConstants.RTF_CHAR_MAPPING.items():     -- `literalPasses`
        text = text.replace(char, rtf)                           -- `replaceAll`
converted = TextConversionService().convert_text_content(text, self.convert)
      -- convert false / None: text unchanged; "" unchanged;
      -- else re.sub(r"\\[a-zA-Z]+(?:\{[^}]*\})?", lambda m: latex_to_char.get(m[0], m[0]), text)   -- `latexPass`
... per-character escaper ...                                     -- parameter `esc`
```

Texts are `List Char`.  Scanners are structural recursions with a *skip counter* (number of characters
of the current match still to be dropped), which is how a leftmost, non-overlapping left-to-right scan
(`str.replace`, `re.sub`) is written without well-founded recursion.

The module also models the route of the `text_convert` flag to a text position
(`BroadcastValue(value=text_convert).iloc(r, c)` with `_to_nested_list`) and the constructor defaults.
-/
namespace Model.Convert

abbrev Str := List Char

/-! ## Python `str.replace(old, new)` (all occurrences, leftmost, non-overlapping) -/

/-- scan for a non-empty pattern `p`; first argument = characters of the current match still to skip -/
def replaceGo (p r : Str) : Nat → Str → Str
  | _, [] => []
  | k + 1, _ :: t => replaceGo p r k t
  | 0, c :: t =>
    if p.isPrefixOf (c :: t) then r ++ replaceGo p r (p.length - 1) t
    else c :: replaceGo p r 0 t

/-- `t.replace(p, r)`.  For the empty pattern CPython inserts `r` before every character and at the end. -/
def replaceAll (p r : Str) (t : Str) : Str :=
  if p = [] then r ++ t.flatMap (fun c => c :: r) else replaceGo p r 0 t

/-- `for char, rtf in RTF_CHAR_MAPPING.items(): text = text.replace(char, rtf)` (dict order) -/
def literalPasses (rules : List (Str × Str)) (t : Str) : Str :=
  rules.foldl (fun acc pr => replaceAll pr.1 pr.2 acc) t

/-! ## The LaTeX pass: `re.sub(r"\\[a-zA-Z]+(?:\{[^}]*\})?", repl, text)` -/

/-- `[a-zA-Z]` of a `str` pattern without flags: ASCII letters only -/
def isLetter (c : Char) : Bool :=
  (97 ≤ c.toNat && c.toNat ≤ 122) || (65 ≤ c.toNat && c.toNat ≤ 90)

/-- `[^}]*\}` : the text up to the first `}` and the text after it; `none` if there is no `}` -/
def splitClose : Str → Option (Str × Str)
  | [] => none
  | c :: t =>
    if c = '}' then some ([], t)
    else match splitClose t with
      | some (g, r) => some (c :: g, r)
      | none => none

/-- `\{[^}]*\}` at the start of the text: (content, rest) -/
def braceGroup : Str → Option (Str × Str)
  | [] => none
  | c :: t => if c = '{' then splitClose t else none

/-- The regex applied right after a backslash: greedy letter run (at least one letter), then the
optional brace group (taken whenever it can be closed; no backtracking into the letter run is possible
because the pattern succeeds without the group).  Result: the matched text *after* the backslash. -/
def matchCmd (t : Str) : Option Str :=
  let name := t.takeWhile isLetter
  if name = [] then none
  else match braceGroup (t.dropWhile isLetter) with
    | some (g, _) => some (name ++ '{' :: (g ++ ['}']))
    | none => some name

/-- `latex_to_char = {item[1]: chr(item[2]) for item in unicode_latex}` : a later duplicate row wins -/
def lookupLast (tbl : List (Str × Nat)) (k : Str) : Option Nat :=
  tbl.foldl (fun acc kv => if kv.1 = k then some kv.2 else acc) none

/-- `latex_to_char.get(cmd, cmd)`; both `_convert_single_command` branches (braced or not) end here -/
def look (tbl : List (Str × Nat)) (k : Str) : Str :=
  match lookupLast tbl k with
  | some cp => [Char.ofNat cp]
  | none => k

def latexGo (tbl : List (Str × Nat)) : Nat → Str → Str
  | _, [] => []
  | k + 1, _ :: t => latexGo tbl k t
  | 0, c :: t =>
    if c = '\\' then
      match matchCmd t with
      | some cmd => look tbl (c :: cmd) ++ latexGo tbl cmd.length t
      | none => c :: latexGo tbl 0 t
    else c :: latexGo tbl 0 t

def latexPass (tbl : List (Str × Nat)) (t : Str) : Str := latexGo tbl 0 t

/-! ## The generated tables, as character lists -/

def ofCodes (xs : List Nat) : Str := xs.map Char.ofNat

/-- `RTFConstants.RTF_CHAR_MAPPING` in insertion order -/
def charMapping : List (Str × Str) := Generated.charMappingCodes.map (fun p => (ofCodes p.1, ofCodes p.2))

/-- `unicode_latex` rows (command, code point) in file order -/
def latexTable : List (Str × Nat) := Generated.latexCodes.map (fun p => (ofCodes p.1, p.2))

/-! ## `_convert_special_chars` -/

/-- the text handed to the per-character escaper -/
def convertCoreWith (rules : List (Str × Str)) (tbl : List (Str × Nat)) (conv : Bool) (t : Str) : Str :=
  if conv then latexPass tbl (literalPasses rules t) else t

def convertCore (conv : Bool) (t : Str) : Str := convertCoreWith charMapping latexTable conv t

/-- `TextContent(text=t, convert=conv)._convert_special_chars()` with the escaper `esc` (C10) -/
def convertSpecial (esc : Str → Str) (conv : Bool) (t : Str) : Str := esc (convertCore conv t)

/-! ## Route of the `text_convert` flag to a text position -/

/-- a `text_convert` value as the constructed component holds it -/
inductive FlagVal where
  | flat (xs : List Bool)            -- a list of booleans `[True, False]`
  | tuple (xs : List Bool)           -- a tuple of booleans `(True,)` (what title-like components store)
  | nested (m : List (List Bool))    -- `[[True]]`, matrix
  deriving Repr, DecidableEq

/-- `_to_nested_list` on such a value: a flat list becomes ONE ROW, a tuple ONE COLUMN -/
def toNested : FlagVal → List (List Bool)
  | .flat xs => [xs]
  | .tuple xs => xs.map (fun x => [x])
  | .nested m => m

/-- `BroadcastValue(value=v).iloc(r, c)` = `value[r % len(value)][c % len(value[0])]`;
`none` stands for the `ZeroDivisionError` / `IndexError → ValueError` cases (empty or ragged value) -/
def iloc (m : List (List Bool)) (r c : Nat) : Option Bool :=
  match m with
  | [] => none
  | row0 :: _ =>
    if row0.length = 0 then none
    else match m[r % m.length]? with
      | some row => row[c % row0.length]?
      | none => none

/-- the flag `TextContent.convert` receives at (row, column) of a component -/
def flagAt (v : FlagVal) (r c : Nat) : Option Bool := iloc (toNested v) r c

/-- component kinds with a `text_convert` attribute -/
inductive Comp where
  | title | subline | pageHeader | pageFooter | colHeader | body | footnote | source
  deriving Repr, DecidableEq

def Comp.name : Comp → String
  | .title => "title" | .subline => "subline" | .pageHeader => "page_header" | .pageFooter => "page_footer"
  | .colHeader => "header" | .body => "body" | .footnote => "footnote" | .source => "source"

def allComps : List Comp := [.title, .subline, .pageHeader, .pageFooter, .colHeader, .body, .footnote, .source]

/-- `text_convert` of a default-constructed component as the object holds it (`DefaultsFactory.*`,
`RTFColumnHeader`, `RTFBody.__init__`, `RTFFootnote/RTFSource._get_component_overrides`, validators) -/
def defaultFlag : Comp → FlagVal
  | .title => .tuple [true]
  | .subline => .tuple [false]
  | .pageHeader => .tuple [false]
  | .pageFooter => .tuple [false]
  | .colHeader => .nested [[true]]
  | .body => .nested [[true]]
  | .footnote => .nested [[true]]
  | .source => .nested [[true]]

/-- the documented defaults: on for title, column header, body, footnote, source; off for subline,
page header, page footer -/
def documentedDefault : Comp → Bool
  | .title | .colHeader | .body | .footnote | .source => true
  | .subline | .pageHeader | .pageFooter => false

/-- the generated table row of a component in the model's representation -/
def generatedDefault (c : Comp) : Option FlagVal :=
  (Generated.textConvertDefaults.lookup c.name).map (fun p =>
    if p.1 = 1 then .nested p.2 else if p.1 = 2 then .tuple (p.2.headD []) else .flat (p.2.headD []))

/-- what a text position of a component shows, given the component's flag value -/
def positionText (esc : Str → Str) (v : FlagVal) (r c : Nat) (t : Str) : Option Str :=
  (flagAt v r c).map (fun b => convertSpecial esc b t)

end Model.Convert
