import Model.Encode
import Model.ConvertSpec
/-!
# The domain of C01 for the whole-encoder model (`Model/Encode.lean`)

`InDomain d` is the decidable predicate on the post-construction state `d : Doc` under which
`Props/C01enc.lean` proves that every document the model encoder accepts prints to well-formed RTF.

It says what C01's quantifier says about the USER'S TEXTS and WIDTHS (attribute values need no clause: for values the
constructors do not accept the model returns `.error`):

* texts (cell values, column names used as header, header cells, title / subline / page header / page footer lines,
  footnote / source text) are admissible for the value(s) of the component's `text_convert` attribute:
  - conversion OFF (`rawOk`): no raw `\`, `{`, `}`, CR — apart from the RTF fragments rtflite itself puts into texts:
    `\line ` (the join of footnote lines), `\chpgn `, `\totalpage ` and the field group
    `{\field{\*\fldinst NUMPAGES }}` (the default page header text is `Page \chpgn of {\field{\*\fldinst NUMPAGES }}`);
    a LF is harmless (it is written as a line end of the file);
  - conversion ON (`regular t && evsOk (spec t)`): the text is in the class on which the multi-pass conversion is the
    documented one-pass reading (C11's `regular`), and that reading (`spec`) consists of plain characters other than
    `\ { }` CR, converted LaTeX commands, `^ _ >= <=`, LF, the page keywords `\pagenumber \totalpage \pagefield`,
    and the raw control words `\line ` / `\chpgn ` followed by their blank;
  every text without raw `\ { }` CR (LF allowed) is admissible for BOTH values of the flag
  (`Proofs.ConvNodes.txtOk_of_plain`), so C01's quantifier "no raw `\`, `{`, `}`" lies inside the domain.
* subline_by values are free of `\ { }` CR (the subline heading is escaped only, never converted);
  page_by values are cells and fall under the body's `text_convert` (the spanning row uses the body's flag at row 0,
  or `False` when the attribute holds nothing — `convFlags`);
* widths: `col_rel_width` entries are positive (validated by the constructors), `col_width` is at least half a twip,
  and the FIRST boundary of every row shape (body, each rendered column header, footnote / source as table) rounds to
  a positive twip value — without this clause rtflite writes `\cellx0` (see `Props/C01enc.lean`, finding).
-/
namespace Model.EncodeDomain
open Model.Encode Model.Convert Model.Broadcast

/-- characters a text may contain raw: everything but `\ { }` and CR -/
def plainC (c : Char) : Bool := c != '\\' && c != '{' && c != '}' && c != '\r'

/-- control words rtflite itself writes into texts (always followed by their delimiter blank) -/
def rawWords : List (List Char) := ["line".toList, "chpgn".toList, "totalpage".toList]

/-- `{\field{\*\fldinst NUMPAGES }}` -/
def fieldGrpStr : List Char := "{\\field{\\*\\fldinst NUMPAGES }}".toList

/-- the RTF fragments admitted in a text that is not converted -/
def rawPieces : List (List Char) := rawWords.map (fun w => '\\' :: (w ++ [' '])) ++ [fieldGrpStr]

/-- scan with a skip counter (characters of the current fragment still to be dropped) -/
def rawGo : Nat → List Char → Bool
  | _, [] => true
  | k + 1, _ :: t => rawGo k t
  | 0, c :: t =>
    match rawPieces.find? (fun p => p.isPrefixOf (c :: t)) with
    | some p => rawGo (p.length - 1) t
    | none => plainC c && rawGo 0 t

/-- admissible text when conversion is OFF -/
def rawOk (t : List Char) : Bool := rawGo 0 t

/-- `\line`, `\chpgn`, `\totalpage` as the conversion's reading shows them (an unknown command, kept verbatim) -/
def rawCmd (w : List Char) : Bool :=
  match w with
  | c :: n => c == '\\' && rawWords.contains n
  | [] => false

/-- admissible one-pass reading of a converted text -/
def evsOk : List Event → Bool
  | [] => true
  | .verbatim w :: es =>
    (match es with
     | .plain c :: _ => c == ' ' && rawCmd w
     | _ => false) && evsOk es
  | .plain c :: es => plainC c && evsOk es
  | .mapped c :: es => plainC c && evsOk es
  | _ :: es => evsOk es

/-- admissible text for a given value of the `convert` flag -/
def txtOk (conv : Bool) (t : List Char) : Bool :=
  if conv then regular t && evsOk (spec t) else rawOk t

/-- the scalars an attribute holds -/
def attrVals : Attr → List Val
  | .null => []
  | .scalar v => [v]
  | .list xs => xs
  | .tuple xs => xs
  | .nested m => m.flatten

/-- the values the `convert` flag of a text position of the component can take: the booleans the `text_convert`
attribute holds (through pydantic's coercion), and the default `False` of `encode_spanning_row` when it holds none -/
def convFlags (a : Attr) : List Bool :=
  (match a with
   | .null => [false]
   | .scalar .null => [false]
   | _ => []) ++
  (attrVals a).filterMap fun v => match v.toBool with
    | .ok b => some b
    | .error _ => none

def txtOkAttr (a : Attr) (t : List Char) : Bool := (convFlags a).all fun b => txtOk b t

def posW (w : List Rat) : Bool := w.all fun x => decide (0 < x)

/-- the first boundary rounds to a positive twip value -/
def firstOk (cum : List Rat) : Bool :=
  match cum with
  | [] => true
  | c :: _ => decide (0 < twip c)

def textCompOk (c : Option TextComp) : Bool :=
  match c with
  | none => true
  | some c => (c.text.getD []).all (txtOkAttr c.attrs.convert)

def footOk (W : Rat) (f : Option Foot) : Bool :=
  match f with
  | none => true
  | some f =>
    txtOkAttr f.attrs.convert (f.text.getD []) &&
    (match f.colRelWidth with
     | some w => posW w && firstOk (Widths.colWidths w W)
     | none => true)

def cellsOk (d : Doc) : Bool :=
  d.rows.all fun r => r.all fun c => txtOkAttr d.body.attrs.convert (c.getD [])

def sublineValsOk (d : Doc) : Bool :=
  d.rows.all fun r => (pick d.cols r d.body.sublineByL).all fun v => (v.getD []).all plainC

def bodyWidthOk (d : Doc) : Bool :=
  posW (d.body.colRelWidth.getD []) &&
  (match removedIdx d with
   | .error _ => true
   | .ok removed =>
     firstOk (Widths.bodyCum (d.body.colRelWidth.getD []) (keepMask d.cols.length removed) d.page.colWidth))

/-- the first boundary of the header row as `renderHeader` computes it -/
def headerWidthOk (d : Doc) (h : Header) : Bool :=
  match removedIdx d with
  | .error _ => true
  | .ok removed =>
    let text := match h.text with
      | some t => some t
      | none => if d.body.asColheader then some (dropCols d.cols removed) else none
    match text with
    | none => true
    | some text =>
      let n := text.length
      let hw := h.colRelWidth.map fun w => Widths.headerDisplayed w (keepMask d.cols.length removed) n
      let v := match hw with
        | some (w :: ws) => w :: ws
        | _ => List.replicate n 1
      firstOk (Widths.colWidths v d.page.colWidth)

def headerOk (d : Doc) (h : Header) : Bool :=
  (match h.text with
   | some t => t.all (txtOkAttr h.attrs.convert)
   | none => !d.body.asColheader || d.cols.all (txtOkAttr h.attrs.convert)) &&
  (match h.colRelWidth with
   | some w => posW w
   | none => true) &&
  headerWidthOk d h

def inDomain (d : Doc) : Bool :=
  decide (0 < twip d.page.colWidth) && cellsOk d && sublineValsOk d && bodyWidthOk d &&
  (d.headers.all fun h => match h with
    | some h => headerOk d h
    | none => true) &&
  textCompOk d.title && textCompOk d.subline && textCompOk d.pageHeader && textCompOk d.pageFooter &&
  footOk d.page.colWidth d.footnote && footOk d.page.colWidth d.source

/-- the domain of C01 for the model encoder -/
def InDomain (d : Doc) : Prop := inDomain d = true

instance (d : Doc) : Decidable (InDomain d) := by unfold InDomain; infer_instance

end Model.EncodeDomain
