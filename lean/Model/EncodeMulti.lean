import Model.Encode
/-!
# Executable model of the multi-section table encoder

`UnifiedRTFEncoder._encode_multi_section` (`df` and `rtf_body` are lists).  Per section the code builds a
`model_copy` of the document carrying that section's frame, body and column headers and hands it to
`_encode_body_section`, the pipeline `Model.Encode.encodePages` already models byte for byte.  What is new here is

* the construction of the per-section document (`sectionDoc`):
  - headers: nested format `[[h…], [None], …]` → the section's own list; flat format → the flat list for section 0 and
    `None` for every later section;
  - `rtf_page.border_first = None` for sections after the first, `border_last = None` for all but the last;
  - title and subline text set to `None` for a later section when `page_title == "first"` or the section does not
    start a new page (`not section_body.new_page`);  (the page header / footer texts suppressed next to them are never
    read by `_encode_body_section`, so they have no counterpart here);
  - footnote / source text set to `None` on a non-last section when their placement is `"last"`;
* every section is paginated on its own: its first page has `is_first_page = True`, so no page break separates two
  sections, and `calculate_additional_rows_per_page` sees the section's (flat) header list only;
* the colour context is the whole document's: `collect_document_colors` over all bodies, the text components and the
  flat or nested header lists;
* the preamble is built from the ORIGINAL document (page header / footer not suppressed) and assembled exactly as on the
  single-section path.
-/
namespace Model.EncodeMulti
open Model.Encode Model.Rtf Model.Emit Generated

/-- one entry of `df` / `rtf_body` (and of a nested `rtf_column_header`) -/
structure Section where
  cols : List Str
  rows : List (List (Option Str))
  body : Body
  headers : List (Option Header)       -- nested format only: `rtf_column_header[i]`
  deriving Repr, Inhabited

structure MDoc where
  sections : List Section
  nested : Bool                        -- `is_nested_header_list(rtf_column_header)`
  flatHeaders : List (Option Header)   -- flat format: `rtf_column_header`
  page : Page
  pageHeader : Option TextComp
  pageFooter : Option TextComp
  title : Option TextComp
  subline : Option TextComp
  footnote : Option Foot
  source : Option Foot
  deriving Repr, Inhabited

/-! ## colours: `collect_document_colors` over the whole document -/

def bodyColorComp (b : TblAttrsOf Attr) : Color.Comp :=
  { textColor := toColorAttr b.color, bgColor := toColorAttr b.bg,
    borderColors := [b.bcLeft, b.bcRight, b.bcTop, b.bcBottom, b.bcFirst, b.bcLast].map toColorAttr }

/-- the six text components in the order the code visits them -/
def textColorComps (title subline : Option TextComp) (footnote source : Option Foot)
    (pageHeader pageFooter : Option TextComp) : List Color.Comp :=
  ([title, subline].filterMap id).map (fun t => textColorComp t.attrs) ++
  ([footnote, source].filterMap id).map (fun f => bodyColorComp f.attrs) ++
  ([pageHeader, pageFooter].filterMap id).map (fun t => textColorComp t.attrs)

def headerColorComps (hs : List (Option Header)) : List Color.Comp :=
  (hs.filterMap id).map fun h => bodyColorComp h.attrs

/-- every header object of the document, flat or nested -/
def MDoc.allHeaders (d : MDoc) : List (Option Header) :=
  if d.nested then d.sections.flatMap (·.headers) else d.flatHeaders

def colorDocM (d : MDoc) : Color.Doc :=
  { bodies := d.sections.map fun s => bodyColorComp s.body.attrs,
    texts := textColorComps d.title d.subline d.footnote d.source d.pageHeader d.pageFooter,
    headers := headerColorComps d.allHeaders }

def ctxOfColors (c : Color.Doc) : ColorCtx :=
  let used := Color.collect c
  { used := used, rows := Color.tableRows colorTable used }

/-! ## the per-section document -/

def dropText (c : Option TextComp) : Option TextComp := c.map fun c => { c with text := none }

def dropFootText (f : Option Foot) : Option Foot := f.map fun f => { f with text := none }

/-- the `temp_document` of section `i` of `n` -/
def sectionDoc (d : MDoc) (n i : Nat) (s : Section) : Doc :=
  let later := decide (0 < i)
  let nonLast := decide (i + 1 < n)
  -- `(page_title == "first") or (not section_body.new_page)`
  let noTitle := later && (d.page.pageTitle == .first || !s.body.newPage)
  { cols := s.cols, rows := s.rows,
    page := { d.page with borderFirst := if later then "" else d.page.borderFirst,
                          borderLast := if nonLast then "" else d.page.borderLast },
    pageHeader := d.pageHeader, pageFooter := d.pageFooter,
    title := if noTitle then dropText d.title else d.title,
    subline := if noTitle then dropText d.subline else d.subline,
    headers := if d.nested then s.headers else if i == 0 then d.flatHeaders else [],
    body := s.body,
    footnote := if nonLast && d.page.pageFootnote == .last then dropFootText d.footnote else d.footnote,
    source := if nonLast && d.page.pageSource == .last then dropFootText d.source else d.source }

def sectionDocs (d : MDoc) : List Doc :=
  d.sections.zipIdx.map fun (s, i) => sectionDoc d d.sections.length i s

/-! ## assembly -/

/-- everything before the pages: document start, font table, colour table, `{\header}`, `{\footer}`, page settings,
joined by `"\n"` as in `_encode_with_context` / `_encode_multi_section` -/
def preamble (k : ColorCtx) (page : Page) (pageHeader pageFooter : Option TextComp) : Except String (List Node) := do
  let fontTbl ← match Color.fontTableText fontTable with
    | .ok s => pure s
    | .error _ => throw "ValueError"
  let colorTbl ← match Color.generateColorTable colorTable (some k.used) with
    | .ok s => pure s
    | .error _ => throw "ValueError"
  return [cw0 "ansi", Node.nl, cwi "deff" 0, cwi "deflang" 1033, Node.nl] ++ textNodes fontTbl.toList ++ [Node.nl] ++
    textNodes colorTbl.toList ++ [Node.nl, Node.nl, Node.nl] ++ (← pageHF k "header" pageHeader) ++ [Node.nl] ++
    (← pageHF k "footer" pageFooter) ++ [Node.nl] ++ (← pageSettings page) ++ [Node.nl]

/-- `all_section_content`: the chunks of every section, in order (+ near-boundary line estimates) -/
def encodeSections (measure : Measure) (k : ColorCtx) (d : MDoc) : Except String (List Elem × Nat) := do
  let parts ← (sectionDocs d).mapM fun sd => encodePages measure k sd
  return (parts.flatMap (·.1), (parts.map (·.2)).foldl (· + ·) 0)

def encodeWithM (measure : Measure) (d : MDoc) : Except String (DocG × Nat) := do
  let k := ctxOfColors (colorDocM d)
  let (elems, near) ← encodeSections measure k d
  let head ← preamble k d.page d.pageHeader d.pageFooter
  return ({ head := head, blocks := joinElems elems ++ [BlockG.plain [Node.nl, Node.nl, Node.nl, Node.nl]] }, near)

def encodeM (measure : Measure) (d : MDoc) : Except String DocG := (·.1) <$> encodeWithM measure d

/-- the string `rtf_encode()` returns for a multi-section document -/
def encodeTextM (measure : Measure) (d : MDoc) : Except String (List Char) := printDoc <$> encodeM measure d

/-! ## a single frame under a nested header list

`RTFDocument(df=<one frame>, rtf_column_header=[[h…], …])` is rejected at construction, but the list can be assigned
afterwards; the single-section path then meets the nested branches of `calculate_additional_rows_per_page`
(every non-`None` header with text of every non-empty section counts one row), `_render_column_headers`
(`headers_to_process.extend(section)` for every non-empty section), `PageFeatureProcessor` (entries flattened) and
`collect_document_colors`.  All four read the nested list as its concatenation. -/

def encodeWithNested1 (measure : Measure) (d : Doc) (hs : List (List (Option Header))) : Except String (DocG × Nat) :=
  encodeWith measure { d with headers := hs.flatten }

/-- twip conversions near a rounding boundary, over all section documents -/
def nearTwipsM (d : MDoc) : Nat := ((sectionDocs d).map nearTwips).foldl (· + ·) 0

end Model.EncodeMulti
