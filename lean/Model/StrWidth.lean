import Generated.Constants
import Generated.Fonts
/-!
# Model of `rtflite.strwidth.get_string_width`  (property C20)

```
get_string_width(text, font, font_size, unit, dpi)
  font : int  → RTF_FONT_NAMES[font]      (ValueError if absent)      -- Generated.fontNumberToName
  name        → _FONT_PATHS[name]         (ValueError if absent)      -- Generated.fontPaths
  ImageFont.truetype(path, size=font_size)                            -- Pillow: ValueError if size <= 0
  width_px = font_obj.getlength(text)                                 -- parameter `measure`
  unit ∉ {px,in,mm} → ValueError          (raised AFTER measuring)
  px: x     in: x / dpi     mm: (x / dpi) * 25.4
```

The external call (`Pillow → libraqm → HarfBuzz → FreeType`) is the parameter `measure`; two layers describe it:

* **L1 (all fonts)** – `px64`: a left fold over the characters.  Pillow's default layout engine is *raqm*
  (whenever libraqm is available, as it is here): the text is cut into **script runs**
  (`_raqm_resolve_scripts`: Common/Inherited characters take the script of the preceding real-script
  character, paired brackets remember the script of their opening bracket, leading Common characters
  join the first real script) and every run is shaped on its own, so pair kerning never applies across
  a run boundary.  With a per-(font, size) advance table `adv` and pair table `kern` (26.6 fixed point):
  `px64 t = Σᵢ adv tᵢ + Σ_{i : tᵢ, tᵢ₊₁ in the same run} kern tᵢ tᵢ₊₁`, and `getlength = px64 / 64`.
  (The BASIC layout engine is the same fold with every character in one run.)
* **L2 (fonts in which no alphabet glyph is touched by a substitution / contextual lookup and whose GPOS
  kerning equals the legacy `kern` table: the three Liberation faces)** – the tables themselves, from the font file:
  `n = ⌊64·size⌋` (Pillow casts `size*64` to `FT_F26Dot6`), `x_scale = FT_DivFix(n, upem)`,
  `adv g = (FT_MulDiv(hmtx g, x_scale, 64) + 512) >> 10`  (`FT_Get_Advance` unhinted, 16.16, rounded to
  26.6 by `hb-ft`), `kern a b = (kern_units a b · x_mult + 0x8000) >> 16` with HarfBuzz's
  `x_mult = (hb_x_scale << 16) / upem`, `hb_x_scale = (x_scale · upem + 0x8000) >> 16`.

Floats are modelled as exact rationals (`Rat`); `25.4` is `127/5`.
-/
namespace Model.StrWidth
open Generated

inductive Err
  | valueError
  | zeroDivisionError
  deriving DecidableEq, Repr

/-! ## fixed-point primitives (FreeType `ftcalc.c`, HarfBuzz `hb-font.hh`, `hb-ft.cc`) -/

/-- sign of a product as FreeType computes it -/
def sgn2 (a b : Int) : Int := if (decide (a < 0)) != (decide (b < 0)) then -1 else 1

/-- `FT_MulFix(a, b) = sign · ((|a|·|b| + 0x8000) >> 16)` -/
def ftMulFix (a b : Int) : Int :=
  sgn2 a b * (((a.natAbs * b.natAbs + 0x8000) / 65536 : Nat) : Int)

/-- `FT_DivFix(a, b) = sign · (((|a| << 16) + (|b| >> 1)) / |b|)`, `0x7FFFFFFF` for `b = 0` -/
def ftDivFix (a b : Int) : Int :=
  if b = 0 then 0x7FFFFFFF
  else sgn2 a b * (((a.natAbs * 65536 + b.natAbs / 2) / b.natAbs : Nat) : Int)

/-- `FT_MulDiv(a, b, c) = sign · ((|a|·|b| + (|c| >> 1)) / |c|)` for `c ≠ 0` -/
def ftMulDiv (a b c : Int) : Int :=
  if c = 0 then 0x7FFFFFFF
  else sgn2 (a * b) c * (((a.natAbs * b.natAbs + c.natAbs / 2) / c.natAbs : Nat) : Int)

/-- arithmetic right shift of a signed value (`>>` on `int64_t`) = floor division -/
def asr (x : Int) (k : Nat) : Int := x / (2 ^ k : Nat)

/-- the 26.6 character size FreeType receives: Pillow passes `(FT_F26Dot6)(size * 64)` — a C cast,
i.e. truncation (`size > 0`, so floor) -/
def size26_6 (size : Rat) : Nat := (size * 64).floor.toNat

/-- `face->size->metrics.x_scale = FT_DivFix(n, units_per_EM)` (nominal request at 72 dpi) -/
def xScale (n upem : Nat) : Int := ftDivFix n upem

/-- `hb-ft`: `FT_Get_Advance(face, g, FT_LOAD_NO_HINTING)` yields `FT_MulDiv(units, x_scale, 64)` in 16.16;
HarfBuzz rounds it to 26.6 with `(v + (1<<9)) >> 10`. -/
def hbAdvance (units : Nat) (scale : Int) : Int := asr (ftMulDiv units scale 64 + 512) 10

/-- `hb_ft_font_changed`: `hb_font_set_scale(font, (x_scale·upem + (1<<15)) >> 16)` -/
def hbXScale (n upem : Nat) : Int := asr (xScale n upem * upem + 0x8000) 16

/-- `hb_font_t::mults_changed`: `x_mult = ((int64_t) x_scale << 16) / upem` -/
def hbXMult (n upem : Nat) : Int := Int.tdiv (hbXScale n upem * 65536) upem

/-- `hb_font_t::em_mult(v, mult) = (v · mult + 32768) >> 16` (GPOS value records) -/
def hbEmMult (v mult : Int) : Int := asr (v * mult + 0x8000) 16

/-! ## L1: the additive model with script runs -/

structure Metrics where
  /-- advance of a character's glyph, 26.6 -/
  adv : Char → Int
  /-- pair adjustment between two characters shaped in the same run, 26.6 -/
  kern : Char → Char → Int

/-- what libraqm needs to know about characters: Unicode script (0 = Common, 1 = Inherited, anything
else a real script) and the paired-bracket table (pair id, is-opening). -/
structure Env where
  script : Char → Nat
  pair : Char → Option (Nat × Bool)

structure St where
  /-- accumulated width, 26.6 -/
  acc : Int
  /-- previous character and its resolved script (`none` = still unresolved leading Common) -/
  prev : Option (Char × Option Nat)
  /-- raqm's `last_script_value` (`none` while `last_script_index == -1`) -/
  last : Option Nat
  /-- raqm's bracket stack: (script, pair id) -/
  stack : List (Nat × Nat)

def St.init : St := ⟨0, none, none, []⟩

/-- pop until the top entry carries pair id `id` -/
def popTo (id : Nat) : List (Nat × Nat) → List (Nat × Nat)
  | [] => []
  | (s, i) :: rest => if i = id then (s, i) :: rest else popTo id rest

/-- `_raqm_resolve_scripts`, one character: resolved script, new `last`, new stack -/
def resolve (e : Env) (last : Option Nat) (stack : List (Nat × Nat)) (c : Char) :
    Option Nat × Option Nat × List (Nat × Nat) :=
  let s := e.script c
  if s = 0 then
    match last with
    | none => (none, none, stack)
    | some l =>
      match e.pair c with
      | some (id, true) => (some l, some l, (l, id) :: stack)
      | some (id, false) =>
        match popTo id stack with
        | [] => (some l, some l, [])
        | (s', i) :: rest => (some s', some s', (s', i) :: rest)
      | none => (some l, some l, stack)
  else if s = 1 then
    match last with
    | none => (none, none, stack)
    | some l => (some l, some l, stack)
  else (some s, some s, stack)

/-- two neighbours are shaped together iff their resolved scripts agree; an unresolved leading Common
character joins whatever follows (it is back-filled with the first real script) -/
def joined (prev : Option Nat) (cur : Option Nat) : Bool := prev.isNone || prev == cur

/-- what appending `c` adds to the width, given the previous character -/
def increment (m : Metrics) (prev : Option (Char × Option Nat)) (cur : Option Nat) (c : Char) : Int :=
  match prev with
  | none => m.adv c
  | some (p, ps) => m.adv c + (if joined ps cur then m.kern p c else 0)

def step (m : Metrics) (e : Env) (st : St) (c : Char) : St :=
  let r := resolve e st.last st.stack c
  ⟨st.acc + increment m st.prev r.1 c, some (c, r.1), r.2.1, r.2.2⟩

def run (m : Metrics) (e : Env) (st : St) (t : List Char) : St := t.foldl (step m e) st

/-- width in 1/64 px -/
def px64 (m : Metrics) (e : Env) (t : List Char) : Int := (run m e St.init t).acc

/-- `getlength` -/
def measureL1 (m : Metrics) (e : Env) (t : List Char) : Rat := (px64 m e t : Rat) / 64

/-! ### the environment of this installation -/

/-- Unicode script of the alphabet characters (generated table); anything else counts as Common -/
def scriptOf (c : Char) : Nat := (alphabet.lookup c.toNat).getD 0

/-- libraqm's paired characters that lie in the alphabet -/
def pairOf (c : Char) : Option (Nat × Bool) :=
  if c = '(' then some (0, true) else if c = ')' then some (0, false)
  else if c = '<' then some (2, true) else if c = '>' then some (2, false)
  else if c = '[' then some (4, true) else if c = ']' then some (4, false)
  else if c = '{' then some (6, true) else if c = '}' then some (6, false)
  else if c = '«' then some (8, true) else if c = '»' then some (8, false)
  else none

def raqmEnv : Env := ⟨scriptOf, pairOf⟩

/-- the BASIC layout engine: one run -/
def basicEnv : Env := ⟨fun _ => 0, fun _ => none⟩

/-! ## L2: the tables from the font file -/

/-- hmtx advance of the glyph a character maps to; `.notdef` for characters outside the cmap -/
def unitsAdv (f : FontData) (c : Char) : Nat :=
  match f.glyphs.lookup c.toNat with
  | some (_, a) => a
  | none => f.notdef

def kernLookup (k : List (Nat × Nat × Int)) (l r : Nat) : Int :=
  match k.find? (fun e => e.1 == l && e.2.1 == r) with
  | some e => e.2.2
  | none => 0

/-- kerning in font units between the glyphs of two characters -/
def unitsKern (f : FontData) (a b : Char) : Int :=
  match f.glyphs.lookup a.toNat, f.glyphs.lookup b.toNat with
  | some (ga, _), some (gb, _) => kernLookup f.kern ga gb
  | _, _ => 0

def libMetrics (f : FontData) (n : Nat) : Metrics where
  adv c := hbAdvance (unitsAdv f c) (xScale n f.upem)
  kern a b := hbEmMult (unitsKern f a b) (hbXMult n f.upem)

/-- fonts for which L2 is claimed: no alphabet glyph is touched by a default-on substitution or contextual
positioning lookup (so shaping is glyph-by-glyph with pair positioning only), and pair positioning is
exactly the legacy `kern` table (present in both forms, or absent in both) -/
def isL2 (f : FontData) : Bool := f.ctx.isEmpty && (f.gposKern == f.legacyKern)

def fontByFile (file : String) : Option FontData := fonts.find? (fun f => f.file == file)

/-- `getlength` under L2 -/
def measureL2 (f : FontData) (size : Rat) (t : List Char) : Rat :=
  measureL1 (libMetrics f (size26_6 size)) raqmEnv t

/-- width in font units (what the width would be at 1 px per unit, no rounding) -/
def unitsRun (f : FontData) (e : Env) (t : List Char) : Int :=
  px64 ⟨fun c => unitsAdv f c, unitsKern f⟩ e t

/-! ## `get_string_width` -/

inductive FontArg
  | num (n : Int)
  | name (s : String)
  deriving Repr

def fontName (font : FontArg) : Except Err String :=
  match font with
  | .num n =>
    if n < 0 then .error .valueError
    else match fontNumberToName.lookup n.toNat with
      | some nm => .ok nm
      | none => .error .valueError
  | .name s => .ok s

def fontPath (font : FontArg) : Except Err String := do
  let nm ← fontName font
  match fontPaths.lookup nm with
  | some p => .ok p
  | none => .error .valueError

/-- unit conversion; an unknown unit is a `ValueError`, a zero dpi a `ZeroDivisionError` (only when the
unit divides) -/
def convert (unit : String) (dpi px : Rat) : Except Err Rat :=
  if unit = "px" then .ok px
  else if unit = "in" then (if dpi = 0 then .error .zeroDivisionError else .ok (px / dpi))
  else if unit = "mm" then (if dpi = 0 then .error .zeroDivisionError else .ok (px / dpi * (127 / 5)))
  else .error .valueError

/-- `measure path size text` stands for `ImageFont.truetype(path, size).getlength(text)` -/
def getStringWidth (measure : String → Rat → List Char → Rat)
    (text : List Char) (font : FontArg) (size : Rat) (unit : String) (dpi : Rat) : Except Err Rat := do
  let path ← fontPath font
  if size ≤ 0 then .error .valueError          -- Pillow: "font size must be greater than 0"
  else
    let px := measure path size text            -- measured before the unit is looked at
    convert unit dpi px

/-- the measure of this installation for the fonts L2 covers (0 elsewhere: not modelled at L2) -/
def measureModel (path : String) (size : Rat) (t : List Char) : Rat :=
  match fontByFile path with
  | some f => if isL2 f then measureL2 f size t else 0
  | none => 0

/-! ## specification predicates (decidable; evaluated by the driver on the implementation's output) -/

def rabs (x : Rat) : Rat := if x < 0 then -x else x
def rmax (x y : Rat) : Rat := if x ≤ y then y else x

/-- `x` and `y` agree to relative tolerance `tol` -/
def relClose (tol x y : Rat) : Bool := decide (rabs (x - y) ≤ tol * rmax (rabs x) (rabs y))

/-- "results in in, mm and px are exact unit conversions of one another" -/
def unitsOK (tol dpi wpx win wmm : Rat) : Bool :=
  relClose tol wmm (127 / 5 * win) && relClose tol wpx (dpi * win)

/-- "width scales with font size to within one percent": the widths per unit of size differ by at most
1 % of the larger -/
def scaleOK (s1 w1 s2 w2 : Rat) : Bool :=
  decide (100 * rabs (w1 / s1 - w2 / s2) ≤ rmax (w1 / s1) (w2 / s2))

/-- the same relation on 26.6 integers (`w₁/n₁` vs `w₂/n₂`, cross-multiplied) -/
def scaleOK64 (n1 : Nat) (w1 : Int) (n2 : Nat) (w2 : Int) : Bool :=
  decide (100 * (w1 * n2 - w2 * n1).natAbs ≤ (max (w1 * n2) (w2 * n1)).toNat)

/-- "for the monospaced font it equals character count times the single-character advance" -/
def monoOK (len : Nat) (adv w : Rat) : Bool := decide (w = len * adv)

/-- "appending characters never decreases the width" over a chain of prefixes; also non-negativity -/
def chainOK : List Rat → Bool
  | [] => true
  | [x] => decide (0 ≤ x)
  | x :: y :: rest => decide (0 ≤ x) && decide (x ≤ y) && chainOK (y :: rest)

/-- table hypotheses of the theorems, on a finite alphabet -/
def tableViolations (m : Metrics) (alpha : List Char) : List (Char × Char) :=
  (alpha.filter (fun c => m.adv c < 0)).map (fun c => (c, c)) ++
  (alpha.flatMap fun a => (alpha.filter (fun b => m.adv b + m.kern a b < 0)).map (fun b => (a, b)))

end Model.StrWidth
