import Generated.Constants
import Generated.Fonts
/-!
# Model of `rtflite.strwidth.get_string_width`  (property C20)

```
get_string_width(text, font, font_size, unit, dpi)
  font : int  → RTF_FONT_NAMES[font]      (ValueError if absent)      -- Generated.fontNumberToName
  name        → _FONT_PATHS[name]         (ValueError if absent)      -- Generated.fontPaths
  ImageFont.truetype(path, size=font_size)                            -- Pillow: ValueError if size <= 0
  width_px = font_obj.getlength(text)                                 -- parameter `measure`
  unit ∉ {px,in,mm} → ValueError          (raised AFTER measuring)
  px: x     in: x / dpi     mm: (x / dpi) * 25.4
```

The external call (`Pillow → libraqm → HarfBuzz → FreeType`) is the parameter `measure`; two layers describe it:

* **L1 (all fonts)** – `px64`: a left fold over the characters.  Pillow's default layout engine is *raqm*
  (whenever libraqm is available, as it is here): the text is cut into **script runs**
  (`_raqm_resolve_scripts`: Common/Inherited characters take the script of the preceding real-script
  character, paired brackets remember the script of their opening bracket, leading Common characters
  join the first real script) and every run is shaped on its own, so pair kerning never applies across
  a run boundary.  With a per-(font, size) advance table `adv` and pair table `kern` (26.6 fixed point):
  `px64 t = Σᵢ adv tᵢ + Σ_{i : tᵢ, tᵢ₊₁ in the same run} kern tᵢ tᵢ₊₁`, and `getlength = px64 / 64`.
  (The BASIC layout engine is the same fold with every character in one run.)
* **L2 (fonts in which no alphabet glyph is touched by a substitution / contextual lookup and whose GPOS
  kerning equals the legacy `kern` table: the three Liberation faces)** – the tables themselves, from the font file:
  `n = ⌊64·size⌋` (Pillow casts `size*64` to `FT_F26Dot6`), `x_scale = FT_DivFix(n, upem)`,
  `adv g = (FT_MulDiv(hmtx g, x_scale, 64) + 512) >> 10`  (`FT_Get_Advance` unhinted, 16.16, rounded to
  26.6 by `hb-ft`), `kern a b = (kern_units a b · x_mult + 0x8000) >> 16` with HarfBuzz's
  `x_mult = (hb_x_scale << 16) / upem`, `hb_x_scale = (x_scale · upem + 0x8000) >> 16`.

Floats are modelled as exact rationals (`Rat`); `25.4` is `127/5`.
-/
namespace Model.StrWidth
open Generated

inductive Err
  | valueError
  | zeroDivisionError
  /-- only the value-level model (`getStringWidthV`) raises it: an unhashable font / unit, a size that cannot be
  compared with 0, a text Pillow cannot take the length of, a dpi that cannot divide a float -/
  | typeError
  deriving DecidableEq, Repr

/-! ## fixed-point primitives (FreeType `ftcalc.c`, HarfBuzz `hb-font.hh`, `hb-ft.cc`) -/

/-- sign of a product as FreeType computes it -/
def sgn2 (a b : Int) : Int := if (decide (a < 0)) != (decide (b < 0)) then -1 else 1

/-- `FT_MulFix(a, b) = sign · ((|a|·|b| + 0x8000) >> 16)` -/
def ftMulFix (a b : Int) : Int :=
  sgn2 a b * (((a.natAbs * b.natAbs + 0x8000) / 65536 : Nat) : Int)

/-- `FT_DivFix(a, b) = sign · (((|a| << 16) + (|b| >> 1)) / |b|)`, `0x7FFFFFFF` for `b = 0` -/
def ftDivFix (a b : Int) : Int :=
  if b = 0 then 0x7FFFFFFF
  else sgn2 a b * (((a.natAbs * 65536 + b.natAbs / 2) / b.natAbs : Nat) : Int)

/-- `FT_MulDiv(a, b, c) = sign · ((|a|·|b| + (|c| >> 1)) / |c|)` for `c ≠ 0` -/
def ftMulDiv (a b c : Int) : Int :=
  if c = 0 then 0x7FFFFFFF
  else sgn2 (a * b) c * (((a.natAbs * b.natAbs + c.natAbs / 2) / c.natAbs : Nat) : Int)

/-- arithmetic right shift of a signed value (`>>` on `int64_t`) = floor division -/
def asr (x : Int) (k : Nat) : Int := x / (2 ^ k : Nat)

/-- the 26.6 character size FreeType receives: Pillow passes `(FT_F26Dot6)(size * 64)` — a C cast,
i.e. truncation (`size > 0`, so floor) -/
def size26_6 (size : Rat) : Nat := (size * 64).floor.toNat

/-- `face->size->metrics.x_scale = FT_DivFix(n, units_per_EM)` (nominal request at 72 dpi) -/
def xScale (n upem : Nat) : Int := ftDivFix n upem

/-- `hb-ft`: `FT_Get_Advance(face, g, FT_LOAD_NO_HINTING)` yields `FT_MulDiv(units, x_scale, 64)` in 16.16;
HarfBuzz rounds it to 26.6 with `(v + (1<<9)) >> 10`. -/
def hbAdvance (units : Nat) (scale : Int) : Int := asr (ftMulDiv units scale 64 + 512) 10

/-- `hb_ft_font_changed`: `hb_font_set_scale(font, (x_scale·upem + (1<<15)) >> 16)` -/
def hbXScale (n upem : Nat) : Int := asr (xScale n upem * upem + 0x8000) 16

/-- `hb_font_t::mults_changed`: `x_mult = ((int64_t) x_scale << 16) / upem` -/
def hbXMult (n upem : Nat) : Int := Int.tdiv (hbXScale n upem * 65536) upem

/-- `hb_font_t::em_mult(v, mult) = (v · mult + 32768) >> 16` (GPOS value records) -/
def hbEmMult (v mult : Int) : Int := asr (v * mult + 0x8000) 16

/-! ## L1: the additive model with script runs -/

structure Metrics where
  /-- advance of a character's glyph, 26.6 -/
  adv : Char → Int
  /-- pair adjustment between two characters shaped in the same run, 26.6 -/
  kern : Char → Char → Int

/-- what libraqm needs to know about characters: Unicode script (0 = Common, 1 = Inherited, anything
else a real script) and the paired-bracket table (pair id, is-opening). -/
structure Env where
  script : Char → Nat
  pair : Char → Option (Nat × Bool)

structure St where
  /-- accumulated width, 26.6 -/
  acc : Int
  /-- previous character and its resolved script (`none` = still unresolved leading Common) -/
  prev : Option (Char × Option Nat)
  /-- raqm's `last_script_value` (`none` while `last_script_index == -1`) -/
  last : Option Nat
  /-- raqm's bracket stack: (script, pair id) -/
  stack : List (Nat × Nat)

def St.init : St := ⟨0, none, none, []⟩

/-- pop until the top entry carries pair id `id` -/
def popTo (id : Nat) : List (Nat × Nat) → List (Nat × Nat)
  | [] => []
  | (s, i) :: rest => if i = id then (s, i) :: rest else popTo id rest

/-- `_raqm_resolve_scripts`, one character: resolved script, new `last`, new stack -/
def resolve (e : Env) (last : Option Nat) (stack : List (Nat × Nat)) (c : Char) :
    Option Nat × Option Nat × List (Nat × Nat) :=
  let s := e.script c
  if s = 0 then
    match last with
    | none => (none, none, stack)
    | some l =>
      match e.pair c with
      | some (id, true) => (some l, some l, (l, id) :: stack)
      | some (id, false) =>
        match popTo id stack with
        | [] => (some l, some l, [])
        | (s', i) :: rest => (some s', some s', (s', i) :: rest)
      | none => (some l, some l, stack)
  else if s = 1 then
    match last with
    | none => (none, none, stack)
    | some l => (some l, some l, stack)
  else (some s, some s, stack)

/-- two neighbours are shaped together iff their resolved scripts agree; an unresolved leading Common
character joins whatever follows (it is back-filled with the first real script) -/
def joined (prev : Option Nat) (cur : Option Nat) : Bool := prev.isNone || prev == cur

/-- what appending `c` adds to the width, given the previous character -/
def increment (m : Metrics) (prev : Option (Char × Option Nat)) (cur : Option Nat) (c : Char) : Int :=
  match prev with
  | none => m.adv c
  | some (p, ps) => m.adv c + (if joined ps cur then m.kern p c else 0)

def step (m : Metrics) (e : Env) (st : St) (c : Char) : St :=
  let r := resolve e st.last st.stack c
  ⟨st.acc + increment m st.prev r.1 c, some (c, r.1), r.2.1, r.2.2⟩

def run (m : Metrics) (e : Env) (st : St) (t : List Char) : St := t.foldl (step m e) st

/-- width in 1/64 px -/
def px64 (m : Metrics) (e : Env) (t : List Char) : Int := (run m e St.init t).acc

/-- `getlength` -/
def measureL1 (m : Metrics) (e : Env) (t : List Char) : Rat := (px64 m e t : Rat) / 64

/-! ### the environment of this installation -/

/-- Unicode script of the alphabet characters (generated table); anything else counts as Common -/
def scriptOf (c : Char) : Nat := (alphabet.lookup c.toNat).getD 0

/-- libraqm's paired characters that lie in the alphabet -/
def pairOf (c : Char) : Option (Nat × Bool) :=
  if c = '(' then some (0, true) else if c = ')' then some (0, false)
  else if c = '<' then some (2, true) else if c = '>' then some (2, false)
  else if c = '[' then some (4, true) else if c = ']' then some (4, false)
  else if c = '{' then some (6, true) else if c = '}' then some (6, false)
  else if c = '«' then some (8, true) else if c = '»' then some (8, false)
  else none

def raqmEnv : Env := ⟨scriptOf, pairOf⟩

/-- the BASIC layout engine: one run -/
def basicEnv : Env := ⟨fun _ => 0, fun _ => none⟩

/-! ## L2: the tables from the font file -/

/-- hmtx advance of the glyph a character maps to; `.notdef` for characters outside the cmap -/
def unitsAdv (f : FontData) (c : Char) : Nat :=
  match f.glyphs.lookup c.toNat with
  | some (_, a) => a
  | none => f.notdef

def kernLookup (k : List (Nat × Nat × Int)) (l r : Nat) : Int :=
  match k.find? (fun e => e.1 == l && e.2.1 == r) with
  | some e => e.2.2
  | none => 0

/-- kerning in font units between the glyphs of two characters -/
def unitsKern (f : FontData) (a b : Char) : Int :=
  match f.glyphs.lookup a.toNat, f.glyphs.lookup b.toNat with
  | some (ga, _), some (gb, _) => kernLookup f.kern ga gb
  | _, _ => 0

def libMetrics (f : FontData) (n : Nat) : Metrics where
  adv c := hbAdvance (unitsAdv f c) (xScale n f.upem)
  kern a b := hbEmMult (unitsKern f a b) (hbXMult n f.upem)

/-- fonts for which L2 is claimed: no alphabet glyph is touched by a default-on substitution or contextual
positioning lookup (so shaping is glyph-by-glyph with pair positioning only), and pair positioning is
exactly the legacy `kern` table (present in both forms, or absent in both) -/
def isL2 (f : FontData) : Bool := f.ctx.isEmpty && (f.gposKern == f.legacyKern)

def fontByFile (file : String) : Option FontData := fonts.find? (fun f => f.file == file)

/-- `getlength` under L2 -/
def measureL2 (f : FontData) (size : Rat) (t : List Char) : Rat :=
  measureL1 (libMetrics f (size26_6 size)) raqmEnv t

/-- width in font units (what the width would be at 1 px per unit, no rounding) -/
def unitsRun (f : FontData) (e : Env) (t : List Char) : Int :=
  px64 ⟨fun c => unitsAdv f c, unitsKern f⟩ e t

/-! ## `get_string_width` -/

inductive FontArg
  | num (n : Int)
  | name (s : String)
  deriving Repr

def fontName (font : FontArg) : Except Err String :=
  match font with
  | .num n =>
    if n < 0 then .error .valueError
    else match fontNumberToName.lookup n.toNat with
      | some nm => .ok nm
      | none => .error .valueError
  | .name s => .ok s

def fontPath (font : FontArg) : Except Err String := do
  let nm ← fontName font
  match fontPaths.lookup nm with
  | some p => .ok p
  | none => .error .valueError

/-- unit conversion; an unknown unit is a `ValueError`, a zero dpi a `ZeroDivisionError` (only when the
unit divides) -/
def convert (unit : String) (dpi px : Rat) : Except Err Rat :=
  if unit = "px" then .ok px
  else if unit = "in" then (if dpi = 0 then .error .zeroDivisionError else .ok (px / dpi))
  else if unit = "mm" then (if dpi = 0 then .error .zeroDivisionError else .ok (px / dpi * (127 / 5)))
  else .error .valueError

/-- `measure path size text` stands for `ImageFont.truetype(path, size).getlength(text)` -/
def getStringWidth (measure : String → Rat → List Char → Rat)
    (text : List Char) (font : FontArg) (size : Rat) (unit : String) (dpi : Rat) : Except Err Rat := do
  let path ← fontPath font
  if size ≤ 0 then .error .valueError          -- Pillow: "font size must be greater than 0"
  else
    let px := measure path size text            -- measured before the unit is looked at
    convert unit dpi px

/-! ## `get_string_width` over Python *values*  (argument validation for every value class)

The function is annotated `font: FontName | FontNumber`, `unit: Unit`, but nothing checks the annotations: any
Python object can arrive in any argument.  `Val` is the small value type over which the statement's last clause
("unsupported fonts or units raise ValueError") is stated for **every** value class, not only for unsupported
strings and out-of-range ints.  What the code does with a value, stage by stage (unchanged tree):

```
isinstance(font, int)            int, bool (True == 1)        → RTF_FONT_NAMES lookup, ValueError if absent
                                 anything else (numpy ints!)  → the value itself is the key
key not in _FONT_PATHS           unhashable key               → TypeError (hash)         -- not a ValueError
                                 str (also numpy.str_) in it  → path
                                 anything else                → ValueError
ImageFont.truetype(size=…)       `size <= 0` not comparable   → TypeError
                                 size <= 0                    → ValueError
                                 nan, +inf, < 0.5, > 1000 …   → FreeType (OSError or a width): not modelled
font.getlength(text)             str → measure; bytes → Pillow measures them (not modelled); else TypeError
unit not in conversions          unhashable → TypeError; str in {px,in,mm} → conversion; else ValueError
conversions[unit](px)            px: dpi never looked at;  in/mm: `px / dpi` — Python number 0 → ZeroDivisionError,
                                 numpy zero → inf + warning (not modelled), non-number → TypeError
```
-/

/-- a Python value as a caller can pass it in any of the five arguments -/
inductive Val
  /-- `None` -/
  | null
  | bool (b : Bool)
  | int (i : Int)
  /-- a finite `float`, exact value -/
  | float (q : Rat)
  | nan
  | inf (neg : Bool)
  | str (s : String)
  | bytes
  /-- a tuple is hashable iff all its elements are -/
  | tuple (hashable : Bool)
  /-- `list`, `dict`, `set`: unhashable builtin containers -/
  | list
  /-- `numpy.ndarray` (unhashable; arithmetic broadcasts) -/
  | ndarray
  /-- numpy integer scalar: **not** an `int` instance, hashes and compares like the int -/
  | npInt (i : Int)
  /-- numpy floating scalar (finite) -/
  | npFloat (q : Rat)
  | npBool (b : Bool)
  /-- `numpy.str_`: a `str` subclass, hashes and compares like the `str` -/
  | npStr (s : String)
  /-- any other hashable object that equals no number and no string (`complex` with an imaginary part,
  `frozenset`, a class, …) -/
  | other
  deriving DecidableEq, Repr

/-- a computation stage of the value-level model -/
inductive Stage (α : Type)
  | ok (a : α)
  | raises (e : Err)
  /-- the call reaches Pillow / FreeType / numpy with a value whose handling this model does not describe -/
  | unmodelled
  deriving Repr

def Stage.bind {α β : Type} (x : Stage α) (f : α → Stage β) : Stage β :=
  match x with
  | .ok a => f a
  | .raises e => .raises e
  | .unmodelled => .unmodelled

def Stage.ofExcept {α : Type} : Except Err α → Stage α
  | .ok a => .ok a
  | .error e => .raises e

def Val.hashable : Val → Bool
  | .tuple h => h
  | .list => false
  | .ndarray => false
  | _ => true

/-- `isinstance(v, int)` and the int it is -/
def Val.pyInt? : Val → Option Int
  | .int i => some i
  | .bool b => some (if b then 1 else 0)
  | _ => Option.none

/-- the (finite) number arithmetic and `==` see in a value, and whether it is a numpy scalar -/
def Val.num? : Val → Option (Rat × Bool)
  | .bool b => some (if b then 1 else 0, false)
  | .int i => some (i, false)
  | .float q => some (q, false)
  | .npInt i => some (i, true)
  | .npFloat q => some (q, true)
  | .npBool b => some (if b then 1 else 0, true)
  | _ => Option.none

/-- the `str` a value is (`str` or a subclass) -/
def Val.str? : Val → Option String
  | .str s => some s
  | .npStr s => some s
  | _ => Option.none

/-- `key in d` / `d[key]` for a dict `d` whose keys are all `str` -/
def strKeyLookup {β : Type} (table : List (String × β)) (key : Val) : Except Err (Option β) :=
  if key.hashable then
    match key.str? with
    | some s => .ok (table.lookup s)
    | none => .ok none
  else .error .typeError

/-- the key looked up in `_FONT_PATHS` -/
def fontKeyV (font : Val) : Except Err Val :=
  match font.pyInt? with
  | some n =>
    match fontName (.num n) with
    | .ok nm => .ok (.str nm)
    | .error e => .error e
  | none => .ok font

def fontPathV (font : Val) : Except Err String :=
  match fontKeyV font with
  | .error e => .error e
  | .ok key =>
    match strKeyLookup fontPaths key with
    | .error e => .error e
    | .ok (some p) => .ok p
    | .ok none => .error .valueError

/-- sizes FreeType is known to accept (measured: 0.5 … 40000 work, below 0.5 "invalid ppem value") -/
def pillowSize (q : Rat) : Bool := decide (1 / 2 ≤ q) && decide (q ≤ 1000)

/-- `ImageFont.truetype(path, size=size)` -/
def sizeStage (size : Val) : Stage Rat :=
  match size with
  | .nan => .unmodelled
  | .inf neg => if neg then .raises .valueError else .unmodelled
  | .ndarray => .unmodelled
  | v =>
    match v.num? with
    | some (q, _) =>
      if q ≤ 0 then .raises .valueError        -- "font size must be greater than 0"
      else if pillowSize q then .ok q else .unmodelled
    | none => .raises .typeError                -- `size <= 0`

/-- `font_obj.getlength(text)` -/
def textStage (text : Val) : Stage (List Char) :=
  match text with
  | .str s => .ok s.toList
  | .npStr s => .ok s.toList
  | .bytes => .unmodelled
  | _ => .raises .typeError

/-- magnitudes for which float division neither overflows nor underflows on the widths in question -/
def floatRange (q : Rat) : Bool := decide (1 / 2 ^ 900 ≤ rabs' q) && decide (rabs' q ≤ 2 ^ 900)
  where rabs' (x : Rat) : Rat := if x < 0 then -x else x

/-- the divisor of `x / dpi` -/
def dpiStage (dpi : Val) : Stage Rat :=
  match dpi with
  | .nan => .unmodelled
  | .inf _ => .unmodelled
  | .ndarray => .unmodelled
  | .other => .unmodelled                       -- complex divides, frozenset does not
  | v =>
    match v.num? with
    | some (q, np) =>
      if q = 0 then (if np then .unmodelled else .raises .zeroDivisionError)
      else if floatRange q then .ok q else .unmodelled
    | none => .raises .typeError

/-- `if unit not in conversions: raise ValueError` … `conversions[unit](width_px)` -/
def convertV (unit dpi : Val) (px : Rat) : Stage Rat :=
  if unit.hashable then
    match unit.str? with
    | some u =>
      if u = "px" then .ok px                   -- dpi is never looked at
      else if u = "in" ∨ u = "mm" then (dpiStage dpi).bind fun d => .ofExcept (convert u d px)
      else .raises .valueError
    | none => .raises .valueError
  else .raises .typeError

/-- the whole function over values -/
def getStringWidthV (measure : String → Rat → List Char → Rat) (text font size unit dpi : Val) : Stage Rat :=
  match fontPathV font with
  | .error e => .raises e
  | .ok path =>
    (sizeStage size).bind fun q =>
    (textStage text).bind fun t =>
    convertV unit dpi (measure path q t)

/-! ### what the statement says about a value (specification level; does not look at the model above) -/

/-- the ten RTF fonts as the property documents them ("all 10 fonts by number and by name") -/
def specFontNames : List String :=
  ["Times New Roman", "Times New Roman Greek", "Arial Greek", "Arial", "Helvetica", "Calibri", "Georgia", "Cambria",
   "Courier New", "Symbol"]

def specUnits : List String := ["in", "mm", "px"]

/-- how the statement's last clause reads an argument value -/
inductive ArgClass
  /-- one of the documented values, in its documented type: must be accepted -/
  | supported
  /-- another type whose value *equals* a documented one (`True == 1`, `4.0 == 4`, `numpy.int64(4)`,
  `numpy.str_("Arial")`): the statement does not say which side it falls on — accepted (a width) or refused
  (then with `ValueError`), nothing else -/
  | lenient
  /-- equals no documented value: must be refused with `ValueError`, whatever its type -/
  | unsupported
  /-- unhashable values (list, dict, set, ndarray, tuples containing them): they raised `TypeError` from the
  dictionary lookup before any change; recorded, not judged -/
  | free
  deriving DecidableEq, Repr

def isFontNumber (q : Rat) : Bool := (List.range 10).any fun k => q == ((k + 1 : Nat) : Rat)

def fontClass (v : Val) : ArgClass :=
  if v.hashable then
    match v with
    | .int i => if 1 ≤ i ∧ i ≤ 10 then .supported else .unsupported
    | .str s => if specFontNames.contains s then .supported else .unsupported
    | .npStr s => if specFontNames.contains s then .lenient else .unsupported
    | v =>
      match v.num? with
      | some (q, _) => if isFontNumber q then .lenient else .unsupported
      | none => .unsupported
  else .free

def unitClass (v : Val) : ArgClass :=
  if v.hashable then
    match v with
    | .str s => if specUnits.contains s then .supported else .unsupported
    | .npStr s => if specUnits.contains s then .lenient else .unsupported
    | _ => .unsupported
  else .free

/-- the other three arguments inside the statement's quantifier: a `str` text, a size in 4..48 and a dpi in
36..600 given as any real-number type (int, float, numpy integer / floating scalar) -/
def textInDomain : Val → Bool
  | .str _ => true
  | _ => false

def numIn (lo hi : Rat) : Val → Bool
  | .int i => decide (lo ≤ (i : Rat)) && decide ((i : Rat) ≤ hi)
  | .float q => decide (lo ≤ q) && decide (q ≤ hi)
  | .npInt i => decide (lo ≤ (i : Rat)) && decide ((i : Rat) ≤ hi)
  | .npFloat q => decide (lo ≤ q) && decide (q ≤ hi)
  | _ => false

def sizeInDomain (v : Val) : Bool := numIn 4 48 v
def dpiInDomain (v : Val) : Bool := numIn 36 600 v

/-- what the statement demands of one call -/
inductive Expect
  | valueError
  | width
  /-- a width or a `ValueError` (a lenient value decides which) -/
  | either
  /-- the statement does not speak about this call -/
  | free
  deriving DecidableEq, Repr

def expected (text font size unit dpi : Val) : Expect :=
  if textInDomain text && sizeInDomain size && dpiInDomain dpi then
    match fontClass font, unitClass unit with
    | .free, _ => .free
    | _, .free => .free
    | .unsupported, _ => .valueError
    | _, .unsupported => .valueError
    | .supported, .supported => .width
    | _, _ => .either
  else .free

/-- does an outcome meet the demand -/
def meets : Expect → Stage Rat → Bool
  | .free, _ => true
  | .valueError, .raises .valueError => true
  | .width, .ok _ => true
  | .either, .ok _ => true
  | .either, .raises .valueError => true
  | _, _ => false

/-- the measure of this installation for the fonts L2 covers (0 elsewhere: not modelled at L2) -/
def measureModel (path : String) (size : Rat) (t : List Char) : Rat :=
  match fontByFile path with
  | some f => if isL2 f then measureL2 f size t else 0
  | none => 0

/-! ## specification predicates (decidable; evaluated by the driver on the implementation's output) -/

def rabs (x : Rat) : Rat := if x < 0 then -x else x
def rmax (x y : Rat) : Rat := if x ≤ y then y else x

/-- `x` and `y` agree to relative tolerance `tol` -/
def relClose (tol x y : Rat) : Bool := decide (rabs (x - y) ≤ tol * rmax (rabs x) (rabs y))

/-- "results in in, mm and px are exact unit conversions of one another" -/
def unitsOK (tol dpi wpx win wmm : Rat) : Bool :=
  relClose tol wmm (127 / 5 * win) && relClose tol wpx (dpi * win)

/-- "width scales with font size to within one percent": the widths per unit of size differ by at most
1 % of the larger -/
def scaleOK (s1 w1 s2 w2 : Rat) : Bool :=
  decide (100 * rabs (w1 / s1 - w2 / s2) ≤ rmax (w1 / s1) (w2 / s2))

/-- the same relation on 26.6 integers (`w₁/n₁` vs `w₂/n₂`, cross-multiplied) -/
def scaleOK64 (n1 : Nat) (w1 : Int) (n2 : Nat) (w2 : Int) : Bool :=
  decide (100 * (w1 * n2 - w2 * n1).natAbs ≤ (max (w1 * n2) (w2 * n1)).toNat)

/-- "for the monospaced font it equals character count times the single-character advance" -/
def monoOK (len : Nat) (adv w : Rat) : Bool := decide (w = len * adv)

/-- "appending characters never decreases the width" over a chain of prefixes; also non-negativity -/
def chainOK : List Rat → Bool
  | [] => true
  | [x] => decide (0 ≤ x)
  | x :: y :: rest => decide (0 ≤ x) && decide (x ≤ y) && chainOK (y :: rest)

/-- table hypotheses of the theorems, on a finite alphabet -/
def tableViolations (m : Metrics) (alpha : List Char) : List (Char × Char) :=
  (alpha.filter (fun c => m.adv c < 0)).map (fun c => (c, c)) ++
  (alpha.flatMap fun a => (alpha.filter (fun b => m.adv b + m.kern a b < 0)).map (fun b => (a, b)))

end Model.StrWidth
