/-
Model of the column-width path of rtflite (property C08), import-free and executable.

  * `Utils._col_widths` (row.py)                         → `cumFrom` / `colWidths`
  * `RTFMeasurements.inch_to_twip` = `round(x * 1440)`   → `roundHalfEven` / `twip`
  * `RTFDocument.__init__` width resolution (encode.py:
    `_resolve_body_widths`, `_inherit_header_widths`)    → `resolveBody`, `inheritHeader`, `construct`
  * `prepare_dataframe_for_body_encoding` width slicing   → `bodyProcessed`
  * `_encode_body_section` choice of the width vector     → `bodyCum`
  * `TableAttributes._encode`: `\cellx` of cell j is
    `inch_to_twip(col_widths[j])`, j < number of cells     → `rowCellx`
  * `PageRenderer._render_column_headers` +
    `encode_column_header` (`col_rel_width or [1]*ncells`) → `headerDisplayed`, `headerRow`
  * `encode_spanning_row` (`col_width or 8.5`)            → `spanRow`
  * `encode_footnote` / `encode_source` as table          → `footRow`

Python floats are modelled by exact rationals (`Rat`) carrying the exact value of each float
(`float.as_integer_ratio()`); rounding error inside `w * col_width / total` is not modelled, the
harness detects and counts cases near a rounding boundary (`nearHalf`).

Columns removed from the display by page_by / subline_by are described by a mask
`keep : List Bool` over the ORIGINAL columns (`true` = still displayed).
-/
namespace Model.Widths

inductive Err where
  | indexError        -- `col_widths[j]` with j ≥ len(col_widths)
  | zeroDivision      -- `width * col_width / total_width` with total 0
  deriving Repr, DecidableEq, Inhabited

deriving instance DecidableEq for Except

/-! ## `round` and `inch_to_twip` -/

/-- Python `round(x)` for a float with exact value `x`: nearest integer, ties to even. -/
def roundHalfEven (x : Rat) : Int :=
  let f := x.floor
  if 2 * (x - f) < 1 then f
  else if 1 < 2 * (x - f) then f + 1
  else if f % 2 = 0 then f else f + 1

/-- `RTFMeasurements.inch_to_twip`: `round(inches * 1440)`. -/
def twip (x : Rat) : Int := roundHalfEven (x * 1440)

/-- Is `x` within `eps` of a rounding boundary `n + 1/2` (ties included)?  Used only by the
harness to exclude comparisons that depend on float rounding error. -/
def nearHalf (eps x : Rat) : Bool :=
  let d := 2 * (x - x.floor) - 1      -- twice the signed distance to the boundary
  decide (-(2 * eps) < d ∧ d < 2 * eps)

/-- exact tie -/
def isTie (x : Rat) : Bool := decide (2 * (x - x.floor) = 1)

/-! ## `Utils._col_widths` -/

/-- Python `sum(rel_widths)` (exact arithmetic: order of additions is immaterial). -/
def sumQ : List Rat → Rat
  | [] => 0
  | x :: xs => x + sumQ xs

/-- The list comprehension with the walrus accumulator:
`cumulative_sum := cumulative_sum + (width * col_width / total_width)`. -/
def cumFrom (tot W : Rat) (acc : Rat) : List Rat → List Rat
  | [] => []
  | w :: ws => (acc + w * W / tot) :: cumFrom tot W (acc + w * W / tot) ws

def colWidths (w : List Rat) (W : Rat) : List Rat := cumFrom (sumQ w) W 0 w

/-- With the `ZeroDivisionError` branch made explicit (an empty list never divides). -/
def colWidthsE (w : List Rat) (W : Rat) : Except Err (List Rat) :=
  if w ≠ [] ∧ sumQ w = 0 then .error .zeroDivision else .ok (colWidths w W)

/-- running sums `[w0, w0+w1, …]` started at `s` — the specification side of `cumFrom` -/
def prefFrom (s : Rat) : List Rat → List Rat
  | [] => []
  | w :: ws => (s + w) :: prefFrom (s + w) ws

/-- exact proportional position of boundary `k` in inches: `W · (Σ_{i≤k} w_i) / Σ w` -/
def exactPositions (w : List Rat) (W : Rat) : List Rat :=
  (prefFrom 0 w).map (fun p => p * W / sumQ w)

/-! ## construction (`RTFDocument.__init__`) -/

/-- `_resolve_body_widths`: `None` → `[1]*ncol`; one element and more than one column → broadcast;
otherwise the user's list as it is (whatever its length). -/
def resolveBody (uw : Option (List Rat)) (ncol : Nat) : List Rat :=
  match uw with
  | none => List.replicate ncol 1
  | some [x] => if ncol > 1 then List.replicate ncol x else [x]
  | some l => l

/-- `_inherit_header_widths`: a header without widths takes a copy of the body's resolved vector
(one entry per ORIGINAL column — column removal happens later, at encode time). -/
def inheritHeader (hw : Option (List Rat)) (bodyW : List Rat) : List Rat :=
  match hw with
  | none => bodyW
  | some l => l

/-- One construction step seen from a caller-owned body object whose `col_rel_width` is `obj`:
returns the widths the new document holds and the state of the caller's object afterwards.
Since commit 6e822b0 the resolved widths go into a copy, the caller's object is not written. -/
def construct (obj : Option (List Rat)) (ncol : Nat) : List Rat × Option (List Rat) :=
  (resolveBody obj ncol, obj)

/-- the same caller-owned object used for a sequence of documents with column counts `ns` -/
def constructMany (obj : Option (List Rat)) : List Nat → List (List Rat) × Option (List Rat)
  | [] => ([], obj)
  | n :: ns =>
    let (w, obj') := construct obj n
    let (rest, objEnd) := constructMany obj' ns
    (w :: rest, objEnd)

/-- behaviour before 6e822b0 (kept for the record: the second document inherited the first one's widths) -/
def constructOld (obj : Option (List Rat)) (ncol : Nat) : List Rat × Option (List Rat) :=
  (resolveBody obj ncol, some (resolveBody obj ncol))

/-! ### sections of ONE document that list the same body object

`rtf_body` of a multi-section document is a list of REFERENCES: `rtf_body=[body] * n` lists one caller-owned object
for every section.  `objs` is the store of the distinct body objects (their `col_rel_width` as configured), a section
is `(index of its body object in the store, column count of its frame)`.  The multi-section branch of
`RTFDocument.__init__` calls `_resolve_body_widths(section_body, section_df.shape[1])` once PER SECTION, each call is
one `construct` step on the object the section references. -/

/-- a reference outside the store stands for an object without widths -/
def objAt (objs : List (Option (List Rat))) (r : Nat) : Option (List Rat) := objs.getD r none

/-- → (the widths each section of the document holds, the store afterwards) -/
def constructSections (objs : List (Option (List Rat))) :
    List (Nat × Nat) → List (List Rat) × List (Option (List Rat))
  | [] => ([], objs)
  | (r, n) :: rest =>
    let (w, obj') := construct (objAt objs r) n
    let (ws, objsEnd) := constructSections (objs.set r obj') rest
    (w :: ws, objsEnd)

/-- NOT the code: resolution once per DISTINCT object (memo on the reference), every later section that lists the same
object gets the vector resolved for the first one.  Kept for the record of what the per-section call is there for
(`C08_sections_memo_witness`). -/
def constructSectionsMemo (objs : List (Option (List Rat))) (memo : List (Nat × List Rat)) :
    List (Nat × Nat) → List (List Rat)
  | [] => []
  | (r, n) :: rest =>
    match memo.lookup r with
    | some w => w :: constructSectionsMemo objs memo rest
    | none =>
      let w := resolveBody (objAt objs r) n
      w :: constructSectionsMemo objs ((r, w) :: memo) rest

/-! ## column removal -/

/-- entries of `l` whose column is still displayed (`zip` semantics: stops at the shorter list) -/
def slice : List Rat → List Bool → List Rat
  | w :: ws, k :: ks => if k then w :: slice ws ks else slice ws ks
  | _, _ => []

def nDisplayed (keep : List Bool) : Nat := keep.count true

def anyRemoved (keep : List Bool) : Bool := keep.any (fun b => !b)

/-- `prepare_dataframe_for_body_encoding`: when at least one column is removed and the width
vector has one entry per original column it is sliced, otherwise it stays. -/
def bodyProcessed (bw : List Rat) (keep : List Bool) : List Rat :=
  if anyRemoved keep && decide (bw.length = keep.length) then slice bw keep else bw

/-- `_encode_body_section`: `if processed_attrs.col_rel_width:` (a non-empty list) use it, else
`[1] * displayed columns`; table width `col_width if not None else 8.5` (never `None` after
`RTFPage._set_default`, so `W` is passed as is). -/
def bodyCum (bw : List Rat) (keep : List Bool) (W : Rat) : List Rat :=
  let pw := bodyProcessed bw keep
  if pw.isEmpty then colWidths (List.replicate (nDisplayed keep) 1) W else colWidths pw W

/-! ## rows

Every row shape is first computed in inches (`…Q`, exact rationals = what `Cell.width` holds) and
then converted cell by cell with `twip` (`Cell._as_rtf`: `\cellx{inch_to_twip(width)}`). -/

/-- `TableAttributes._encode`: cell j gets `width = col_widths[j]`;
a row with more cells than widths raises `IndexError`. -/
def rowQ (cum : List Rat) (ncells : Nat) : Except Err (List Rat) :=
  if ncells ≤ cum.length then .ok (cum.take ncells) else .error .indexError

def toTwips (r : Except Err (List Rat)) : Except Err (List Int) :=
  match r with
  | .ok l => .ok (l.map twip)
  | .error e => .error e

/-- every data row of a section (the frame has `nDisplayed keep` columns) -/
def dataRowQ (bw : List Rat) (keep : List Bool) (W : Rat) : Except Err (List Rat) :=
  rowQ (bodyCum bw keep W) (nDisplayed keep)

def dataRow (bw : List Rat) (keep : List Bool) (W : Rat) : Except Err (List Int) :=
  toTwips (dataRowQ bw keep W)

/-- `_render_column_headers` (repaired): a header width vector with one entry per original column,
on a header whose text has one cell per displayed column, is sliced like the body's. -/
def headerDisplayed (hw : List Rat) (keep : List Bool) (ncells : Nat) : List Rat :=
  if anyRemoved keep && decide (hw.length = keep.length) && decide (ncells = nDisplayed keep)
  then slice hw keep else hw

/-- the unrepaired renderer: the header keeps its vector (defect D9) -/
def headerDisplayedOld (hw : List Rat) (_keep : List Bool) (_ncells : Nat) : List Rat := hw

/-- `encode_column_header`: `col_rel_width or [1] * ncells`, then `_col_widths`, then `_encode`
on a one-row frame with `ncells` cells. -/
def headerRowQWith (disp : List Rat → List Bool → Nat → List Rat)
    (hw : List Rat) (keep : List Bool) (ncells : Nat) (W : Rat) : Except Err (List Rat) :=
  let d := disp hw keep ncells
  let v := if d.isEmpty then List.replicate ncells 1 else d
  rowQ (colWidths v W) ncells

def headerRowQ := headerRowQWith headerDisplayed
def headerRow (hw : List Rat) (keep : List Bool) (ncells : Nat) (W : Rat) : Except Err (List Int) :=
  toTwips (headerRowQ hw keep ncells W)
def headerRowOld (hw : List Rat) (keep : List Bool) (ncells : Nat) (W : Rat) : Except Err (List Int) :=
  toTwips (headerRowQWith headerDisplayedOld hw keep ncells W)

/-- `encode_spanning_row(page_width = col_width or 8.5)`: one cell of that width. -/
def spanRowQ (W : Rat) : List Rat := [if W = 0 then 17 / 2 else W]
def spanRow (W : Rat) : List Int := (spanRowQ W).map twip

/-- footnote / source rendered as table: `_col_widths(col_rel_width, col_width)` and one cell. -/
def footRowQ (fw : List Rat) (W : Rat) : Except Err (List Rat) := rowQ ((colWidths fw W).getLast?.toList) 1
def footRow (fw : List Rat) (W : Rat) : Except Err (List Int) := toTwips (footRowQ fw W)

/-! ## a table section as the property sees it -/

/-- a column header row: number of text cells and the user's own widths (`none` = inherit) -/
structure Header where
  ncells : Nat
  own : Option (List Rat)
  deriving Repr, Inhabited

structure Section where
  ncol : Nat                       -- columns of the frame given by the user
  keep : List Bool                 -- mask of displayed columns (length ncol)
  userW : Option (List Rat)        -- RTFBody(col_rel_width=…) as the user wrote it
  headers : List Header
  footW : Option (List Rat)        -- `some w` when a footnote is rendered as table
  srcW : Option (List Rat)         -- `some w` when a source is rendered as table
  W : Rat                          -- rtf_page.col_width
  deriving Repr, Inhabited

inductive Kind where
  | header (idx : Nat) (inherited : Bool)
  | span
  | data
  | foot
  | source
  deriving Repr, DecidableEq, Inhabited

def optRowQ (k : Kind) (o : Option (List Rat)) (W : Rat) : Except Err (List (Kind × List Rat)) :=
  match o with
  | none => .ok []
  | some fw => do let r ← footRowQ fw W; pure [(k, r)]

def headerRowsQ (bw : List Rat) (keep : List Bool) (W : Rat) :
    Nat → List Header → Except Err (List (Kind × List Rat))
  | _, [] => .ok []
  | i, h :: hs => do
    let r ← headerRowQ (inheritHeader h.own bw) keep h.ncells W
    let rest ← headerRowsQ bw keep W (i + 1) hs
    pure ((Kind.header i h.own.isNone, r) :: rest)

/-- the distinct row shapes of one section in inches: header rows, the spanning-row shape, the
data-row shape, footnote and source rows -/
def sectionRowsQ (s : Section) : Except Err (List (Kind × List Rat)) := do
  let bw := resolveBody s.userW s.ncol
  let hs ← headerRowsQ bw s.keep s.W 0 s.headers
  let d ← dataRowQ bw s.keep s.W
  let f ← optRowQ .foot s.footW s.W
  let g ← optRowQ .source s.srcW s.W
  pure (hs ++ [(Kind.span, spanRowQ s.W), (Kind.data, d)] ++ f ++ g)

/-- … and as `\cellx` vectors -/
def sectionRows (s : Section) : Except Err (List (Kind × List Int)) :=
  match sectionRowsQ s with
  | .ok rows => .ok (rows.map fun (k, r) => (k, r.map twip))
  | .error e => .error e

/-! ## the decidable specification (oracle), evaluated on the implementation's rows -/

/-- "ends at the configured table width in twips"; `eps > 0` tolerates either neighbour when the
exact value sits on a rounding boundary (float error decides there), `eps = 0` is exact. -/
def edgeOk (eps W : Rat) (cellx : List Int) : Bool :=
  match cellx.getLast? with
  | none => false
  | some c =>
    c == twip W || (nearHalf eps (W * 1440) && (c == (W * 1440).floor || c == (W * 1440).floor + 1))

/-- "to within one twip" of the exact proportional position -/
def withinOne (c : Int) (e : Rat) : Bool := decide ((c : Rat) - 1 ≤ e ∧ e ≤ (c : Rat) + 1)

def allWithinOne : List Int → List Rat → Bool
  | [], [] => true
  | c :: cs, e :: es => withinOne c (e * 1440) && allWithinOne cs es
  | _, _ => false

/-- the `\\cellx` vector of the first data row among the observed rows -/
def dataVecOf (rows : List (Kind × List Int)) : Option (List Int) :=
  (rows.find? (fun r => r.1 == Kind.data)).map (·.2)

/-- Violated clauses of C08 for one observed row.
`dispW` = relative widths of the displayed columns (what the user asked for);
`dataVec` = boundary vector of the data rows of the same section. -/
def rowViol (eps W : Rat) (dispW : List Rat) (dataVec : Option (List Int)) (k : Kind) (cx : List Int) :
    List String :=
  (if edgeOk eps W cx then [] else ["right-edge"]) ++
  (match k with
   | .data => if allWithinOne cx (exactPositions dispW W) then [] else ["proportional"]
   | .header _ true =>
     (match dataVec with
      | some d => if cx == d then [] else ["header-alignment"]
      | none => [])
   | _ => [])

def checkFrom (eps W : Rat) (dispW : List Rat) (dataVec : Option (List Int)) :
    Nat → List (Kind × List Int) → List (Nat × String)
  | _, [] => []
  | i, (k, cx) :: rs =>
    (rowViol eps W dispW dataVec k cx).map (fun c => (i, c)) ++ checkFrom eps W dispW dataVec (i + 1) rs

/-- Violated clauses of C08 for the rows observed in one table section (row index, clause). -/
def checkRows (eps W : Rat) (dispW : List Rat) (rows : List (Kind × List Int)) : List (Nat × String) :=
  checkFrom eps W dispW (dataVecOf rows) 0 rows

end Model.Widths
