import Model.EncodeAccepted
import Model.EncodeMulti
import Model.EncodeFigure
/-!
# What the constructors guarantee of a multi-section and of a figure-only document

Continuation of `Model/EncodeAccepted.lean` for the two remaining encoder models, `Model.EncodeMulti.encodeM`
(`_encode_multi_section`) and `Model.EncodeFigure.encodeWithF` (`_encode_figure_only`).  `Props/C01totalmore.lean`
proves

    AcceptedM d → ShapesInQuantifierM d → MeasureOkM measure d →
      (∃ g, encodeM measure d = .ok g) ∨
      (encodeM measure d = .error "ValueError" ∧ the group_by keys of some section are not contiguous)

    AcceptedF d → ShapesInQuantifierF d → ∃ g n, encodeWithF d = .ok (some g, n)        (no refusal at all)

## multi-section (`df` and `rtf_body` are lists)

`acceptedM` is stated on the components of the document as the constructors leave them — every clause names its
validator — and NOT on the per-section `temp_document`s; that every `temp_document` (`sectionDoc`) is an accepted
single-section state is a theorem (`Proofs.EncodeTotalMore.accepted_sectionDoc`), which is how the single-section
totality theorem is reused.  `RTFDocument.validate_column_names` checks the sections one by one
(`_validate_section_columns(section_df, section_body, i)`), `RTFDocument.__init__` resolves the widths of every body
against its own frame (`_resolve_body_widths`) and lets the headers of section `i` (nested format) or the flat header
list (first section) inherit them (`_inherit_header_widths`).

`shapesInQuantifierM` and `measureOkM` are properties of the `temp_document`s by nature (which header rows meet which
frame, which widths the pagination of that section asks for): they are the single-section predicates on every
`sectionDoc`, plus the page header / footer shapes of the original document, from which the preamble is built (they
matter on their own only for a document without sections, `df=[]`).

## figure-only (`df is None`)

`acceptedF`: `RTFDocument.validate_column_names` (at least one figure; `as_table=False` on footnote and source),
`RTFFigure.validate_figure_data` (every file has a format the encoder can embed — `_determine_image_format`; of the
two ways the code knows a format the model represents the extension table, not the `mimetypes` fallback: a `.jpe`
file is accepted and embedded by rtflite and outside `acceptedF`), `validate_positive_dimensions` (non-empty lists of
positive sizes), `validate_alignment`, and the validators of the page and the text components as on the table paths.
`rtf_body` / `rtf_column_header` of a figure document are only read for their colours.

`shapesInQuantifierF`: the text attributes of title, subline, page header, page footer, footnote and source have a
shape of C01's quantifier.  Footnote and source are rendered paragraph-style, so only their TEXT attributes are read:
`RTFFootnote(text="x", as_table=False, border_left=[])` encodes on the figure path (real code and model), while
`text_font=[]` raises `ZeroDivisionError` there as everywhere.

## outside the state space (domain decisions, not findings)

Sizes are `Rat` and a figure enters with the bytes of its file, so two classes of configurations the constructors
accept and `rtf_encode()` raises on have no counterpart here; C01 quantifies over finite paper / font sizes and image
FILES, C19 over non-positive values and missing files.  Replayed on /repo `d8df873`
(`df = pl.DataFrame({"a": ["x"]})`, `D = rtf.RTFDocument`, `inf = float("inf")`, `nan = float("nan")`):

* NON-FINITE FLOATS pass every `> 0` validator (`inf > 0`; `nan <= 0` is `False`):
  `D(rtf_figure=RTFFigure(figures="a.png", fig_width=inf))` → `OverflowError` (`int(width * 1440)`),
  `fig_height=nan` → `ValueError` ("cannot convert float NaN to integer");
  `D(df=df, rtf_page=RTFPage(height=inf))`, `RTFPage(margin=[inf,1,1,1,1,1])`, `RTFBody(cell_height=inf)`,
  `RTFTitle(text="t", text_font_size=inf)` → `OverflowError` (`nan`: `ValueError`);
  `RTFBody(col_rel_width=[inf])` → `ValueError` (`inf / inf`); `RTFBody(text_font_size=inf)` → `OSError` (Pillow);
  `RTFPage(width=inf)` / `col_width=inf` die at construction, with the bare `ValueError` / `OverflowError` of `int()`.
* A DIRECTORY whose name ends in `.png` is accepted as a figure (`validate_figure_data` tests `Path.exists()`):
  `os.mkdir("e.png"); D(rtf_figure=RTFFigure(figures="e.png")).rtf_encode()` → `IsADirectoryError`.
  (Likewise a file removed between construction and `rtf_encode()`: the figures are read at encode time.)
* Construction-time (C19's ground): `D(df=[], rtf_body=[])` with the DEFAULT `rtf_column_header` → bare `IndexError`
  (`self.rtf_body[0]`; with `rtf_column_header=[]` the document is accepted and encodes to the preamble — the
  zero-section `MDoc`); `rtf_column_header=((h,), (None,))` (tuples; the field type is `Sequence[Sequence[…]]`,
  `__init__` tests `isinstance(…, list)`) → `AttributeError`; a flat tuple `(h,)` works.
  `mimetypes` accepts `x.png.gz` as PNG (the gzip bytes are embedded as `\pngblip`): encodes, no raise.
-/
namespace Model.EncodeAcceptedMore
open Model.Encode Model.EncodeAccepted Model.EncodeMulti Model.EncodeFigure Generated

/-! ## multi-section -/

/-- the frame and body of one section, as the document the single-section predicates read (`frameAcc` and `bodyAcc`
look at `cols`, `rows` and `body` only) -/
def secDoc (s : Section) : Doc := { (default : Doc) with cols := s.cols, rows := s.rows, body := s.body }

/-- one entry of `df` / `rtf_body` / a nested `rtf_column_header`: a polars frame; the `RTFBody` validators,
`_validate_section_columns(section_df, section_body, i)` and `_resolve_body_widths` (`bodyAcc`); the
`RTFColumnHeader` validators and `_inherit_header_widths(header, section_body)` on the section's own headers -/
def sectionAcc (s : Section) : Bool :=
  frameAcc (secDoc s) && bodyAcc (secDoc s) && s.headers.all headerAcc

/-- **the post-construction state of a multi-section document** -/
def acceptedM (d : MDoc) : Bool :=
  pageAcc d.page && d.sections.all sectionAcc && d.flatHeaders.all headerAcc &&
  textCompAcc d.pageHeader && textCompAcc d.pageFooter && textCompAcc d.title && textCompAcc d.subline &&
  footAcc d.footnote && footAcc d.source

def AcceptedM (d : MDoc) : Prop := acceptedM d = true

instance (d : MDoc) : Decidable (AcceptedM d) := by unfold AcceptedM; infer_instance

/-- the attribute shapes of C01's quantifier, section by section (+ the preamble's page header / footer) -/
def shapesInQuantifierM (d : MDoc) : Bool :=
  (sectionDocs d).all shapesInQuantifier && textCompShape d.pageHeader && textCompShape d.pageFooter

def ShapesInQuantifierM (d : MDoc) : Prop := shapesInQuantifierM d = true

instance (d : MDoc) : Decidable (ShapesInQuantifierM d) := by unfold ShapesInQuantifierM; infer_instance

/-- every `(text, font, size)` the paginations of the sections pass to `get_string_width` -/
def requestsM (d : MDoc) : List (Str × Int × Rat) := (sectionDocs d).flatMap requests

def measureOkM (measure : Measure) (d : MDoc) : Bool := (sectionDocs d).all (measureOk measure)

def MeasureOkM (measure : Measure) (d : MDoc) : Prop := measureOkM measure d = true

instance (measure : Measure) (d : MDoc) : Decidable (MeasureOkM measure d) := by unfold MeasureOkM; infer_instance

/-- the group_by keys of EVERY section are contiguous (decidable twin of `∀ sd ∈ sectionDocs d, GroupKeysContiguous sd`) -/
def groupKeysContiguousM (d : MDoc) : Bool := (sectionDocs d).all groupKeysContiguous

/-! ## figure-only -/

/-- `RTFFigure.validate_positive_dimensions` (after `convert_dimensions` made a list of a scalar) -/
def dimsAcc (w : List Rat) : Bool := !w.isEmpty && posW w

/-- `RTFFigure.validate_alignment` -/
def alignAcc (a : String) : Bool := a == "left" || a == "center" || a == "right"

/-- `validate_column_names`: "When using RTFFigure, RTFFootnote / RTFSource must have as_table=False" -/
def footAccF (f : Option Foot) : Bool :=
  footAcc f && (match f with
    | none => true
    | some f => !f.asTable)

def bodyAccF (b : Option (TblAttrsOf Attr)) : Bool :=
  match b with
  | none => true
  | some b => TblAttrsOf.zipAll accAttr tblSpec b

/-- **the post-construction state of a figure-only document** -/
def acceptedF (d : FDoc) : Bool :=
  !d.figs.isEmpty && (d.figs.all fun f => (Figure.fmtOfSuffix f.suffix).isSome) &&
  dimsAcc d.widths && dimsAcc d.heights && alignAcc d.align && pageAcc d.page &&
  textCompAcc d.pageHeader && textCompAcc d.pageFooter && textCompAcc d.title && textCompAcc d.subline &&
  footAccF d.footnote && footAccF d.source && bodyAccF d.body && d.headers.all headerAcc

def AcceptedF (d : FDoc) : Prop := acceptedF d = true

instance (d : FDoc) : Decidable (AcceptedF d) := by unfold AcceptedF; infer_instance

/-- a paragraph-rendered footnote / source: the text attributes only -/
def footShapeF (f : Option Foot) : Bool :=
  match f with
  | none => true
  | some f => TextAttrsOf.zipAll shpAttr textSpec f.attrs.toTextAttrsOf

def shapesInQuantifierF (d : FDoc) : Bool :=
  textCompShape d.pageHeader && textCompShape d.pageFooter && textCompShape d.title && textCompShape d.subline &&
  footShapeF d.footnote && footShapeF d.source

def ShapesInQuantifierF (d : FDoc) : Prop := shapesInQuantifierF d = true

instance (d : FDoc) : Decidable (ShapesInQuantifierF d) := by unfold ShapesInQuantifierF; infer_instance

/-- `encodeWithF` returned a document (not the empty string, not an exception) -/
def encodesF (d : FDoc) : Bool :=
  match encodeWithF d with
  | .ok (some _, _) => true
  | _ => false

end Model.EncodeAcceptedMore
