/-
Model of the *process state* that can influence, or be influenced by, `RTFDocument(...)` and
`RTFDocument.rtf_encode()` (property C14).  Import-free, executable.

What is state (read from the code at /repo, after the repairs 9510742, 981b773, f7c2179, 6e822b0):

* `services/color_service.py`  `_document_colors_var` — the colour context.  `UnifiedRTFEncoder.encode`
  sets it from `collect_document_colors(document)` on every path and clears it in a `finally`.
  `get_rtf_color_index` resolves a colour against the context when there is one (dense index) and
  against the 657-row master table when there is none.                          → `World.ctx`
* `pagination/strategies/registry.py`  `StrategyRegistry._strategies` — a class-level dict, written by
  `UnifiedRTFEncoder.__init__` (three `register` calls per `rtf_encode()`), read by
  `_encode_body_section` (`StrategyRegistry.get`, `ValueError` when absent).     → `World.registry`
* component objects (`RTFBody`, `RTFColumnHeader`, `RTFTitle`, …) and DataFrames are held **by
  reference** by every document that was given them.  `RTFDocument.__init__` resolves `col_rel_width`
  (`[1]*ncol`, broadcast of a one-element list, header inherits the body's widths) into a
  `model_copy()` owned by the document (`_resolve_body_widths`, `_inherit_header_widths`); nothing in
  `rtf_encode()` assigns into a component or a frame (`df.clone()`, `model_copy`, `deepcopy` before
  every per-page write).                                                          → `World.heap`, `World.frames`
* documents constructed so far are process-local objects.                         → `World.docs`
* the interpreter's string-hash seed (`PYTHONHASHSEED`; random at every start unless pinned) is part of the
  state the process starts from: it fixes the iteration order of every `set`/`dict` of `str`.  The library
  iterates one such set on the way to the output: `collect_document_colors` returns `list(set(...))`
  (re-sorted by master index before anything is written).  The `page_by` / `subline_by` / `group_by` columns,
  the displayed columns and the text formats are iterated as the user's lists (`sorted(set(...))` for the
  formats).                                                                        → `World.seed`, `enumSet`
* `strwidth.get_string_width` (pagination measures every cell with it; also public) opens the font file
  on every call and keeps nothing: no state.  `Op.measure` is therefore a step that leaves the world
  alone.  What a *store* of measurements / loaded fonts would have to satisfy to keep that true is
  `Model/Memo.lean` (a keyed store is harmless iff its key determines the stored value).

`Legacy.*` at the end keeps the two historical behaviours (writes into the caller's objects at
construction; context set on one path only and not cleared on failure) so that the theorems can show
that the model *does* distinguish them (witnesses in `Props/C14.lean`).
-/
namespace Model.World

abbrev Str := List Char
abbrev Color := Str
abbrev ObjId := Nat
abbrev FrameId := Nat
abbrev DocId := Nat
/-- a relative column width; opaque to the model (the harness sends `w * 1000`). -/
abbrev Width := Int
/-- the `1` of `[1] * ncol` -/
def unitWidth : Width := 1000

/-! ## association lists (Python dicts / object identity) -/

def aget {α β} [DecidableEq α] (k : α) : List (α × β) → Option β
  | [] => none
  | (k', v) :: r => if k' = k then some v else aget k r

/-- `d[k] = v`: overwrite in place, else append (dict insertion order) -/
def aset {α β} [DecidableEq α] (k : α) (v : β) : List (α × β) → List (α × β)
  | [] => [(k, v)]
  | (k', v') :: r => if k' = k then (k', v) :: r else (k', v') :: aset k v r

/-! ## colours (`services/color_service.py`) -/

/-- master colour table: name → index (`name_to_type`) -/
abbrev Table := List (Str × Nat)

/-- `not color or color == "black"` -/
def isDefault (c : Color) : Bool := c.isEmpty || c == "black".toList

def master (T : Table) (c : Color) : Option Nat := aget c T

/-- `validate_color_list` + pairing every name with its sort key; `none` = `ColorValidationError` -/
def keyed (T : Table) : List Color → Option (List (Color × Nat))
  | [] => some []
  | c :: cs =>
    match master T c, keyed T cs with
    | some n, some r => some ((c, n) :: r)
    | _, _ => none

def leIdx (a b : Color × Nat) : Bool := decide (a.2 ≤ b.2)

/-- insert before the first element whose key is not smaller (keeps equal keys in input order) -/
def insertIdx (a : Color × Nat) : List (Color × Nat) → List (Color × Nat)
  | [] => [a]
  | b :: r => if leIdx a b then a :: b :: r else b :: insertIdx a r

/-- `sorted(validated, key=lambda x: name_to_type[x])` — a stable sort (insertion sort from the right) -/
def sortByIndex : List (Color × Nat) → List (Color × Nat)
  | [] => []
  | x :: xs => insertIdx x (sortByIndex xs)

/-- `list.index` -/
def position (c : Color) : List (Color × Nat) → Option Nat
  | [] => none
  | x :: xs => if x.1 = c then some 0 else (position c xs).map (· + 1)

def significant (used : List Color) : List Color := used.filter (fun c => !isDefault c)

inductive Lookup where
  | idx (n : Nat)
  | invalid            -- ColorValidationError
  deriving DecidableEq, Repr

/-- `ColorService.get_rtf_color_index(color)` (no explicit `used_colors`) under context `ctx` -/
def rtfColorIndex (T : Table) (ctx : Option (List Color)) (c : Color) : Lookup :=
  if isDefault c then .idx 0 else
  match ctx with
  | none =>
    match master T c with
    | some n => .idx n
    | none => .invalid
  | some used =>
    let f := significant used
    if f.isEmpty then .idx 0 else
    match keyed T f with
    | none => .invalid
    | some ks =>
      match position c (sortByIndex ks) with
      | some i => .idx (i + 1)
      | none => .idx 0

/-- `Utils._get_color_index`: a validation error becomes index 0 -/
def getColorIndex (T : Table) (ctx : Option (List Color)) (c : Color) : Nat :=
  match rtfColorIndex T ctx c with
  | .idx n => n
  | .invalid => 0

/-- `generate_rtf_color_table(used)` as the ordered list of names written after `{\colortbl;`;
`some []` = no table (`""`), `none` = `ColorValidationError` -/
def colorTable (T : Table) (used : List Color) : Option (List Color) :=
  (keyed T (significant used)).map (fun ks => (sortByIndex ks).map (·.1))

/-- order-preserving removal of duplicates (`set`, canonical enumeration = first occurrence) -/
def dedup : List Color → List Color
  | [] => []
  | c :: cs => if c ∈ cs then dedup cs else c :: dedup cs

/-- the interpreter's string hash (`PYTHONHASHSEED`, drawn when the process starts): an arbitrary function of the
seed and the characters (the real one is SipHash-1-3; nothing below depends on which function it is) -/
def strHash (seed : Nat) (c : Str) : Nat :=
  c.foldl (fun h ch => (h * 1000003 + ch.toNat + 1) % 4294967291) (seed % 4294967291 + 7)

/-- `list(set(xs))` / `for x in set(xs)` in a process whose hash seed is `seed`: the distinct members, enumerated
in the order of their hash slots (here: by `strHash seed`, ties in first-occurrence order).  Every seed gives a
permutation of `dedup xs`; which one is what a program must not depend on. -/
def enumSet (seed : Nat) (xs : List Str) : List Str :=
  (sortByIndex ((dedup xs).map (fun c => (c, strHash seed c)))).map (·.1)

/-! ## objects -/

/-- A component object.  Only `widths` has ever been assigned after creation. -/
structure Obj where
  widths : Option (List Width)   -- col_rel_width
  colors : List Color            -- every name in its colour attributes, in `collect_document_colors` order
  used : List Color              -- the names looked up while the component is rendered (text / background)
  groupBy : List Str             -- body: group_by
  pageBy : List Str              -- body: page_by
  sublineBy : List Str           -- body: subline_by
  newPage : Bool                 -- body: new_page
  pagebyColumn : Bool            -- body: pageby_row == "column"
  rest : Nat                     -- digest of everything else (never read here, never written by the code)
  deriving DecidableEq, Repr, Inhabited

abbrev Cell := Option Str
structure Frame where
  cols : List Str
  rows : List (List Cell)
  deriving DecidableEq, Repr, Inhabited

abbrev Heap := List (ObjId × Obj)
abbrev Frames := List (FrameId × Frame)

inductive Strategy where
  | default | pageBy | subline
  | custom (n : Nat)
  deriving DecidableEq, Repr

abbrev Registry := List (Str × Strategy)

def nDefault : Str := "default".toList
def nPageBy : Str := "page_by".toList
def nSubline : Str := "subline".toList

/-- the three `StrategyRegistry.register` calls of `UnifiedRTFEncoder.__init__` -/
def registerAll (r : Registry) : Registry :=
  aset nSubline .subline (aset nPageBy .pageBy (aset nDefault .default r))

/-- a component as a document holds it: the caller's object, or a copy owned by the document -/
inductive Comp where
  | ref (i : ObjId)
  | own (o : Obj)
  deriving DecidableEq, Repr

def Comp.get (h : Heap) : Comp → Option Obj
  | .ref i => aget i h
  | .own o => some o

inductive Kind where
  | single | multi | figure
  deriving DecidableEq, Repr

inductive HeaderArg where
  | default                                   -- argument omitted: `[RTFColumnHeader()]` from the default factory
  | flat (hs : List ObjId)
  | nested (hs : List (List (Option ObjId)))
  deriving DecidableEq, Repr

/-- the arguments of one `RTFDocument(...)` call, components by identity -/
structure Ctor where
  kind : Kind
  secs : List (FrameId × ObjId)               -- (df, rtf_body) per section; one for `single`, none for `figure`
  headers : HeaderArg
  others : List ObjId                         -- title, subline, footnote, source, page header, page footer (collect order), page, figure
  deriving DecidableEq, Repr

inductive HeaderVal where
  | flat (hs : List Comp)
  | nested (hs : List (List (Option Comp)))
  deriving DecidableEq, Repr

/-- the document object after `__init__` -/
structure Doc where
  kind : Kind
  secs : List (FrameId × Comp)
  headers : HeaderVal
  others : List ObjId
  deriving DecidableEq, Repr

inductive Err where
  | valueError | indexError | attributeError
  | dangling          -- a reference to an object/frame/document that does not exist (not a Python state)
  | domain            -- outside the modelled domain (single-section document with a nested header list)
  deriving DecidableEq, Repr

/-- sequential `for` loop that may raise: the first error wins -/
def mapE {α β} (f : α → Except Err β) : List α → Except Err (List β)
  | [] => .ok []
  | x :: xs =>
    match f x with
    | .error e => .error e
    | .ok y =>
      match mapE f xs with
      | .error e => .error e
      | .ok ys => .ok (y :: ys)

/-! ## construction (`RTFDocument.__init__`, repaired: never assigns into a caller's object) -/

def defaultHeader : Obj :=
  { widths := none, colors := [], used := [], groupBy := [], pageBy := [], sublineBy := [],
    newPage := false, pagebyColumn := true, rest := 0 }

/-- `_resolve_body_widths(body, ncol)` -/
def resolveBody (o : Obj) (i : ObjId) (ncol : Nat) : Comp :=
  match o.widths with
  | none => .own { o with widths := some (List.replicate ncol unitWidth) }
  | some [x] => if ncol > 1 then .own { o with widths := some (List.replicate ncol x) } else .ref i
  | some _ => .ref i

/-- `_inherit_header_widths(header, body)`; `bw` = the resolved body's `col_rel_width` -/
def inheritHeader (o : Obj) (c : Comp) (bw : List Width) : Comp :=
  match o.widths with
  | none => .own { o with widths := some bw }
  | some _ => c

def widthsOf (h : Heap) (c : Comp) : Except Err (List Width) :=
  match c.get h with
  | none => .error .dangling
  | some o => match o.widths with
    | some w => .ok w
    | none => .error .attributeError     -- `None.copy()` / `list(None)`; unreachable after resolution

def resolveSec (h : Heap) (fs : Frames) (s : FrameId × ObjId) : Except Err (FrameId × Comp) :=
  match aget s.1 fs, aget s.2 h with
  | some f, some o => .ok (s.1, resolveBody o s.2 f.cols.length)
  | _, _ => .error .dangling

def inheritRef (h : Heap) (bw : List Width) (i : ObjId) : Except Err Comp :=
  match aget i h with
  | some o => .ok (inheritHeader o (.ref i) bw)
  | none => .error .dangling

def inheritOpt (h : Heap) (bw : List Width) : Option ObjId → Except Err (Option Comp)
  | none => .ok none
  | some i =>
    match inheritRef h bw i with
    | .ok c => .ok (some c)
    | .error e => .error e

/-- nested format: `zip(rtf_column_header, rtf_body, strict=True)` -/
def inheritNested (h : Heap) : List (List (Option ObjId)) → List (FrameId × Comp) →
    Except Err (List (List (Option Comp)))
  | [], [] => .ok []
  | hs :: hss, s :: ss =>
    match widthsOf h s.2 with
    | .error e => .error e
    | .ok bw =>
      match mapE (inheritOpt h bw) hs with
      | .error e => .error e
      | .ok r =>
        match inheritNested h hss ss with
        | .error e => .error e
        | .ok rs => .ok (r :: rs)
  | _, _ => .error .valueError          -- nested length ≠ number of sections (validator)

def constructHeaders (h : Heap) (k : Kind) (secs : List (FrameId × Comp)) (bw : List Width) :
    HeaderArg → Except Err HeaderVal
  | .default => .ok (.flat [inheritHeader defaultHeader (.own defaultHeader) bw])
  | .flat hs =>
    match mapE (inheritRef h bw) hs with
    | .error e => .error e
    | .ok hv => .ok (.flat hv)
  | .nested hss =>
    match k with
    | .multi =>
      match inheritNested h hss secs with
      | .error e => .error e
      | .ok hv => .ok (.nested hv)
    | _ => .error .domain

def construct (h : Heap) (fs : Frames) (c : Ctor) : Except Err Doc :=
  match c.kind with
  | .figure => .ok { kind := .figure, secs := [], headers := .flat [.own defaultHeader], others := c.others }
  | k =>
    match mapE (resolveSec h fs) c.secs with
    | .error e => .error e
    | .ok [] => .error .dangling
    | .ok (s0 :: ss) =>
      match widthsOf h s0.2 with
      | .error e => .error e
      | .ok bw =>
        match constructHeaders h k (s0 :: ss) bw c.headers with
        | .error e => .error e
        | .ok hv => .ok { kind := k, secs := s0 :: ss, headers := hv, others := c.others }

/-! ## encoding (`UnifiedRTFEncoder.encode`) -/

def getAll (h : Heap) (cs : List Comp) : List Obj := cs.filterMap (Comp.get h)

def headerComps : HeaderVal → List Comp
  | .flat hs => hs
  | .nested hss => hss.flatten.filterMap id

/-- components in the order `collect_document_colors` visits them: bodies, the six text components,
column headers -/
def docObjs (h : Heap) (d : Doc) : List Obj :=
  getAll h (d.secs.map (·.2)) ++ getAll h (d.others.map .ref) ++ getAll h (headerComps d.headers)

/-- `collect_document_colors(document)` = `list(set(...))`, enumerated as the process's hash seed has it -/
def collect (seed : Nat) (h : Heap) (d : Doc) : List Color := enumSet seed ((docObjs h d).flatMap (·.colors))

/-- headers that apply to section `i` -/
def secHeaders (d : Doc) (i : Nat) : List Comp :=
  match d.headers with
  | .flat hs => if i = 0 then hs else []
  | .nested hss => (hss.getD i []).filterMap id

/-- first-variable check of `validate_data_sorting`: values of one group must be contiguous -/
def contiguousAux {α} [DecidableEq α] (cur : α) (seen : List α) : List α → Bool
  | [] => true
  | v :: vs =>
    if v = cur then contiguousAux cur seen vs
    else if v ∈ seen then false
    else contiguousAux v (v :: seen) vs

def contiguous {α} [DecidableEq α] : List α → Bool
  | [] => true
  | v :: vs => contiguousAux v [v] vs

def colIndex (f : Frame) (name : Str) : Option Nat :=
  let i := f.cols.findIdx (· = name)
  if i < f.cols.length then some i else none

def cellAt (row : List Cell) (i : Nat) : Cell := (row[i]?).getD none

/-- `cast(Utf8).fill_null("__NULL__")` joined with `|` for the first `k+1` grouping columns -/
def joinKey (row : List Cell) (idxs : List Nat) : Str :=
  "|".toList.intercalate (idxs.map (fun i => (cellAt row i).getD "__NULL__".toList))

/-- `validate_data_sorting(df, group_by=...)`: `false` = `ValueError` -/
def groupByOk (f : Frame) (groupBy : List Str) : Bool :=
  if groupBy.isEmpty || f.rows.isEmpty then true else
  match groupBy.mapM (colIndex f) with
  | none => false                         -- "group_by columns not found"
  | some idxs =>
    -- Python `unique_vars` (order-preserving dedup of the variable list)
    let idxs := idxs.eraseDups
    (List.range idxs.length).all (fun k =>
      if k = 0 then contiguous (f.rows.map (fun r => cellAt r (idxs.getD 0 0)))
      else contiguous (f.rows.map (fun r => joinKey r (idxs.take (k + 1)))))

def strategyName (o : Obj) : Str :=
  if !o.sublineBy.isEmpty then nSubline else if !o.pageBy.isEmpty then nPageBy else nDefault

/-- columns `prepare_dataframe_for_body_encoding` removes from the displayed frame -/
def removedCols (o : Obj) : List Str :=
  o.sublineBy ++ (if o.newPage && o.pagebyColumn then [] else o.pageBy)

/-- `page_by` columns whose values are emitted as spanning heading rows (one row per column, top to bottom, at
the top of a page and where a group changes): the body's `page_by` **in the order the user wrote it**
(`_get_group_headers` / `_detect_group_boundaries` iterate the list; no set is involved) — unless the columns
stay table columns (`new_page=True, pageby_row="column"`). -/
def headingCols (o : Obj) : List Str :=
  if o.newPage && o.pagebyColumn then [] else o.pageBy

structure SecProj where
  strategy : Strategy
  bodyWidths : List Width
  headerWidths : List (Option (List Width))
  headings : List Str            -- page_by columns in the order their spanning rows are written
  sublines : List Str            -- subline_by columns in the order their values are joined into the subline heading
  deriving DecidableEq, Repr

/-- the state-dependent part of an encoded document -/
structure Proj where
  table : List Color            -- names of the colour table entries, in table order
  indices : List (Color × Nat)  -- every looked-up colour with the index written into the output
  secs : List SecProj
  deriving DecidableEq, Repr

inductive Outcome where
  | ok (p : Proj)
  | error (e : Err)
  deriving DecidableEq, Repr

structure World where
  /-- the interpreter's string-hash seed: drawn at process start (`PYTHONHASHSEED`), never changes afterwards,
  fixes the iteration order of every `set` / `dict` of strings the process builds -/
  seed : Nat
  ctx : Option (List Color)
  registry : Registry
  heap : Heap
  frames : Frames
  docs : List (DocId × Ctor × Doc)
  deriving Repr

/-- `_encode_body_section` for section `i` as far as it reads state -/
def encodeSec (w : World) (d : Doc) (i : Nat) (s : FrameId × Comp) : Except Err SecProj :=
  match aget s.1 w.frames, s.2.get w.heap with
  | some f, some o =>
    match aget (strategyName o) w.registry with
    | none => .error .valueError                          -- "Strategy ... not found in registry."
    | some st =>
      if !groupByOk f o.groupBy then .error .valueError   -- `_apply_data_post_processing`
      else
        let bw := o.widths.getD []
        let removed := removedCols o
        let shown := (f.cols.filter (fun c => !removed.contains c)).length
        let bw' := if !removed.isEmpty && bw.length == f.cols.length
                   then ((bw.zip f.cols).filter (fun p => !removed.contains p.2)).map (·.1) else bw
        if !f.rows.isEmpty && bw'.length < shown then .error .indexError   -- `col_widths[j]` while rendering
        else .ok { strategy := st, bodyWidths := bw,
                   headerWidths := (secHeaders d i).map (fun c => (c.get w.heap).bind (·.widths)),
                   headings := headingCols o, sublines := o.sublineBy }
  | _, _ => .error .dangling

def encodeSecs (w : World) (d : Doc) : Nat → List (FrameId × Comp) → Except Err (List SecProj)
  | _, [] => .ok []
  | i, s :: ss =>
    match encodeSec w d i s with
    | .error e => .error e
    | .ok p =>
      match encodeSecs w d (i + 1) ss with
      | .error e => .error e
      | .ok ps => .ok (p :: ps)

/-- `_encode_with_context`: reads the context, the registry, the objects and the frames -/
def encodeWithContext (T : Table) (w : World) (d : Doc) : Outcome :=
  match encodeSecs w d 0 d.secs with
  | .error e => .error e
  | .ok secs =>
    match colorTable T (collect w.seed w.heap d) with
    | none => .error .valueError                          -- ColorValidationError from `encode_color_table`
    | some tbl =>
      .ok { table := tbl,
            indices := ((docObjs w.heap d).flatMap (·.used)).map (fun c => (c, getColorIndex T w.ctx c)),
            secs := secs }

/-- `RTFDocument.rtf_encode()`:
`UnifiedRTFEncoder()` (three registrations) ; `set_document_context(document)` ;
`try: _encode_with_context(document)  finally: clear_document_context()` -/
def encodeDoc (T : Table) (w : World) (d : Doc) : World × Outcome :=
  let w1 := { w with registry := registerAll w.registry }
  let w2 := { w1 with ctx := some (collect w1.seed w1.heap d) }
  let r := encodeWithContext T w2 d
  ({ w2 with ctx := none }, r)

/-! ## operations and histories -/

inductive Op where
  | construct (n : DocId) (c : Ctor)     -- `docs[n] = RTFDocument(...)`
  | encode (n : DocId)                   -- `docs[n].rtf_encode()` (successful or raising)
  | encodeTwice (n : DocId)
  | drop (n : DocId)                     -- `del docs[n]`
  | lookup (c : Color)                   -- a colour lookup outside any encode
  | measure                              -- a direct `get_string_width(...)` call (valid or raising): reads and
                                         -- writes no process state (a function of its arguments, see `Model.Memo`)
  deriving Repr

inductive Out where
  | constructed (ok : Bool)
  | encoded (o : Outcome)
  | twice (a b : Outcome)
  | dropped
  | looked (l : Lookup)
  | measured
  | noDoc
  deriving DecidableEq, Repr

def findDoc (w : World) (n : DocId) : Option Doc := (aget n w.docs).map (·.2)

def step (T : Table) (w : World) : Op → World × Out
  | .construct n c =>
    match construct w.heap w.frames c with
    | .ok d => ({ w with docs := aset n (c, d) w.docs }, .constructed true)
    | .error _ => (w, .constructed false)
  | .encode n =>
    match findDoc w n with
    | some d => let r := encodeDoc T w d; (r.1, .encoded r.2)
    | none => (w, .noDoc)
  | .encodeTwice n =>
    match findDoc w n with
    | some d =>
      let r1 := encodeDoc T w d
      let r2 := encodeDoc T r1.1 d
      (r2.1, .twice r1.2 r2.2)
    | none => (w, .noDoc)
  | .drop n => ({ w with docs := w.docs.filter (fun e => e.1 != n) }, .dropped)
  | .lookup c => (w, .looked (rtfColorIndex T w.ctx c))
  | .measure => (w, .measured)

def run (T : Table) (w : World) : List Op → World × List Out
  | [] => (w, [])
  | op :: ops =>
    let r := step T w op
    let rs := run T r.1 ops
    (rs.1, r.2 :: rs.2)

/-- construct a document from `c` in world `w` and encode it (the target of a history) -/
def encodeCtor (T : Table) (w : World) (c : Ctor) : World × Outcome :=
  match construct w.heap w.frames c with
  | .ok d => encodeDoc T w d
  | .error e => (w, .error e)

/-- the state of a process that has imported rtflite and created the caller's objects, nothing else; `seed` is
the hash seed the interpreter drew when it started ("a fresh interpreter" is one for every seed) -/
def fresh (h : Heap) (fs : Frames) (seed : Nat := 0) : World :=
  { seed := seed, ctx := none, registry := [], heap := h, frames := fs, docs := [] }

/-! ## the two historical behaviours, kept for the witnesses -/
namespace Legacy

/-- `RTFDocument.__init__` before 6e822b0 (single-section, flat/default headers): assigns the resolved
widths into the caller's body and header objects. Returns the new heap. -/
def constructWrites (h : Heap) (fs : Frames) (c : Ctor) : Heap :=
  match c.secs with
  | [(fi, bi)] =>
    match aget fi fs, aget bi h with
    | some f, some o =>
      let ncol := f.cols.length
      let bw : List Width := match o.widths with
        | none => List.replicate ncol unitWidth
        | some [x] => if ncol > 1 then List.replicate ncol x else [x]
        | some w => w
      let h1 := aset bi { o with widths := some bw } h
      match c.headers with
      | .flat hs => hs.foldl (fun hp i => match aget i hp with
          | some ho => if ho.widths.isNone then aset i { ho with widths := some bw } hp else hp
          | none => hp) h1
      | _ => h1
    | _, _ => h
  | _ => h

/-- the document of the legacy constructor holds everything by reference -/
def constructDoc (c : Ctor) : Doc :=
  { kind := c.kind, secs := c.secs.map (fun s => (s.1, .ref s.2)),
    headers := match c.headers with
      | .flat hs => .flat (hs.map .ref)
      | _ => .flat [],
    others := c.others }

/-- `UnifiedRTFEncoder.encode` before 9510742: the context is set on the single-section path only and
is not cleared when encoding raises. -/
def encodeDoc (T : Table) (w : World) (d : Doc) : World × Outcome :=
  let w1 := { w with registry := registerAll w.registry }
  match d.kind with
  | .single =>
    let w2 := { w1 with ctx := some (collect w1.seed w1.heap d) }
    match encodeWithContext T w2 d with
    | .ok p => ({ w2 with ctx := none }, .ok p)
    | .error e => (w2, .error e)
  | _ => (w1, encodeWithContext T w1 d)

end Legacy

end Model.World
